/-
  C08, all strings — the EXACT prefix lemma for the encoder-output grammar (`C13.Full.CItem`): the strengthening of
  `C13.Full.reach_all` from "clean shape" to the exact position-free tree `xW` / `xA` of `C08FDefs`, for documents that
  are well formed (`cwfI`) and whose plain characters start no specials string other than a one-character one
  (`safeI`).  With the nodes collector in front of whitespace `w` and the source of an item list `a` followed by `after`,
  in any state of the family `C02.stdF`, it gets in front of (whitespace and) `after`, and the nodes it has produced are,
  up to the merging of adjacent chars nodes, exactly `xW w a`.  The proof is the induction of `C13FullReach` with the
  exact bookkeeping of `C03SX` / `C03SRound` (`ReachesX`, `ReachesWX`, `step_groupX`, `step_macroX`, `step_mathX`, …).
-/
import PylxProofs.C08FDefs
namespace Pylx.C08.Full
open Pylx Pylx.C02 Pylx.L2T.C03S Pylx.C13.Full

/-! ### specials strings at a plain character -/

theorem foldl_specials_some (s : Str) (p : Nat) : ∀ (keys : List Str) (best : Option Str), best ≠ none →
    keys.foldl (specialsStep s p) best ≠ none
  | [], best, h => h
  | x :: xs, best, h => by
    rw [List.foldl_cons]
    refine foldl_specials_some s p xs _ ?_
    unfold specialsStep
    split
    · intro e; cases e
    · exact h

theorem foldl_specials_hit (s : Str) (p : Nat) {k : Str} (hne : k ≠ []) (hsw : startsWithAt s k p = true) :
    ∀ (keys : List Str), k ∈ keys → ∀ (best : Option Str), keys.foldl (specialsStep s p) best ≠ none
  | [], h, _ => by cases h
  | x :: xs, h, best => by
    rw [List.foldl_cons]
    rcases List.mem_cons.mp h with rfl | h'
    · refine foldl_specials_some s p xs _ ?_
      unfold specialsStep
      split
      · intro e; cases e
      · rename_i hc
        rw [hsw, Bool.and_true] at hc
        have hlen : 0 < k.length := List.length_pos_iff.mpr hne
        cases best with
        | none => exfalso; apply hc; simpa [bestLen] using hlen
        | some b => intro e; cases e
    · exact foldl_specials_hit s p hne hsw xs h' _

theorem keysBad_spec {keys : List Str} (h : keysBad badChars keys = true) :
    (∀ k ∈ keys, match k with
      | [] => True
      | [a] => oneChars.contains a = true ∨ isPySpace a = true
      | a :: b :: _ => isPySpace a = true ∨ badChars.contains b = true) ∧
    (∀ c, oneChars.contains c = true → [c] ∈ keys ∧ badChars.contains c = false) := by
  unfold keysBad at h
  simp only [Bool.and_eq_true, List.all_eq_true] at h
  obtain ⟨⟨h1, h2⟩, _⟩ := h
  refine ⟨?_, ?_⟩
  · intro k hk
    have := h1 k hk
    match k, this with
    | [], _ => trivial
    | [a], t => simpa using t
    | a :: b :: _, t => simpa using t
  · intro c hc
    have := h2 c (List.contains_iff_mem.mp hc)
    simp only [Bool.not_eq_eq_eq_not, Bool.not_true] at this
    exact ⟨List.contains_iff_mem.mp this.1, this.2⟩

/-- the specials test at a plain character `c` that is neither whitespace nor bad, in front of text that does not start
    with a bad character: the one-character specials string `c`, if `c` is one, nothing otherwise -/
theorem testSpecials_plain {keys : List Str} (hkb : keysBad badChars keys = true) {c : Char} {R : Str}
    (hsp : isPySpace c = false) (hR : ∀ x, R.head? = some x → badChars.contains x = false) :
    testSpecials keys (c :: R) 0 = if oneChars.contains c then some [c] else none := by
  obtain ⟨hk1, hk2⟩ := keysBad_spec hkb
  have hres : ∀ k, testSpecials keys (c :: R) 0 = some k → k = [c] := by
    intro k hk
    have hmem := C13.Full.testSpecials_mem hk
    obtain ⟨hne, hsw⟩ := testSpecials_spec keys (c :: R) 0 k hk
    have hpre : k.isPrefixOf (c :: R) = true := by unfold startsWithAt at hsw; simpa using hsw
    have hk1' := hk1 k hmem
    match k, hne, hpre, hk1' with
    | [], hne, _, _ => exact absurd rfl hne
    | [a], _, hpre, _ =>
      simp only [List.isPrefixOf, Bool.and_eq_true, beq_iff_eq] at hpre
      rw [hpre.1]
    | a :: b :: r, _, hpre, hk1' =>
      exfalso
      cases R with
      | nil => simp [List.isPrefixOf] at hpre
      | cons x R' =>
        simp only [List.isPrefixOf, Bool.and_eq_true, beq_iff_eq] at hpre
        obtain ⟨ha, hb, _⟩ := hpre
        rcases hk1' with h | h
        · rw [ha, hsp] at h; cases h
        · rw [hb, hR x rfl] at h; cases h
  by_cases hone : oneChars.contains c = true
  · rw [if_pos hone]
    obtain ⟨hmem, _⟩ := hk2 c hone
    cases ht : testSpecials keys (c :: R) 0 with
    | some k => rw [hres k ht]
    | none =>
      exfalso
      refine foldl_specials_hit (c :: R) 0 (k := [c]) (by simp) ?_ keys hmem none ht
      unfold startsWithAt
      simp [List.isPrefixOf]
  · rw [if_neg hone]
    cases ht : testSpecials keys (c :: R) 0 with
    | none => rfl
    | some k =>
      exfalso
      have hk := hres k ht
      subst hk
      have := hk1 [c] (C13.Full.testSpecials_mem ht)
      rcases this with h | h
      · exact hone h
      · rw [hsp] at h; cases h

/-! ### what a safe list starts with -/

theorem bad_props {keys : List Str} (hkb : keysBad badChars keys = true) {x : Char} (hx : badChars.contains x = true) :
    isPySpace x = false ∧ x ≠ '{' ∧ x ≠ '}' ∧ x ≠ '\\' ∧ x ≠ '$' ∧ x ≠ ']' := by
  unfold keysBad at hkb
  simp only [Bool.and_eq_true, List.all_eq_true] at hkb
  have := hkb.2 x (List.contains_iff_mem.mp hx)
  simp only [Bool.not_eq_eq_eq_not, Bool.not_true, bne_iff_ne, ne_eq] at this
  obtain ⟨⟨⟨⟨⟨⟨h1, h2⟩, h3⟩, h4⟩, h5⟩, h6⟩, _⟩ := this
  exact ⟨h1, h2, h3, h4, h5, h6⟩

theorem head_notBad {keys : List Str} (hkb : keysBad badChars keys = true) {tl : List CItem} {after : Str}
    (hs : safeI badChars tl = true) (haft : afterOk after = true) :
    ∀ x, (unI tl ++ after).head? = some x → badChars.contains x = false := by
  intro x hx
  cases hb : badChars.contains x with
  | false => rfl
  | true =>
    exfalso
    obtain ⟨b1, b2, b3, b4, b5, b6⟩ := bad_props hkb hb
    cases tl with
    | nil =>
      simp only [unI, List.nil_append] at hx
      cases after with
      | nil => cases hx
      | cons d r =>
        simp only [List.head?_cons, Option.some.injEq] at hx
        subst hx
        simp only [afterOk, Bool.or_eq_true, beq_iff_eq] at haft
        rcases haft with (h | h) | h
        · exact b3 h
        · exact b6 h
        · exact b5 h
    | cons it tl =>
      cases it with
      | ch y =>
        simp only [unI, List.cons_append, List.head?_cons, Option.some.injEq] at hx
        subst hx
        simp only [safeI, Bool.and_eq_true, Bool.or_eq_true, Bool.not_eq_eq_eq_not, Bool.not_true] at hs
        rcases hs.1 with h | h
        · rw [b1] at h; cases h
        · rw [hb] at h; cases h
      | grp b =>
        simp only [unI, List.cons_append, List.head?_cons, Option.some.injEq] at hx
        exact b2 hx.symm
      | mac n po a =>
        simp only [unI, List.cons_append, List.head?_cons, Option.some.injEq] at hx
        exact b4 hx.symm
      | math b =>
        simp only [unI, List.cons_append, List.head?_cons, Option.some.injEq] at hx
        exact b5 hx.symm

/-! ### steps of the collector, exactly -/

section steps
variable {env : Env} {ctx : Ctx} {keys : List Str} {m : Bool} {md : Option Str} {br : Xp} {stop : StopTok} {child : ChildPS}

/-- a whitespace run with a paragraph break: the characters in front of the first newline and the paragraph specials;
    the collector stands behind the last newline -/
theorem rx_par (S : Setup env ctx keys) (hn : NormOk m md)
    (hch : ∀ t : Token, (t.kind = .braceOpen → t.arg = ['{']) → child.get (stdF keys m md true br) t = stdF keys m md true)
    {st : LoopSt} {w R : Str} (hd : env.s.drop st.pos = w ++ R) (hw : Doc.isWs w = true)
    (hR : Doc.headIs isPySpace R = false) (hnl : countNl w ≥ 2) :
    ReachesX env (stdF keys m md true br) stop child st
      (pendX (w.take (firstNl w)) ++ [XNode.specials ['\n', '\n'] (some [])]) (lastNlEnd w) := by
  have hps := psStd_std keys m md true br hn
  have hpsp : parSpecials (mkPS (stdF keys m md true br)) = true := by
    unfold parSpecials
    rw [hps.hc, hps.sp, S.par]
    rfl
  have hpk := peekImpl_parGen (ps := mkPS (stdF keys m md true br)) hd hw hR hnl hps.dn hpsp
  have hspec : lookupFirst ['\n', '\n'] env.ctx.specials = some (.std []) := by
    rw [S.hctx]
    exact S.spec _ (by simpa using S.par)
  have hcall := specialsCall_runs (t := ({ kind := TokKind.specials, arg := ['\n', '\n'], pos := st.pos + firstNl w, posEnd := st.pos + lastNlEnd w, pre := [] } : Token))
    (arguments_runs (argsEv_nil (env := env) (stdF keys m md true) [] (st.pos + lastNlEnd w)))
  have := reachX_dispatch (stop := stop) (child := child) S.tol hpk
    (stop_test_char stop _ (Or.inr (Or.inr (Or.inr (Or.inr (Or.inl rfl)))))) rfl
    (by show st.pos ≤ st.pos + lastNlEnd w; omega)
    (dispatch_specials (K := stdF keys m md true) rfl hspec (hch _ (fun h => by cases h)) hcall) rfl rfl
  have e : st.pos + lastNlEnd w - st.pos = lastNlEnd w := by omega
  rw [e] at this
  exact this

/-- whitespace in front of something that is not whitespace: after at most one paragraph token the collector stands in
    front of whitespace with fewer than two newlines; what it has produced, with the whitespace still in hand, is `wsX w` -/
theorem rx_norm (S : Setup env ctx keys) (hn : NormOk m md)
    (hch : ∀ t : Token, (t.kind = .braceOpen → t.arg = ['{']) → child.get (stdF keys m md true br) t = stdF keys m md true)
    {st : LoopSt} {w R : Str} (hd : env.s.drop st.pos = w ++ R) (hw : Doc.isWs w = true)
    (hR : Doc.headIs isPySpace R = false) :
    ∃ tr n w2, ReachesX env (stdF keys m md true br) stop child st tr n ∧
      env.s.drop (st.pos + n) = w2 ++ R ∧ Doc.isWs w2 = true ∧ countNl w2 < 2 ∧ tr ++ pendX w2 = wsX w := by
  by_cases hnl : countNl w < 2
  · refine ⟨[], 0, w, ReachesX.refl env _ stop child st, hd, hw, hnl, ?_⟩
    unfold wsX
    rw [if_pos hnl]
    rfl
  · have hnl' : countNl w ≥ 2 := by omega
    refine ⟨_, lastNlEnd w, w.drop (lastNlEnd w), rx_par S hn hch hd hw hR hnl', ?_, isWs_drop hw _, ?_, ?_⟩
    · have : env.s.drop (st.pos + lastNlEnd w) = (env.s.drop st.pos).drop (lastNlEnd w) := by rw [List.drop_drop]
      rw [this, hd, List.drop_append_of_le_length (lastNlEnd_le w)]
    · rw [countNl_drop_lastNlEnd]; omega
    · unfold wsX
      rw [if_neg hnl]
      simp only [List.append_assoc, List.cons_append, List.nil_append]

/-- a plain character that is neither whitespace nor bad, in front of text that does not start with a bad character:
    a `char` token, or the specials token of the one-character specials string -/
theorem rx_plain (S : Setup env ctx keys) (hkb : keysBad badChars keys = true) (hn : NormOk m md)
    (hch : ∀ t : Token, (t.kind = .braceOpen → t.arg = ['{']) → child.get (stdF keys m md true br) t = stdF keys m md true)
    {st : LoopSt} {w R : Str} {c : Char} (hd : env.s.drop st.pos = w ++ c :: R) (hw : Doc.isWs w = true)
    (hnl : countNl w < 2) (hc : plainCh br c = true) (hsp : isPySpace c = false)
    (hR : ∀ x, R.head? = some x → badChars.contains x = false) :
    ReachesX env (stdF keys m md true br) stop child st (pendX w ++ [chX c]) (w.length + 1) := by
  have hps := psStd_std keys m md true br hn
  have hdq : env.s.drop (st.pos + w.length) = c :: R := drop_add_of_drop hd
  have hts := testSpecials_plain hkb hsp hR
  unfold chX
  by_cases hone : oneChars.contains c = true
  · rw [if_pos hone] at hts ⊢
    have hmem : [c] ∈ keys := ((keysBad_spec hkb).2 c hone).1
    have hpk : peekImpl (mkPS (stdF keys m md true br)) env.s st.pos = _ :=
      (peekImpl_ws hd hw hnl hsp).trans (peekAtChar_plainSpecials hps hdq hc hts)
    have hspec : lookupFirst [c] env.ctx.specials = some (.std []) := by
      rw [S.hctx]; exact S.spec _ hmem
    have hcall := specialsCall_runs (t := ({ kind := TokKind.specials, arg := [c], pos := st.pos + w.length, posEnd := st.pos + w.length + [c].length, pre := [] } : Token))
      (arguments_runs (argsEv_nil (env := env) (stdF keys m md true) [] (st.pos + w.length + [c].length)))
    have := reachX_dispatch (stop := stop) (child := child) S.tol hpk
      (stop_test_char stop _ (Or.inr (Or.inr (Or.inr (Or.inr (Or.inl rfl)))))) rfl
      (by show st.pos ≤ st.pos + w.length + [c].length; omega)
      (dispatch_specials (K := stdF keys m md true) rfl hspec (hch _ (fun h => by cases h)) hcall) rfl rfl
    have e : st.pos + w.length + [c].length - st.pos = w.length + 1 := by simp; omega
    rw [e] at this
    exact this
  · rw [if_neg hone] at hts ⊢
    have hpk : peekImpl (mkPS (stdF keys m md true br)) env.s st.pos = _ :=
      (peekImpl_ws hd hw hnl hsp).trans (peekAtChar_plainChar hps hdq hc hts)
    have := reachX_charTok (stop := stop) (child := child) S.tol hpk rfl (by show st.pos ≤ st.pos + w.length + 1; omega)
    have e : st.pos + w.length + 1 - st.pos = w.length + 1 := by omega
    simp only [e] at this
    exact this

/-- the pattern of every item that is not whitespace: normalise the whitespace in hand, read the item, go on behind it -/
theorem rx_cons {L : PSFields} {st : LoopSt} {w R after : Str} {x : XNode} {T : List XNode}
    (hnorm : ∃ tr n w2, ReachesX env L stop child st tr n ∧
      env.s.drop (st.pos + n) = w2 ++ R ∧ Doc.isWs w2 = true ∧ countNl w2 < 2 ∧ tr ++ pendX w2 = wsX w)
    (hitem : ∀ (st1 : LoopSt) (w2 : Str), env.s.drop st1.pos = w2 ++ R → Doc.isWs w2 = true → countNl w2 < 2 →
      ∃ k, ReachesX env L stop child st1 (pendX w2 ++ [x]) k ∧
        ∀ st2 : LoopSt, st2.pos = st1.pos + k → ReachesWX env L stop child st2 [] T after) :
    ReachesWX env L stop child st [] (wsX w ++ (x :: T)) after := by
  obtain ⟨tr0, n0, w2, hr0, hd0, hw2, hn2, hws⟩ := hnorm
  have h1 : ReachesWX env L stop child st [] (tr0 ++ ((pendX w2 ++ [x]) ++ T)) after := by
    refine ReachesWX.step hr0 rfl (fun st1 hp1 => ?_)
    obtain ⟨k, hrk, htail⟩ := hitem st1 w2 (by rw [hp1]; exact hd0) hw2 hn2
    exact ReachesWX.step hrk rfl htail
  have e : tr0 ++ ((pendX w2 ++ [x]) ++ T) = wsX w ++ (x :: T) := by
    rw [← hws]
    simp only [List.append_assoc, List.cons_append, List.nil_append]
  rw [e] at h1
  exact h1

end steps

/-! ### the exact prefix lemma -/

def PIX (env : Env) (ctx : Ctx) (keys : List Str) (N : Nat) : Prop :=
  ∀ (a : List CItem), szI a < N → ∀ (m : Bool) (br : Xp) (fc : Option Char) (after : Str), cwfI ctx m br fc a = true →
    safeI badChars a = true →
    (∀ c, fc = some c → after.head? = some c) → afterOk after = true → XpOk br →
    ∀ (md : Option Str), NormOk m md → ∀ (stop : StopTok) (child : ChildPS),
    (∀ t : Token, (t.kind = .braceOpen → t.arg = ['{']) → child.get (stdF keys m md true br) t = stdF keys m md true) →
    (m = false → ∀ t : Token, t.kind = .mathInline ∨ t.kind = .mathDisplay → stop.test t = false) →
    ∀ (st : LoopSt) (w : Str), Doc.isWs w = true → env.s.drop st.pos = w ++ (unI a ++ after) →
    ReachesWX env (stdF keys m md true br) stop child st [] (xW w a) after

def PAX (env : Env) (ctx : Ctx) (keys : List Str) (N : Nat) : Prop :=
  ∀ (args : List CArg), szA args < N → ∀ (m : Bool) (sig : List ArgSpec) (restI : Str) (fc : Option Char) (after : Str),
    cwfA ctx m restI fc sig args = true → safeA badChars args = true → (∀ c, fc = some c → after.head? = some c) →
    ∀ (md : Option Str), NormOk m md → ∀ (acc : List Arg) (pos : Nat),
    env.s.drop pos = unA args ++ (restI ++ after) →
    ∃ al pA, ArgsEv env (stdF keys m md true) sig acc pos (.ok (.args none none (acc ++ al)) pA) ∧ pos ≤ pA ∧
      env.s.drop pA = restI ++ after ∧ eraseArgList env.s al = xA args

section main
variable {env : Env} {ctx : Ctx} {keys : List Str}

theorem stepX_args (S : Setup env ctx keys) {N : Nat} (hI : PIX env ctx keys N) (hA : PAX env ctx keys N) :
    PAX env ctx keys (N + 1) := by
  intro args hsz m sig restI fc after hwf hsf hfc md hn acc pos hd
  cases args with
  | nil =>
    cases sig with
    | nil =>
      refine ⟨[], pos, ?_, Nat.le_refl _, by simpa [unA] using hd, by simp only [eraseArgList, xA]⟩
      rw [List.append_nil]
      exact argsEv_nil _ _ _
    | cons sp sig => simp [cwfA] at hwf
  | cons av tl =>
    cases sig with
    | nil => cases av <;> simp [cwfA] at hwf
    | cons sp sig =>
      obtain ⟨md', hK', hn'⟩ := applyDelta_std (keys := keys) m md sp.delta
      have e : ∀ (x : Arg) (al : List Arg), acc ++ x :: al = acc ++ [x] ++ al := by intro x al; simp
      cases av with
      | absent =>
        simp only [cwfA, Bool.and_eq_true, beq_iff_eq] at hwf
        obtain ⟨⟨hkind, hnext⟩, hrest⟩ := hwf
        simp only [safeA] at hsf
        simp only [unA] at hd
        obtain ⟨r, hF⟩ := head_of_nextCh hfc hnext
        have hd' : env.s.drop pos = '{' :: r := by rw [hd, ← List.append_assoc, hF]
        have hfol : Doc.absentFollowOk ('{' :: r) = true := followOk_of_head (by decide) (by decide)
        have hpk := peek_follow_noerr (psStd_std keys m md true none hn) hd' hfol
        have hsz' : szA tl < N := by simp only [szA] at hsz; omega
        obtain ⟨al, pA, hAE, hpA, hdpA, hcl⟩ := hA tl hsz' m sig restI fc after hrest hsf hfc md hn (acc ++ [Arg.absent]) pos hd
        refine ⟨.absent :: al, pA, ?_, hpA, hdpA, by simp only [eraseArgList, eraseArg, xA, hcl]⟩
        rw [e]
        cases hkk : sp.kind with
        | o ap =>
          refine argsEv_cons (res := .none) S.tol hpk ?_ hAE
          rw [hkk, hK']
          refine xgroup_absent_runs S.tol (hn' hn) (o := '[') (c := ']') (by decide) ap hd' hfol ?_
          have hs : isPySpace '{' = false := by decide
          cases ap <;> simp [Doc.nextNonSpace, hs]
        | s =>
          refine argsEv_cons (res := .none) S.tol hpk ?_ hAE
          rw [hkk, hK']
          have hs : isPySpace '{' = false := by decide
          exact marker_absent_runs S.tol (hn' hn) '*' false hd' hfol (by simp [Doc.nextNonSpace, hs])
        | m => rw [hkk] at hkind; cases hkind
        | m0 => rw [hkk] at hkind; cases hkind
        | t _ => rw [hkk] at hkind; cases hkind
        | r _ _ => rw [hkk] at hkind; cases hkind
        | d _ _ => rw [hkk] at hkind; cases hkind
        | v => rw [hkk] at hkind; cases hkind
        | vd _ _ => rw [hkk] at hkind; cases hkind
      | grp b =>
        simp only [cwfA, Bool.and_eq_true] at hwf
        obtain ⟨⟨hkind, hb⟩, hrest⟩ := hwf
        simp only [safeA, Bool.and_eq_true] at hsf
        have hkk := argKind_m_of_beq _ hkind
        simp only [unA, List.cons_append, List.append_assoc] at hd
        have hpk := peek_follow_noerr (psStd_std keys m md true none hn) hd (followOk_of_head (by decide) (by decide))
        have hd1 : env.s.drop (pos + 1) = [] ++ (unI b ++ '}' :: (unA tl ++ (restI ++ after))) := drop_succ_of_drop hd
        have hszb : szI b < N := by simp only [szA] at hsz; omega
        have hsz' : szA tl < N := by simp only [szA] at hsz; omega
        have hbody := hI b hszb (Doc.deltaMath m sp.delta) none (some '}') ('}' :: (unA tl ++ (restI ++ after))) hb hsf.1
          (fc_close _ _) rfl trivial md' (hn' hn) (.braceClose ['}'])
          (.group ['{'] (stdF keys (Doc.deltaMath m sp.delta) md' true) (stdF keys (Doc.deltaMath m sp.delta) md' true))
          (fun t _ => child_group _ _ t) (fun _ t ht => stop_brace_math _ t ht) { pos := pos + 1 } [] rfl hd1
        obtain ⟨p, nd, hqp, hdp, hgrp, hsh⟩ := group_nodeX S.tol (hn' hn) hd hbody
        obtain ⟨al, pA, hAE, hpA, hdpA, hcl⟩ := hA tl hsz' m sig restI fc after hrest hsf.2 hfc md hn (acc ++ [Arg.node nd]) p hdp
        refine ⟨Arg.node nd :: al, pA, ?_, by omega, hdpA, by simp only [eraseArgList, eraseArg, xA, hcl, hsh]⟩
        rw [e]
        refine argsEv_cons (res := .node nd) S.tol hpk ?_ hAE
        rw [hkk, hK']
        exact expr_runs S.tol (hn' hn) hd hgrp
      | br b =>
        simp only [cwfA, Bool.and_eq_true] at hwf
        obtain ⟨⟨hkind, hb⟩, hrest⟩ := hwf
        simp only [safeA, Bool.and_eq_true] at hsf
        simp only [unA, List.cons_append, List.append_assoc] at hd
        have hpk := peek_follow_noerr (psStd_std keys m md true none hn) hd (followOk_of_head (by decide) (by decide))
        have hszb : szI b < N := by simp only [szA] at hsz; omega
        have hsz' : szA tl < N := by simp only [szA] at hsz; omega
        cases hkk : sp.kind with
        | o ap =>
          have hd1 : env.s.drop (pos + 1) = [] ++ (unI b ++ ']' :: (unA tl ++ (restI ++ after))) := drop_succ_of_drop hd
          have hbody := hI b hszb (Doc.deltaMath m sp.delta) xbr (some ']') (']' :: (unA tl ++ (restI ++ after))) hb hsf.1
            (fc_close _ _) rfl xpOk_br md' (hn' hn) (.braceClose [']'])
            (.group ['['] (stdF keys (Doc.deltaMath m sp.delta) md' true xbr) (stdF keys (Doc.deltaMath m sp.delta) md' true))
            (fun t ht => child_br '[' _ _ t (by decide) ht) (fun _ t ht => stop_brace_math _ t ht) { pos := pos + 1 } [] rfl hd1
          obtain ⟨p, nd, hqp, hdp, hgrp, hsh⟩ := xgroup_nodeX S.tol (hn' hn) xpOk_br true ap hd hbody
          obtain ⟨al, pA, hAE, hpA, hdpA, hcl⟩ := hA tl hsz' m sig restI fc after hrest hsf.2 hfc md hn (acc ++ [Arg.node nd]) p hdp
          refine ⟨Arg.node nd :: al, pA, ?_, by omega, hdpA, by simp only [eraseArgList, eraseArg, xA, hcl, hsh]⟩
          rw [e]
          refine argsEv_cons (res := .node nd) S.tol hpk ?_ hAE
          rw [hkk, hK']
          exact hgrp
        | s => rw [hkk] at hkind; cases hkind
        | m => rw [hkk] at hkind; cases hkind
        | m0 => rw [hkk] at hkind; cases hkind
        | t _ => rw [hkk] at hkind; cases hkind
        | r _ _ => rw [hkk] at hkind; cases hkind
        | d _ _ => rw [hkk] at hkind; cases hkind
        | v => rw [hkk] at hkind; cases hkind
        | vd _ _ => rw [hkk] at hkind; cases hkind
      | tok c =>
        simp only [cwfA, Bool.and_eq_true] at hwf
        obtain ⟨⟨hkind, hc1⟩, hrest⟩ := hwf
        simp only [safeA] at hsf
        have hkk := argKind_m_of_beq _ hkind
        simp only [unA, List.cons_append] at hd
        obtain ⟨hcsp, hcbs, htokc⟩ := tokOk_spec hc1
        have hpk := peek_follow_noerr (psStd_std keys m md true none hn) hd (followOk_of_head hcsp hcbs)
        have hsz' : szA tl < N := by simp only [szA] at hsz; omega
        obtain ⟨al, pA, hAE, hpA, hdpA, hcl⟩ := hA tl hsz' m sig restI fc after hrest hsf hfc md hn
          (acc ++ [Arg.node (Node.chars pos (pos + 1) (psInfo (stdF keys (Doc.deltaMath m sp.delta) md' true)) [c])]) (pos + 1)
          (drop_succ_of_drop hd)
        refine ⟨Arg.node (Node.chars pos (pos + 1) (psInfo (stdF keys (Doc.deltaMath m sp.delta) md' true)) [c]) :: al, pA, ?_, by omega, hdpA,
          by simp only [eraseArgList, eraseArg, erase, xA, hcl]⟩
        rw [e]
        refine argsEv_cons (res := .node _) S.tol hpk ?_ hAE
        rw [hkk, hK']
        exact expr_char_runs S.tol (hn' hn) hd hcsp (htokc keys S.hkeys S.kc _ _ (hn' hn) _ _ _ hd)
      | mtok n =>
        simp only [cwfA, Bool.and_eq_true] at hwf
        obtain ⟨⟨hkind, hname⟩, hrest⟩ := hwf
        simp only [safeA] at hsf
        have hkk := argKind_m_of_beq _ hkind
        simp only [unA, List.cons_append, List.append_assoc] at hd
        obtain ⟨c0, name', hnm, hnb, hne, hew, htok⟩ := macro_token (keys := keys) (ee := false) (br := none) (pre := [])
          (post := []) (X := unA tl ++ (restI ++ after)) (hn' hn) hname (fun c hc => by
            obtain ⟨r, hr⟩ := head_of_nextCh hfc hc
            exact ⟨r, by rw [← hr, List.append_assoc]⟩) hd
        have hpk := peek_follow_noerr (psStd_std keys m md true none hn) hd (followOk_esc (by rw [hnm]; simp) hew)
        have hsz' : szA tl < N := by simp only [szA] at hsz; omega
        have hexpr := expr_mac_runs (keys := keys) S.tol (hn' hn) hd htok hnb hne
        have hdX : env.s.drop (pos + 1 + n.length) = unA tl ++ (restI ++ after) := drop_add_of_drop (drop_succ_of_drop hd)
        obtain ⟨al, pA, hAE, hpA, hdpA, hcl⟩ := hA tl hsz' m sig restI fc after hrest hsf hfc md hn
          (acc ++ [Arg.node (Node.mac pos (pos + 1 + n.length) (psInfo (stdF keys (Doc.deltaMath m sp.delta) md' true)) n [] (some []))])
          (pos + 1 + n.length) hdX
        refine ⟨Arg.node (Node.mac pos (pos + 1 + n.length) (psInfo (stdF keys (Doc.deltaMath m sp.delta) md' true)) n [] (some [])) :: al,
          pA, ?_, by omega, hdpA,
          by simp only [eraseArgList, eraseArg, erase, eraseArgs, xA, hcl]⟩
        rw [e]
        refine argsEv_cons (res := .node _) S.tol hpk ?_ hAE
        rw [hkk, hK']
        exact hexpr

theorem stepX_items (S : Setup env ctx keys) (hkb : keysBad badChars keys = true) {N : Nat} (hI : PIX env ctx keys N)
    (hA : PAX env ctx keys N) : PIX env ctx keys (N + 1) := by
  intro a hsz m br fc after hwf hsf hfc haft hx md hn stop child hch hsm st w hw hd
  cases a with
  | nil =>
    simp only [unI, List.nil_append] at hd
    obtain ⟨tr, n, w2, hr, hd2, hw2, hn2, hws⟩ := rx_norm (stop := stop) (child := child) S hn hch hd hw (afterOk_head haft)
    refine ⟨tr, n, w2, hr, hd2, hw2, hn2, ?_⟩
    simp only [xW]
    rw [hws]
    rfl
  | cons it tl =>
    cases it with
    | ch c =>
      simp only [cwfI, Bool.and_eq_true] at hwf
      simp only [safeI, Bool.and_eq_true, Bool.or_eq_true, Bool.not_eq_eq_eq_not, Bool.not_true] at hsf
      have hsz' : szI tl < N := by simp only [szI] at hsz; omega
      by_cases hsp : isPySpace c = true
      · have hgoal := hI tl hsz' m br fc after hwf.2 hsf.2 hfc haft hx md hn stop child hch hsm st (w ++ [c])
          (isWs_append hw (by simp [Doc.isWs, hsp])) (by rw [hd]; simp [unI])
        simp only [xW, hsp, if_true]
        exact hgoal
      · have hsp' : isPySpace c = false := by simpa using hsp
        have hnb : badChars.contains c = false := by
          rcases hsf.1 with h | h
          · exact absurd h hsp
          · exact h
        have hd' : env.s.drop st.pos = w ++ (c :: (unI tl ++ after)) := by rw [hd]; simp [unI]
        have hnorm := rx_norm (stop := stop) (child := child) S hn hch hd' hw (by simp [Doc.headIs, hsp'])
        simp only [xW, hsp', Bool.false_eq_true, if_false]
        refine rx_cons hnorm (fun st1 w2 hd1 hw2 hn2 => ?_)
        refine ⟨w2.length + 1, rx_plain S hkb hn hch hd1 hw2 hn2 hwf.1 hsp' (head_notBad hkb hsf.2 haft), fun st2 hp2 => ?_⟩
        refine hI tl hsz' m br fc after hwf.2 hsf.2 hfc haft hx md hn stop child hch hsm st2 [] rfl ?_
        have h1 : env.s.drop (st1.pos + w2.length + 1) = unI tl ++ after := drop_succ_of_drop (drop_add_of_drop hd1)
        rw [hp2, List.nil_append, ← h1]
        congr 1
    | grp b =>
      simp only [cwfI, Bool.and_eq_true] at hwf
      obtain ⟨hb, htl⟩ := hwf
      simp only [safeI, Bool.and_eq_true] at hsf
      have hszb : szI b < N := by simp only [szI] at hsz; omega
      have hsztl : szI tl < N := by simp only [szI] at hsz; omega
      have hd' : env.s.drop st.pos = w ++ ('{' :: (unI b ++ '}' :: (unI tl ++ after))) := by rw [hd]; simp [unI]
      have hnorm := rx_norm (stop := stop) (child := child) S hn hch hd' hw (by rw [headIs_cons]; decide)
      simp only [xW]
      refine rx_cons hnorm (fun st1 w2 hd1 hw2 hn2 => ?_)
      have hdb : env.s.drop (st1.pos + w2.length + 1) = [] ++ (unI b ++ '}' :: (unI tl ++ after)) :=
        drop_succ_of_drop (drop_add_of_drop hd1)
      have hbody := hI b hszb m none (some '}') ('}' :: (unI tl ++ after)) hb hsf.1 (fc_close _ _) rfl trivial md hn
        (.braceClose ['}']) (.group ['{'] (stdF keys m md true) (stdF keys m md true)) (fun t _ => child_group _ _ t)
        (fun _ t ht => stop_brace_math _ t ht) { pos := st1.pos + w2.length + 1 } [] rfl hdb
      obtain ⟨p, hp, hdp, hr⟩ := step_groupX (br := br) (stop := stop) (child := child) S.tol hn hch hd1 hw2 hn2 hbody
      refine ⟨p - st1.pos, hr, fun st2 hp2 => ?_⟩
      refine hI tl hsztl m br fc after htl hsf.2 hfc haft hx md hn stop child hch hsm st2 [] rfl ?_
      have e : st1.pos + (p - st1.pos) = p := by omega
      rw [hp2, e]; exact hdp
    | mac name post args =>
      simp only [cwfI, Bool.and_eq_true] at hwf
      obtain ⟨⟨hname, hargs⟩, htl⟩ := hwf
      simp only [safeI, Bool.and_eq_true] at hsf
      have hsza : szA args < N := by simp only [szI] at hsz; omega
      have hsztl : szI tl < N := by simp only [szI] at hsz; omega
      cases hms : ctx.macroSpec name with
      | none => rw [hms] at hargs; cases hargs
      | some sp =>
        cases sp with
        | std sig =>
          rw [hms] at hargs
          simp only at hargs
          have hd' : env.s.drop st.pos = w ++ ('\\' :: (name ++ (post ++ (unA args ++ (unI tl ++ after))))) := by rw [hd]; simp [unI]
          have hnorm := rx_norm (stop := stop) (child := child) S hn hch hd' hw (by rw [headIs_cons]; decide)
          simp only [xW]
          refine rx_cons hnorm (fun st1 w2 hd1 hw2 hn2 => ?_)
          have hdq : env.s.drop (st1.pos + w2.length) = '\\' :: (name ++ (post ++ (unA args ++ (unI tl ++ after)))) := drop_add_of_drop hd1
          obtain ⟨c0, name', hnm, hnb, hne, _, htok⟩ := macro_token (keys := keys) (ee := true) (br := br) (pre := w2)
            hn hname (fun c hc => by
              obtain ⟨r, hr⟩ := head_of_nextCh hfc hc
              exact ⟨r, by rw [← hr, List.append_assoc]⟩) hdq
          subst hnm
          have hdA : env.s.drop (st1.pos + w2.length + 1 + (c0 :: name').length + post.length) = unA args ++ (unI tl ++ after) :=
            drop_add_of_drop (drop_add_of_drop (drop_succ_of_drop hdq))
          obtain ⟨al, pA, hAE, hpA, hdpA, hcl⟩ := hA args hsza m sig (unI tl) fc after hargs hsf.1 hfc md hn []
            (st1.pos + w2.length + 1 + (c0 :: name').length + post.length) hdA
          rw [List.nil_append] at hAE
          have hr := step_macroX (br := br) (stop := stop) (child := child) (post := post) S.tol hch hd1 hw2 hn2 htok
            (by rw [S.hctx]; exact hms) (arguments_runs hAE) (by omega)
          rw [hcl] at hr
          refine ⟨pA - st1.pos, hr, fun st2 hp2 => ?_⟩
          refine hI tl hsztl m br fc after htl hsf.2 hfc haft hx md hn stop child hch hsm st2 [] rfl ?_
          have e : st1.pos + (pA - st1.pos) = pA := by omega
          rw [hp2, e]; exact hdpA
        | legacyVerb => rw [hms] at hargs; cases hargs
        | legacyVerbEnv _ _ => rw [hms] at hargs; cases hargs
        | unknown => rw [hms] at hargs; cases hargs
    | math b =>
      simp only [cwfI, Bool.and_eq_true, Bool.not_eq_eq_eq_not, Bool.not_true] at hwf
      obtain ⟨⟨⟨hm, hbne⟩, hb⟩, htl⟩ := hwf
      simp only [safeI, Bool.and_eq_true] at hsf
      subst hm
      have hmd : md = none := hn rfl
      subst hmd
      have hszb : szI b < N := by simp only [szI] at hsz; omega
      have hsztl : szI tl < N := by simp only [szI] at hsz; omega
      have hd' : env.s.drop st.pos = w ++ ('$' :: (unI b ++ '$' :: (unI tl ++ after))) := by rw [hd]; simp [unI]
      have hnorm := rx_norm (stop := stop) (child := child) S hn hch hd' hw (by rw [headIs_cons]; decide)
      simp only [xW]
      refine rx_cons hnorm (fun st1 w2 hd1 hw2 hn2 => ?_)
      have hd1' : env.s.drop st1.pos = w2 ++ (Doc.FKind.dollar.opener ++ (unI b ++ (Doc.FKind.dollar.closer ++ (unI tl ++ after)))) := hd1
      have hdb : env.s.drop (st1.pos + w2.length + Doc.FKind.dollar.opener.length) =
          [] ++ (unI b ++ (Doc.FKind.dollar.closer ++ (unI tl ++ after))) := drop_add_of_drop (drop_add_of_drop hd1')
      have hbody := hI b hszb true none (some '$') (Doc.FKind.dollar.closer ++ (unI tl ++ after)) hb hsf.1 (fc_close _ _) rfl trivial
        (some Doc.FKind.dollar.opener) (normOk_true _) (.mathClose Doc.FKind.dollar.display Doc.FKind.dollar.closer) .same
        (fun t _ => rfl) (fun h => by cases h) { pos := st1.pos + w2.length + Doc.FKind.dollar.opener.length } [] rfl hdb
      obtain ⟨p, hp, hdp, hr⟩ := step_mathX (br := br) (stop := stop) (child := child) S.tol .dollar hch (hsm rfl) hd1' rfl hw2 hn2
        (fun _ => head_not_dollar ctx none (some '$') b hbne hb _) hbody
      refine ⟨p - st1.pos, hr, fun st2 hp2 => ?_⟩
      refine hI tl hsztl false br fc after htl hsf.2 hfc haft hx none hn stop child hch hsm st2 [] rfl ?_
      have e : st1.pos + (p - st1.pos) = p := by omega
      rw [hp2, e]; exact hdp

/-- **the exact prefix lemma**, for item lists and argument lists of every size -/
theorem reachX_all (S : Setup env ctx keys) (hkb : keysBad badChars keys = true) :
    ∀ N : Nat, PIX env ctx keys N ∧ PAX env ctx keys N := by
  intro N
  induction N with
  | zero => exact ⟨fun a h => absurd h (Nat.not_lt_zero _), fun a h => absurd h (Nat.not_lt_zero _)⟩
  | succ N ih => exact ⟨stepX_items S hkb ih.1 ih.2, stepX_args S ih.1 ih.2⟩

end main

end Pylx.C08.Full
