/-
  C10 — the contract and the step lemmas of the nodes collector.
-/
import PylxProofs.C10Lemmas1
namespace Pylx
namespace C10

/-! ### the modes of derived states -/

/-- same math delimiter configuration as the start state -/
def SD (f0 f : PSFields) : Prop := f.inlineDelims = f0.inlineDelims ∧ f.displayDelims = f0.displayDelims

theorem SD_refl (f : PSFields) : SD f f := ⟨rfl, rfl⟩

theorem normalize_inline (f : PSFields) : f.normalize.inlineDelims = f.inlineDelims := by
  unfold PSFields.normalize; split <;> rfl
theorem normalize_display (f : PSFields) : f.normalize.displayDelims = f.displayDelims := by
  unfold PSFields.normalize; split <;> rfl

theorem SD_mathFields {f0 f : PSFields} (d : Str) (h : SD f0 f) : SD f0 (mathFields f d) := by
  unfold SD mathFields; rw [normalize_inline, normalize_display]; exact h

theorem SD_applyDelta {f0 f : PSFields} (δ : Delta) (h : SD f0 f) : SD f0 (applyDelta f δ) := by
  cases δ
  · exact h
  · unfold SD applyDelta; rw [normalize_inline, normalize_display]; exact h
  · unfold SD applyDelta; rw [normalize_inline, normalize_display]; exact h

theorem psInfo_mathFields (f : PSFields) (d : Str) : psInfo (mathFields f d) = mathInfo d := by
  simp [psInfo, mathFields, PSFields.normalize, mathInfo]

theorem psInfo_applyDelta (f : PSFields) (δ : Delta) : psInfo (applyDelta f δ) = deltaInfo (psInfo f) δ := by
  cases δ <;> simp [psInfo, applyDelta, PSFields.normalize, deltaInfo, enterMathInfo, textInfo]

theorem groupState_spec {f0 f g : PSFields} (delims : GroupDelims) (h : groupState delims f = some g) (hs : SD f0 f) :
    psInfo g = psInfo f ∧ SD f0 g := by
  cases delims with
  | auto o =>
    simp only [groupState] at h
    split at h
    · cases h; exact ⟨rfl, hs⟩
    · cases h
  | pair o c =>
    simp only [groupState] at h
    split at h
    · cases h; exact ⟨rfl, hs⟩
    · cases h; exact ⟨rfl, hs⟩

/-! ### the contract -/

section
variable (P : Str → Str → Bool → Prop) (ctx : Ctx) (f0 : PSFields) (tol : Bool)

def ChildOkX (f : PSFields) : ChildPS → Prop
  | .same => True
  | .group _ c o => (psInfo c = psInfo f ∧ SD f0 c) ∧ (psInfo o = psInfo f ∧ SD f0 o)

def ParserPre : Parser → PSFields → Prop
  | .general _ _ child, f => ChildOkX f0 f child
  | .macroCall t a, _ => ctx.macroSpec t.arg = some a
  | .envCall t a bm, _ => ctx.envSpec t.arg = some (a, bm)
  | .specialsCall t a, _ => lookupFirst t.arg ctx.specials = some a
  | _, _ => True

def PreX : Task → Prop
  | .pc p f _ => SD f0 f ∧ ParserPre ctx f0 p f
  | .loop f _ child st => SD f0 f ∧ ChildOkX f0 f child ∧ ListM P ctx (psInfo f) st.acc
  | .expr _ skipped f _ => SD f0 f ∧ ListM P ctx (psInfo f) skipped

def ResOkX (cur : PSInfo) : Res → Prop
  | .none => True
  | .node n => NodeM P ctx cur n
  | .list _ _ ns => ListM P ctx cur ns
  | .args .. => True

/-- what a parser's result has to satisfy -/
def PRes : Parser → PSFields → Res → Prop
  | .arguments a, f, res => OptArgsM P ctx (psInfo f) (some a) (argsOf res)
  | .general .., f, res | .group .., f, res | .math .., f, res | .envBody .., f, res | .macroCall .., f, res
  | .envCall .., f, res | .specialsCall .., f, res | .expression .., f, res | .marker .., f, res
  | .verbatim .., f, res => ResOkX P ctx (psInfo f) res

def LoopGood (f : PSFields) : Ret → Prop
  | .loopEnd e => ListM P ctx (psInfo f) e.nodes
  | _ => True

def ExprGood (f : PSFields) : Ret → Prop
  | .ok res _ => ResOkX P ctx (psInfo f) res
  | .perr e => tol = false ∨ ResOkX P ctx (psInfo f) e.recNodes
  | _ => True

def PcGood (p : Parser) (f : PSFields) : Ret → Prop
  | .ok res _ => PRes P ctx p f res
  | .perr _ => tol = false
  | _ => True

def GoodX : Task → Ret → Prop
  | .pc p f _, r => PcGood P ctx tol p f r
  | .loop f _ _ _, r => LoopGood P ctx f r
  | .expr _ _ f _, r => ExprGood P ctx tol f r

/-- a parser's own `parse()` result, before `parse_content` wraps it -/
def RawGoodR (Q : Res → Prop) : Raw → Prop
  | .ret (.ok res _) => Q res
  | .ret (.perr e) => tol = false ∨ Q e.recNodes
  | _ => True

def RawGoodX (p : Parser) (f : PSFields) : Raw → Prop := RawGoodR tol (PRes P ctx p f)

variable {P ctx f0 tol}

theorem child_get {f : PSFields} {child : ChildPS} (hs : SD f0 f) (hc : ChildOkX f0 f child) (t : Token) :
    psInfo (child.get f t) = psInfo f ∧ SD f0 (child.get f t) := by
  cases child with
  | same => exact ⟨rfl, hs⟩
  | group o c g =>
    simp only [ChildPS.get]
    split
    · exact hc.1
    · exact hc.2

theorem PRes_none (p : Parser) (f : PSFields) : PRes P ctx p f .none := by
  cases p <;> simp [PRes, ResOkX, argsOf, OptArgsM]

theorem parseContent_goodX (p : Parser) (f : PSFields) (pos : Nat) (raw : Raw) (h : RawGoodX P ctx tol p f raw) :
    GoodX P ctx tol (.pc p f pos) (parseContent tol raw) := by
  cases raw with
  | eos q => simp only [parseContent, GoodX, PcGood]; exact PRes_none p f
  | ret r =>
    cases r with
    | ok res q => simpa only [parseContent, GoodX, PcGood, RawGoodX, RawGoodR] using h
    | perr e =>
      simp only [RawGoodX, RawGoodR] at h
      simp only [parseContent, GoodX]
      cases htol : tol with
      | false => simp [PcGood]
      | true =>
        simp only [if_true, PcGood]
        rcases h with h | h
        · rw [htol] at h; cases h
        · exact h
    | loopEnd e => simp [parseContent, GoodX, PcGood]
    | crash k => simp [parseContent, GoodX, PcGood]
    | fuel => simp [parseContent, GoodX, PcGood]

/-! ### the nodes collector -/

theorem flush_acc (f : PSFields) (st : LoopSt) (h : ListM P ctx (psInfo f) st.acc) :
    ListM P ctx (psInfo f) (st.flush f).acc := by
  unfold LoopSt.flush
  split
  · exact h
  · exact ListM_snoc _ _ _ h rfl

theorem flushBefore_acc (f : PSFields) (st : LoopSt) (t : Token) (h : ListM P ctx (psInfo f) st.acc) :
    ListM P ctx (psInfo f) (st.flushBefore f t).acc := by
  unfold LoopSt.flushBefore
  split
  · exact flush_acc f _ h
  · split
    · exact ListM_snoc _ _ _ h rfl
    · exact h

theorem loopFinish_goodX (f : PSFields) (st : LoopSt) (stopTok : Option Token) (err : Option PErr)
    (h : ListM P ctx (psInfo f) st.acc) : LoopGood P ctx f (loopFinish f st stopTok err) := by
  simp only [loopFinish, LoopGood]; exact flush_acc f st h

section
variable {env : Env} {rec : Task → Ret}
variable (IH : ∀ t, PreX P ctx f0 t → GoodX P ctx env.tol t (rec t))
include IH

theorem afterChild_goodX (f : PSFields) (stop : StopTok) (child : ChildPS) (st : LoopSt) (noneOk : Bool) (r : Ret)
    (hs : SD f0 f) (hc : ChildOkX f0 f child) (hacc : ListM P ctx (psInfo f) st.acc)
    (hr : ∀ n p, r = .ok (.node n) p → NodeM P ctx (psInfo f) n) :
    LoopGood P ctx f (afterChild rec f stop child st noneOk r) := by
  cases r with
  | ok res p =>
    cases res with
    | node n =>
      simp only [afterChild]
      exact IH (.loop f stop child _) ⟨hs, hc, ListM_snoc _ _ _ hacc (hr n p rfl)⟩
    | none =>
      simp only [afterChild]
      split
      · exact IH (.loop f stop child _) ⟨hs, hc, hacc⟩
      · trivial
    | list _ _ _ => simp [afterChild, LoopGood]
    | args _ _ _ => simp [afterChild, LoopGood]
  | perr e => simp only [afterChild]; exact loopFinish_goodX f st _ _ hacc
  | loopEnd e => simp [afterChild, LoopGood]
  | crash k => simp [afterChild, LoopGood]
  | fuel => simp [afterChild, LoopGood]

/-- a child parse from the collector, with a parser whose result is judged by `ResOkX` -/
theorem child_node {f : PSFields} {child : ChildPS} (hs : SD f0 f) (hc : ChildOkX f0 f child) (t : Token)
    (p : Parser) (pos : Nat) (hp : ParserPre ctx f0 p (child.get f t))
    (hres : ∀ res, PRes P ctx p (child.get f t) res → ResOkX P ctx (psInfo (child.get f t)) res) :
    ∀ n q, rec (.pc p (child.get f t) pos) = .ok (.node n) q → NodeM P ctx (psInfo f) n := by
  intro n q hq
  have hg := child_get hs hc t
  have h := IH (.pc p (child.get f t) pos) ⟨hg.2, hp⟩
  rw [hq] at h
  simp only [GoodX, PcGood] at h
  have h2 := hres _ h
  simp only [ResOkX] at h2
  rw [← hg.1]; exact h2

theorem loopDispatch_goodX (f : PSFields) (stop : StopTok) (child : ChildPS) (st : LoopSt) (t : Token)
    (hs : SD f0 f) (hc : ChildOkX f0 f child) (hacc : ListM P ctx (psInfo f) st.acc) (hctx : env.ctx = ctx) :
    LoopGood P ctx f (loopDispatch env rec f stop child st t) := by
  unfold loopDispatch
  split
  · exact loopFinish_goodX f st _ _ hacc
  · exact loopFinish_goodX f st _ _ hacc
  · exact IH (.loop f stop child _) ⟨hs, hc, ListM_snoc _ _ _ hacc rfl⟩
  · exact afterChild_goodX IH f stop child st false _ hs hc hacc
      (child_node IH hs hc t _ _ trivial (fun _ h => h))
  · split
    · split
      · exact IH (.loop f stop child st) ⟨hs, hc, hacc⟩
      · exact loopFinish_goodX f st _ _ hacc
    · next a ha =>
      exact afterChild_goodX IH f stop child st true _ hs hc hacc
        (child_node IH hs hc t _ _ (by rw [← hctx]; exact ha) (fun _ h => h))
  · split
    · split
      · exact IH (.loop f stop child st) ⟨hs, hc, hacc⟩
      · exact loopFinish_goodX f st _ _ hacc
    · next ab hab =>
      exact afterChild_goodX IH f stop child st true _ hs hc hacc
        (child_node IH hs hc t _ _ (by rw [← hctx]; exact hab) (fun _ h => h))
  · split
    · trivial
    · next a ha =>
      exact afterChild_goodX IH f stop child st true _ hs hc hacc
        (child_node IH hs hc t _ _ (by rw [← hctx]; exact ha) (fun _ h => h))
  · split
    · exact afterChild_goodX IH f stop child st true _ hs hc hacc
        (child_node IH hs hc t _ _ trivial (fun _ h => h))
    · exact loopFinish_goodX f st _ _ hacc
  · split
    · exact afterChild_goodX IH f stop child st true _ hs hc hacc
        (child_node IH hs hc t _ _ trivial (fun _ h => h))
    · exact loopFinish_goodX f st _ _ hacc
  · trivial

theorem loopStep_goodX (f : PSFields) (stop : StopTok) (child : ChildPS) (st : LoopSt)
    (hs : SD f0 f) (hc : ChildOkX f0 f child) (hacc : ListM P ctx (psInfo f) st.acc) (hctx : env.ctx = ctx) :
    LoopGood P ctx f (loopStep env rec f stop child st) := by
  unfold loopStep
  cases hr : loopRead env f st with
  | inr r =>
    simp only
    unfold loopRead at hr
    split at hr
    · cases hr
    · split at hr
      · cases hr; exact loopFinish_goodX f st _ _ hacc
      · cases hr
    · cases hr; exact loopFinish_goodX f st _ _ hacc
  | inl t =>
    simp only
    split
    · exact loopFinish_goodX f _ _ _ hacc
    · split
      · exact IH (.loop f stop child _) ⟨hs, hc, hacc⟩
      · exact loopDispatch_goodX IH f stop child _ _ hs hc (flushBefore_acc f st t hacc) hctx

end
end

/-! ### a second, independent contract: a general-nodes parser that returns normally met its stop condition -/

/-- some token read in the state `f` (or the synthesised final-whitespace token) meets the stop condition -/
def StopFact (tol : Bool) (s : Str) (f : PSFields) (stop : StopTok) : Prop :=
  ∃ t, stop.test t = true ∧ (t.kind = .char ∨ ∃ pos, peekTok tol (mkPS f) s pos = .tok t)

def PcGood2 (env : Env) : Parser → PSFields → Ret → Prop
  | .general stop req _, f, .ok _ _ =>
    env.tol = false → req = true → stop.isSome = true → StopFact env.tol env.s f stop
  | _, _, _ => True

def LoopGood2 (env : Env) (f : PSFields) (stop : StopTok) : Ret → Prop
  | .loopEnd e => ∀ t, e.stopTok = some t → StopFact env.tol env.s f stop
  | _ => True

def Good2 (env : Env) : Task → Ret → Prop
  | .pc p f _, r => PcGood2 env p f r
  | .loop f stop _ _, r => LoopGood2 env f stop r
  | .expr .., _ => True

section
variable {env : Env} {rec : Task → Ret}

theorem loopFinish_good2 (f : PSFields) (stop : StopTok) (st : LoopSt) (err : Option PErr) :
    LoopGood2 env f stop (loopFinish f st none err) := by
  simp only [loopFinish, LoopGood2]; intro t h; cases h

theorem loopRead_inlX (f : PSFields) (st : LoopSt) (t : Token) (h : loopRead env f st = .inl t) :
    t.kind = .char ∨ ∃ pos, peekTok env.tol (mkPS f) env.s pos = .tok t := by
  unfold loopRead at h
  split at h
  · next t' ht => cases h; exact Or.inr ⟨_, ht⟩
  · split at h
    · cases h
    · cases h; exact Or.inl rfl
  · cases h

variable (IH2 : ∀ t, Good2 env t (rec t))
include IH2

theorem afterChild_good2 (f : PSFields) (stop : StopTok) (child : ChildPS) (st : LoopSt) (noneOk : Bool) (r : Ret) :
    LoopGood2 env f stop (afterChild rec f stop child st noneOk r) := by
  cases r with
  | ok res p =>
    cases res with
    | node n => exact IH2 (.loop f stop child _)
    | none =>
      simp only [afterChild]
      split
      · exact IH2 (.loop f stop child _)
      · trivial
    | list _ _ _ => trivial
    | args _ _ _ => trivial
  | perr e => exact loopFinish_good2 f stop st _
  | loopEnd e => trivial
  | crash k => trivial
  | fuel => trivial

theorem loopDispatch_good2 (f : PSFields) (stop : StopTok) (child : ChildPS) (st : LoopSt) (t : Token) :
    LoopGood2 env f stop (loopDispatch env rec f stop child st t) := by
  unfold loopDispatch
  split
  · exact loopFinish_good2 f stop st _
  · exact loopFinish_good2 f stop st _
  · exact IH2 (.loop f stop child _)
  · exact afterChild_good2 IH2 f stop child st false _
  · split
    · split
      · exact IH2 (.loop f stop child st)
      · exact loopFinish_good2 f stop st _
    · exact afterChild_good2 IH2 f stop child st true _
  · split
    · split
      · exact IH2 (.loop f stop child st)
      · exact loopFinish_good2 f stop st _
    · exact afterChild_good2 IH2 f stop child st true _
  · split
    · trivial
    · exact afterChild_good2 IH2 f stop child st true _
  · split
    · exact afterChild_good2 IH2 f stop child st true _
    · exact loopFinish_good2 f stop st _
  · split
    · exact afterChild_good2 IH2 f stop child st true _
    · exact loopFinish_good2 f stop st _
  · trivial

theorem loopStep_good2 (f : PSFields) (stop : StopTok) (child : ChildPS) (st : LoopSt) :
    LoopGood2 env f stop (loopStep env rec f stop child st) := by
  unfold loopStep
  cases hr : loopRead env f st with
  | inr r =>
    simp only
    unfold loopRead at hr
    split at hr
    · cases hr
    · split at hr
      · cases hr; exact loopFinish_good2 f stop st _
      · cases hr
    · cases hr; exact loopFinish_good2 f stop st _
  | inl t =>
    simp only
    split
    · next hst =>
      simp only [loopFinish, LoopGood2]
      intro t' ht'
      cases ht'
      exact ⟨t, hst, loopRead_inlX f st t hr⟩
    · split
      · exact IH2 (.loop f stop child _)
      · exact loopDispatch_good2 IH2 f stop child _ _

omit IH2 in
theorem PcGood2_tol (p : Parser) (f : PSFields) (r : Ret) (h : env.tol = true) : PcGood2 env p f r := by
  cases p <;> cases r <;> simp [PcGood2, h]

theorem rawGeneral_good2 (stop : StopTok) (req : Bool) (child : ChildPS) (f : PSFields) (pos : Nat) :
    PcGood2 env (.general stop req child) f (parseContent env.tol (rawGeneral rec stop req child f pos)) := by
  cases htol : env.tol with
  | true => exact PcGood2_tol _ _ _ htol
  | false =>
    unfold rawGeneral
    have h := IH2 (.loop f stop child { pos := pos })
    cases hr : rec (.loop f stop child { pos := pos }) with
    | loopEnd e =>
      rw [hr] at h
      simp only [Good2, LoopGood2] at h
      simp only [retOfLoop]
      split
      · simp [parseContent, PcGood2]
      · split
        · simp [parseContent, PcGood2]
        · next hcond =>
          split
          · next t ht =>
            simp only [parseContent, PcGood2]
            intro _ _ _
            exact h t ht
          · next hnone =>
            simp only [parseContent, PcGood2]
            intro _ hreq hsome
            exfalso
            apply hcond
            simp [hreq, hsome, hnone]
    | ok _ _ => simp [retOfLoop, parseContent, PcGood2]
    | perr _ => simp [retOfLoop, parseContent, PcGood2]
    | crash _ => simp [retOfLoop, parseContent, PcGood2]
    | fuel => simp [retOfLoop, parseContent, PcGood2]

theorem step_good2 (t : Task) : Good2 env t (step env rec t) := by
  cases t with
  | pc p f pos =>
    simp only [step, Good2]
    cases p with
    | general stop req child => exact rawGeneral_good2 IH2 stop req child f pos
    | group _ _ _ => simp [PcGood2]
    | math _ => simp [PcGood2]
    | envBody _ => simp [PcGood2]
    | macroCall _ _ => simp [PcGood2]
    | envCall _ _ _ => simp [PcGood2]
    | specialsCall _ _ => simp [PcGood2]
    | arguments _ => simp [PcGood2]
    | expression _ => simp [PcGood2]
    | marker _ _ _ => simp [PcGood2]
    | verbatim _ => simp [PcGood2]
  | loop f stop child st => exact loopStep_good2 IH2 f stop child st
  | expr ap skipped f pos => trivial

end

theorem run_good2 (env : Env) : ∀ (n : Nat) (t : Task), Good2 env t (run env n t) := by
  intro n
  induction n with
  | zero =>
    intro t
    cases t with
    | pc p f pos => cases p <;> simp [run, Good2, PcGood2]
    | loop _ _ _ _ => trivial
    | expr _ _ _ _ => trivial
  | succ n ih => intro t; exact step_good2 ih t

end C10
end Pylx
