/-
  C13, parse link for ALL strings.

  * `cwfI_app`: concatenations of well-formed item lists are well formed (every look-ahead of `cwfI` demands its
    character, so text appended behind a list that is well formed "whatever follows" cannot invalidate it).
  * `doc_parses`: the strict parse of the source of a well-formed document (context satisfying the decidable `ctxOk`,
    e.g. the default context) is a node list without comment and environment nodes — from the prefix lemma
    `reach_all` of `C13FullReach`.
  * `chunk_step`: every chunk the encoder emits with the `defaults` table, a brace protection scheme and a named policy
    is the source of a well-formed document (table entries: kernel evaluation, `C13FullA`–`D`; pass-through and
    unknown characters; the `replace` and `unihex` texts).
  * **`C13_parses_full_proved : C13_parses_full`** — the statement of `C13Parse.lean`, for every input string.
-/
import PylxProofs.C13FullReach
import PylxProofs.C13FullA
import PylxProofs.C13FullB
import PylxProofs.C13FullC
import PylxProofs.C13FullD
import PylxProofs.C13FullE
import PylxProofs.C13FullF
import PylxProofs.C13FullG
import PylxProofs.C13FullH
import PylxProofs.C13FullI
import PylxProofs.C13FullJ
namespace Pylx.C13.Full
open Pylx Pylx.EncB Pylx.C02

/-! ### concatenation -/

theorem unI_append : ∀ (a b : List CItem), unI (a ++ b) = unI a ++ unI b
  | [], b => by simp [unI]
  | .ch c :: tl, b => by simp [unI, unI_append tl b]
  | .grp g :: tl, b => by simp [unI, unI_append tl b]
  | .mac n po args :: tl, b => by simp [unI, unI_append tl b]
  | .math g :: tl, b => by simp [unI, unI_append tl b]

theorem unI_map_ch (l : Str) : unI (l.map CItem.ch) = l := by
  induction l with
  | nil => simp [unI]
  | cons c l ih => simp [unI, ih]

/-- `x` says nothing, or the same as `y` -/
def Le (x y : Option Char) : Prop := x = none ∨ x = y

theorem nextCh_le {F G : Str} {fc0 fc : Option Char} (h : Le fc0 (nextCh G fc)) :
    Le (nextCh F fc0) (nextCh (F ++ G) fc) := by
  cases F with
  | nil => simpa [nextCh] using h
  | cons c F => exact Or.inr rfl

theorem nameOk_le {n post : Str} {x y : Option Char} (h : Le x y) (hn : nameOk n post x = true) : nameOk n post y = true := by
  rcases h with h | h
  · subst h
    unfold nameOk at hn ⊢
    split
    · rename_i hcw
      rw [if_pos hcw] at hn
      simp at hn
    · rename_i hcw
      rw [if_neg hcw] at hn
      exact hn
  · subst h; exact hn

theorem cwfA_le (ctx : Ctx) (m : Bool) {G : Str} {fc0 fc : Option Char} (h : Le fc0 (nextCh G fc)) :
    ∀ (args : List CArg) (sig : List ArgSpec) (rest : Str), cwfA ctx m rest fc0 sig args = true →
      cwfA ctx m (rest ++ G) fc sig args = true
  | [], [], _, _ => by simp [cwfA]
  | [], _ :: _, _, hw => by simp [cwfA] at hw
  | _ :: _, [], _, hw => by rename_i a _; cases a <;> simp [cwfA] at hw
  | .absent :: tl, sp :: sig, rest, hw => by
    simp only [cwfA, Bool.and_eq_true, beq_iff_eq] at hw ⊢
    obtain ⟨⟨h1, h2⟩, h3⟩ := hw
    refine ⟨⟨h1, ?_⟩, cwfA_le ctx m h tl sig rest h3⟩
    have := nextCh_le (F := unA tl ++ rest) h
    rw [h2] at this
    rcases this with h' | h'
    · cases h'
    · rw [List.append_assoc] at h'; exact h'.symm
  | .grp b :: tl, sp :: sig, rest, hw => by
    simp only [cwfA, Bool.and_eq_true] at hw ⊢
    exact ⟨hw.1, cwfA_le ctx m h tl sig rest hw.2⟩
  | .br b :: tl, sp :: sig, rest, hw => by
    simp only [cwfA, Bool.and_eq_true] at hw ⊢
    exact ⟨hw.1, cwfA_le ctx m h tl sig rest hw.2⟩
  | .tok c :: tl, sp :: sig, rest, hw => by
    simp only [cwfA, Bool.and_eq_true] at hw ⊢
    exact ⟨hw.1, cwfA_le ctx m h tl sig rest hw.2⟩
  | .mtok n :: tl, sp :: sig, rest, hw => by
    simp only [cwfA, Bool.and_eq_true] at hw ⊢
    refine ⟨⟨hw.1.1, ?_⟩, cwfA_le ctx m h tl sig rest hw.2⟩
    have := nameOk_le (nextCh_le (F := unA tl ++ rest) h) hw.1.2
    rw [List.append_assoc] at this
    exact this

/-- **composition**: a list that is well formed in front of what `b` starts with (or whatever follows), followed by a
    well-formed list `b`, is well formed -/
theorem cwfI_app (ctx : Ctx) (m : Bool) (br : Xp) {fc0 fc : Option Char} (b : List CItem) (hb : cwfI ctx m br fc b = true)
    (h : Le fc0 (nextCh (unI b) fc)) : ∀ (a : List CItem), cwfI ctx m br fc0 a = true → cwfI ctx m br fc (a ++ b) = true
  | [], _ => hb
  | .ch c :: tl, hw => by
    simp only [cwfI, Bool.and_eq_true, List.cons_append] at hw ⊢
    exact ⟨hw.1, cwfI_app ctx m br b hb h tl hw.2⟩
  | .grp g :: tl, hw => by
    simp only [cwfI, Bool.and_eq_true, List.cons_append] at hw ⊢
    exact ⟨hw.1, cwfI_app ctx m br b hb h tl hw.2⟩
  | .mac n po args :: tl, hw => by
    simp only [cwfI, Bool.and_eq_true, List.cons_append] at hw ⊢
    obtain ⟨⟨h1, h2⟩, h3⟩ := hw
    refine ⟨⟨?_, ?_⟩, cwfI_app ctx m br b hb h tl h3⟩
    · have := nameOk_le (nextCh_le (F := unA args ++ unI tl) h) h1
      rw [unI_append, ← List.append_assoc]
      exact this
    · cases hms : ctx.macroSpec n with
      | none => rw [hms] at h2; cases h2
      | some a =>
        rw [hms] at h2
        cases a with
        | std sig =>
          simp only at h2 ⊢
          rw [unI_append]
          exact cwfA_le ctx m h args sig (unI tl) h2
        | legacyVerb => cases h2
        | legacyVerbEnv _ _ => cases h2
        | unknown => cases h2
  | .math g :: tl, hw => by
    simp only [cwfI, Bool.and_eq_true, List.cons_append] at hw ⊢
    exact ⟨hw.1, cwfI_app ctx m br b hb h tl hw.2⟩

theorem cwfI_append (ctx : Ctx) (m : Bool) (br : Xp) (fc : Option Char) (a b : List CItem) (ha : cwfI ctx m br none a = true)
    (hb : cwfI ctx m br fc b = true) : cwfI ctx m br fc (a ++ b) = true :=
  cwfI_app ctx m br b hb (Or.inl rfl) a ha

/-! ### the strict parse of a well-formed document -/

theorem doc_parses {ctx : Ctx} (hctx : ctxOk ctx = true) (d : List CItem) (hwf : cwfI ctx false none none d = true) :
    ∃ p e ns pos, Doc.parseStrict ctx (unI d) = .ok (.list p e ns) pos ∧
      ∀ n ∈ subnodesList ns, isComment n = false ∧ isEnv n = false := by
  have S := setup_of_ctxOk hctx (unI d)
  obtain ⟨tr, n, w', ⟨st', hp, hs, hkk⟩, hdrop, hw', hn', hc⟩ :=
    (reach_all S (szI d + 1)).1 d (Nat.lt_succ_self _) false none none [] hwf (by intro c h; cases h) rfl trivial none
      (fun _ => rfl) .none .same (fun t _ => rfl) (fun _ t _ => rfl) { pos := 0 } [] rfl (by simp)
  have hd' : (unI d).drop st'.pos = w' := by
    rw [hp]; simpa using hdrop
  obtain ⟨e, he, hsh, herr, hst, hpos⟩ := loop_eos_ws (child := .same)
    (env := { tol := false, ctx := ctx, s := unI d }) rfl (stdF (Doc.ctxKeys ctx) false none true) (st := st') hd' hw' hn'
  have htop := general_of_loop_top (env := { tol := false, ctx := ctx, s := unI d }) rfl (hkk _ he) herr hst
  obtain ⟨p, q, hlist⟩ := listOf_eq e.nodes (some 0) (some 0)
  rw [hlist] at htop
  obtain ⟨N, hN⟩ := htop
  refine ⟨p, q, e.nodes, e.pos, ?_, ?_⟩
  · show run { tol := false, ctx := ctx, s := unI d } (fuelFor (unI d)) (topTask (Doc.startFields ctx)) = _
    by_cases hle : N ≤ fuelFor (unI d)
    · exact hN _ hle
    · have hnf := C06_no_fuel { tol := false, ctx := ctx, s := unI d } (Doc.startFields ctx) (delimsOk_start ctx)
      have := run_mono { tol := false, ctx := ctx, s := unI d } (fuelFor (unI d)) N (topTask (Doc.startFields ctx)) hnf (by omega)
      rw [← this]
      exact hN N (Nat.le_refl _)
  · have h1 : cleanL (sh st') = true := by
      refine cleanL_of_merge_eq hs ?_
      rw [cleanL_append, hc]
      rfl
    have h2 : cleanL (Doc.shapeOfNodes e.nodes) = true := by
      refine cleanL_of_merge_eq hsh ?_
      rw [cleanL_append, h1, cleanL_pendSh]
      rfl
    exact clean_nodes e.nodes h2

/-! ### the chunks of the encoder -/

/-- a text that is the source of a document which is well formed whatever follows -/
def ChunkDoc (t : Str) : Prop := ∃ d, unI d = t ∧ cwfI Gen.defaultCtx false none none d = true

theorem chunkDoc_nil : ChunkDoc [] := ⟨[], by simp [unI], by simp [cwfI]⟩

theorem chunkDoc_append {a b : Str} (ha : ChunkDoc a) (hb : ChunkDoc b) : ChunkDoc (a ++ b) := by
  obtain ⟨da, ha1, ha2⟩ := ha
  obtain ⟨db, hb1, hb2⟩ := hb
  exact ⟨da ++ db, by rw [unI_append, ha1, hb1], cwfI_append _ _ _ _ _ _ ha2 hb2⟩

theorem chunkDoc_flatten : ∀ l : List Str, (∀ t ∈ l, ChunkDoc t) → ChunkDoc l.flatten
  | [], _ => chunkDoc_nil
  | t :: l, h => by
    rw [List.flatten_cons]
    exact chunkDoc_append (h t (List.mem_cons_self ..)) (chunkDoc_flatten l (fun x hx => h x (List.mem_cons_of_mem _ hx)))

theorem chunkDoc_plain {c : Char} (h : plainChar c = true) : ChunkDoc [c] := by
  refine ⟨[.ch c], by simp [unI], ?_⟩
  simp only [plainChar, Bool.and_eq_true] at h
  obtain ⟨⟨⟨⟨h1, h2⟩, h3⟩, h4⟩, h5⟩ := h
  simp [cwfI, plainCh, h1, h2, h3, h4, h5]

/-- the protected forms of a checked replacement text -/
theorem rawOk_protect {r : Str} (h : rawOk r = true) {pr : Prot} (hpr : pr ∈ braceSchemes) :
    ChunkDoc (protect isAsciiAlpha pr r) := by
  unfold rawOk at h
  split at h
  · rename_i d _
    simp only [Bool.and_eq_true, beq_iff_eq, Bool.or_eq_true] at h
    obtain ⟨hun, hcase⟩ := h
    have hwrap : ∀ (hB : cwfI Gen.defaultCtx false none (some '}') d = true), ChunkDoc ('{' :: r ++ ['}']) := by
      intro hB
      refine ⟨[.grp d], by simp [unI, hun], ?_⟩
      simp [cwfI, hB]
    have hafter : ∀ (hA : cwfI Gen.defaultCtx false none (some '{') d = true), ChunkDoc (r ++ ['{', '}']) := by
      intro hA
      refine ⟨d ++ [.grp []], by rw [unI_append, hun]; simp [unI], ?_⟩
      exact cwfI_app _ _ _ [.grp []] (by simp [cwfI]) (Or.inr (by simp [unI, nextCh])) d hA
    have hplain : ∀ (hN : cwfI Gen.defaultCtx false none none d = true), ChunkDoc r := fun hN => ⟨d, hun, hN⟩
    have hmono : ∀ (fc : Option Char), cwfI Gen.defaultCtx false none none d = true → cwfI Gen.defaultCtx false none fc d = true := by
      intro fc hN
      have := cwfI_app Gen.defaultCtx false none (fc := fc) [] (by simp [cwfI]) (Or.inl rfl) d hN
      simpa using this
    simp only [braceSchemes, List.mem_cons, List.not_mem_nil, or_false] at hpr
    rcases hcase with hN | ⟨⟨⟨hdang, hhead⟩, hB⟩, hA⟩
    · rcases hpr with rfl | rfl | rfl | rfl
      · simp only [protect]; split
        · exact hwrap (hmono _ hN)
        · exact hplain hN
      · exact hwrap (hmono _ hN)
      · simp only [protect]; split
        · exact hwrap (hmono _ hN)
        · exact hplain hN
      · simp only [protect]; split
        · exact hafter (hmono _ hN)
        · exact hplain hN
    · rcases hpr with rfl | rfl | rfl | rfl
      · simp only [protect, hdang, if_true]; exact hwrap hB
      · exact hwrap hB
      · cases r with
        | nil => simp at hhead
        | cons c r' =>
          have hc : c = '\\' := by simpa using hhead
          subst hc
          exact hwrap hB
      · simp only [protect, hdang, if_true]; exact hafter hA
  · cases h

theorem defaults_entryOk : ∀ e ∈ rawTable .defaults, entryOkX (skipOf .defaults) e = true := by
  have h : Gen.uni2latexChunks.all (fun ch => ch.all entryOk) = true := by
    have e1 : Gen.uni2latexChunks = Gen.uni2latexChunks.take 10 ++ ((Gen.uni2latexChunks.drop 10).take 10 ++
        ((Gen.uni2latexChunks.drop 20).take 10 ++ Gen.uni2latexChunks.drop 30)) := by decide +kernel
    rw [e1, List.all_append, List.all_append, List.all_append, defaults_docs_0, defaults_docs_1, defaults_docs_2,
      defaults_docs_3]
    rfl
  intro e he
  have := raw_all (tb := .defaults) h e he
  simp only [entryOkX, skipOf, List.contains_nil, Bool.false_or]
  exact this

theorem xml_entryOk : ∀ e ∈ rawTable .xml, entryOkX (skipOf .xml) e = true := by
  have h : Gen.uni2latexXmlChunks.all (fun ch => ch.all (entryOkX f19)) = true := by
    have e1 : Gen.uni2latexXmlChunks = Gen.uni2latexXmlChunks.take 10 ++ ((Gen.uni2latexXmlChunks.drop 10).take 10 ++
        ((Gen.uni2latexXmlChunks.drop 20).take 10 ++ ((Gen.uni2latexXmlChunks.drop 30).take 10 ++
        ((Gen.uni2latexXmlChunks.drop 40).take 10 ++ Gen.uni2latexXmlChunks.drop 50)))) := by decide +kernel
    rw [e1, List.all_append, List.all_append, List.all_append, List.all_append, List.all_append, xml_docs_0, xml_docs_1,
      xml_docs_2, xml_docs_3, xml_docs_4, xml_docs_5]
    rfl
  exact raw_all (tb := .xml) h

theorem table_entryOk (tb : Table) : ∀ e ∈ rawTable tb, entryOkX (skipOf tb) e = true := by
  cases tb
  · exact defaults_entryOk
  · exact xml_entryOk

/-! #### the `unihex` text -/

def uniDocG (n1 n2 n3 n4 : Str) (h : Str) : List CItem :=
  [.mac n1 [] [.grp [.mac n3 [] []]], .mac n2 [] [.grp (.ch 'U' :: .ch '+' :: h.map CItem.ch)],
   .mac n1 [] [.grp [.mac n4 [] []]]]

theorem cwfI_map_ch (ctx : Ctx) (m : Bool) (fc : Option Char) (l : Str) (h : ∀ c ∈ l, plainChar c = true) :
    cwfI ctx m none fc (l.map CItem.ch) = true := by
  induction l with
  | nil => simp [cwfI]
  | cons c l ih =>
    have hc := h c (List.mem_cons_self ..)
    simp only [plainChar, Bool.and_eq_true] at hc
    obtain ⟨⟨⟨⟨h1, h2⟩, h3⟩, h4⟩, h5⟩ := hc
    simp only [List.map_cons, cwfI, Bool.and_eq_true]
    exact ⟨by simp [plainCh, h1, h2, h3, h4, h5], ih (fun x hx => h x (List.mem_cons_of_mem _ hx))⟩

theorem unI_uniDocG (n1 n2 n3 n4 h : Str) :
    unI (uniDocG n1 n2 n3 n4 h) =
      ('\\' :: (n1 ++ '{' :: '\\' :: (n3 ++ '}' :: '\\' :: (n2 ++ ['{', 'U', '+'])))) ++ h ++
        ('}' :: '\\' :: (n1 ++ '{' :: '\\' :: (n4 ++ ['}']))) := by
  simp [uniDocG, unI, unA, unI_map_ch]

theorem cwfI_uniDocG (ctx : Ctx) (n1 n2 n3 n4 h : Str) (d1 d2 : Delta)
    (s1 : ctx.macroSpec n1 = some (.std [⟨.m, d1⟩])) (s2 : ctx.macroSpec n2 = some (.std [⟨.m, d2⟩]))
    (s3 : ctx.macroSpec n3 = some (.std [])) (s4 : ctx.macroSpec n4 = some (.std []))
    (hn1 : nameOk n1 [] (some '{') = true) (hn2 : nameOk n2 [] (some '{') = true)
    (hn3 : nameOk n3 [] (some '}') = true) (hn4 : nameOk n4 [] (some '}') = true)
    (hp : ∀ c ∈ h, plainChar c = true) : cwfI ctx false none none (uniDocG n1 n2 n3 n4 h) = true := by
  have hbody := cwfI_map_ch ctx (Doc.deltaMath false d2) (some '}') h hp
  have hU : plainCh none 'U' = true := by decide
  have hP : plainCh none '+' = true := by decide
  simp only [uniDocG, cwfI, cwfA, unI, unA, nextCh, s1, s2, s3, s4, hn1, hn2, hn3, hn4, hbody, hU, hP,
    List.cons_append, List.nil_append, List.append_nil, Bool.and_self, Bool.and_true]
  decide

set_option maxRecDepth 100000 in
theorem uni_specs :
    Gen.defaultCtx.macroSpec "ensuremath".toList = some (.std [⟨.m, .enterMath⟩]) ∧
    Gen.defaultCtx.macroSpec "texttt".toList = some (.std [⟨.m, .leaveMath⟩]) ∧
    Gen.defaultCtx.macroSpec "langle".toList = some (.std []) ∧
    Gen.defaultCtx.macroSpec "rangle".toList = some (.std []) := by
  refine ⟨?_, ?_, ?_, ?_⟩ <;> decide +kernel

theorem uni_texts :
    uniPre = '\\' :: ("ensuremath".toList ++ '{' :: '\\' :: ("langle".toList ++ '}' :: '\\' :: ("texttt".toList ++ ['{', 'U', '+']))) ∧
    uniSuf = '}' :: '\\' :: ("ensuremath".toList ++ '{' :: '\\' :: ("rangle".toList ++ ['}'])) := by
  constructor <;> decide +kernel

theorem chunkDoc_unihex (n : Nat) : ChunkDoc (uniPre ++ hexUpper4 n ++ uniSuf) := by
  have hp : ∀ c ∈ hexUpper4 n, plainChar c = true := fun c hc => (hexish_cases (hexish_hexUpper4 n c hc)).1
  obtain ⟨s1, s2, s3, s4⟩ := uni_specs
  refine ⟨uniDocG "ensuremath".toList "texttt".toList "langle".toList "rangle".toList (hexUpper4 n), ?_, ?_⟩
  · rw [unI_uniDocG, uni_texts.1, uni_texts.2]
  · exact cwfI_uniDocG _ _ _ _ _ _ _ _ s1 s2 s3 s4 (by decide +kernel) (by decide +kernel) (by decide +kernel)
      (by decide +kernel) hp

set_option maxRecDepth 100000 in
theorem chunkOk_replace : chunkOk "{\\bfseries ?}".toList = true := by decide +kernel

/-! #### one step of the encoder -/

theorem brace_mem {pr : Prot} (h : BraceProt pr) : pr ∈ braceSchemes := by
  rcases h with rfl | rfl | rfl | rfl <;> simp [braceSchemes]

theorem chunk_unknown {pol : Policy} (hn : NamedPolicy pol) {c : Char} (hc : isCopyChar c = false)
    {t : Str} {n : Nat} (h : unknownChar pol c = .emit t n) : ChunkDoc t := by
  cases pol with
  | keep => simp only [unknownChar] at h; cases h; exact chunkDoc_plain (plain_of_not_copy hc)
  | replace => simp only [unknownChar] at h; cases h; exact chunkOk_spec chunkOk_replace
  | ignore => simp only [unknownChar] at h; cases h; exact chunkDoc_nil
  | fail => simp [unknownChar] at h
  | unihex => simp only [unknownChar] at h; cases h; exact chunkDoc_unihex _
  | wrap a b => exact absurd hn (by simp [NamedPolicy])

/-- every chunk the encoder appends (either table, a brace protection scheme, a named policy) for a character outside
    the table's skip list (empty for `defaults`, finding F19 for `unicode-xml`) is the source of a document that is
    well formed whatever follows -/
theorem chunk_step {tb : Table} {pr : Prot} (hpr : BraceProt pr) {pol : Policy} (hn : NamedPolicy pol)
    {c : Char} (hc : c.toNat ∉ skipOf tb) {t : Str} {n : Nat}
    (h : stepAt (builtinCfg tb pr pol false) [c] 0 c = .emit t n) : ChunkDoc t := by
  rw [stepAt_builtin] at h
  cases hl : (tableOf tb).lookup c.toNat with
  | some r =>
    rw [hl] at h
    simp only at h
    cases h
    have hk : (c.toNat, r) ∈ tableOf tb := lookup_mem hl
    simp only [tableOf, List.mem_map] at hk
    obtain ⟨e, he, heq⟩ := hk
    have hk1 : e.1 = c.toNat := by simpa using congrArg Prod.fst heq
    have hk2 : S e.2 = r := by simpa using congrArg Prod.snd heq
    have hok := table_entryOk tb e he
    unfold entryOkX at hok
    have hns : (skipOf tb).contains e.1 = false := by
      rw [hk1]
      cases hcon : (skipOf tb).contains c.toNat with
      | false => rfl
      | true => exact absurd (List.contains_iff_mem.mp hcon) hc
    rw [hns, Bool.false_or, hk2] at hok
    exact rawOk_protect hok (brace_mem hpr)
  | none =>
    rw [hl] at h
    simp only at h
    split at h
    · cases h; exact chunkDoc_plain (plain_of_no_rule hl)
    · rename_i hcp
      exact chunk_unknown hn (by simpa using hcp) h

theorem encChars_forall_mem {cfg : Cfg} (P : Str → Prop) :
    ∀ (s : Str), (∀ c ∈ s, ∀ t n, stepAt cfg [c] 0 c = .emit t n → P t) → ∀ l, encChars cfg s = .ok l → ∀ t ∈ l, P t := by
  intro s
  induction s with
  | nil => intro _ l hl t ht; simp only [encChars] at hl; cases hl; simp at ht
  | cons c cs ih =>
    intro h l hl t ht
    simp only [encChars] at hl
    cases hst : stepAt cfg [c] 0 c with
    | raise e => rw [hst] at hl; cases hl
    | emit t' n =>
      rw [hst] at hl
      simp only at hl
      cases hrec : encChars cfg cs with
      | ok l' =>
        rw [hrec] at hl
        simp only [EncRes.cons] at hl
        cases hl
        rcases List.mem_cons.mp ht with rfl | ht
        · exact h c (List.mem_cons_self ..) _ n hst
        · exact ih (fun d hd => h d (List.mem_cons_of_mem _ hd)) l' hrec t ht
      | raise e => rw [hrec] at hl; simp [EncRes.cons] at hl
      | diverge => rw [hrec] at hl; simp [EncRes.cons] at hl

end Pylx.C13.Full

namespace Pylx.C13
open Pylx Pylx.EncB Pylx.C13.Full

set_option maxRecDepth 100000 in
theorem defaultCtx_ok : ctxOk Gen.defaultCtx = true := by decide +kernel

/-- the encoder's output is the source of a well-formed document of the grammar of `C13FullDefs` -/
theorem C13_output_doc (tb : Table) (pr : Prot) (hpr : BraceProt pr) (pol : Policy) (hn : NamedPolicy pol) (s t : Str)
    (hs : ∀ c ∈ s, c.toNat ∉ skipOf tb) (h : encode (builtinCfg tb pr pol false) s = some t) : ChunkDoc t := by
  have hpc := builtin_perChar tb pr pol false
  simp only [encode, encodeChunks_eq_encChars hpc] at h
  cases hl : encChars (builtinCfg tb pr pol false) s with
  | ok l =>
    rw [hl] at h
    simp only [EncRes.joined, Option.some.injEq] at h
    subst h
    exact chunkDoc_flatten l (encChars_forall_mem ChunkDoc s (fun c hc t n h => chunk_step hpr hn (hs c hc) h) l hl)
  | raise e => rw [hl] at h; simp [EncRes.joined] at h
  | diverge => rw [hl] at h; simp [EncRes.joined] at h

/-- **C13 (strict parse, all strings), both tables.**  For every input string none of whose characters is in the
    table's skip list (`defaults`: no exception; `unicode-xml`: the 13 isolated combining diacritics of finding F19), each
    of the four brace protection schemes and every named policy: whenever the encoder returns a text, the strict parser
    with the default context returns a node list for it, and no node of the tree is a comment or an environment. -/
theorem C13_parses_all (tb : Table) (pr : Prot) (hpr : BraceProt pr) (pol : Policy) (hn : NamedPolicy pol) (s t : Str)
    (hs : ∀ c ∈ s, c.toNat ∉ skipOf tb) (h : encode (builtinCfg tb pr pol false) s = some t) :
    ∃ p e ns pos, parseStrict t = .ok (.list p e ns) pos ∧
      ∀ n ∈ subnodesList ns, isComment n = false ∧ isEnv n = false := by
  obtain ⟨d, hd, hwf⟩ := C13_output_doc tb pr hpr pol hn s t hs h
  obtain ⟨p, e, ns, pos, hparse, hclean⟩ := doc_parses defaultCtx_ok d hwf
  rw [hd] at hparse
  exact ⟨p, e, ns, pos, hparse, hclean⟩

/-- **`C13_parses_full` holds** (table `defaults`, every input string). -/
theorem C13_parses_full_proved : C13_parses_full := by
  intro pr hpr pol hn s t h
  exact C13_parses_all .defaults pr hpr pol hn s t (fun c _ hc => by simp [skipOf] at hc) h

/-- **`C13_parses_xml_full` holds** (table `unicode-xml`, every input string without the code points of F19). -/
theorem C13_parses_xml_full_proved : C13_parses_xml_full := by
  intro pr hpr pol hn s t hs h
  exact C13_parses_all .xml pr hpr pol hn s t hs h

/-! ### non-vacuity -/

-- "é%\\ --α~[" and a paragraph break, a lone `]`, a non-ASCII character without rule (kept)
example : encode (builtinCfg .defaults .bracesAfterMacro .keep false)
    ([Char.ofNat 233, '%', '\\', ' ', '-', '-', Char.ofNat 0x3b1, '~', '[', '\n', '\n', ']', Char.ofNat 0x4e7e])
    = some ("\\'e\\%\\textbackslash{} --\\ensuremath{\\alpha}\\textasciitilde{}[\n\n]".toList ++ [Char.ofNat 0x4e7e]) := by
  decide +kernel
example : BraceProt .bracesAfterMacro := Or.inr (Or.inr (Or.inr rfl))
example : NamedPolicy .keep := trivial
-- `unicode-xml`: "ά≠" is admitted (`\'{$\alpha$}\not =`), U+0301 alone is not
example : ∀ c ∈ [Char.ofNat 0x3ac, Char.ofNat 0x2260], c.toNat ∉ skipOf .xml := by decide
example : encode (builtinCfg .xml .braces .keep false) [Char.ofNat 0x3ac, Char.ofNat 0x2260]
    = some "\\'{$\\alpha$}\\not =".toList := by decide +kernel
example : ¬ (∀ c ∈ [Char.ofNat 0x301], c.toNat ∉ skipOf .xml) := by decide
-- the hypothesis of `doc_parses` on a concrete document: `\'e\%\textbackslash{} --` …
example : cwfI Gen.defaultCtx false none none
    [.mac ['\''] [] [.tok 'e'], .mac ['%'] [] [], .mac "textbackslash".toList [] [], .grp [], .ch ' ', .ch '-', .ch '-',
     .mac "ensuremath".toList [] [.grp [.mac "alpha".toList [] []]], .ch '[', .ch '\n', .ch '\n', .ch ']'] = true := by
  decide +kernel
-- a dangling control word is not well formed "whatever follows", and is so in front of a brace
example : cwfI Gen.defaultCtx false none none [.mac "alpha".toList [] []] = false := by decide +kernel
example : cwfI Gen.defaultCtx false none (some '}') [.mac "alpha".toList [] []] = true := by decide +kernel
-- an accent macro without its argument (finding F19) is not well formed
example : cwfI Gen.defaultCtx false none (some '}') [.mac ['\''] [] []] = false := by decide +kernel
-- math inside math is not part of the grammar
example : cwfI Gen.defaultCtx false none none [.math [.math [.ch 'x']]] = false := by decide +kernel

end Pylx.C13
