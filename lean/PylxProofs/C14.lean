/-
  C14 — context database lookups follow category order under every build history.
  Theorems about `Pylx.CtxDb` (heap model of `LatexContextDb`).
-/
import Pylx.CtxDb
import Std.Data.String.ToNat
namespace Pylx
namespace CtxDb

/-! ### Lists, association lists -/

theorem lookup_cons_ite {β : Type} (a k : Str) (b : β) (es : List (Str × β)) :
    List.lookup a ((k, b) :: es) = if a = k then some b else List.lookup a es := by
  rw [List.lookup_cons]
  by_cases h : a = k
  · subst h; simp
  · have : (a == k) = false := by simpa using h
    rw [this]; simp [h]

theorem lookup_assocSet {β : Type} (l : List (Str × β)) (k k' : Str) (v : β) :
    (assocSet l k v).lookup k' = if k' = k then some v else l.lookup k' := by
  induction l with
  | nil =>
    simp only [assocSet, lookup_cons_ite, List.lookup]
  | cons kv t ih =>
    obtain ⟨k0, v0⟩ := kv
    unfold assocSet
    by_cases h0 : k = k0
    · subst h0
      rw [if_pos rfl]
      simp only [lookup_cons_ite]
      by_cases h : k' = k <;> simp [h]
    · rw [if_neg h0]
      simp only [lookup_cons_ite, ih]
      by_cases h : k' = k
      · subst h; simp [h0]
      · simp [h]

theorem dmGet_assocSet (d : DMap) (c c' : Str) (ds : Dicts) :
    dmGet (assocSet d c ds) c' = if c' = c then some ds else dmGet d c' := lookup_assocSet d c c' ds

theorem Ins.apply_map {α β : Type} (f : α → β) (ins : Ins) (x : α) (l : List α) :
    (ins.apply x l).map f = ins.apply (f x) (l.map f) := by
  cases ins <;> simp [Ins.apply, List.map_take, List.map_drop]

theorem Ins.mem_apply {α : Type} (ins : Ins) (x y : α) (l : List α) :
    y ∈ ins.apply x l ↔ y = x ∨ y ∈ l := by
  cases ins with
  | app => simp [Ins.apply, or_comm]
  | «at» i =>
    simp only [Ins.apply, List.mem_append, List.mem_cons]
    constructor
    · rintro (h | h | h)
      · exact Or.inr (List.mem_of_mem_take h)
      · exact Or.inl h
      · exact Or.inr (List.mem_of_mem_drop h)
    · rintro (h | h)
      · exact Or.inr (Or.inl h)
      · rw [← List.take_append_drop i l] at h
        rcases List.mem_append.mp h with h | h
        · exact Or.inl h
        · exact Or.inr (Or.inr h)

theorem Ins.nodup_apply {α : Type} (ins : Ins) (x : α) (l : List α) (hx : x ∉ l) (hl : l.Nodup) :
    (ins.apply x l).Nodup := by
  cases ins with
  | app =>
    simp only [Ins.apply]
    rw [List.nodup_append]
    refine ⟨hl, by simp, ?_⟩
    intro a ha b hb
    simp at hb; subst hb
    intro h; exact hx (h ▸ ha)
  | «at» i =>
    simp only [Ins.apply]
    rw [List.perm_middle.nodup_iff, List.take_append_drop]
    exact List.nodup_cons.mpr ⟨hx, hl⟩

theorem getD_set_self {α : Type} (l : List α) (i : Nat) (x d : α) (h : i < l.length) :
    (l.set i x).getD i d = x := by
  simp [List.getD_eq_getElem?_getD, List.getElem?_set_self h]

theorem getD_set_ne {α : Type} (l : List α) (i j : Nat) (x d : α) (h : i ≠ j) :
    (l.set i x).getD j d = l.getD j d := by
  simp [List.getD_eq_getElem?_getD, List.getElem?_set_ne h]

theorem getD_append_left {α : Type} (l m : List α) (i : Nat) (d : α) (h : i < l.length) :
    (l ++ m).getD i d = l.getD i d := by
  simp [List.getD_eq_getElem?_getD, List.getElem?_append_left h]

theorem getD_append_self {α : Type} (l : List α) (x d : α) :
    (l ++ [x]).getD l.length d = x := by
  simp [List.getD_eq_getElem?_getD]

theorem getElem?_set_some {α : Type} {l : List α} {i j : Nat} {x y : α} (h : (l.set i x)[j]? = some y) :
    (j = i ∧ y = x ∧ i < l.length) ∨ (j ≠ i ∧ l[j]? = some y) := by
  rw [List.getElem?_set] at h
  by_cases hij : i = j
  · subst hij
    by_cases hl : i < l.length
    · simp [hl] at h; exact Or.inl ⟨rfl, h.symm, hl⟩
    · simp [hl] at h
  · rw [if_neg hij] at h
    exact Or.inr ⟨fun e => hij e.symm, h⟩

theorem getElem?_push_some {α : Type} {l : List α} {j : Nat} {x y : α} (h : (l ++ [x])[j]? = some y) :
    (j = l.length ∧ y = x) ∨ (j < l.length ∧ l[j]? = some y) := by
  rw [List.getElem?_append] at h
  by_cases hj : j < l.length
  · rw [if_pos hj] at h; exact Or.inr ⟨hj, h⟩
  · rw [if_neg hj] at h
    have : j - l.length = 0 := by
      cases hh : j - l.length with
      | zero => rfl
      | succ n => rw [hh] at h; simp at h
    rw [this] at h; simp at h
    exact Or.inl ⟨by omega, h.symm⟩

theorem autogenLoop_not_mem (cats : List Str) (f c a : Nat) (h : autogenLoop cats f c = some a) :
    autoName a ∉ cats := by
  induction f generalizing c with
  | zero => simp [autogenLoop] at h
  | succ f ih =>
    unfold autogenLoop at h
    by_cases hc : autoName c ∈ cats
    · rw [if_pos hc] at h; exact ih _ h
    · rw [if_neg hc] at h; simp at h; subst h; exact hc

/-! ### The heap invariant -/

/-- the chain maps of `db` mirror the category list `cats` item for item (as the comment in
    `__init__` promises): the `n`-th map of every kind is the dictionary that `d` holds for the
    `n`-th category -/
def Mirror (cats : List Str) (db : Db) : Prop :=
  ∀ k, (db.maps k).map some = cats.map (fun c => (dmGet db.d c).map (·.get k))

/-- Heap invariant.  `valid`: no dangling list reference; `own`: a category list that is
    referenced by a database that is not frozen is referenced by no other database; `nodup`:
    category names are unique within a database; `mirror` (claimed only when `P` holds, `P` being
    "databases are created without the stray map"): chain maps mirror the category list. -/
structure WF (P : Prop) (h : Heap) : Prop where
  valid : ∀ (i : Nat) (db : Db), h.dbs[i]? = some db → db.catRef < h.lists.length
  own : ∀ (i j : Nat) (dbi dbj : Db), h.dbs[i]? = some dbi → h.dbs[j]? = some dbj → i ≠ j → dbi.frozen = false →
    dbi.catRef ≠ dbj.catRef
  nodup : ∀ (i : Nat) (db : Db), h.dbs[i]? = some db → (h.cats db).Nodup
  mirror : P → ∀ (i : Nat) (db : Db), h.dbs[i]? = some db → Mirror (h.cats db) db

theorem mirror_congr {cats : List Str} {db db' : Db}
    (hd : ∀ c ∈ cats, dmGet db'.d c = dmGet db.d c) (hm : ∀ k, db'.maps k = db.maps k)
    (h : Mirror cats db) : Mirror cats db' := by
  intro k
  rw [hm k, h k]
  apply List.map_congr_left
  intro c hc
  rw [hd c hc]

/-- replacing the record of database `i` by one with the same list reference, not "less frozen",
    and mirroring the same list -/
theorem wf_setDb {P : Prop} {h : Heap} {i : Nat} {db db' : Db} (hw : WF P h) (hi : h.dbs[i]? = some db)
    (href : db'.catRef = db.catRef) (hfr : db'.frozen = false → db.frozen = false)
    (hm : P → Mirror (h.cats db) db → Mirror (h.cats db) db') : WF P (setDb h i db') := by
  have hcats : (setDb h i db').cats db' = h.cats db := by simp [Heap.cats, setDb, href]
  have hcats' : ∀ x : Db, (setDb h i db').cats x = h.cats x := by intro x; simp [Heap.cats, setDb]
  constructor
  · intro j x hj
    simp only [setDb] at hj ⊢
    rcases getElem?_set_some hj with ⟨_, rfl, _⟩ | ⟨_, hj'⟩
    · rw [href]; exact hw.valid i db hi
    · exact hw.valid j x hj'
  · intro a b x y ha hb hab hfa
    simp only [setDb] at ha hb
    rcases getElem?_set_some ha with ⟨rfl, rfl, _⟩ | ⟨hai, ha'⟩
    · rcases getElem?_set_some hb with ⟨rfl, _, _⟩ | ⟨_, hb'⟩
      · exact absurd rfl hab
      · rw [href]; exact hw.own a b db y hi hb' hab (hfr hfa)
    · rcases getElem?_set_some hb with ⟨rfl, rfl, _⟩ | ⟨_, hb'⟩
      · rw [href]; exact hw.own a b x db ha' hi hab hfa
      · exact hw.own a b x y ha' hb' hab hfa
  · intro j x hj
    rw [hcats']
    simp only [setDb] at hj
    rcases getElem?_set_some hj with ⟨_, rfl, _⟩ | ⟨_, hj'⟩
    · have := hw.nodup i db hi
      simpa [Heap.cats, href] using this
    · exact hw.nodup j x hj'
  · intro hp j x hj
    rw [hcats']
    simp only [setDb] at hj
    rcases getElem?_set_some hj with ⟨_, rfl, _⟩ | ⟨_, hj'⟩
    · have := hm hp (hw.mirror hp i db hi)
      simpa [Heap.cats, href] using this
    · exact hw.mirror hp j x hj'

/-- a new database whose category list is a new cell -/
theorem wf_push_fresh {P : Prop} {h : Heap} (hw : WF P h) (newcats : List Str) (nd : Db)
    (href : nd.catRef = h.lists.length) (hnd : newcats.Nodup) (hm : P → Mirror newcats nd) :
    WF P ⟨h.lists ++ [newcats], h.dbs ++ [nd]⟩ := by
  have hold : ∀ (j : Nat) (x : Db), h.dbs[j]? = some x →
      (Heap.cats ⟨h.lists ++ [newcats], h.dbs ++ [nd]⟩ x) = h.cats x := by
    intro j x hj; simp only [Heap.cats]; exact getD_append_left _ _ _ _ (hw.valid j x hj)
  have hnew : Heap.cats ⟨h.lists ++ [newcats], h.dbs ++ [nd]⟩ nd = newcats := by
    simp only [Heap.cats, href]; exact getD_append_self _ _ _
  constructor
  · intro j x hj
    simp only at hj ⊢
    rcases getElem?_push_some hj with ⟨_, rfl⟩ | ⟨_, hj'⟩
    · simp [href]
    · have := hw.valid j x hj'; simp; omega
  · intro a b x y ha hb hab hfa
    simp only at ha hb
    rcases getElem?_push_some ha with ⟨rfl, rfl⟩ | ⟨hal, ha'⟩
    · rcases getElem?_push_some hb with ⟨rfl, _⟩ | ⟨_, hb'⟩
      · exact absurd rfl hab
      · have := hw.valid b y hb'; omega
    · rcases getElem?_push_some hb with ⟨rfl, rfl⟩ | ⟨_, hb'⟩
      · have := hw.valid a x ha'; omega
      · exact hw.own a b x y ha' hb' hab hfa
  · intro j x hj
    simp only at hj
    rcases getElem?_push_some hj with ⟨_, rfl⟩ | ⟨_, hj'⟩
    · rw [hnew]; exact hnd
    · rw [hold j x hj']; exact hw.nodup j x hj'
  · intro hp j x hj
    simp only at hj
    rcases getElem?_push_some hj with ⟨_, rfl⟩ | ⟨_, hj'⟩
    · rw [hnew]; exact hm hp
    · rw [hold j x hj']; exact hw.mirror hp j x hj'

/-- a new frozen database that shares the category list of the frozen database `i` -/
theorem wf_push_shared {P : Prop} {h : Heap} {i : Nat} {db : Db} (hw : WF P h) (hi : h.dbs[i]? = some db)
    (nd : Db) (href : nd.catRef = db.catRef) (hf : db.frozen = true) (hf' : nd.frozen = true)
    (hm : P → Mirror (h.cats db) db → Mirror (h.cats db) nd) :
    WF P { h with dbs := h.dbs ++ [nd] } := by
  have hcats : ∀ x : Db, Heap.cats { h with dbs := h.dbs ++ [nd] } x = h.cats x := fun _ => rfl
  have hnew : h.cats nd = h.cats db := by simp [Heap.cats, href]
  constructor
  · intro j x hj
    simp only at hj ⊢
    rcases getElem?_push_some hj with ⟨_, rfl⟩ | ⟨_, hj'⟩
    · rw [href]; exact hw.valid i db hi
    · exact hw.valid j x hj'
  · intro a b x y ha hb hab hfa
    simp only at ha hb
    rcases getElem?_push_some ha with ⟨rfl, rfl⟩ | ⟨hal, ha'⟩
    · rw [hf'] at hfa; cases hfa
    · rcases getElem?_push_some hb with ⟨rfl, rfl⟩ | ⟨_, hb'⟩
      · rw [href]
        by_cases hai : a = i
        · subst hai
          rw [hi] at ha'; cases ha'
          rw [hf] at hfa; cases hfa
        · exact hw.own a i x db ha' hi hai hfa
      · exact hw.own a b x y ha' hb' hab hfa
  · intro j x hj
    simp only at hj
    rw [hcats]
    rcases getElem?_push_some hj with ⟨_, rfl⟩ | ⟨_, hj'⟩
    · rw [hnew]; exact hw.nodup i db hi
    · exact hw.nodup j x hj'
  · intro hp j x hj
    simp only at hj
    rw [hcats]
    rcases getElem?_push_some hj with ⟨_, rfl⟩ | ⟨_, hj'⟩
    · rw [hnew]; exact hm hp (hw.mirror hp i db hi)
    · exact hw.mirror hp j x hj'

/-- the mutation of `add_context_category` keeps the invariant -/
theorem addCommit_wf {P : Prop} {h : Heap} {i : Nat} {db : Db} (hw : WF P h) (hi : h.dbs[i]? = some db)
    (hf : db.frozen = false) (cnt : Nat) (c : Str) (ds : Dicts) (ins : Ins) (hc : c ∉ h.cats db) :
    WF P (addCommit h i db cnt c ds ins) := by
  have hv := hw.valid i db hi
  have hother : ∀ (j : Nat) (x : Db), j ≠ i → h.dbs[j]? = some x → (addCommit h i db cnt c ds ins).cats x = h.cats x := by
    intro j x hji hj
    have := hw.own i j db x hi hj (fun e => hji e.symm) hf
    simp only [Heap.cats, addCommit]
    exact getD_set_ne _ _ _ _ _ this
  have hself_cats : ∀ x : Db, x.catRef = db.catRef →
      (addCommit h i db cnt c ds ins).cats x = ins.apply c (h.cats db) := by
    intro x hx
    simp only [Heap.cats, addCommit, hx]
    exact getD_set_self _ _ _ _ hv
  constructor
  · intro j x hj
    simp only [addCommit] at hj ⊢
    rw [List.length_set]
    rcases getElem?_set_some hj with ⟨_, rfl, _⟩ | ⟨_, hj'⟩
    · exact hv
    · exact hw.valid j x hj'
  · intro a b x y ha hb hab hfa
    simp only [addCommit] at ha hb
    rcases getElem?_set_some ha with ⟨rfl, rfl, _⟩ | ⟨hai, ha'⟩
    · rcases getElem?_set_some hb with ⟨rfl, _, _⟩ | ⟨_, hb'⟩
      · exact absurd rfl hab
      · exact hw.own a b db y hi hb' hab hf
    · rcases getElem?_set_some hb with ⟨rfl, rfl, _⟩ | ⟨_, hb'⟩
      · exact hw.own a b x db ha' hi hab hfa
      · exact hw.own a b x y ha' hb' hab hfa
  · intro j x hj
    have hj0 := hj
    simp only [addCommit] at hj
    rcases getElem?_set_some hj with ⟨_, rfl, _⟩ | ⟨hji, hj'⟩
    · rw [hself_cats { db with counter := cnt, d := assocSet db.d c ds, mapsM := ins.apply ds.mac db.mapsM, mapsE := ins.apply ds.env db.mapsE, mapsS := ins.apply ds.spc db.mapsS } rfl]
      exact Ins.nodup_apply _ _ _ hc (hw.nodup i db hi)
    · rw [hother j x hji hj']; exact hw.nodup j x hj'
  · intro hp j x hj
    simp only [addCommit] at hj
    rcases getElem?_set_some hj with ⟨_, rfl, _⟩ | ⟨hji, hj'⟩
    · have hm := hw.mirror hp i db hi
      rw [hself_cats { db with counter := cnt, d := assocSet db.d c ds, mapsM := ins.apply ds.mac db.mapsM, mapsE := ins.apply ds.env db.mapsE, mapsS := ins.apply ds.spc db.mapsS } rfl]
      intro k
      rw [Ins.apply_map]
      have hrest : (h.cats db).map (fun c' => (dmGet (assocSet db.d c ds) c').map (·.get k))
          = (h.cats db).map (fun c' => (dmGet db.d c').map (·.get k)) := by
        apply List.map_congr_left
        intro c' hc'
        rw [dmGet_assocSet, if_neg (fun e : c' = c => hc (e ▸ hc'))]
      have hself : (dmGet (assocSet db.d c ds) c).map (·.get k) = some (ds.get k) := by
        rw [dmGet_assocSet, if_pos rfl]; rfl
      simp only [hself]
      rw [hrest, ← hm k]
      cases k <;> simp [Db.maps, Dicts.get, Ins.apply_map]
    · rw [hother j x hji hj']; exact hw.mirror hp j x hj'

theorem wf_counter {P : Prop} {h : Heap} {i : Nat} {db : Db} (hw : WF P h) (hi : h.dbs[i]? = some db) (n : Nat) :
    WF P (setDb h i { db with counter := n }) :=
  wf_setDb hw hi rfl (fun h => h) (fun _ hm => mirror_congr (fun _ _ => rfl) (fun k => by cases k <;> rfl) hm)

theorem pickName_not_mem {cats : List Str} {counter : Nat} {c : Str} {cnt : Nat}
    (h : pickName cats none counter = some (c, cnt)) : c ∉ cats := by
  simp only [pickName, Option.map_eq_some_iff] at h
  obtain ⟨a, ha, he⟩ := h
  cases he
  exact autogenLoop_not_mem _ _ _ _ ha

theorem addCat_wf {P : Prop} {h h' : Heap} {r : Result} (hw : WF P h) (chk : Bool) (i : Nat) (cat : Option Str)
    (ms es ss : List (Str × Spec)) (p : Bool) (b a : Option Str)
    (he : addCat chk h i cat ms es ss p b a = (h', r)) : WF P h' := by
  unfold addCat at he
  split at he
  · cases he; exact hw
  · rename_i db hi
    split at he
    · cases he; exact hw
    · rename_i hf
      split at he
      · cases he; exact hw
      · split at he
        · cases he; exact hw
        · rename_i c cnt hpick
          split at he
          · cases he; exact wf_counter hw hi _
          · rename_i hc
            split at he
            · cases he; exact wf_counter hw hi _
            · cases he
              exact addCommit_wf hw hi (by simpa using hf) _ _ _ _ hc

theorem setUnk_wf {P : Prop} {h h' : Heap} {r : Result} (hw : WF P h) (i : Nat) (k : Kind) (s : Option Spec)
    (he : setUnk h i k s = (h', r)) : WF P h' := by
  unfold setUnk at he
  split at he
  · cases he; exact hw
  · rename_i db hi
    split at he
    · cases he; exact hw
    · split at he <;>
      · cases he
        exact wf_setDb hw hi rfl (fun h => h)
          (fun _ hm => mirror_congr (fun _ _ => rfl) (fun k => by cases k <;> rfl) hm)

theorem freeze_wf {P : Prop} {h h' : Heap} {r : Result} (hw : WF P h) (i : Nat)
    (he : freeze h i = (h', r)) : WF P h' := by
  unfold freeze at he
  split at he
  · cases he; exact hw
  · rename_i db hi
    cases he
    exact wf_setDb hw hi rfl (fun h => by simp at h)
      (fun _ hm => mirror_congr (fun _ _ => rfl) (fun k => by cases k <;> rfl) hm)

theorem filtLoop_wf {P : Prop} {h h' : Heap} (hw : WF P h) (chk : Bool) (d : DMap) (keep excl : List Str)
    (kM kE kS : Bool) (j : Nat) (cs : List Str)
    (he : filtLoop chk d keep excl kM kE kS j cs h = .ok h') : WF P h' := by
  induction cs generalizing h with
  | nil => simp only [filtLoop] at he; cases he; exact hw
  | cons c cs ih =>
    unfold filtLoop at he
    split at he
    · exact ih hw he
    · split at he
      · exact ih hw he
      · split at he
        · cases he
        · split at he
          · rename_i h'' heq
            exact ih (addCat_wf hw _ _ _ _ _ _ _ _ _ heq) he
          · cases he
          · cases he

theorem filtered_wf {P : Prop} {v : Variant} {h h' : Heap} {r : Result} (hP : P → v.stray = false) (hw : WF P h)
    (i : Nat) (keep excl : List Str) (which : List Kind)
    (he : filtered v h i keep excl which = (h', r)) : WF P h' := by
  unfold filtered at he
  split at he
  · cases he; exact hw
  · rename_i db hi
    simp only at he
    split at he
    · rename_i h1 hloop
      cases he
      refine filtLoop_wf (wf_push_fresh hw [] _ rfl List.nodup_nil ?_) _ _ _ _ _ _ _ _ _ hloop
      intro hp k
      cases k <;> simp [newDb, Db.maps, hP hp]
    · cases he; exact hw

theorem mergeTarget_some {cat : Option Str} {cats : List Str} {c0 : Str} (h : mergeTarget cat cats = some c0) :
    cat = none ∧ ∃ rest, cats = c0 :: rest := by
  unfold mergeTarget at h
  split at h
  · rename_i c rest
    split at h
    · cases h; exact ⟨rfl, rest, rfl⟩
    · cases h
  · cases h

theorem extMerge_wf {P : Prop} {h : Heap} {i : Nat} {db : Db} (hw : WF P h) (hi : h.dbs[i]? = some db)
    (hf : db.frozen = true) (c0 : Str) (rest : List Str) (hcats : h.cats db = c0 :: rest)
    (dc nd : Dicts) (um ue us : Option (Option Spec)) :
    WF P (extMerge h db c0 dc nd um ue us) := by
  unfold extMerge
  refine wf_push_shared hw hi _ ?_ hf ?_ ?_
  · rfl
  · rfl
  intro hp hm k
  have hnd := hw.nodup i db hi
  rw [hcats] at hm hnd ⊢
  have hc0 : c0 ∉ rest := (List.nodup_cons.mp hnd).1
  have hk := hm k
  generalize hdc' : (⟨dictUpdate dc.mac nd.mac, dictUpdate dc.env nd.env, dictUpdate dc.spc nd.spc⟩ : Dicts) = dc'
  have hmaps : ∀ x : Db, x.mapsM = dc'.mac :: db.mapsM.drop 1 → x.mapsE = dc'.env :: db.mapsE.drop 1 →
      x.mapsS = dc'.spc :: db.mapsS.drop 1 → x.maps k = dc'.get k :: (db.maps k).drop 1 := by
    intro x h1 h2 h3
    cases k <;> simp [Db.maps, Dicts.get, h1, h2, h3]
  rw [hmaps _ rfl rfl rfl]
  cases hms : db.maps k with
  | nil => rw [hms] at hk; simp at hk
  | cons m0 ms =>
    rw [hms] at hk
    simp only [List.map_cons, List.cons.injEq] at hk
    simp only [List.drop_succ_cons, List.drop_zero, List.map_cons]
    rw [dmGet_assocSet, if_pos rfl, hk.2]
    congr 1
    apply List.map_congr_left
    intro c' hc'
    rw [dmGet_assocSet, if_neg (fun e : c' = c0 => hc0 (e ▸ hc'))]

theorem pickNameExt_not_mem {cats : List Str} {cat : Option Str} {counter : Nat} {c : Str} {pc cc : Nat}
    (hin : optIn cat cats = false) (h : pickNameExt cats cat counter = some (c, pc, cc)) : c ∉ cats := by
  cases cat with
  | some c' =>
    simp only [pickNameExt, Option.some.injEq, Prod.mk.injEq] at h
    simp only [optIn, decide_eq_false_iff_not] at hin
    rw [← h.1]; exact hin
  | none =>
    simp only [pickNameExt, Option.map_eq_some_iff] at h
    obtain ⟨a, ha, he⟩ := h
    cases he
    exact autogenLoop_not_mem _ _ _ _ ha

theorem extNew_wf {P : Prop} {h : Heap} {i : Nat} {db : Db} (hw : WF P h) (hi : h.dbs[i]? = some db)
    (c : Str) (hc : c ∉ h.cats db) (pc cc : Nat) (nd : Dicts) (um ue us : Option (Option Spec)) :
    WF P (extNew h i db c pc cc nd um ue us) := by
  have hw1 := wf_counter hw hi pc
  unfold extNew
  refine wf_push_fresh hw1 (c :: h.cats db) _ rfl (List.nodup_cons.mpr ⟨hc, hw.nodup i db hi⟩) ?_
  intro hp k
  have hk := hw.mirror hp i db hi k
  have hmaps : ∀ x : Db, x.mapsM = nd.mac :: db.mapsM → x.mapsE = nd.env :: db.mapsE →
      x.mapsS = nd.spc :: db.mapsS → x.maps k = nd.get k :: db.maps k := by
    intro x h1 h2 h3
    cases k <;> simp [Db.maps, Dicts.get, h1, h2, h3]
  rw [hmaps _ rfl rfl rfl]
  simp only [List.map_cons]
  rw [dmGet_assocSet, if_pos rfl, hk]
  congr 1
  apply List.map_congr_left
  intro c' hc'
  rw [dmGet_assocSet, if_neg (fun e : c' = c => hc (e ▸ hc'))]

theorem extended_wf {P : Prop} {h h' : Heap} {r : Result} (hw : WF P h) (i : Nat) (cat : Option Str)
    (ms es ss : List (Str × Spec)) (um ue us : Option (Option Spec))
    (he : extended h i cat ms es ss um ue us = (h', r)) : WF P h' := by
  unfold extended at he
  split at he
  · cases he; exact hw
  · rename_i db hi
    split at he
    · cases he; exact hw
    · rename_i hin
      split at he
      · cases he; exact hw
      · rename_i hfr
        have hf : db.frozen = true := by simpa using hfr
        split at he
        · rename_i c0 hmt
          split at he
          · cases he; exact hw
          · cases he
            obtain ⟨_, rest, hrest⟩ := mergeTarget_some hmt
            exact extMerge_wf hw hi hf c0 rest hrest _ _ _ _ _
        · split at he
          · cases he; exact hw
          · rename_i c pc cc hpick
            cases he
            exact extNew_wf hw hi c (pickNameExt_not_mem (by simpa using hin) hpick) _ _ _ _ _ _

theorem step_wf {P : Prop} {v : Variant} {h h' : Heap} {r : Result} (hP : P → v.stray = false) (hw : WF P h)
    (op : Op) (he : step v h op = (h', r)) : WF P h' := by
  cases op with
  | add i cat ms es ss p b a => exact addCat_wf hw _ _ _ _ _ _ _ _ _ he
  | setUnk i k s => exact setUnk_wf hw _ _ _ he
  | freeze i => exact freeze_wf hw _ he
  | filt i keep excl which => exact filtered_wf hP hw _ _ _ _ he
  | ext i cat ms es ss um ue us => exact extended_wf hw _ _ _ _ _ _ _ _ he

theorem init_wf (v : Variant) : WF (v.stray = false) (init v) := by
  constructor
  · intro i db hi
    cases i with
    | zero => simp [init] at hi; subst hi; simp [newDb, init]
    | succ n => simp [init] at hi
  · intro i j x y hi hj hij _
    cases i with
    | zero =>
      cases j with
      | zero => exact absurd rfl hij
      | succ n => simp [init] at hj
    | succ n => simp [init] at hi
  · intro i db hi
    cases i with
    | zero => simp [init] at hi; subst hi; simp [newDb, init, Heap.cats]
    | succ n => simp [init] at hi
  · intro hp i db hi
    cases i with
    | zero =>
      simp [init] at hi; subst hi
      intro k
      cases k <;> simp [newDb, init, Heap.cats, Db.maps, hp]
    | succ n => simp [init] at hi

/-- the heaps that histories of operations produce -/
inductive Reachable (v : Variant) : Heap → Prop
  | init : Reachable v (init v)
  | step {h : Heap} (op : Op) : Reachable v h → Reachable v (step v h op).1

theorem reachable_wf {v : Variant} {h : Heap} (hr : Reachable v h) : WF (v.stray = false) h := by
  induction hr with
  | init => exact init_wf v
  | step op _ ih => exact step_wf (fun hp => hp) ih op rfl

theorem reachable_run {v : Variant} {h : Heap} (hr : Reachable v h) (ops : List Op) : Reachable v (run v h ops) := by
  induction ops generalizing h with
  | nil => exact hr
  | cons op ops ih => exact ih (Reachable.step op hr)

/-! ### Lookups refine "first category, in reported order, that defines the name" -/

/-- the definition of `name` in the first category of the reported order that has one; the
    per-category dictionaries `d[c]` are what `iter_*_specs(categories=[c])` reports -/
def firstDefining (w : View) (k : Kind) (name : Str) : Option Spec :=
  w.cats.findSome? fun c => (dmGet w.d c).bind fun ds => (ds.get k).lookup name

/-- the view-level form of the invariant -/
def ViewMirror (w : View) : Prop :=
  ∀ k, (w.maps k).map some = w.cats.map (fun c => (dmGet w.d c).map (·.get k))

theorem findSome_mirror {ms : List Dict} {cs : List Str} {g : Str → Option Dict}
    (h : ms.map some = cs.map g) (f : Dict → Option Spec) :
    ms.findSome? f = cs.findSome? (fun c => (g c).bind f) := by
  induction ms generalizing cs with
  | nil =>
    cases cs with
    | nil => rfl
    | cons c cs => simp at h
  | cons m ms ih =>
    cases cs with
    | nil => simp at h
    | cons c cs =>
      simp only [List.map_cons, List.cons.injEq] at h
      rw [List.findSome?_cons, List.findSome?_cons, ← h.1, ih h.2]
      rfl

theorem getSpec_of_mirror {w : View} (hm : ViewMirror w) (k : Kind) (name : Str) :
    w.getSpec k name = match firstDefining w k name with
      | some s => some s
      | none => w.unk k := by
  have : chainLookup (w.maps k) name = firstDefining w k name := by
    unfold chainLookup firstDefining
    rw [findSome_mirror (hm k)]
    congr 1
    funext c
    cases dmGet w.d c <;> rfl
  unfold View.getSpec
  rw [this]
  cases firstDefining w k name <;> rfl

theorem viewMirror_of_mirror {h : Heap} {db : Db} (hm : Mirror (h.cats db) db) : ViewMirror (viewOfDb h db) := by
  intro k
  have := hm k
  cases k <;> simpa [viewOfDb, View.maps, Db.maps] using this

/-! ### `test_for_specials`: longest match, first in order on ties -/

/-- `chars` is a non-empty specials sequence that matches `s` at `pos` -/
def Matches (s : Str) (pos : Nat) (chars : Str) : Prop := 0 < chars.length ∧ startsWithAt s chars pos = true

theorem bestFold_spec (s : Str) (pos : Nat) (cs : List (Str × Spec)) (bl : Nat) (b : Option Spec) :
    (cs.foldl (bestStep s pos) (bl, b) = (bl, b) ∧
        ∀ kv ∈ cs, startsWithAt s kv.1 pos = true → kv.1.length ≤ bl) ∨
    (∃ pre chars x post, cs = pre ++ (chars, x) :: post ∧
        cs.foldl (bestStep s pos) (bl, b) = (chars.length, some x) ∧
        startsWithAt s chars pos = true ∧ bl < chars.length ∧
        (∀ kv ∈ pre, startsWithAt s kv.1 pos = true → kv.1.length < chars.length) ∧
        (∀ kv ∈ post, startsWithAt s kv.1 pos = true → kv.1.length ≤ chars.length)) := by
  induction cs generalizing bl b with
  | nil => left; simp
  | cons kv t ih =>
    rw [List.foldl_cons]
    by_cases hstep : kv.1.length > bl ∧ startsWithAt s kv.1 pos = true
    · have h1 : bestStep s pos (bl, b) kv = (kv.1.length, some kv.2) := by
        simp only [bestStep]; rw [if_pos hstep]
      rw [h1]
      rcases ih kv.1.length (some kv.2) with ⟨he, hall⟩ | ⟨pre, chars, x, post, hcs, he, hsw, hlt, hpre, hpost⟩
      · right
        exact ⟨[], kv.1, kv.2, t, rfl, he, hstep.2, hstep.1, by simp, hall⟩
      · right
        refine ⟨kv :: pre, chars, x, post, by simp [hcs], he, hsw, by omega, ?_, hpost⟩
        intro y hy hys
        rcases List.mem_cons.mp hy with rfl | hy
        · exact hlt
        · exact hpre y hy hys
    · have h1 : bestStep s pos (bl, b) kv = (bl, b) := by
        simp only [bestStep]; rw [if_neg hstep]
      rw [h1]
      have hkv : startsWithAt s kv.1 pos = true → kv.1.length ≤ bl := by
        intro hs
        by_cases hl : kv.1.length > bl
        · exact absurd ⟨hl, hs⟩ hstep
        · omega
      rcases ih bl b with ⟨he, hall⟩ | ⟨pre, chars, x, post, hcs, he, hsw, hlt, hpre, hpost⟩
      · left
        refine ⟨he, ?_⟩
        intro y hy hys
        rcases List.mem_cons.mp hy with rfl | hy
        · exact hkv hys
        · exact hall y hy hys
      · right
        refine ⟨kv :: pre, chars, x, post, by simp [hcs], he, hsw, hlt, ?_, hpost⟩
        intro y hy hys
        rcases List.mem_cons.mp hy with rfl | hy
        · have := hkv hys; omega
        · exact hpre y hy hys

/-- the candidates of `test_for_specials`: the specials of every category, in category order -/
def specialsInOrder (w : View) : List (Str × Spec) :=
  w.cats.flatMap fun c => ((dmGet w.d c).map (·.spc)).getD []

theorem candsOf_ok (d : DMap) (cats : List Str) (h : ∀ c ∈ cats, dmGet d c ≠ none) :
    candsOf d cats = .ok (cats.flatMap fun c => ((dmGet d c).map (·.spc)).getD []) := by
  induction cats with
  | nil => rfl
  | cons c cs ih =>
    unfold candsOf
    cases hc : dmGet d c with
    | none => exact absurd hc (h c (by simp))
    | some ds =>
      simp only
      rw [ih (fun c' hc' => h c' (by simp [hc']))]
      simp [List.flatMap_cons, hc]

theorem dmGet_ne_none_of_mirror {w : View} (hm : ViewMirror w) : ∀ c ∈ w.cats, dmGet w.d c ≠ none := by
  intro c hc hn
  have h1 := hm .mac
  have : (dmGet w.d c).map (·.get .mac) ∈ (w.maps .mac).map some := by
    rw [h1]; exact List.mem_map.mpr ⟨c, hc, rfl⟩
  rw [hn] at this
  simp at this

/-! ### Isolation: an operation changes the view of at most its own target -/

def Op.target : Op → Nat
  | .add i _ _ _ _ _ _ _ => i
  | .setUnk i _ _ => i
  | .freeze i => i
  | .filt i _ _ _ => i
  | .ext i _ _ _ _ _ _ _ => i

theorem lt_of_getElem?_some {α : Type} {l : List α} {i : Nat} {x : α} (h : l[i]? = some x) : i < l.length := by
  obtain ⟨hl, _⟩ := List.getElem?_eq_some_iff.mp h
  exact hl

theorem viewOf_setDb_ne (h : Heap) (i j : Nat) (db' : Db) (hij : j ≠ i) :
    viewOf (setDb h i db') j = viewOf h j := by
  simp only [viewOf, setDb]
  rw [List.getElem?_set_ne (fun e => hij e.symm)]
  rfl

theorem viewOf_setDb_counter (h : Heap) (i : Nat) (db : Db) (hi : h.dbs[i]? = some db) (n j : Nat) :
    viewOf (setDb h i { db with counter := n }) j = viewOf h j := by
  by_cases hij : j = i
  · subst hij
    simp only [viewOf, setDb]
    rw [List.getElem?_set_self (lt_of_getElem?_some hi), hi]
    rfl
  · exact viewOf_setDb_ne h i j _ hij

theorem viewOf_push {P : Prop} {h : Heap} (hw : WF P h) (l : List Str) (nd : Db) {j : Nat} {w : View}
    (hv : viewOf h j = some w) : viewOf ⟨h.lists ++ [l], h.dbs ++ [nd]⟩ j = some w := by
  simp only [viewOf, Option.map_eq_some_iff] at hv ⊢
  obtain ⟨db, hj, rfl⟩ := hv
  refine ⟨db, by rw [List.getElem?_append_left (lt_of_getElem?_some hj)]; exact hj, ?_⟩
  simp only [viewOfDb, Heap.cats]
  rw [getD_append_left _ _ _ _ (hw.valid j db hj)]

theorem viewOf_push_dbs {h : Heap} (nd : Db) {j : Nat} {w : View}
    (hv : viewOf h j = some w) : viewOf { h with dbs := h.dbs ++ [nd] } j = some w := by
  simp only [viewOf, Option.map_eq_some_iff] at hv ⊢
  obtain ⟨db, hj, rfl⟩ := hv
  exact ⟨db, by rw [List.getElem?_append_left (lt_of_getElem?_some hj)]; exact hj, rfl⟩

theorem viewOf_addCommit_ne {P : Prop} {h : Heap} {i : Nat} {db : Db} (hw : WF P h) (hi : h.dbs[i]? = some db)
    (hf : db.frozen = false) (cnt : Nat) (c : Str) (ds : Dicts) (ins : Ins) (j : Nat) (hji : j ≠ i) :
    viewOf (addCommit h i db cnt c ds ins) j = viewOf h j := by
  simp only [viewOf, addCommit]
  rw [List.getElem?_set_ne (fun e => hji e.symm)]
  cases hj : h.dbs[j]? with
  | none => rfl
  | some x =>
    have := hw.own i j db x hi hj (fun e => hji e.symm) hf
    simp only [Option.map_some, viewOfDb, Heap.cats]
    rw [getD_set_ne _ _ _ _ _ this]

theorem addCat_iso {P : Prop} {h h' : Heap} {r : Result} (hw : WF P h) (chk : Bool) (i : Nat) (cat : Option Str)
    (ms es ss : List (Str × Spec)) (p : Bool) (b a : Option Str)
    (he : addCat chk h i cat ms es ss p b a = (h', r)) (j : Nat) (hj : j ≠ i ∨ r ≠ .done) :
    viewOf h' j = viewOf h j := by
  unfold addCat at he
  split at he
  · cases he; rfl
  · rename_i db hi
    split at he
    · cases he; rfl
    · rename_i hf
      split at he
      · cases he; rfl
      · split at he
        · cases he; rfl
        · split at he
          · cases he; exact viewOf_setDb_counter h i db hi _ j
          · split at he
            · cases he; exact viewOf_setDb_counter h i db hi _ j
            · cases he
              rcases hj with hj | hj
              · exact viewOf_addCommit_ne hw hi (by simpa using hf) _ _ _ _ j hj
              · exact absurd rfl hj

theorem filtLoop_iso {P : Prop} {h h' : Heap} (hw : WF P h) (chk : Bool) (d : DMap) (keep excl : List Str)
    (kM kE kS : Bool) (jn : Nat) (cs : List Str)
    (he : filtLoop chk d keep excl kM kE kS jn cs h = .ok h') (j : Nat) (hj : j ≠ jn) :
    viewOf h' j = viewOf h j := by
  induction cs generalizing h with
  | nil => simp only [filtLoop] at he; cases he; rfl
  | cons c cs ih =>
    unfold filtLoop at he
    split at he
    · exact ih hw he
    · split at he
      · exact ih hw he
      · split at he
        · cases he
        · split at he
          · rename_i h'' heq
            rw [ih (addCat_wf hw _ _ _ _ _ _ _ _ _ heq) he]
            exact addCat_iso hw _ _ _ _ _ _ _ _ _ heq j (Or.inl hj)
          · cases he
          · cases he

theorem lt_of_viewOf_some {h : Heap} {j : Nat} {w : View} (hv : viewOf h j = some w) : j < h.dbs.length := by
  simp only [viewOf, Option.map_eq_some_iff] at hv
  obtain ⟨db, hj, _⟩ := hv
  exact lt_of_getElem?_some hj

theorem filtered_iso {P : Prop} {v : Variant} {h h' : Heap} {r : Result} (hP : P → v.stray = false) (hw : WF P h)
    (i : Nat) (keep excl : List Str) (which : List Kind)
    (he : filtered v h i keep excl which = (h', r)) {j : Nat} {w : View} (hv : viewOf h j = some w) :
    viewOf h' j = some w := by
  unfold filtered at he
  split at he
  · cases he; exact hv
  · rename_i db hi
    simp only at he
    split at he
    · rename_i h1 hloop
      cases he
      have hw0 : WF P ⟨h.lists ++ [[]], h.dbs ++ [{ newDb v h.lists.length with unkM := db.unkM, unkE := db.unkE, unkS := db.unkS }]⟩ := by
        refine wf_push_fresh hw [] _ rfl List.nodup_nil ?_
        intro hp k
        cases k <;> simp [newDb, Db.maps, hP hp]
      rw [filtLoop_iso hw0 _ _ _ _ _ _ _ _ _ hloop j (Nat.ne_of_lt (lt_of_viewOf_some hv))]
      exact viewOf_push hw _ _ hv
    · cases he; exact hv

theorem extended_iso {P : Prop} {h h' : Heap} {r : Result} (hw : WF P h) (i : Nat) (cat : Option Str)
    (ms es ss : List (Str × Spec)) (um ue us : Option (Option Spec))
    (he : extended h i cat ms es ss um ue us = (h', r)) {j : Nat} {w : View} (hv : viewOf h j = some w) :
    viewOf h' j = some w := by
  unfold extended at he
  split at he
  · cases he; exact hv
  · rename_i db hi
    split at he
    · cases he; exact hv
    · split at he
      · cases he; exact hv
      · split at he
        · split at he
          · cases he; exact hv
          · cases he
            exact viewOf_push_dbs _ hv
        · split at he
          · cases he; exact hv
          · rename_i c pc cc hpick
            cases he
            unfold extNew
            refine viewOf_push (wf_counter hw hi pc) _ _ ?_
            rw [viewOf_setDb_counter h i db hi]; exact hv

theorem step_iso {P : Prop} {v : Variant} {h h' : Heap} {r : Result} (hP : P → v.stray = false) (hw : WF P h)
    (op : Op) (he : step v h op = (h', r)) {j : Nat} {w : View} (hv : viewOf h j = some w)
    (hj : j ≠ op.target ∨ r ≠ .done) : viewOf h' j = some w := by
  cases op with
  | add i cat ms es ss p b a =>
    rw [addCat_iso hw _ _ _ _ _ _ _ _ _ he j hj]; exact hv
  | setUnk i k s =>
    simp only [step, setUnk] at he
    split at he
    · cases he; exact hv
    · split at he
      · cases he; exact hv
      · rcases hj with hj | hj
        · split at he <;> (cases he; rw [viewOf_setDb_ne h i j _ hj]; exact hv)
        · split at he <;> (cases he; exact absurd rfl hj)
  | freeze i =>
    simp only [step, freeze] at he
    split at he
    · cases he; exact hv
    · cases he
      rcases hj with hj | hj
      · rw [viewOf_setDb_ne h i j _ hj]; exact hv
      · exact absurd rfl hj
  | filt i keep excl which => exact filtered_iso hP hw _ _ _ _ he hv
  | ext i cat ms es ss um ue us => exact extended_iso hw _ _ _ _ _ _ _ _ he hv

/-! ### Filtering always succeeds (repaired code) -/

theorem addCat_filt_ok {h : Heap} {j : Nat} {ndb : Db} (hj : h.dbs[j]? = some ndb) (hf : ndb.frozen = false)
    (hv : ndb.catRef < h.lists.length) (c : Str) (hc : c ∉ h.cats ndb) (ms es ss : List (Str × Spec)) :
    ∃ h' ndb', addCat false h j (some c) ms es ss false none none = (h', .done) ∧ h'.dbs[j]? = some ndb' ∧
      ndb'.frozen = false ∧ ndb'.catRef < h'.lists.length ∧ h'.cats ndb' = h.cats ndb ++ [c] := by
  refine ⟨addCommit h j ndb ndb.counter c ⟨dictFromList ms, dictFromList es, dictFromList ss⟩ .app,
    { ndb with
      counter := ndb.counter,
      d := assocSet ndb.d c ⟨dictFromList ms, dictFromList es, dictFromList ss⟩,
      mapsM := Ins.app.apply (dictFromList ms) ndb.mapsM,
      mapsE := Ins.app.apply (dictFromList es) ndb.mapsE,
      mapsS := Ins.app.apply (dictFromList ss) ndb.mapsS }, ?_, ?_, ?_, ?_, ?_⟩
  · simp only [addCat, hj, hf, pickName, nTruthy, truthy, chooseIns]
    simp [hc]
  · simp only [addCommit]
    exact List.getElem?_set_self (lt_of_getElem?_some hj)
  · exact hf
  · simpa [addCommit] using hv
  · simp only [addCommit, Heap.cats]
    rw [getD_set_self _ _ _ _ hv]
    rfl

/-- the categories `filtered_context(keep_categories=keep, exclude_categories=excl)` keeps -/
def keptBy (keep excl : List Str) (c : Str) : Bool :=
  !(decide (keep ≠ [] ∧ c ∉ keep)) && !(decide (excl ≠ [] ∧ c ∈ excl))

theorem filtLoop_ok (d : DMap) (keep excl : List Str) (kM kE kS : Bool) (j : Nat) (cs : List Str)
    (hnd : cs.Nodup) (hd : ∀ c ∈ cs, dmGet d c ≠ none) {h : Heap} {ndb : Db}
    (hj : h.dbs[j]? = some ndb) (hf : ndb.frozen = false) (hv : ndb.catRef < h.lists.length)
    (hdis : ∀ c ∈ cs, c ∉ h.cats ndb) :
    ∃ h' ndb', filtLoop false d keep excl kM kE kS j cs h = .ok h' ∧ h'.dbs[j]? = some ndb' ∧
      ndb'.frozen = false ∧ h'.cats ndb' = h.cats ndb ++ cs.filter (keptBy keep excl) := by
  induction cs generalizing h ndb with
  | nil => exact ⟨h, ndb, rfl, hj, hf, by simp⟩
  | cons c cs ih =>
    have hnd' := (List.nodup_cons.mp hnd)
    have hrest := ih hnd'.2 (fun c' hc' => hd c' (by simp [hc'])) hj hf hv (fun c' hc' => hdis c' (by simp [hc']))
    unfold filtLoop
    split
    · rename_i hk
      have : keptBy keep excl c = false := by simp [keptBy, hk]
      rw [List.filter_cons, this]
      exact hrest
    · rename_i hk
      split
      · rename_i hx
        have : keptBy keep excl c = false := by simp [keptBy, hx]
        rw [List.filter_cons, this]
        exact hrest
      · rename_i hx
        have hkept : keptBy keep excl c = true := by simp only [keptBy, hk, hx]; rfl
        cases hdc : dmGet d c with
        | none => exact absurd hdc (hd c (by simp))
        | some ds =>
          simp only
          obtain ⟨h', ndb', heq, hj', hf', hv', hcats'⟩ :=
            addCat_filt_ok hj hf hv c (hdis c (by simp)) (if kM then ds.mac else []) (if kE then ds.env else [])
              (if kS then ds.spc else [])
          rw [heq]
          simp only
          have hdis' : ∀ c' ∈ cs, c' ∉ h'.cats ndb' := by
            intro c' hc'
            rw [hcats']
            simp only [List.mem_append, List.mem_singleton, not_or]
            exact ⟨hdis c' (by simp [hc']), fun e => hnd'.1 (e ▸ hc')⟩
          obtain ⟨h'', ndb'', hok, hj'', hf'', hc''⟩ :=
            ih hnd'.2 (fun c' hc' => hd c' (by simp [hc'])) hj' hf' hv' hdis'
          refine ⟨h'', ndb'', hok, hj'', hf'', ?_⟩
          rw [hc'', hcats', List.filter_cons, hkept]
          simp

/-! ## The property theorems -/

/-- the specification of a lookup: the definition in the first category of the reported order
    that defines the name, otherwise the configured unknown spec -/
def lookupSpec (w : View) (k : Kind) (name : Str) : Option Spec :=
  match firstDefining w k name with
  | some s => some s
  | none => w.unk k

/-- a concrete history used by the examples: append A, append B, insert C before B, freeze,
    extend (automatic category), filter the extension, extend the extension (merge branch) -/
def sampleHistory : List Op := [
  .add 0 (some ['A']) [(['x'], 1)] [] [(['~'], 11)] false none none,
  .add 0 (some ['B']) [(['x'], 2), (['y'], 4)] [] [(['~', '~'], 12)] false none none,
  .add 0 (some ['C']) [(['x'], 3)] [] [] false (some ['B']) none,
  .freeze 0,
  .ext 0 none [(['y'], 5)] [] [] none none none,
  .filt 1 [] [['A']] [],
  .ext 1 none [(['z'], 6)] [] [] none none none ]

/-- **C14_inv.**  After every history (repaired code), in every database that exists — built
    directly or derived by any chain of `filtered_context` / `extended_with` — the chain maps of
    every kind mirror the category list item for item, category names are unique, the list
    reference is valid, and a database that is not frozen shares its category list with nobody. -/
theorem C14_inv {h : Heap} (hr : Reachable repaired h) {i : Nat} {db : Db} (hi : h.dbs[i]? = some db) :
    Mirror (h.cats db) db ∧ (h.cats db).Nodup ∧ db.catRef < h.lists.length ∧
    (∀ (j : Nat) (dbj : Db), h.dbs[j]? = some dbj → j ≠ i → db.frozen = false → db.catRef ≠ dbj.catRef) :=
  have hw := reachable_wf hr
  ⟨hw.mirror rfl i db hi, hw.nodup i db hi, hw.valid i db hi,
   fun j dbj hj hji hf => hw.own i j db dbj hi hj (Ne.symm hji) hf⟩

example : ∃ db, (run repaired (init repaired) sampleHistory).dbs[3]? = some db ∧
    (run repaired (init repaired) sampleHistory).cats db = [autoName 0, ['A'], ['C'], ['B']] := by
  refine ⟨_, rfl, ?_⟩; decide +kernel

theorem reachable_view_mirror {h : Heap} (hr : Reachable repaired h) {i : Nat} {w : View}
    (hv : viewOf h i = some w) : ViewMirror w ∧ w.cats.Nodup := by
  simp only [viewOf, Option.map_eq_some_iff] at hv
  obtain ⟨db, hi, rfl⟩ := hv
  obtain ⟨hm, hn, _, _⟩ := C14_inv hr hi
  exact ⟨viewMirror_of_mirror hm, hn⟩

/-- **C14_lookup.**  After every history (repaired code), every database answers
    `get_macro_spec` / `get_environment_spec` / `get_specials_spec` for every name with the
    definition of the first category, in the order `categories()` reports, that defines the name,
    and otherwise with the configured unknown spec. -/
theorem C14_lookup {h : Heap} (hr : Reachable repaired h) {i : Nat} {w : View} (hv : viewOf h i = some w)
    (k : Kind) (name : Str) : w.getSpec k name = lookupSpec w k name :=
  getSpec_of_mirror (reachable_view_mirror hr hv).1 k name

example : ∃ w, viewOf (run repaired (init repaired) sampleHistory) 0 = some w ∧
    w.cats = [['A'], ['C'], ['B']] ∧ w.getSpec .mac ['x'] = some 1 ∧ w.getSpec .mac ['y'] = some 4 ∧
    w.getSpec .mac ['z'] = none := by
  refine ⟨_, rfl, ?_⟩; decide +kernel

/-- **C14_specials.**  `test_for_specials(s, pos)` never fails and returns the longest specials
    sequence, among those of all categories in reported order, that matches at `pos`; on equal
    length the first in that order; `None` exactly when nothing matches. -/
theorem C14_specials {h : Heap} (hr : Reachable repaired h) {i : Nat} {w : View} (hv : viewOf h i = some w)
    (s : Str) (pos : Nat) :
    ∃ r, w.testForSpecials s pos = .ok r ∧
      (r = none → ∀ kv ∈ specialsInOrder w, ¬ Matches s pos kv.1) ∧
      (∀ x, r = some x → ∃ pre chars post, specialsInOrder w = pre ++ (chars, x) :: post ∧
        Matches s pos chars ∧
        (∀ kv ∈ pre, Matches s pos kv.1 → kv.1.length < chars.length) ∧
        (∀ kv ∈ post, Matches s pos kv.1 → kv.1.length ≤ chars.length)) := by
  have hm := (reachable_view_mirror hr hv).1
  have hc := candsOf_ok w.d w.cats (dmGet_ne_none_of_mirror hm)
  unfold View.testForSpecials
  rw [hc]
  simp only
  rcases bestFold_spec s pos (specialsInOrder w) 0 none with ⟨he, hall⟩ | ⟨pre, chars, x, post, hcs, he, hsw, hlt, hpre, hpost⟩
  · refine ⟨none, ?_, ?_, ?_⟩
    · unfold specialsInOrder at he; rw [he]
    · intro _ kv hkv hmt
      have := hall kv hkv hmt.2
      have := hmt.1
      omega
    · intro x hx; cases hx
  · refine ⟨some x, ?_, ?_, ?_⟩
    · unfold specialsInOrder at he; rw [he]
    · intro hx; cases hx
    · intro x' hx'
      cases hx'
      exact ⟨pre, chars, post, hcs, ⟨by omega, hsw⟩, fun kv hkv hmt => hpre kv hkv hmt.2,
        fun kv hkv hmt => hpost kv hkv hmt.2⟩

example : ∃ w, viewOf (run repaired (init repaired) sampleHistory) 0 = some w ∧
    (w.testForSpecials ['a', '~', '~'] 1).toOption = some (some 12) ∧
    (w.testForSpecials ['a', '~', '~'] 2).toOption = some (some 11) ∧
    (w.testForSpecials ['a', '~', '~'] 0).toOption = some none := by
  refine ⟨_, rfl, ?_⟩; decide +kernel

/-- **C14_isolation.**  (Both variants of the code.)  An operation changes the view — category
    order, dictionaries, chain maps, frozen flag, unknown specs, hence every answer — of no
    database other than the target of a successful mutator; in particular `filtered_context` and
    `extended_with` leave the database they derive from, and a failed operation leaves every
    database, exactly as it was. -/
theorem C14_isolation {v : Variant} {h : Heap} (hr : Reachable v h) (op : Op) {h' : Heap} {r : Result}
    (he : step v h op = (h', r)) {j : Nat} {w : View} (hv : viewOf h j = some w)
    (hj : j ≠ op.target ∨ r ≠ .done) : viewOf h' j = some w :=
  step_iso (fun hp => hp) (reachable_wf hr) op he hv hj

/-- all answers are functions of the view, so they are unchanged too -/
theorem C14_isolation_answers {v : Variant} {h : Heap} (hr : Reachable v h) (op : Op) {h' : Heap} {r : Result}
    (he : step v h op = (h', r)) {j : Nat} {w : View} (hv : viewOf h j = some w)
    (hj : j ≠ op.target ∨ r ≠ .done) :
    ∃ w', viewOf h' j = some w' ∧ w'.cats = w.cats ∧ (∀ k n, w'.getSpec k n = w.getSpec k n) ∧
      (∀ s p, w'.testForSpecials s p = w.testForSpecials s p) ∧ (∀ k sel, w'.iterSpecs k sel = w.iterSpecs k sel) :=
  ⟨w, C14_isolation hr op he hv hj, rfl, fun _ _ => rfl, fun _ _ => rfl, fun _ _ => rfl⟩

example : ∃ w, viewOf (run repaired (init repaired) (sampleHistory.take 4)) 0 = some w ∧
    (step repaired (run repaired (init repaired) (sampleHistory.take 4)) (.ext 0 none [(['y'], 5)] [] [] none none none)).2
      = .created 1 := by
  refine ⟨_, rfl, ?_⟩; decide +kernel

/-- **C14_frozen.**  A frozen database refuses modification: `add_context_category` (whatever
    the arguments) and `set_unknown_*_spec` raise `RuntimeError` and the heap is unchanged. -/
theorem C14_frozen (v : Variant) {h : Heap} {i : Nat} {db : Db} (hi : h.dbs[i]? = some db) (hf : db.frozen = true) :
    (∀ cat ms es ss p b a, step v h (.add i cat ms es ss p b a) = (h, .raised .runtimeError)) ∧
    (∀ k s, step v h (.setUnk i k s) = (h, .raised .runtimeError)) := by
  constructor
  · intro cat ms es ss p b a
    simp [step, addCat, hi, hf]
  · intro k s
    simp [step, setUnk, hi, hf]

example : ∃ db, (run repaired (init repaired) sampleHistory).dbs[1]? = some db ∧ db.frozen = true :=
  ⟨_, rfl, by decide +kernel⟩

/-- **C14_closure.**  Whatever operation comes next — in particular `filtered_context` or
    `extended_with` applied to a database that was itself derived — the resulting heap is again
    reachable, so every database in it, the new one included, satisfies the invariant and the
    lookup refinement. -/
theorem C14_closure {h : Heap} (hr : Reachable repaired h) (op : Op) :
    Reachable repaired (step repaired h op).1 ∧
    ∀ (i : Nat) (w : View), viewOf (step repaired h op).1 i = some w →
      ViewMirror w ∧ w.cats.Nodup ∧ ∀ k name, w.getSpec k name = lookupSpec w k name := by
  have hr' := Reachable.step op hr
  refine ⟨hr', ?_⟩
  intro i w hv
  obtain ⟨hm, hn⟩ := reachable_view_mirror hr' hv
  exact ⟨hm, hn, fun k name => C14_lookup hr' hv k name⟩

/-- **C14_filtered_succeeds.**  (Repaired code.)  `filtered_context` never raises, on any
    database that exists — also not on one with automatically named categories — and creates
    the next database, which is not frozen and reports exactly the kept categories, in the
    parent's order. -/
theorem C14_filtered_succeeds {h : Heap} (hr : Reachable repaired h) {i : Nat} {db : Db}
    (hi : h.dbs[i]? = some db) (keep excl : List Str) (which : List Kind) :
    ∃ h', step repaired h (.filt i keep excl which) = (h', .created h.dbs.length) ∧
      ∃ w, viewOf h' h.dbs.length = some w ∧ w.frozen = false ∧
        w.cats = (h.cats db).filter (keptBy keep excl) := by
  obtain ⟨hm, hn, _, _⟩ := C14_inv hr hi
  have hd := dmGet_ne_none_of_mirror (viewMirror_of_mirror hm)
  simp only [step, filtered, hi]
  have hj : (h.dbs ++ [{ newDb repaired h.lists.length with unkM := db.unkM, unkE := db.unkE, unkS := db.unkS }])[h.dbs.length]?
      = some { newDb repaired h.lists.length with unkM := db.unkM, unkE := db.unkE, unkS := db.unkS } := by
    simp
  obtain ⟨h', ndb', hok, hj', hf', hc'⟩ := filtLoop_ok db.d keep excl (which.isEmpty || which.contains .mac)
    (which.isEmpty || which.contains .env) (which.isEmpty || which.contains .spc) h.dbs.length (h.cats db) hn hd
    (h := ⟨h.lists ++ [[]], h.dbs ++ [{ newDb repaired h.lists.length with unkM := db.unkM, unkE := db.unkE, unkS := db.unkS }]⟩)
    hj rfl (by simp [newDb]) (by intro c _; simp [Heap.cats, newDb])
  refine ⟨h', ?_, viewOfDb h' ndb', ?_, hf', ?_⟩
  · show (match filtLoop false _ _ _ _ _ _ _ _ _ with
      | .ok h1 => (h1, Result.created h.dbs.length)
      | .error e => (h, Result.raised e)) = _
    rw [hok]
  · simp [viewOf, hj']
  · show h'.cats ndb' = _
    rw [hc']
    simp [Heap.cats, newDb]

example : (step repaired (run repaired (init repaired) sampleHistory) (.filt 3 [] [] [])).2 = .created 4 := by
  decide +kernel

/-- **C14_extended_named.**  `extended_with(category=c)` on a frozen database that has no
    category `c` succeeds; the new database is frozen and reports `c` before the parent's
    categories. -/
theorem C14_extended_named {h : Heap} {i : Nat} {db : Db} (hi : h.dbs[i]? = some db) (hf : db.frozen = true)
    (c : Str) (hc : c ∉ h.cats db) (ms es ss : List (Str × Spec)) (um ue us : Option (Option Spec)) (v : Variant) :
    ∃ h', step v h (.ext i (some c) ms es ss um ue us) = (h', .created h.dbs.length) ∧
      ∃ w, viewOf h' h.dbs.length = some w ∧ w.cats = c :: h.cats db ∧ w.frozen = true := by
  refine ⟨extNew h i db c db.counter db.counter ⟨dictFromList ms, dictFromList es, dictFromList ss⟩ um ue us, ?_, ?_⟩
  · simp [step, extended, hi, hf, optIn, hc, mergeTarget, pickNameExt]
  · simp only [viewOf, extNew]
    have : (h.dbs.set i { db with counter := db.counter }).length = h.dbs.length := by simp
    rw [← this, List.getElem?_concat_length]
    refine ⟨_, rfl, ?_, rfl⟩
    simp only [viewOfDb, Heap.cats]
    exact getD_append_self _ _ _

/-! ### The naming loop always finds a name; `extended_with` always succeeds on a frozen database -/

theorem autoName_inj {a b : Nat} (h : autoName a = autoName b) : a = b := by
  unfold autoName at h
  exact Nat.repr_injective (String.toList_inj.mp (List.append_cancel_left h))

theorem autogenLoop_none {cats : List Str} {f c : Nat} (h : autogenLoop cats f c = none) :
    ∀ k, k < f → autoName (c + k) ∈ cats := by
  induction f generalizing c with
  | zero => intro k hk; omega
  | succ f ih =>
    unfold autogenLoop at h
    by_cases hc : autoName c ∈ cats
    · rw [if_pos hc] at h
      intro k hk
      cases k with
      | zero => simpa using hc
      | succ k =>
        have := ih h k (by omega)
        rwa [show c + (k + 1) = c + 1 + k by omega]
    · rw [if_neg hc] at h; cases h

/-- `cats.length + 1` iterations suffice: among that many distinct names one is free -/
theorem autogenLoop_some (cats : List Str) (c : Nat) : ∃ a, autogenLoop cats (cats.length + 1) c = some a := by
  cases h : autogenLoop cats (cats.length + 1) c with
  | some a => exact ⟨a, rfl⟩
  | none =>
    exfalso
    have hall := autogenLoop_none h
    have hnd : ((List.range (cats.length + 1)).map (fun k => autoName (c + k))).Nodup := by
      refine List.Pairwise.map _ ?_ List.nodup_range
      intro a b hab he
      exact hab (by have := autoName_inj he; omega)
    have hsub : ((List.range (cats.length + 1)).map (fun k => autoName (c + k))) ⊆ cats := by
      intro x hx
      obtain ⟨k, hk, rfl⟩ := List.mem_map.mp hx
      exact hall k (List.mem_range.mp hk)
    have := hnd.length_le_of_subset hsub
    simp at this
    omega

/-- **C14_extended_succeeds.**  (Repaired code.)  `extended_with` on a frozen database —
    whether built directly or itself derived — with a category that is `None` or not yet present
    always succeeds (new-category branch and merge branch) and the result is frozen. -/
theorem C14_extended_succeeds {h : Heap} (hr : Reachable repaired h) {i : Nat} {db : Db}
    (hi : h.dbs[i]? = some db) (hf : db.frozen = true) (cat : Option Str) (hc : optIn cat (h.cats db) = false)
    (ms es ss : List (Str × Spec)) (um ue us : Option (Option Spec)) :
    ∃ h', step repaired h (.ext i cat ms es ss um ue us) = (h', .created h.dbs.length) ∧
      ∃ w, viewOf h' h.dbs.length = some w ∧ w.frozen = true := by
  obtain ⟨hm, _, _, _⟩ := C14_inv hr hi
  have hd := dmGet_ne_none_of_mirror (viewMirror_of_mirror hm)
  cases hmt : mergeTarget cat (h.cats db) with
  | some c0 =>
    obtain ⟨_, rest, hrest⟩ := mergeTarget_some hmt
    have hc0 : dmGet db.d c0 ≠ none := hd c0 (by simp [viewOfDb, hrest])
    cases hdc : dmGet db.d c0 with
    | none => exact absurd hdc hc0
    | some dc =>
      refine ⟨extMerge h db c0 dc ⟨dictFromList ms, dictFromList es, dictFromList ss⟩ um ue us, ?_, ?_⟩
      · simp [step, extended, hi, hf, hc, hmt, hdc]
      · simp only [viewOf, extMerge]
        rw [List.getElem?_concat_length]
        exact ⟨_, rfl, rfl⟩
  | none =>
    have hp : ∃ c pc cc, pickNameExt (h.cats db) cat db.counter = some (c, pc, cc) := by
      cases cat with
      | some c => exact ⟨c, _, _, rfl⟩
      | none =>
        obtain ⟨a, ha⟩ := autogenLoop_some (h.cats db) db.counter
        exact ⟨autoName a, a, a + 1, by simp [pickNameExt, ha]⟩
    obtain ⟨c, pc, cc, hp⟩ := hp
    refine ⟨extNew h i db c pc cc ⟨dictFromList ms, dictFromList es, dictFromList ss⟩ um ue us, ?_, ?_⟩
    · simp [step, extended, hi, hf, hc, hmt, hp]
    · simp only [viewOf, extNew]
      have : (h.dbs.set i { db with counter := pc }).length = h.dbs.length := by simp
      rw [← this, List.getElem?_concat_length]
      exact ⟨_, rfl, rfl⟩

example : (step repaired (run repaired (init repaired) sampleHistory) (.ext 3 none [] [] [] none none none)).2
    = .created 4 := by decide +kernel

/-- **C14_extension_answers.**  In the database created by the new-category branch of
    `extended_with`, the definitions given to the call win, every other name is answered as the
    parent answers it, and only then the (possibly overridden) unknown spec applies. -/
theorem C14_extension_answers {h : Heap} {i : Nat} {db : Db} (c : Str) (pc cc : Nat) (nd : Dicts)
    (um ue us : Option (Option Spec)) (k : Kind) (name : Str) :
    ∃ w, viewOf (extNew h i db c pc cc nd um ue us) (h.dbs.set i { db with counter := pc }).length = some w ∧
      w.cats = c :: h.cats db ∧
      w.getSpec k name =
        match (nd.get k).lookup name with
        | some s => some s
        | none =>
          match chainLookup (db.maps k) name with
          | some s => some s
          | none => ovr (match k with | .mac => um | .env => ue | .spc => us) ((viewOfDb h db).unk k) := by
  simp only [viewOf, extNew]
  rw [List.getElem?_concat_length]
  refine ⟨_, rfl, ?_, ?_⟩
  · simp only [viewOfDb, Heap.cats]
    exact getD_append_self _ _ _
  · cases k <;>
    · simp only [View.getSpec, viewOfDb, View.maps, View.unk, chainLookup, Dicts.get, Db.maps, List.findSome?_cons]
      cases List.lookup name _ <;> rfl

/-! ### The code as found violates the property (kernel-checked witnesses) -/

/-- append A, append B, insert C before B — all three define macro `x` -/
def witnessOrder : List Op := [
  .add 0 (some ['A']) [(['x'], 1)] [] [] false none none,
  .add 0 (some ['B']) [(['x'], 2)] [] [] false none none,
  .add 0 (some ['C']) [(['x'], 3)] [] [] false (some ['B']) none ]

/-- **F11.**  With the stray first map of `ChainMap({})`, after *append A, append B, insert C
    before B* the database reports the order `[A, C, B]` but answers the lookup of `x` from `C`
    (spec 3) although `A`, first in the reported order, defines it (spec 1). -/
theorem C14_asIs_order_violated :
    ∃ w, viewOf (run asIs (init asIs) witnessOrder) 0 = some w ∧
      w.cats = [['A'], ['C'], ['B']] ∧ w.getSpec .mac ['x'] = some 3 ∧ lookupSpec w .mac ['x'] = some 1 := by
  refine ⟨_, rfl, ?_⟩; decide +kernel

/-- hence the lookup theorem is false of the code as found -/
theorem C14_asIs_lookup_false :
    ¬ ∀ (h : Heap), Reachable asIs h → ∀ (i : Nat) (w : View), viewOf h i = some w →
        ∀ k name, w.getSpec k name = lookupSpec w k name := by
  intro hall
  obtain ⟨w, hv, _, h3, h1⟩ := C14_asIs_order_violated
  have := hall _ (reachable_run Reachable.init witnessOrder) 0 w hv .mac ['x']
  rw [h3, h1] at this
  cases this

/-- the repaired code answers the same history from `A` -/
example : ∃ w, viewOf (run repaired (init repaired) witnessOrder) 0 = some w ∧
    w.cats = [['A'], ['C'], ['B']] ∧ w.getSpec .mac ['x'] = some 1 := by
  refine ⟨_, rfl, ?_⟩; decide +kernel

/-- **F26.**  In the code as found `filtered_context` raises `ValueError` on a database that has
    an automatically named category (here: after `add_context_category(None, …)`; the same
    happens on every result of `extended_with(category=None)`), so derived databases cannot be
    filtered. -/
theorem C14_asIs_filtered_raises :
    (step asIs (run asIs (init asIs) [.add 0 none [(['x'], 1)] [] [] false none none]) (.filt 0 [] [] [])).2
      = .raised .valueError ∧
    (step asIs (run asIs (init asIs) [.freeze 0, .ext 0 none [(['x'], 1)] [] [] none none none]) (.filt 1 [] [] [])).2
      = .raised .valueError := by
  constructor <;> decide +kernel

/-- hence "filtering always succeeds" is false of the code as found -/
theorem C14_asIs_filtered_false :
    ¬ ∀ (h : Heap), Reachable asIs h → ∀ (i : Nat) (db : Db), h.dbs[i]? = some db →
        ∃ h' j, step asIs h (.filt i [] [] []) = (h', .created j) := by
  intro hall
  obtain ⟨h', j, he⟩ := hall _ (reachable_run Reachable.init [.add 0 none [(['x'], 1)] [] [] false none none]) 0 _ rfl
  have h2 := C14_asIs_filtered_raises.1
  rw [he] at h2
  cases h2

end CtxDb
end Pylx
