/-
  C05BalDoc — the counts of `C05BalScan` on the source text of a document of the grammar (`Doc.Core` fragment), and
  on the same text with one structural delimiter injected at an item or argument boundary of any nesting depth:
  the well-formed text is balanced for every class, the faulty text is off by exactly the weight of the fault.
  With `C05BalParse.unbalanced_rejected`: every such faulty document is rejected by the strict parser.
-/
import PylxProofs.C05BalParse
namespace Pylx
namespace C05Bal
open Doc

/-! ### arithmetic of `Rel` by cases on the class -/

theorem rel_dollar (x y : Int) : Rel .dollar x y ↔ (2 : Int) ∣ x - y := Iff.rfl

theorem rel_other {k : Sym} (hk : k ≠ .dollar) (x y : Int) : Rel k x y ↔ x = y := by
  constructor
  · exact Rel.eq_of_ne_dollar hk
  · exact Rel.of_eq

/-! ### counts of pieces of source text -/

section pieces
variable (ctx : Ctx) (k : Sym)

theorem textChar_plain {c : Char} (h : isTextChar c = true) : plainCh c = true := by
  obtain ⟨h1, h2, h3, h4, h5, _⟩ := C02.textChar_ne h
  exact plainCh_of_ne h2 h3 h4 h5 h1

theorem xdelim_plain {c : Char} (h : isXDelim c = true) : plainCh c = true := by
  unfold plainCh
  simp only [Bool.and_eq_true, bne_iff_ne, ne_eq]
  refine ⟨⟨⟨⟨?_, ?_⟩, ?_⟩, ?_⟩, ?_⟩ <;> (intro e; subst e; revert h; decide)

theorem cnt_text {t : Str} (h : t.all isTextChar = true) (r : Str) : cnt ctx k .n (t ++ r) = cnt ctx k .n r :=
  cnt_plains ctx k (fun c hc => textChar_plain (List.all_eq_true.mp h c hc)) r

theorem cnt_isWs {w : Str} (h : isWs w = true) (r : Str) : cnt ctx k .n (w ++ r) = cnt ctx k .n r :=
  cnt_ws ctx k (fun c hc => List.all_eq_true.mp h c hc) r

/-- the text of a comment line is skipped up to its newline -/
theorem cnt_com_skip : ∀ (text : Str), text.contains '\n' = false → ∀ r, cnt ctx k .com (text ++ '\n' :: r) = cnt ctx k .n r := by
  intro text
  induction text with
  | nil => intro _ r; rw [List.nil_append, cnt, if_pos rfl]
  | cons c text ih =>
    intro h r
    have h' : c ≠ '\n' ∧ text.contains '\n' = false := by
      simp only [List.contains_cons, Bool.or_eq_false_iff, beq_eq_false_iff_ne, ne_eq] at h
      exact ⟨fun e => h.1 e.symm, h.2⟩
    rw [List.cons_append, cnt, if_neg h'.1]
    exact ih h'.2 r

theorem cnt_comment_item {text tail : Str} (h1 : text.contains '\n' = false) (h2 : tail.head? = some '\n')
    (h3 : isWs tail = true) (r : Str) : cnt ctx k .n ('%' :: (text ++ (tail ++ r))) = cnt ctx k .n r := by
  cases tail with
  | nil => cases h2
  | cons c tail =>
    have hc : c = '\n' := by simpa using h2
    subst hc
    have h3' : isWs tail = true := by
      simp only [isWs, List.all_cons, Bool.and_eq_true] at h3
      exact h3.2
    rw [cnt_comment, List.cons_append, cnt_com_skip ctx k text h1, cnt_isWs ctx k h3']

theorem space_not_alpha {c : Char} (h : isPySpace c = true) : isAsciiAlpha c = false := by
  cases ha : isAsciiAlpha c with
  | false => rfl
  | true =>
    exfalso
    have hr := C02.alpha_range ha
    unfold isPySpace at h
    simp only [Bool.or_eq_true, Bool.and_eq_true, decide_eq_true_eq, beq_iff_eq] at h
    omega

/-- `\begin{name}` / `\end{name}` (possibly with blanks before the brace) -/
theorem cnt_envword (b : Bool) {sp name : Str} (hsp : ∀ c ∈ sp, isPySpace c = true)
    (hname : ∀ c ∈ name, isEnvNameChar c = true) (hne : name ≠ []) (r : Str) :
    cnt ctx k .n ('\\' :: (envWordStr b ++ (sp ++ '{' :: (name ++ '}' :: r)))) =
      kindW ctx k (if b = true then TokKind.beginEnv else TokKind.endEnv) name + cnt ctx k .n r := by
  generalize hR : sp ++ '{' :: (name ++ '}' :: r) = R
  have hnf : headIs isAsciiAlpha R = false := by
    rw [← hR]
    cases sp with
    | nil => simp [headIs]; decide
    | cons c sp =>
      simp only [List.cons_append, headIs]
      exact space_not_alpha (hsp c List.mem_cons_self)
  have htw : (envWordStr b ++ R).takeWhile isAsciiAlpha = envWordStr b := C02.takeWhile_all (envWordStr_alpha b) hnf
  have hdw : (envWordStr b ++ R).dropWhile isAsciiAlpha = R :=
    dropWhile_all (List.all_eq_true.mp (envWordStr_alpha b)) hnf
  have hrest : cnt ctx k .n R = plainW k '{' + (plainW k '}' + cnt ctx k .n r) := by
    rw [← hR, cnt_ws ctx k hsp, cnt_cons ctx k (by decide) (by decide),
      cnt_plains ctx k (fun c hc => envNameChar_plain (hname c hc)), cnt_cons ctx k (by decide) (by decide)]
  cases b with
  | true =>
    have e1 : envWordStr true = 'b' :: ['e', 'g', 'i', 'n'] := rfl
    rw [e1] at htw hdw ⊢
    rw [List.cons_append, cnt_esc, cnt_alphas ctx k (by decide), hrest]
    cases k with
    | brace => simp [escW, plainW, kindW]; omega
    | dollar => simp [escW, plainW, kindW]
    | paren => simp [escW, parenW, plainW, kindW]
    | brack => simp [escW, brackW, plainW, kindW]
    | env =>
      have : escW ctx .env ('b' :: (['e', 'g', 'i', 'n'] ++ R)) = 1 := by
        rw [escW_env]
        unfold envW
        rw [← List.cons_append, htw]; rfl
      rw [this]; simp [plainW, kindW]
    | verb =>
      have : escW ctx .verb ('b' :: (['e', 'g', 'i', 'n'] ++ R)) = if envBad ctx name then 1 else 0 := by
        rw [escW_verb]
        unfold verbW
        rw [← List.cons_append, htw, hdw, ← hR, envNameOf_eq hsp hname hne]
        simp [beginW]
        intro h; exact absurd h (by decide)
      rw [this]; simp [plainW, kindW]
  | false =>
    have e1 : envWordStr false = 'e' :: ['n', 'd'] := rfl
    rw [e1] at htw hdw ⊢
    rw [List.cons_append, cnt_esc, cnt_alphas ctx k (by decide), hrest]
    cases k with
    | brace => simp [escW, plainW, kindW]; omega
    | dollar => simp [escW, plainW, kindW]
    | paren => simp [escW, parenW, plainW, kindW]
    | brack => simp [escW, brackW, plainW, kindW]
    | env =>
      have : escW ctx .env ('e' :: (['n', 'd'] ++ R)) = -1 := by
        rw [escW_env]
        unfold envW
        rw [← List.cons_append, htw]; rfl
      rw [this]; simp [plainW, kindW]
    | verb =>
      have : escW ctx .verb ('e' :: (['n', 'd'] ++ R)) = 0 := by
        rw [escW_verb]
        unfold verbW
        rw [← List.cons_append, htw]
        simp [beginW, endW]
        intro h; exact absurd h (by decide)
      rw [this]; simp [plainW, kindW]

theorem cnt_beginStr {name : Str} (hname : name.all isEnvNameChar = true) (hne : name ≠ []) (r : Str) :
    cnt ctx k .n (beginStr name ++ r) = kindW ctx k .beginEnv name + cnt ctx k .n r := by
  have := cnt_envword ctx k true (sp := []) (by intro c h; cases h) (List.all_eq_true.mp hname) hne r
  rw [C02.beginStr_append]
  exact this

theorem cnt_endStr {name : Str} (hname : name.all isEnvNameChar = true) (hne : name ≠ []) (r : Str) :
    cnt ctx k .n (endStr name ++ r) = kindW ctx k .endEnv name + cnt ctx k .n r := by
  have := cnt_envword ctx k false (sp := []) (by intro c h; cases h) (List.all_eq_true.mp hname) hne r
  rw [C02.endStr_append]
  exact this

theorem beginW_eq : "begin".toList = beginW := rfl
theorem endW_eq : "end".toList = endW := rfl

/-- a macro call's name and post-space weigh nothing when the macro has a non-verbatim specification -/
theorem cnt_macro_head {name post : Str} (hbad : macroBad ctx name = false) {X : Str}
    (hcw : (isControlWord name = true ∧ name ≠ beginW ∧ name ≠ endW ∧ isWs post = true ∧
              headIs isAsciiAlpha (post ++ X) = false) ∨ (isControlSymbol name = true ∧ post = [])) :
    cnt ctx k .n ('\\' :: (name ++ (post ++ X))) = cnt ctx k .n X := by
  rcases hcw with ⟨hw, hb, he, hpost, hnext⟩ | ⟨hsym, hpost⟩
  · unfold isControlWord at hw
    simp only [Bool.and_eq_true, Bool.not_eq_eq_eq_not, Bool.not_true] at hw
    cases name with
    | nil => simp at hw
    | cons c cs =>
      have hall : (c :: cs).all isAsciiAlpha = true := hw.2
      have hc : isAsciiAlpha c = true := by
        simp only [List.all_cons, Bool.and_eq_true] at hall; exact hall.1
      have hcs : ∀ x ∈ cs, isAsciiAlpha x = true := by
        simp only [List.all_cons, Bool.and_eq_true] at hall
        exact List.all_eq_true.mp hall.2
      have htw : ((c :: cs) ++ (post ++ X)).takeWhile isAsciiAlpha = c :: cs := C02.takeWhile_all hall hnext
      rw [List.cons_append, cnt_esc, escW_word ctx k hc (by rw [← List.cons_append, htw]; exact hb)
        (by rw [← List.cons_append, htw]; exact he), ← List.cons_append, htw, kindW_macro_zero ctx k hbad, Int.zero_add,
        cnt_alphas ctx k hcs, cnt_isWs ctx k hpost]
  · subst hpost
    unfold isControlSymbol at hsym
    split at hsym
    · rename_i c
      simp only [Bool.and_eq_true, Bool.not_eq_eq_eq_not, Bool.not_true, bne_iff_ne, ne_eq] at hsym
      obtain ⟨⟨⟨⟨⟨h1, _⟩, h3⟩, h4⟩, h5⟩, h6⟩ := hsym
      rw [List.cons_append, List.nil_append, List.nil_append, cnt_esc, escW_symbol ctx k _ h1 ⟨h3, h4, h5, h6⟩,
        kindW_macro_zero ctx k hbad, Int.zero_add]
    · cases hsym

end pieces

/-! ### frames: a construct around a body whose count is known up to `w` -/

section frames
variable (ctx : Ctx) (k : Sym)

theorem Rel.rhs {k : Sym} {x y z : Int} (h : Rel k x y) (e : y = z) : Rel k x z := e ▸ h
theorem Rel.lhs {k : Sym} {x y z : Int} (h : Rel k x y) (e : z = x) : Rel k z y := e ▸ h

theorem brace_cancel : plainW k '{' + plainW k '}' = 0 := by cases k <;> rfl

theorem frame_G {B R : Str} {w : Int} (h : Rel k (cnt ctx k .n (B ++ '}' :: R)) (w + cnt ctx k .n ('}' :: R))) :
    Rel k (cnt ctx k .n ('{' :: (B ++ '}' :: R))) (w + cnt ctx k .n R) := by
  rw [cnt_cons ctx k (by decide) (by decide)] at h
  rw [cnt_cons ctx k (by decide) (by decide)]
  refine (Rel.add_left (plainW k '{') h).rhs ?_
  have := brace_cancel k
  omega

theorem frame_plain {o c : Char} (ho : plainCh o = true) (hc : plainCh c = true) {B R : Str} {w : Int}
    (h : Rel k (cnt ctx k .n (B ++ c :: R)) (w + cnt ctx k .n (c :: R))) :
    Rel k (cnt ctx k .n (o :: (B ++ c :: R))) (w + cnt ctx k .n R) := by
  rw [cnt_plain ctx k hc] at h
  rw [cnt_plain ctx k ho]
  exact h

theorem fkind_six (fk : FKind) : fk.opener ∈ sixD ∧ fk.closer ∈ sixD := by cases fk <;> decide

theorem fkind_cancel (fk : FKind) : Rel k (mathW k fk.opener + mathW k fk.closer) 0 := by
  cases fk
  · exact math_pair k (o := ['$']) (cd := (['$'], false)) (by decide)
  · exact math_pair k (o := ['$', '$']) (cd := (['$', '$'], true)) (by decide)
  · exact math_pair k (o := ['\\', '(']) (cd := (['\\', ')'], false)) (by decide)
  · exact math_pair k (o := ['\\', '[']) (cd := (['\\', ']'], true)) (by decide)

theorem frame_F (fk : FKind) {B R : Str} {w : Int}
    (h : Rel k (cnt ctx k .n (B ++ (fk.closer ++ R))) (w + cnt ctx k .n (fk.closer ++ R))) :
    Rel k (cnt ctx k .n (fk.opener ++ (B ++ (fk.closer ++ R)))) (w + cnt ctx k .n R) := by
  rw [cnt_math ctx k (fkind_six fk).2] at h
  rw [cnt_math ctx k (fkind_six fk).1]
  have h1 := Rel.add_left (mathW k fk.opener) h
  have h2 : Rel k (mathW k fk.opener + (w + (mathW k fk.closer + cnt ctx k .n R)))
      (0 + (w + cnt ctx k .n R)) := by
    have e : mathW k fk.opener + (w + (mathW k fk.closer + cnt ctx k .n R)) =
        (mathW k fk.opener + mathW k fk.closer) + (w + cnt ctx k .n R) := by omega
    rw [e]
    exact Rel.add (fkind_cancel k fk) (Rel.refl _ _)
  exact (Rel.trans h1 h2).rhs (by omega)

theorem frame_E {name : Str} (hname : name.all isEnvNameChar = true) (hne : name ≠ []) (hbad : envBad ctx name = false)
    {A B R : Str} {w1 w2 : Int}
    (hA : Rel k (cnt ctx k .n (A ++ (B ++ (endStr name ++ R)))) (w1 + cnt ctx k .n (B ++ (endStr name ++ R))))
    (hB : Rel k (cnt ctx k .n (B ++ (endStr name ++ R))) (w2 + cnt ctx k .n (endStr name ++ R))) :
    Rel k (cnt ctx k .n (beginStr name ++ (A ++ (B ++ (endStr name ++ R))))) (w1 + w2 + cnt ctx k .n R) := by
  rw [cnt_endStr ctx k hname hne] at hB
  rw [cnt_beginStr ctx k hname hne]
  have h1 := Rel.trans hA (Rel.add_left w1 hB)
  have h2 := Rel.add_left (kindW ctx k .beginEnv name) h1
  refine h2.rhs ?_
  have := kindW_env_pair ctx k hbad
  omega

end frames

/-! ### documents without verbatim constructs -/

mutual
/-- every macro / environment called in the document has a non-verbatim standard specification in `ctx` (with plain
    delimiters in its delimited slots); in particular no `\verb`, no verbatim environment, no `v` argument -/
def docOk (ctx : Ctx) : List Item → Bool
  | [] => true
  | .T _ :: tl => docOk ctx tl
  | .W _ :: tl => docOk ctx tl
  | .P _ :: tl => docOk ctx tl
  | .G b :: tl => docOk ctx b && docOk ctx tl
  | .M name _ args :: tl => !macroBad ctx name && argsDocOk ctx args && docOk ctx tl
  | .E name args body :: tl => !envBad ctx name && argsDocOk ctx args && docOk ctx body && docOk ctx tl
  | .F _ b :: tl => docOk ctx b && docOk ctx tl
  | .C _ _ :: tl => docOk ctx tl
  | .S _ args :: tl => argsDocOk ctx args && docOk ctx tl
  | .V _ _ :: _ => false
  | .VE _ _ _ _ :: _ => false
def argsDocOk (ctx : Ctx) : List ArgVal → Bool
  | [] => true
  | .absent :: tl => argsDocOk ctx tl
  | .star :: tl => argsDocOk ctx tl
  | .marker _ :: tl => argsDocOk ctx tl
  | .br b :: tl => docOk ctx b && argsDocOk ctx tl
  | .grp b :: tl => docOk ctx b && argsDocOk ctx tl
  | .tok _ :: tl => argsDocOk ctx tl
  | .del _ _ b :: tl => docOk ctx b && argsDocOk ctx tl
  | .verb _ _ _ :: _ => false
end

/-- the text `a` does not start with a letter unless `b` does -/
def HeadLe (a b : Str) : Prop := headIs isAsciiAlpha a = true → headIs isAsciiAlpha b = true

theorem HeadLe.refl (a : Str) : HeadLe a a := fun h => h

theorem HeadLe.append (w : Str) {a b : Str} (h : HeadLe a b) : HeadLe (w ++ a) (w ++ b) := by
  cases w with
  | nil => exact h
  | cons c w => exact fun h => h

theorem HeadLe.cons (c : Char) (a b : Str) : HeadLe (c :: a) (c :: b) := fun h => h

theorem HeadLe.false_of {a b : Str} (h : HeadLe a b) (hb : headIs isAsciiAlpha b = false) : headIs isAsciiAlpha a = false := by
  cases ha : headIs isAsciiAlpha a with
  | false => rfl
  | true => rw [h ha] at hb; cases hb

/-! ### the header of a macro call -/

section steps
variable (ctx : Ctx) (k : Sym)

/-- the Core conditions on a macro's name and post-space, `W` = what is written behind them -/
def macroHdr (name post W : Str) : Bool :=
  if isControlWord name then
    name != "begin".toList && name != "end".toList && isWs post && decide (countNl post < 2) &&
    !headIs isAsciiAlpha (post ++ W) && (!headIs isPySpace W || (post.isEmpty && parStart W))
  else post.isEmpty && isControlSymbol name

theorem step_M {name post W : Str} (hM : macroHdr name post W = true) (hbad : macroBad ctx name = false)
    {X : Str} (hle : HeadLe X W) : cnt ctx k .n ('\\' :: (name ++ (post ++ X))) = cnt ctx k .n X := by
  unfold macroHdr at hM
  cases hcw : isControlWord name with
  | true =>
    rw [hcw] at hM
    simp only [if_true, Bool.and_eq_true, Bool.not_eq_eq_eq_not, Bool.not_true, decide_eq_true_eq,
      bne_iff_ne, ne_eq, Bool.or_eq_true] at hM
    obtain ⟨⟨⟨⟨⟨hnb, hnend⟩, hwsp⟩, _⟩, hnext⟩, _⟩ := hM
    refine cnt_macro_head ctx k hbad (Or.inl ⟨hcw, ?_, ?_, hwsp, ?_⟩)
    · rw [← beginW_eq]; exact hnb
    · rw [← endW_eq]; exact hnend
    · exact (HeadLe.append post hle).false_of hnext
  | false =>
    rw [hcw] at hM
    simp only [Bool.false_eq_true, if_false, Bool.and_eq_true] at hM
    exact cnt_macro_head ctx k hbad (Or.inr ⟨hM.2, List.isEmpty_iff.mp hM.1⟩)

theorem keys_plain (hc : ctxOk ctx = true) {name : Str} (h : name ∈ ctxKeys ctx) : ∀ c ∈ name, plainCh c = true :=
  (finv_start hc).keys name h

theorem markerOk_plain {keys : List Str} {c : Char} {follow : Str} (h : markerOk keys c follow = true) : plainCh c = true := by
  unfold markerOk at h
  simp only [Bool.and_eq_true, Bool.not_eq_eq_eq_not, Bool.not_true, bne_iff_ne, ne_eq] at h
  obtain ⟨⟨⟨⟨⟨⟨_, h1⟩, h2⟩, h3⟩, h4⟩, h5⟩, _⟩ := h
  exact plainCh_of_ne h1 h2 h3 h4 h5

end steps

theorem core_C {ctx : Ctx} {m : Bool} {after text tail : Str} {tl : List Item}
    (hcore : coreItems ctx m after (.C text tail :: tl) = true) :
    coreItems ctx m after tl = true ∧ text.contains '\n' = false ∧ tail.head? = some '\n' ∧ isWs tail = true := by
  unfold coreItems at hcore
  simp only [Bool.and_eq_true, Bool.not_eq_eq_eq_not, Bool.not_true, beq_iff_eq] at hcore
  exact ⟨hcore.2, hcore.1.1.1.1.1, hcore.1.1.1.1.2, hcore.1.1.1.2⟩

/-! ### a well-formed document is balanced -/

mutual
/-- the source of a core document without verbatim constructs, in front of any text `after'`, counts like `after'` -/
theorem items_bal (ctx : Ctx) (hc : ctxOk ctx = true) (k : Sym) :
    ∀ (a : List Item) (m : Bool) (after : Str), coreItems ctx m after a = true → docOk ctx a = true →
      ∀ after', HeadLe after' after → Rel k (cnt ctx k .n (unparseItems a ++ after')) (cnt ctx k .n after')
  | [], _, _, _, _, after', _ => by
    simp only [unparseItems, List.nil_append]; exact Rel.refl _ _
  | .T t :: tl, m, after, hcore, hdoc, after', hh => by
    simp only [coreItems, Bool.and_eq_true, Bool.not_eq_eq_eq_not, Bool.not_true] at hcore
    obtain ⟨⟨_, hall⟩, htl⟩ := hcore
    simp only [docOk] at hdoc
    simp only [unparseItems, List.append_assoc]
    rw [cnt_text ctx k hall]
    exact items_bal ctx hc k tl m after htl hdoc after' hh
  | .W w :: tl, m, after, hcore, hdoc, after', hh => by
    simp only [coreItems, Bool.and_eq_true, Bool.not_eq_eq_eq_not, Bool.not_true, decide_eq_true_eq] at hcore
    obtain ⟨⟨⟨⟨_, hws⟩, _⟩, _⟩, htl⟩ := hcore
    simp only [docOk] at hdoc
    simp only [unparseItems, List.append_assoc]
    rw [cnt_isWs ctx k hws]
    exact items_bal ctx hc k tl m after htl hdoc after' hh
  | .P w :: tl, m, after, hcore, hdoc, after', hh => by
    simp only [coreItems, Bool.and_eq_true, Bool.not_eq_eq_eq_not, Bool.not_true, decide_eq_true_eq, beq_iff_eq] at hcore
    obtain ⟨⟨⟨⟨⟨⟨⟨_, hws⟩, _⟩, _⟩, _⟩, _⟩, _⟩, htl⟩ := hcore
    simp only [docOk] at hdoc
    simp only [unparseItems, List.append_assoc]
    rw [cnt_isWs ctx k hws]
    exact items_bal ctx hc k tl m after htl hdoc after' hh
  | .G b :: tl, m, after, hcore, hdoc, after', hh => by
    simp only [coreItems, Bool.and_eq_true] at hcore
    obtain ⟨hb, htl⟩ := hcore
    simp only [docOk, Bool.and_eq_true] at hdoc
    simp only [unparseItems, List.cons_append, List.append_assoc]
    have h1 := items_bal ctx hc k b m ('}' :: (unparseItems tl ++ after)) hb hdoc.1 ('}' :: (unparseItems tl ++ after'))
      (HeadLe.cons _ _ _)
    have h2 := frame_G ctx k (w := 0) (h1.rhs (by omega))
    exact Rel.trans (h2.rhs (by omega)) (items_bal ctx hc k tl m after htl hdoc.2 after' hh)
  | .C text tail :: tl, m, after, hcore, hdoc, after', hh => by
    obtain ⟨htl, hhd⟩ := core_C hcore
    simp only [docOk] at hdoc
    simp only [unparseItems, List.cons_append, List.append_assoc]
    rw [cnt_comment_item ctx k hhd.1 hhd.2.1 hhd.2.2]
    exact items_bal ctx hc k tl m after htl hdoc after' hh
  | .M name post args :: tl, m, after, hcore, hdoc, after', hh => by
    simp only [coreItems, Bool.and_eq_true] at hcore
    obtain ⟨⟨hhdr, hargs⟩, htl⟩ := hcore
    simp only [docOk, Bool.and_eq_true, Bool.not_eq_eq_eq_not, Bool.not_true] at hdoc
    obtain ⟨⟨hbad, hda⟩, hdt⟩ := hdoc
    cases hms : ctx.macroSpec name with
    | none => rw [hms] at hargs; cases hargs
    | some a =>
      cases a with
      | std sig =>
        rw [hms] at hargs
        simp only at hargs
        simp only [unparseItems, List.cons_append, List.append_assoc]
        have hM : macroHdr name post (unparseArgs args ++ (unparseItems tl ++ after)) = true := hhdr
        rw [step_M ctx k hM hbad (HeadLe.append _ (HeadLe.append _ hh))]
        exact Rel.trans (args_bal ctx hc k sig args m _ hargs hda (unparseItems tl ++ after'))
          (items_bal ctx hc k tl m after htl hdt after' hh)
      | legacyVerb => rw [hms] at hargs; cases hargs
      | legacyVerbEnv _ _ => rw [hms] at hargs; cases hargs
      | unknown => rw [hms] at hargs; cases hargs
  | .E name args body :: tl, m, after, hcore, hdoc, after', hh => by
    simp only [coreItems, Bool.and_eq_true, Bool.not_eq_eq_eq_not, Bool.not_true] at hcore
    obtain ⟨⟨⟨hne, hall⟩, hspec⟩, htl⟩ := hcore
    have hne' : name ≠ [] := by intro e; rw [e] at hne; cases hne
    simp only [docOk, Bool.and_eq_true, Bool.not_eq_eq_eq_not, Bool.not_true] at hdoc
    obtain ⟨⟨⟨hbad, hda⟩, hdb⟩, hdt⟩ := hdoc
    cases hes : ctx.envSpec name with
    | none => rw [hes] at hspec; cases hspec
    | some ab =>
      obtain ⟨a, bm⟩ := ab
      cases a with
      | std sig =>
        rw [hes] at hspec
        simp only [Bool.and_eq_true] at hspec
        obtain ⟨hargs, hbody⟩ := hspec
        simp only [unparseItems, List.append_assoc]
        have hA := args_bal ctx hc k sig args m _ hargs hda (unparseItems body ++ (endStr name ++ (unparseItems tl ++ after')))
        have hB := items_bal ctx hc k body (m || bm) (endStr name ++ (unparseItems tl ++ after)) hbody hdb
          (endStr name ++ (unparseItems tl ++ after')) (by
            rw [C02.endStr_append, C02.endStr_append]; exact HeadLe.cons _ _ _)
        have := frame_E ctx k hall hne' hbad (w1 := 0) (w2 := 0) (hA.rhs (by omega)) (hB.rhs (by omega))
        exact Rel.trans (this.rhs (by omega)) (items_bal ctx hc k tl m after htl hdt after' hh)
      | legacyVerb => rw [hes] at hspec; cases hspec
      | legacyVerbEnv _ _ => rw [hes] at hspec; cases hspec
      | unknown => rw [hes] at hspec; cases hspec
  | .F fk b :: tl, m, after, hcore, hdoc, after', hh => by
    simp only [coreItems, Bool.and_eq_true, Bool.not_eq_eq_eq_not, Bool.not_true, Bool.or_eq_true] at hcore
    obtain ⟨⟨⟨_, hb⟩, _⟩, htl⟩ := hcore
    simp only [docOk, Bool.and_eq_true] at hdoc
    simp only [unparseItems, List.append_assoc]
    have h1 := items_bal ctx hc k b true (fk.closer ++ (unparseItems tl ++ after)) hb hdoc.1
      (fk.closer ++ (unparseItems tl ++ after')) (by
        cases fk <;> exact HeadLe.cons _ _ _)
    have h2 := frame_F ctx k fk (w := 0) (h1.rhs (by omega))
    exact Rel.trans (h2.rhs (by omega)) (items_bal ctx hc k tl m after htl hdoc.2 after' hh)
  | .S name args :: tl, m, after, hcore, hdoc, after', hh => by
    simp only [coreItems, Bool.and_eq_true, beq_iff_eq] at hcore
    obtain ⟨⟨⟨⟨hemp, _⟩, hts⟩, _⟩, htl⟩ := hcore
    have hargs : args = [] := List.isEmpty_iff.mp hemp
    subst hargs
    simp only [docOk, argsDocOk, Bool.true_and] at hdoc
    simp only [unparseItems, unparseArgs, List.nil_append, List.append_assoc]
    rw [cnt_plains ctx k (keys_plain ctx hc (testSpecials_mem hts))]
    exact items_bal ctx hc k tl m after htl hdoc after' hh
  | .V _ _ :: _, _, _, _, hdoc, _, _ => by simp [docOk] at hdoc
  | .VE _ _ _ _ :: _, _, _, _, hdoc, _, _ => by simp [docOk] at hdoc
termination_by a => sizeOf a
decreasing_by
  all_goals first
    | decreasing_tactic
    | (subst_vars; decreasing_tactic)
/-- the written arguments of a call, in front of any text -/
theorem args_bal (ctx : Ctx) (hc : ctxOk ctx = true) (k : Sym) :
    ∀ (sig : List ArgSpec) (args : List ArgVal) (m : Bool) (rest : Str), coreArgs ctx m rest sig args = true →
      argsDocOk ctx args = true →
      ∀ rest', Rel k (cnt ctx k .n (unparseArgs args ++ rest')) (cnt ctx k .n rest')
  | [], [], _, _, _, _, rest' => by
    simp only [unparseArgs, List.nil_append]; exact Rel.refl _ _
  | sp :: sig, .absent :: tl, m, rest, hcore, hdoc, rest' => by
    simp only [coreArgs, Bool.and_eq_true] at hcore
    simp only [argsDocOk] at hdoc
    simp only [unparseArgs]
    exact args_bal ctx hc k sig tl m rest hcore.2 hdoc rest'
  | sp :: sig, .star :: tl, m, rest, hcore, hdoc, rest' => by
    simp only [coreArgs, Bool.and_eq_true] at hcore
    simp only [argsDocOk] at hdoc
    simp only [unparseArgs, List.cons_append]
    rw [cnt_plain ctx k (by decide)]
    exact args_bal ctx hc k sig tl m rest hcore.2 hdoc rest'
  | sp :: sig, .marker c :: tl, m, rest, hcore, hdoc, rest' => by
    simp only [coreArgs, Bool.and_eq_true] at hcore
    simp only [argsDocOk] at hdoc
    simp only [unparseArgs, List.cons_append]
    rw [cnt_plain ctx k (markerOk_plain hcore.1.2)]
    exact args_bal ctx hc k sig tl m rest hcore.2 hdoc rest'
  | sp :: sig, .tok c :: tl, m, rest, hcore, hdoc, rest' => by
    simp only [coreArgs, Bool.and_eq_true] at hcore
    simp only [argsDocOk] at hdoc
    simp only [unparseArgs, List.cons_append]
    rw [cnt_plain ctx k (textChar_plain hcore.1.2)]
    exact args_bal ctx hc k sig tl m rest hcore.2 hdoc rest'
  | sp :: sig, .br b :: tl, m, rest, hcore, hdoc, rest' => by
    simp only [coreArgs, Bool.and_eq_true] at hcore
    obtain ⟨⟨_, hb⟩, htl⟩ := hcore
    simp only [argsDocOk, Bool.and_eq_true] at hdoc
    simp only [unparseArgs, List.cons_append, List.append_assoc]
    have h1 := items_bal ctx hc k b _ (']' :: (unparseArgs tl ++ rest)) hb hdoc.1 (']' :: (unparseArgs tl ++ rest'))
      (HeadLe.cons _ _ _)
    have h2 := frame_plain ctx k (o := '[') (c := ']') (by decide) (by decide) (w := 0) (h1.rhs (by omega))
    exact Rel.trans (h2.rhs (by omega)) (args_bal ctx hc k sig tl m rest htl hdoc.2 rest')
  | sp :: sig, .grp b :: tl, m, rest, hcore, hdoc, rest' => by
    simp only [coreArgs, Bool.and_eq_true] at hcore
    obtain ⟨⟨_, hb⟩, htl⟩ := hcore
    simp only [argsDocOk, Bool.and_eq_true] at hdoc
    simp only [unparseArgs, List.cons_append, List.append_assoc]
    have h1 := items_bal ctx hc k b _ ('}' :: (unparseArgs tl ++ rest)) hb hdoc.1 ('}' :: (unparseArgs tl ++ rest'))
      (HeadLe.cons _ _ _)
    have h2 := frame_G ctx k (w := 0) (h1.rhs (by omega))
    exact Rel.trans (h2.rhs (by omega)) (args_bal ctx hc k sig tl m rest htl hdoc.2 rest')
  | sp :: sig, .del o c b :: tl, m, rest, hcore, hdoc, rest' => by
    simp only [coreArgs, Bool.and_eq_true] at hcore
    obtain ⟨⟨⟨⟨⟨_, ho⟩, hcl⟩, _⟩, hb⟩, htl⟩ := hcore
    simp only [argsDocOk, Bool.and_eq_true] at hdoc
    simp only [unparseArgs, List.cons_append, List.append_assoc]
    have h1 := items_bal ctx hc k b _ (c :: (unparseArgs tl ++ rest)) hb hdoc.1 (c :: (unparseArgs tl ++ rest'))
      (HeadLe.cons _ _ _)
    have h2 := frame_plain ctx k (xdelim_plain ho) (xdelim_plain hcl) (w := 0) (h1.rhs (by omega))
    exact Rel.trans (h2.rhs (by omega)) (args_bal ctx hc k sig tl m rest htl hdoc.2 rest')
  | _ :: _, .verb _ _ _ :: _, _, _, hcore, _, _ => by simp [coreArgs] at hcore
  | [], _ :: _, _, _, hcore, _, _ => by simp [coreArgs] at hcore
  | _ :: _, [], _, _, hcore, _, _ => by simp [coreArgs] at hcore
termination_by _ args => sizeOf args
decreasing_by
  all_goals first
    | decreasing_tactic
    | (subst_vars; decreasing_tactic)
end

/-! ### one item / one argument in front of any text -/

theorem unparse_cons (it : Item) (tl : List Item) : unparseItems (it :: tl) = unparseItems [it] ++ unparseItems tl := by
  cases it <;> simp [unparseItems]

theorem unparseArgs_cons (a : ArgVal) (tl : List ArgVal) : unparseArgs (a :: tl) = unparseArgs [a] ++ unparseArgs tl := by
  cases a <;> simp [unparseArgs]

theorem core_tail {ctx : Ctx} {m : Bool} {after : Str} {it : Item} {tl : List Item}
    (h : coreItems ctx m after (it :: tl) = true) : coreItems ctx m after tl = true := by
  cases it with
  | C text tail => exact (core_C h).1
  | VE _ _ _ _ => simp [coreItems] at h
  | _ =>
    simp only [coreItems, Bool.and_eq_true] at h
    exact h.2

theorem docOk_tail {ctx : Ctx} {it : Item} {tl : List Item} (h : docOk ctx (it :: tl) = true) : docOk ctx tl = true := by
  cases it <;> simp only [docOk, Bool.and_eq_true] at h <;> first | exact h | exact h.2 | cases h

theorem docOk_single {ctx : Ctx} {it : Item} {tl : List Item} (h : docOk ctx (it :: tl) = true) : docOk ctx [it] = true := by
  cases it <;> simp only [docOk, Bool.and_eq_true, Bool.and_true] at h ⊢ <;> first | trivial | exact h.1 | cases h

theorem core_single {ctx : Ctx} {m : Bool} {after : Str} {it : Item} {tl : List Item}
    (h : coreItems ctx m after (it :: tl) = true) (hC : ∀ text tail, it ≠ .C text tail) :
    coreItems ctx m (unparseItems tl ++ after) [it] = true := by
  cases it with
  | C text tail => exact absurd rfl (hC text tail)
  | VE _ _ _ _ => simp [coreItems] at h
  | _ =>
    simp only [coreItems, Bool.and_eq_true, unparseItems, List.nil_append, Bool.and_true] at h ⊢
    exact h.1

/-- **one item**: in front of any text `R` that does not start with a letter unless the original continuation does -/
theorem item_step (ctx : Ctx) (hc : ctxOk ctx = true) (k : Sym) {it : Item} {tl : List Item} {m : Bool} {after : Str}
    (hcore : coreItems ctx m after (it :: tl) = true) (hdoc : docOk ctx (it :: tl) = true)
    {R : Str} (hR : HeadLe R (unparseItems tl ++ after)) :
    Rel k (cnt ctx k .n (unparseItems [it] ++ R)) (cnt ctx k .n R) := by
  by_cases hC : ∃ text tail, it = .C text tail
  · obtain ⟨text, tail, rfl⟩ := hC
    obtain ⟨_, h1, h2, h3⟩ := core_C hcore
    simp only [unparseItems, List.append_nil, List.cons_append, List.append_assoc]
    rw [cnt_comment_item ctx k h1 h2 h3]
    exact Rel.refl _ _
  · exact items_bal ctx hc k [it] m (unparseItems tl ++ after) (core_single hcore (fun t tl' e => hC ⟨t, tl', e⟩))
      (docOk_single hdoc) R hR

theorem coreArgs_split {ctx : Ctx} {m : Bool} {rest : Str} {sp : ArgSpec} {sig : List ArgSpec} {a : ArgVal} {tl : List ArgVal}
    (h : coreArgs ctx m rest (sp :: sig) (a :: tl) = true) :
    coreArgs ctx m (unparseArgs tl ++ rest) [sp] [a] = true ∧ coreArgs ctx m rest sig tl = true := by
  cases a <;> simp only [coreArgs, Bool.and_eq_true, unparseArgs, List.nil_append, Bool.and_true] at h ⊢ <;>
    first | exact h | cases h

theorem coreArgs_sig {ctx : Ctx} {m : Bool} {rest : Str} {sig : List ArgSpec} {a : ArgVal} {tl : List ArgVal}
    (h : coreArgs ctx m rest sig (a :: tl) = true) : ∃ sp sig', sig = sp :: sig' := by
  cases sig with
  | nil => simp [coreArgs] at h
  | cons sp sig' => exact ⟨sp, sig', rfl⟩

theorem argsDocOk_split {ctx : Ctx} {a : ArgVal} {tl : List ArgVal} (h : argsDocOk ctx (a :: tl) = true) :
    argsDocOk ctx [a] = true ∧ argsDocOk ctx tl = true := by
  cases a <;> simp only [argsDocOk, Bool.and_eq_true, Bool.and_true] at h ⊢ <;> first | exact ⟨trivial, h⟩ | exact h | cases h

/-! ### injecting a fault at an item / argument boundary of any depth -/

/-- where the fault goes: `here` = in front of the current list (so also at its end, after `next`s), `next` = skip one
    item / argument, `body` = into the body of the first item (brace group, math, environment) or of the first argument
    (bracket group, brace group, delimited group), `args` = into the argument list of the first item (macro or
    environment call).  Comments, `\verb` texts and specials are never entered. -/
inductive Path where
  | here
  | next (p : Path)
  | body (p : Path)
  | args (p : Path)
deriving DecidableEq, Repr

mutual
/-- the document with the raw text `x` inserted (as a text item) at the boundary `p` -/
def insItems (x : Str) : Path → List Item → Option (List Item)
  | .here, l => some (.T x :: l)
  | .next p, it :: l => (insItems x p l).map (fun l' => it :: l')
  | .body p, .G b :: l => (insItems x p b).map (fun b' => .G b' :: l)
  | .body p, .E n a b :: l => (insItems x p b).map (fun b' => .E n a b' :: l)
  | .body p, .F fk b :: l => (insItems x p b).map (fun b' => .F fk b' :: l)
  | .args p, .M n post a :: l => (insArgs x p a).map (fun a' => .M n post a' :: l)
  | .args p, .E n a b :: l => (insArgs x p a).map (fun a' => .E n a' b :: l)
  | _, _ => none
/-- the argument list with the raw text `x` inserted (character by character, as single-token arguments) -/
def insArgs (x : Str) : Path → List ArgVal → Option (List ArgVal)
  | .here, l => some (x.map ArgVal.tok ++ l)
  | .next p, a :: l => (insArgs x p l).map (fun l' => a :: l')
  | .body p, .br b :: l => (insItems x p b).map (fun b' => .br b' :: l)
  | .body p, .grp b :: l => (insItems x p b).map (fun b' => .grp b' :: l)
  | .body p, .del o c b :: l => (insItems x p b).map (fun b' => .del o c b' :: l)
  | _, _ => none
end

theorem unparseArgs_toks (x : Str) (l : List ArgVal) : unparseArgs (x.map ArgVal.tok ++ l) = x ++ unparseArgs l := by
  induction x with
  | nil => rfl
  | cons c x ih => simp only [List.map_cons, List.cons_append, unparseArgs, ih]

/-- the text `a'` is the text `a` with `x` inserted somewhere -/
def Inserted (x a a' : Str) : Prop := ∃ u1 u2, a = u1 ++ u2 ∧ a' = u1 ++ (x ++ u2)

theorem Inserted.here (x a : Str) : Inserted x a (x ++ a) := ⟨[], a, rfl, rfl⟩

theorem Inserted.frame {x a a' : Str} (h : Inserted x a a') (pre post : Str) :
    Inserted x (pre ++ (a ++ post)) (pre ++ (a' ++ post)) := by
  obtain ⟨u1, u2, rfl, rfl⟩ := h
  exact ⟨pre ++ u1, u2 ++ post, by simp, by simp⟩

section inject
variable (ctx : Ctx) (hc : ctxOk ctx = true) (k : Sym) (x : Str) (wx : Int)
  (hx : ∀ r, cnt ctx k .n (x ++ r) = wx + cnt ctx k .n r) (hxh : headIs isAsciiAlpha x = false) (hxne : x ≠ [])

/-- what is shown of a list of items with the fault inside -/
def ItemsQ (after : Str) (a a' : List Item) : Prop :=
  ∀ after', HeadLe after' after →
    Rel k (cnt ctx k .n (unparseItems a' ++ after')) (wx + cnt ctx k .n after') ∧
    HeadLe (unparseItems a' ++ after') (unparseItems a ++ after) ∧
    Inserted x (unparseItems a) (unparseItems a')

def ArgsQ (rest : Str) (a a' : List ArgVal) : Prop :=
  ∀ rest', HeadLe rest' rest →
    Rel k (cnt ctx k .n (unparseArgs a' ++ rest')) (wx + cnt ctx k .n rest') ∧
    HeadLe (unparseArgs a' ++ rest') (unparseArgs a ++ rest) ∧
    Inserted x (unparseArgs a) (unparseArgs a')

include hxh hxne in
theorem headLe_x (r b : Str) : HeadLe (x ++ r) b := by
  intro h
  cases x with
  | nil => exact absurd rfl hxne
  | cons c x =>
    simp only [List.cons_append, headIs] at h
    simp only [headIs] at hxh
    rw [hxh] at h; cases h

theorem headLe_same (w : Str) {a b : Str} (hw : w ≠ []) : HeadLe (w ++ a) (w ++ b) := by
  cases w with
  | nil => exact absurd rfl hw
  | cons c w => exact fun h => h

include hc hx hxh hxne in
/-- **the faulty text is off by the weight of the fault**, by induction on the path to the boundary -/
theorem ins_bal : ∀ (p : Path),
    (∀ (a : List Item) (m : Bool) (after : Str), coreItems ctx m after a = true → docOk ctx a = true →
      ∀ a', insItems x p a = some a' → ItemsQ ctx k x wx after a a') ∧
    (∀ (sig : List ArgSpec) (args : List ArgVal) (m : Bool) (rest : Str), coreArgs ctx m rest sig args = true →
      argsDocOk ctx args = true → ∀ args', insArgs x p args = some args' → ArgsQ ctx k x wx rest args args') := by
  intro p
  induction p with
  | here =>
    constructor
    · intro a m after hcore hdoc a' hins after' hh
      simp only [insItems, Option.some.injEq] at hins
      subst hins
      simp only [unparseItems, List.append_assoc]
      refine ⟨?_, headLe_x x hxh hxne _ _, Inserted.here _ _⟩
      rw [hx]
      exact Rel.add_left wx (items_bal ctx hc k a m after hcore hdoc after' hh)
    · intro sig args m rest hcore hdoc args' hins rest' hh
      simp only [insArgs, Option.some.injEq] at hins
      subst hins
      rw [unparseArgs_toks, List.append_assoc]
      refine ⟨?_, headLe_x x hxh hxne _ _, Inserted.here _ _⟩
      rw [hx]
      exact Rel.add_left wx (args_bal ctx hc k sig args m rest hcore hdoc rest')
  | next p ih =>
    constructor
    · intro a m after hcore hdoc a' hins after' hh
      cases a with
      | nil => simp [insItems] at hins
      | cons it l =>
        simp only [insItems, Option.map_eq_some_iff] at hins
        obtain ⟨l', hl', rfl⟩ := hins
        obtain ⟨h1, h2, h3⟩ := ih.1 l m after (core_tail hcore) (docOk_tail hdoc) l' hl' after' hh
        rw [unparse_cons it l', unparse_cons it l, List.append_assoc, List.append_assoc]
        refine ⟨Rel.trans (item_step ctx hc k hcore hdoc h2) h1, HeadLe.append _ h2, ?_⟩
        have := h3.frame (unparseItems [it]) []
        simpa using this
    · intro sig args m rest hcore hdoc args' hins rest' hh
      cases args with
      | nil => simp [insArgs] at hins
      | cons a l =>
        simp only [insArgs, Option.map_eq_some_iff] at hins
        obtain ⟨l', hl', rfl⟩ := hins
        obtain ⟨sp, sig', rfl⟩ := coreArgs_sig hcore
        obtain ⟨hc1, hc2⟩ := coreArgs_split hcore
        obtain ⟨hd1, hd2⟩ := argsDocOk_split hdoc
        obtain ⟨h1, h2, h3⟩ := ih.2 sig' l m rest hc2 hd2 l' hl' rest' hh
        rw [unparseArgs_cons a l', unparseArgs_cons a l, List.append_assoc, List.append_assoc]
        refine ⟨Rel.trans (args_bal ctx hc k [sp] [a] m _ hc1 hd1 _) h1, HeadLe.append _ h2, ?_⟩
        have := h3.frame (unparseArgs [a]) []
        simpa using this
  | body p ih =>
    constructor
    · intro a m after hcore hdoc a' hins after' hh
      cases a with
      | nil => simp [insItems] at hins
      | cons it l =>
        have htl := core_tail hcore
        have hdt := docOk_tail hdoc
        have hL := items_bal ctx hc k l m after htl hdt after' hh
        cases it with
        | G b =>
          simp only [insItems, Option.map_eq_some_iff] at hins
          obtain ⟨b', hb', rfl⟩ := hins
          simp only [coreItems, Bool.and_eq_true] at hcore
          simp only [docOk, Bool.and_eq_true] at hdoc
          obtain ⟨h1, _, h3⟩ := ih.1 b m _ hcore.1 hdoc.1 b' hb' ('}' :: (unparseItems l ++ after')) (HeadLe.cons _ _ _)
          simp only [unparseItems, List.cons_append, List.append_assoc]
          refine ⟨Rel.trans (frame_G ctx k h1) (Rel.add_left wx hL), HeadLe.cons _ _ _, ?_⟩
          have := h3.frame ['{'] ('}' :: unparseItems l)
          simpa using this
        | E name args body =>
          simp only [insItems, Option.map_eq_some_iff] at hins
          obtain ⟨b', hb', rfl⟩ := hins
          simp only [coreItems, Bool.and_eq_true, Bool.not_eq_eq_eq_not, Bool.not_true] at hcore
          obtain ⟨⟨⟨hne, hall⟩, hspec⟩, _⟩ := hcore
          have hne' : name ≠ [] := by intro e; rw [e] at hne; cases hne
          simp only [docOk, Bool.and_eq_true, Bool.not_eq_eq_eq_not, Bool.not_true] at hdoc
          obtain ⟨⟨⟨hbad, hda⟩, hdb⟩, _⟩ := hdoc
          cases hes : ctx.envSpec name with
          | none => rw [hes] at hspec; cases hspec
          | some ab =>
            obtain ⟨sa, bm⟩ := ab
            cases sa with
            | std sig =>
              rw [hes] at hspec
              simp only [Bool.and_eq_true] at hspec
              obtain ⟨hargs, hbody⟩ := hspec
              simp only [unparseItems, List.append_assoc]
              have hA := args_bal ctx hc k sig args m _ hargs hda (unparseItems b' ++ (endStr name ++ (unparseItems l ++ after')))
              obtain ⟨hB, _, h3⟩ := ih.1 body (m || bm) _ hbody hdb b' hb' (endStr name ++ (unparseItems l ++ after')) (by
                rw [C02.endStr_append, C02.endStr_append]; exact HeadLe.cons _ _ _)
              have := frame_E ctx k hall hne' hbad (w1 := 0) (w2 := wx) (hA.rhs (by omega)) hB
              refine ⟨Rel.trans (this.rhs (by omega)) (Rel.add_left wx hL), ?_, ?_⟩
              · rw [C02.beginStr_append, C02.beginStr_append]; exact HeadLe.cons _ _ _
              · have := h3.frame (beginStr name ++ unparseArgs args) (endStr name ++ unparseItems l)
                simpa using this
            | legacyVerb => rw [hes] at hspec; cases hspec
            | legacyVerbEnv _ _ => rw [hes] at hspec; cases hspec
            | unknown => rw [hes] at hspec; cases hspec
        | F fk b =>
          simp only [insItems, Option.map_eq_some_iff] at hins
          obtain ⟨b', hb', rfl⟩ := hins
          simp only [coreItems, Bool.and_eq_true, Bool.not_eq_eq_eq_not, Bool.not_true, Bool.or_eq_true] at hcore
          obtain ⟨⟨⟨_, hb⟩, _⟩, _⟩ := hcore
          simp only [docOk, Bool.and_eq_true] at hdoc
          obtain ⟨h1, _, h3⟩ := ih.1 b true _ hb hdoc.1 b' hb' (fk.closer ++ (unparseItems l ++ after')) (by
            cases fk <;> exact HeadLe.cons _ _ _)
          simp only [unparseItems, List.append_assoc]
          refine ⟨Rel.trans (frame_F ctx k fk h1) (Rel.add_left wx hL), ?_, ?_⟩
          · cases fk <;> exact HeadLe.cons _ _ _
          · have := h3.frame fk.opener (fk.closer ++ unparseItems l)
            simpa using this
        | T _ => simp [insItems] at hins
        | W _ => simp [insItems] at hins
        | P _ => simp [insItems] at hins
        | M _ _ _ => simp [insItems] at hins
        | C _ _ => simp [insItems] at hins
        | S _ _ => simp [insItems] at hins
        | V _ _ => simp [insItems] at hins
        | VE _ _ _ _ => simp [insItems] at hins
    · intro sig args m rest hcore hdoc args' hins rest' hh
      cases args with
      | nil => simp [insArgs] at hins
      | cons a l =>
        obtain ⟨sp, sig', rfl⟩ := coreArgs_sig hcore
        have hc2 := (coreArgs_split hcore).2
        have hd2 := (argsDocOk_split hdoc).2
        have hL := args_bal ctx hc k sig' l m rest hc2 hd2 rest'
        cases a with
        | br b =>
          simp only [insArgs, Option.map_eq_some_iff] at hins
          obtain ⟨b', hb', rfl⟩ := hins
          simp only [coreArgs, Bool.and_eq_true] at hcore
          simp only [argsDocOk, Bool.and_eq_true] at hdoc
          obtain ⟨h1, _, h3⟩ := ih.1 b _ _ hcore.1.2 hdoc.1 b' hb' (']' :: (unparseArgs l ++ rest')) (HeadLe.cons _ _ _)
          simp only [unparseArgs, List.cons_append, List.append_assoc]
          refine ⟨Rel.trans (frame_plain ctx k (o := '[') (c := ']') (by decide) (by decide) h1) (Rel.add_left wx hL),
            HeadLe.cons _ _ _, ?_⟩
          have := h3.frame ['['] (']' :: unparseArgs l)
          simpa using this
        | grp b =>
          simp only [insArgs, Option.map_eq_some_iff] at hins
          obtain ⟨b', hb', rfl⟩ := hins
          simp only [coreArgs, Bool.and_eq_true] at hcore
          simp only [argsDocOk, Bool.and_eq_true] at hdoc
          obtain ⟨h1, _, h3⟩ := ih.1 b _ _ hcore.1.2 hdoc.1 b' hb' ('}' :: (unparseArgs l ++ rest')) (HeadLe.cons _ _ _)
          simp only [unparseArgs, List.cons_append, List.append_assoc]
          refine ⟨Rel.trans (frame_G ctx k h1) (Rel.add_left wx hL), HeadLe.cons _ _ _, ?_⟩
          have := h3.frame ['{'] ('}' :: unparseArgs l)
          simpa using this
        | del o c b =>
          simp only [insArgs, Option.map_eq_some_iff] at hins
          obtain ⟨b', hb', rfl⟩ := hins
          simp only [coreArgs, Bool.and_eq_true] at hcore
          obtain ⟨⟨⟨⟨⟨_, ho⟩, hcl⟩, _⟩, hb⟩, _⟩ := hcore
          simp only [argsDocOk, Bool.and_eq_true] at hdoc
          obtain ⟨h1, _, h3⟩ := ih.1 b _ _ hb hdoc.1 b' hb' (c :: (unparseArgs l ++ rest')) (HeadLe.cons _ _ _)
          simp only [unparseArgs, List.cons_append, List.append_assoc]
          refine ⟨Rel.trans (frame_plain ctx k (xdelim_plain ho) (xdelim_plain hcl) h1) (Rel.add_left wx hL),
            HeadLe.cons _ _ _, ?_⟩
          have := h3.frame [o] (c :: unparseArgs l)
          simpa using this
        | absent => simp [insArgs] at hins
        | star => simp [insArgs] at hins
        | marker _ => simp [insArgs] at hins
        | tok _ => simp [insArgs] at hins
        | verb _ _ _ => simp [insArgs] at hins
  | args p ih =>
    constructor
    · intro a m after hcore hdoc a' hins after' hh
      cases a with
      | nil => simp [insItems] at hins
      | cons it l =>
        have htl := core_tail hcore
        have hdt := docOk_tail hdoc
        have hL := items_bal ctx hc k l m after htl hdt after' hh
        cases it with
        | M name post args =>
          simp only [insItems, Option.map_eq_some_iff] at hins
          obtain ⟨args', ha', rfl⟩ := hins
          simp only [coreItems, Bool.and_eq_true] at hcore
          obtain ⟨⟨hhdr, hargs⟩, _⟩ := hcore
          simp only [docOk, Bool.and_eq_true, Bool.not_eq_eq_eq_not, Bool.not_true] at hdoc
          obtain ⟨⟨hbad, hda⟩, _⟩ := hdoc
          cases hms : ctx.macroSpec name with
          | none => rw [hms] at hargs; cases hargs
          | some sa =>
            cases sa with
            | std sig =>
              rw [hms] at hargs
              simp only at hargs
              obtain ⟨h1, h2, h3⟩ := ih.2 sig args m _ hargs hda args' ha' (unparseItems l ++ after') (HeadLe.append _ hh)
              simp only [unparseItems, List.cons_append, List.append_assoc]
              have hM : macroHdr name post (unparseArgs args ++ (unparseItems l ++ after)) = true := hhdr
              rw [step_M ctx k hM hbad h2]
              refine ⟨Rel.trans h1 (Rel.add_left wx hL), HeadLe.cons _ _ _, ?_⟩
              have := h3.frame ('\\' :: (name ++ post)) (unparseItems l)
              simpa using this
            | legacyVerb => rw [hms] at hargs; cases hargs
            | legacyVerbEnv _ _ => rw [hms] at hargs; cases hargs
            | unknown => rw [hms] at hargs; cases hargs
        | E name args body =>
          simp only [insItems, Option.map_eq_some_iff] at hins
          obtain ⟨args', ha', rfl⟩ := hins
          simp only [coreItems, Bool.and_eq_true, Bool.not_eq_eq_eq_not, Bool.not_true] at hcore
          obtain ⟨⟨⟨hne, hall⟩, hspec⟩, _⟩ := hcore
          have hne' : name ≠ [] := by intro e; rw [e] at hne; cases hne
          simp only [docOk, Bool.and_eq_true, Bool.not_eq_eq_eq_not, Bool.not_true] at hdoc
          obtain ⟨⟨⟨hbad, hda⟩, hdb⟩, _⟩ := hdoc
          cases hes : ctx.envSpec name with
          | none => rw [hes] at hspec; cases hspec
          | some ab =>
            obtain ⟨sa, bm⟩ := ab
            cases sa with
            | std sig =>
              rw [hes] at hspec
              simp only [Bool.and_eq_true] at hspec
              obtain ⟨hargs, hbody⟩ := hspec
              simp only [unparseItems, List.append_assoc]
              obtain ⟨hA, _, h3⟩ := ih.2 sig args m _ hargs hda args' ha'
                (unparseItems body ++ (endStr name ++ (unparseItems l ++ after'))) (by
                  refine HeadLe.append _ ?_
                  rw [C02.endStr_append, C02.endStr_append]; exact HeadLe.cons _ _ _)
              have hB := items_bal ctx hc k body (m || bm) (endStr name ++ (unparseItems l ++ after)) hbody hdb
                (endStr name ++ (unparseItems l ++ after')) (by
                  rw [C02.endStr_append, C02.endStr_append]; exact HeadLe.cons _ _ _)
              have := frame_E ctx k hall hne' hbad (w1 := wx) (w2 := 0) hA (hB.rhs (by omega))
              refine ⟨Rel.trans (this.rhs (by omega)) (Rel.add_left wx hL), ?_, ?_⟩
              · rw [C02.beginStr_append, C02.beginStr_append]; exact HeadLe.cons _ _ _
              · have := h3.frame (beginStr name) (unparseItems body ++ (endStr name ++ unparseItems l))
                simpa using this
            | legacyVerb => rw [hes] at hspec; cases hspec
            | legacyVerbEnv _ _ => rw [hes] at hspec; cases hspec
            | unknown => rw [hes] at hspec; cases hspec
        | T _ => simp [insItems] at hins
        | W _ => simp [insItems] at hins
        | P _ => simp [insItems] at hins
        | G _ => simp [insItems] at hins
        | F _ _ => simp [insItems] at hins
        | C _ _ => simp [insItems] at hins
        | S _ _ => simp [insItems] at hins
        | V _ _ => simp [insItems] at hins
        | VE _ _ _ _ => simp [insItems] at hins
    · intro sig args m rest hcore hdoc args' hins rest' hh
      cases args with
      | nil => simp [insArgs] at hins
      | cons a l => cases a <;> simp [insArgs] at hins

end inject

end C05Bal
end Pylx
