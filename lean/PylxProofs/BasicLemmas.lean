/- Lemmas about slices and whitespace runs shared by the proof files. -/
import Pylx.Tok
namespace Pylx

theorem slice_of_prefix (s pre : Str) (p : Nat) (h : pre <+: s.drop p) :
    slice s p (p + pre.length) = pre := by
  obtain ⟨t, ht⟩ := h
  simp [slice, ← ht]

theorem slice_of_prefix_take (s pre : Str) (p n : Nat) (h : pre <+: s.drop p) (hn : n ≤ pre.length) :
    slice s p (p + n) = pre.take n := by
  obtain ⟨t, ht⟩ := h
  simp only [slice, ← ht, Nat.add_sub_cancel_left]
  rw [List.take_append_of_le_length hn]

theorem prefix_length_le (s pre : Str) (p : Nat) (h : pre <+: s.drop p) : pre.length ≤ s.length - p := by
  have := h.length_le
  simpa using this

theorem spaceRun_prefix (s : Str) (p : Nat) : spaceRun s p <+: s.drop p :=
  List.takeWhile_prefix _

theorem spaceRun_length_le (s : Str) (p : Nat) : (spaceRun s p).length ≤ s.length - p :=
  prefix_length_le s _ p (spaceRun_prefix s p)

theorem takeWhile_prefix_drop (s : Str) (p : Nat) (f : Char → Bool) : (s.drop p).takeWhile f <+: s.drop p :=
  List.takeWhile_prefix _

theorem slice_length_le (s : Str) (a b : Nat) : (slice s a b).length ≤ b - a := by
  simp [slice]; omega

theorem slice_slice_append (s : Str) (a b c : Nat) (hab : a ≤ b) (hbc : b ≤ c) :
    slice s a b ++ slice s b c = slice s a c := by
  unfold slice
  have h1 : c - a = (b - a) + (c - b) := by omega
  rw [h1, List.take_add]
  congr 1
  rw [List.drop_drop]
  congr 2
  omega

theorem slice_drop_end (s : Str) (a : Nat) : slice s a s.length = s.drop a := by
  unfold slice
  apply List.take_of_length_le
  simp

theorem slice_self (s : Str) (a : Nat) : slice s a a = [] := by simp [slice]

theorem getElem?_lt {α} (l : List α) (i : Nat) (c : α) (h : l[i]? = some c) : i < l.length := by
  rcases Nat.lt_or_ge i l.length with hlt | hge
  · exact hlt
  · rw [List.getElem?_eq_none hge] at h
    cases h

theorem startsWithAt_length (s t : Str) (p : Nat) (h : startsWithAt s t p = true) : p + t.length ≤ s.length ∨ t = [] := by
  unfold startsWithAt at h
  have hp := List.isPrefixOf_iff_prefix.mp h
  have := hp.length_le
  simp at this
  by_cases ht : t = []
  · right; exact ht
  · left
    have : 0 < t.length := List.length_pos_iff.mpr ht
    omega

theorem startsWithAt_slice (s t : Str) (p : Nat) (h : startsWithAt s t p = true) : slice s p (p + t.length) = t := by
  unfold startsWithAt at h
  exact slice_of_prefix s t p (List.isPrefixOf_iff_prefix.mp h)

end Pylx
