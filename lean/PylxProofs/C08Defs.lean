/-
  C08 — definitions: schemes and policies of the property, the Boolean round-trip check evaluated by the kernel
  (one evaluation per *distinct* encoder output, the four schemes produce at most three), its specification, and the
  classes of alphabet characters (replacement shape of `C13_shapes` / kind of ASCII character).
-/
import PylxProofs.C13Parse
import Pylx.C08Drv
namespace Pylx.C08
open Pylx Pylx.EncB Pylx.L2T

/-- the four brace-protection schemes of the property (`none` is not one) -/
def schemes : List Prot := [.braces, .bracesAll, .bracesAlmostAll, .bracesAfterMacro]

/-- `strict_latex_spaces=False` (the documented default, = `'macros'`) and `True` (strict LaTeX spacing) -/
def policies : List SlsSpec := [.bool false, .bool true]

/-- the string survives: encoding succeeds and latex2text of the result is the string itself -/
def RoundTrips (pr : Prot) (pol : SlsSpec) (s : Str) : Prop := roundTrip pr pol s = some (.ok s)

/-- latex2text of `t` under `pol` is exactly `s` -/
def backOk (pol : SlsSpec) (t s : Str) : Bool :=
  match toText pol t with
  | .ok r => r == s
  | .crash _ => false

/-! ### the encoder is a homomorphism -/

/-- the replacement text of the built-in rule for `c`, if any -/
def repl (c : Char) : Option Str := (tableOf .defaults).lookup c.toNat

/-- the chunk emitted for `c` given the result of the table lookup (policy `keep`: other characters are copied) -/
def chunkOf (pr : Prot) (c : Char) : Option Str → Str
  | some r => protect isAsciiAlpha pr r
  | none => [c]

/-- the chunk the encoder emits for one character -/
def chunk (pr : Prot) (c : Char) : Str := chunkOf pr c (repl c)

theorem stepAt_chunk (pr : Prot) (c : Char) : stepAt (cfg pr) [c] 0 c = .emit (chunk pr c) 1 := by
  unfold cfg chunk repl
  rw [C13.stepAt_builtin]
  cases (tableOf .defaults).lookup c.toNat with
  | some r => rfl
  | none => by_cases hc : isCopyChar c = true <;> simp [hc, unknownChar, chunkOf]

theorem encChars_chunks (pr : Prot) (s : Str) : encChars (cfg pr) s = .ok (s.map (chunk pr)) := by
  induction s with
  | nil => rfl
  | cons c cs ih => simp [encChars, stepAt_chunk, ih, EncRes.cons]

/-- **C08 (chunks, encoder side).**  Under every scheme the encoder output for a string is the concatenation of
    the chunks of its characters, each of which depends on that character only (`C04_concat` for the built-in
    rule set, policy `keep`: the encoder never fails). -/
theorem C08_encode_chunks (pr : Prot) (s : Str) : encode (cfg pr) s = some (s.flatMap (chunk pr)) := by
  unfold encode
  rw [show cfg pr = builtinCfg .defaults pr .keep false from rfl,
    encodeChunks_eq_encChars (C13.builtin_perChar .defaults pr .keep false)]
  rw [show builtinCfg .defaults pr .keep false = cfg pr from rfl, encChars_chunks]
  simp [EncRes.joined, List.flatMap]

/-! ### the kernel-evaluated check -/

/-- forces the table lookup once (the kernel evaluates lazily: without this every scheme repeats it) -/
def force {β : Type} (o : Option Str) (f : Option Str → β) : β :=
  match o with
  | some r => f (some r)
  | none => f none

theorem force_eq {β : Type} (o : Option Str) (f : Option Str → β) : force o f = f o := by
  cases o <;> rfl

/-- the distinct encoder outputs under the four schemes, from the looked-up replacements -/
def outsWith (cs : List (Char × Option Str)) : List Str :=
  (schemes.map (fun pr => cs.flatMap (fun p => chunkOf pr p.1 p.2))).eraseDups

/-- all schemes × policies, one latex2text evaluation per distinct encoder output and policy -/
def okWith (s : Str) (cs : List (Char × Option Str)) : Bool :=
  (outsWith cs).all (fun t => policies.all (fun pol => backOk pol t s))

theorem okWith_spec {s : Str} (h : okWith s (s.map (fun c => (c, repl c))) = true) :
    ∀ pr ∈ schemes, ∀ pol ∈ policies, RoundTrips pr pol s := by
  intro pr hpr pol hpol
  unfold okWith outsWith at h
  have hm : s.flatMap (chunk pr) ∈
      (schemes.map (fun pr => (s.map (fun c => (c, repl c))).flatMap (fun p => chunkOf pr p.1 p.2))).eraseDups := by
    refine List.mem_eraseDups.mpr (List.mem_map.mpr ⟨pr, hpr, ?_⟩)
    simp only [List.flatMap_map]; rfl
  have h1 := List.all_eq_true.mp h _ hm
  have h2 := List.all_eq_true.mp h1 pol hpol
  unfold backOk at h2
  unfold RoundTrips roundTrip
  rw [C08_encode_chunks]
  simp only [Option.map_some]
  cases ht : toText pol (s.flatMap (chunk pr)) with
  | ok r =>
    rw [ht] at h2
    have : r = s := by simpa using h2
    rw [this]
  | crash k => rw [ht] at h2; cases h2

def charOk (k : Nat) : Bool :=
  force (repl (Char.ofNat k)) fun o => okWith [Char.ofNat k] [(Char.ofNat k, o)]

def pairOk (a b : Nat) : Bool :=
  force (repl (Char.ofNat a)) fun oa => force (repl (Char.ofNat b)) fun ob =>
    okWith [Char.ofNat a, Char.ofNat b] [(Char.ofNat a, oa), (Char.ofNat b, ob)]

theorem charOk_spec {k : Nat} (h : charOk k = true) :
    ∀ pr ∈ schemes, ∀ pol ∈ policies, RoundTrips pr pol [Char.ofNat k] := by
  unfold charOk at h
  rw [force_eq] at h
  exact okWith_spec h

theorem pairOk_spec {a b : Nat} (h : pairOk a b = true) :
    ∀ pr ∈ schemes, ∀ pol ∈ policies, RoundTrips pr pol [Char.ofNat a, Char.ofNat b] := by
  unfold pairOk at h
  rw [force_eq, force_eq] at h
  exact okWith_spec h

/-! ### slices (the kernel evaluations are cut into small declarations to bound the kernel's memory) -/

theorem all_take_drop {α : Type} (p : α → Bool) (n : Nat) (l : List α)
    (h1 : (l.take n).all p = true) (h2 : (l.drop n).all p = true) : l.all p = true := by
  rw [← List.take_append_drop n l, List.all_append, h1, h2]; rfl

/-- two adjacent slices -/
theorem slice_join {α : Type} (p : α → Bool) (l : List α) (lo a b : Nat)
    (h1 : ((l.drop lo).take a).all p = true) (h2 : ((l.drop (lo + a)).take b).all p = true) :
    ((l.drop lo).take (a + b)).all p = true := by
  rw [List.take_add, List.all_append, h1, List.drop_drop, h2]; rfl

/-- a slice and everything after it -/
theorem slice_rest {α : Type} (p : α → Bool) (l : List α) (lo a : Nat)
    (h1 : ((l.drop lo).take a).all p = true) (h2 : (l.drop (lo + a)).all p = true) :
    (l.drop lo).all p = true := by
  apply all_take_drop p a (l.drop lo) h1
  rw [List.drop_drop]; exact h2

/-! ### what the split files evaluate -/

def CharsOk (ch : List Nat) : Bool := ch.all charOk

/-- row `i` of the pair table against the slice `[lo, lo+n)` of the representatives -/
def RowSlice (lo n : Nat) (a : Nat) : Bool := ((Gen.c08Reps.drop lo).take n).all (pairOk a)
/-- row `i` against the representatives from `lo` on -/
def RowRest (lo : Nat) (a : Nat) : Bool := (Gen.c08Reps.drop lo).all (pairOk a)
def RowOk (a : Nat) : Bool := Gen.c08Reps.all (pairOk a)

theorem row_slice_join (l : List Nat) (lo a b : Nat)
    (h1 : l.all (RowSlice lo a) = true) (h2 : l.all (RowSlice (lo + a) b) = true) :
    l.all (RowSlice lo (a + b)) = true := by
  rw [List.all_eq_true] at *
  intro x hx
  exact slice_join (pairOk x) Gen.c08Reps lo a b (h1 x hx) (h2 x hx)

theorem row_slice_rest (l : List Nat) (a : Nat)
    (h1 : l.all (RowSlice 0 a) = true) (h2 : l.all (RowRest (0 + a)) = true) : l.all RowOk = true := by
  rw [List.all_eq_true] at *
  intro x hx
  have := slice_rest (pairOk x) Gen.c08Reps 0 a (h1 x hx) (h2 x hx)
  simpa [RowOk] using this

/-! ### classes -/

inductive Cls where
  | shape (s : Option C13.Shape)     -- the character has a rule: shape of its replacement text
  | letter | digit | space | newline | punct
deriving DecidableEq, Repr

def asciiCls (c : Char) : Cls :=
  if c == '\n' then .newline else if c == ' ' then .space
  else if isAsciiAlpha c then .letter else if '0' ≤ c && c ≤ '9' then .digit else .punct

/-- class of an alphabet code point -/
def classOf (k : Nat) : Cls :=
  match (tableOf .defaults).lookup k with
  | some r => .shape ((C13.itemsOf r).map C13.shapeOf)
  | none => asciiCls (Char.ofNat k)

/-! ### paragraph breaks -/

/-- the string starts with a run of white space that latex2text normalises to `"\n\n"` and that is not `"\n\n"`
    itself: three newlines, or two newlines separated by spaces -/
def parBad : Str → Bool
  | '\n' :: '\n' :: '\n' :: _ => true
  | '\n' :: ' ' :: r => (r.dropWhile (· == ' ')).head? == some '\n'
  | _ => false

/-- no paragraph break other than exactly `"\n\n"` (latex2text renders every paragraph break as `"\n\n"`) -/
def ParClean : Str → Bool
  | [] => true
  | c :: r => !parBad (c :: r) && ParClean r

theorem ParClean_tail {c : Char} {r : Str} (h : ParClean (c :: r) = true) : ParClean r = true := by
  simp only [ParClean, Bool.and_eq_true] at h
  exact h.2

end Pylx.C08
