/-
  C06Sim — two structural facts about the parser model used by C06:

  * `run_mono`  : more fuel never changes a result that is not `.fuel`;
  * `run_sim` / `C06_agree` : whenever the strict parser succeeds, the tolerant parser
    computes the identical result (for every fuel).

  Both are proved compositionally, one small lemma per model function, and lifted by
  induction on the fuel.
-/
import PylxProofs.ParseSpec
namespace Pylx

/-! ## Part A: fuel monotonicity -/

/-- `b` refines `a`: either `a` ran out of fuel, or they agree -/
def RM (a b : Ret) : Prop := a = .fuel ∨ b = a
def RMRaw (a b : Raw) : Prop := a = .ret .fuel ∨ b = a

theorem RM.refl (a : Ret) : RM a a := Or.inr rfl
theorem RMRaw.refl (a : Raw) : RMRaw a a := Or.inr rfl
theorem RMRaw.ret {a b : Ret} (h : RM a b) : RMRaw (.ret a) (.ret b) := by
  rcases h with rfl | rfl
  · exact Or.inl rfl
  · exact Or.inr rfl

section PartA
variable {env : Env} {rec1 rec2 : Task → Ret}

theorem afterChild_rm (hrec : ∀ t, RM (rec1 t) (rec2 t)) (f : PSFields) (stop : StopTok) (child : ChildPS)
    (st : LoopSt) (noneOk : Bool) {r1 r2 : Ret} (h : RM r1 r2) :
    RM (afterChild rec1 f stop child st noneOk r1) (afterChild rec2 f stop child st noneOk r2) := by
  rcases h with rfl | rfl
  · exact Or.inl rfl
  · cases r2 with
    | ok res p =>
      cases res with
      | node n => exact hrec _
      | none =>
        unfold afterChild
        cases noneOk
        · exact RM.refl _
        · exact hrec _
      | list _ _ _ => exact RM.refl _
      | args _ _ _ => exact RM.refl _
    | perr e => exact RM.refl _
    | loopEnd e => exact RM.refl _
    | crash k => exact RM.refl _
    | fuel => exact RM.refl _

theorem loopDispatch_rm (hrec : ∀ t, RM (rec1 t) (rec2 t)) (f : PSFields) (stop : StopTok) (child : ChildPS)
    (st : LoopSt) (t : Token) :
    RM (loopDispatch env rec1 f stop child st t) (loopDispatch env rec2 f stop child st t) := by
  unfold loopDispatch
  cases t.kind <;> simp only []
  case braceClose => exact RM.refl _
  case endEnv => exact RM.refl _
  case comment => exact hrec _
  case braceOpen => exact afterChild_rm hrec _ _ _ _ _ (hrec _)
  case «macro» =>
    cases env.ctx.macroSpec t.arg <;> simp only []
    · cases env.tol
      · exact RM.refl _
      · exact hrec _
    · exact afterChild_rm hrec _ _ _ _ _ (hrec _)
  case beginEnv =>
    cases env.ctx.envSpec t.arg <;> simp only []
    · cases env.tol
      · exact RM.refl _
      · exact hrec _
    · exact afterChild_rm hrec _ _ _ _ _ (hrec _)
  case specials =>
    cases lookupFirst t.arg env.ctx.specials <;> simp only []
    · exact RM.refl _
    · exact afterChild_rm hrec _ _ _ _ _ (hrec _)
  case mathInline =>
    split
    · exact afterChild_rm hrec _ _ _ _ _ (hrec _)
    · exact RM.refl _
  case mathDisplay =>
    split
    · exact afterChild_rm hrec _ _ _ _ _ (hrec _)
    · exact RM.refl _
  case char => exact RM.refl _

theorem loopStep_rm (hrec : ∀ t, RM (rec1 t) (rec2 t)) (f : PSFields) (stop : StopTok) (child : ChildPS)
    (st : LoopSt) :
    RM (loopStep env rec1 f stop child st) (loopStep env rec2 f stop child st) := by
  unfold loopStep
  cases loopRead env f st with
  | inr r => exact RM.refl _
  | inl t =>
    simp only []
    split
    · exact RM.refl _
    · split
      · exact hrec _
      · exact loopDispatch_rm hrec _ _ _ _ _

theorem retOfLoop_rm {r1 r2 : Ret} (h : RM r1 r2) (k : LoopEnd → Raw) :
    RMRaw (retOfLoop r1 k) (retOfLoop r2 k) := by
  rcases h with rfl | rfl
  · exact Or.inl rfl
  · exact RMRaw.refl _

theorem rawGeneral_rm (hrec : ∀ t, RM (rec1 t) (rec2 t)) (stop : StopTok) (require : Bool) (child : ChildPS)
    (f : PSFields) (pos : Nat) :
    RMRaw (rawGeneral rec1 stop require child f pos) (rawGeneral rec2 stop require child f pos) := by
  unfold rawGeneral
  exact retOfLoop_rm (hrec _) _

theorem bindOk_rm {r1 r2 : Ret} (h : RM r1 r2) {k1 k2 : Res → Nat → Raw}
    (hk : ∀ res p, RMRaw (k1 res p) (k2 res p)) : RMRaw (bindOk r1 k1) (bindOk r2 k2) := by
  rcases h with rfl | rfl
  · exact Or.inl rfl
  · cases r2 with
    | ok res p => exact hk res p
    | perr e => exact RMRaw.refl _
    | loopEnd e => exact RMRaw.refl _
    | crash k => exact RMRaw.refl _
    | fuel => exact RMRaw.refl _

theorem rawGroupTok_rm (hrec : ∀ t, RM (rec1 t) (rec2 t)) (delims : GroupDelims) (optional allowPre : Bool)
    (f g : PSFields) (t : Token) :
    RMRaw (rawGroupTok rec1 delims optional allowPre f g t) (rawGroupTok rec2 delims optional allowPre f g t) := by
  unfold rawGroupTok
  split
  · cases groupCloser delims g <;> simp only []
    · exact RMRaw.refl _
    · exact bindOk_rm (hrec _) (fun _ _ => RMRaw.refl _)
  · exact RMRaw.refl _

theorem rawGroup_rm (hrec : ∀ t, RM (rec1 t) (rec2 t)) (delims : GroupDelims) (optional allowPre : Bool)
    (f : PSFields) (pos : Nat) :
    RMRaw (rawGroup env rec1 delims optional allowPre f pos) (rawGroup env rec2 delims optional allowPre f pos) := by
  unfold rawGroup
  cases groupState delims f <;> simp only []
  · exact RMRaw.refl _
  · cases peekTok env.tol _ env.s pos <;> simp only []
    · exact rawGroupTok_rm hrec _ _ _ _ _ _
    · exact RMRaw.refl _
    · exact RMRaw.refl _

theorem rawMathTok_rm (hrec : ∀ t, RM (rec1 t) (rec2 t)) (delim : Str) (f : PSFields) (t : Token) :
    RMRaw (rawMathTok rec1 delim f t) (rawMathTok rec2 delim f t) := by
  unfold rawMathTok
  split
  · cases (mkPS (mathFields f t.arg)).t.expectClose <;> simp only []
    · exact RMRaw.refl _
    · exact bindOk_rm (hrec _) (fun _ _ => RMRaw.refl _)
  · exact RMRaw.refl _

theorem rawMath_rm (hrec : ∀ t, RM (rec1 t) (rec2 t)) (delim : Str) (f : PSFields) (pos : Nat) :
    RMRaw (rawMath env rec1 delim f pos) (rawMath env rec2 delim f pos) := by
  unfold rawMath
  cases peekTok env.tol (mkPS f) env.s pos <;> simp only []
  · exact rawMathTok_rm hrec _ _ _
  · exact RMRaw.refl _
  · exact RMRaw.refl _

theorem rawEnvBody_rm (hrec : ∀ t, RM (rec1 t) (rec2 t)) (name : Str) (f : PSFields) (pos : Nat) :
    RMRaw (rawEnvBody rec1 name f pos) (rawEnvBody rec2 name f pos) := by
  unfold rawEnvBody
  exact bindOk_rm (hrec _) (fun _ _ => RMRaw.refl _)

theorem rawCall_rm (hrec : ∀ t, RM (rec1 t) (rec2 t)) (mk : Nat → Option (List Arg) → Node) (a : ArgsP)
    (f : PSFields) (pos : Nat) :
    RMRaw (rawCall rec1 mk a f pos) (rawCall rec2 mk a f pos) := by
  unfold rawCall
  exact bindOk_rm (hrec _) (fun _ _ => RMRaw.refl _)

theorem rawEnvCall_rm (hrec : ∀ t, RM (rec1 t) (rec2 t)) (t : Token) (a : ArgsP) (bodyMath : Bool)
    (f : PSFields) (pos : Nat) :
    RMRaw (rawEnvCall rec1 t a bodyMath f pos) (rawEnvCall rec2 t a bodyMath f pos) := by
  unfold rawEnvCall
  exact bindOk_rm (hrec _) (fun _ _ => bindOk_rm (hrec _) (fun _ _ => RMRaw.refl _))

theorem rawLegacyVerbEnv_rm (hrec : ∀ t, RM (rec1 t) (rec2 t)) (name : Str) (optArg : Bool)
    (f : PSFields) (pos : Nat) :
    RMRaw (rawLegacyVerbEnv env rec1 name optArg f pos) (rawLegacyVerbEnv env rec2 name optArg f pos) := by
  unfold rawLegacyVerbEnv
  split
  · exact RMRaw.refl _
  · split
    · exact RMRaw.refl _
    · exact bindOk_rm (hrec _) (fun _ _ => RMRaw.refl _)

theorem argsLoop_rm (hrec : ∀ t, RM (rec1 t) (rec2 t)) (f : PSFields) (l : List ArgSpec) :
    ∀ (acc : List Arg) (pos : Nat), RM (argsLoop env rec1 f l acc pos) (argsLoop env rec2 f l acc pos) := by
  induction l with
  | nil => intro acc pos; exact RM.refl _
  | cons a rest ih =>
    intro acc pos
    unfold argsLoop
    split
    · exact RM.refl _
    · rcases hrec (.pc (argParser a.kind) (applyDelta f a.delta) pos) with h | h
      · rw [h]; exact Or.inl rfl
      · rw [h]
        cases rec1 (.pc (argParser a.kind) (applyDelta f a.delta) pos) with
        | ok res p => exact ih _ _
        | perr e => exact RM.refl _
        | loopEnd e => exact RM.refl _
        | crash k => exact RM.refl _
        | fuel => exact RM.refl _

theorem rawArguments_rm (hrec : ∀ t, RM (rec1 t) (rec2 t)) (a : ArgsP) (f : PSFields) (pos : Nat) :
    RMRaw (rawArguments env rec1 a f pos) (rawArguments env rec2 a f pos) := by
  unfold rawArguments
  cases a with
  | std l => exact RMRaw.ret (argsLoop_rm hrec f l [] pos)
  | legacyVerb => exact RMRaw.refl _
  | legacyVerbEnv name optArg => exact rawLegacyVerbEnv_rm hrec _ _ _ _
  | unknown => exact RMRaw.refl _

theorem exprOnTok_rm (hrec : ∀ t, RM (rec1 t) (rec2 t)) (allowPre : Bool) (skipped : List Node)
    (f : PSFields) (t : Token) :
    RM (exprOnTok env rec1 allowPre skipped f t) (exprOnTok env rec2 allowPre skipped f t) := by
  unfold exprOnTok
  cases t.kind <;> simp only []
  case comment =>
    split
    · exact hrec _
    · split
      · exact hrec _
      · exact RM.refl _
  case braceOpen =>
    rcases hrec (.pc (.group (.auto t.arg) false false) f t.pos) with h | h
    · rw [h]; exact Or.inl rfl
    · rw [h]; exact RM.refl _
  all_goals exact RM.refl _

theorem exprTok_rm (hrec : ∀ t, RM (rec1 t) (rec2 t)) (allowPre : Bool) (skipped : List Node)
    (f : PSFields) (t : Token) :
    RM (exprTok env rec1 allowPre skipped f t) (exprTok env rec2 allowPre skipped f t) := by
  unfold exprTok
  simp only []
  split
  · exact RM.refl _
  · split
    · exact RM.refl _
    · split
      · split
        · exact hrec _
        · split
          · exact hrec _
          · exact RM.refl _
      · exact exprOnTok_rm hrec _ _ _ _

theorem exprStep_rm (hrec : ∀ t, RM (rec1 t) (rec2 t)) (allowPre : Bool) (skipped : List Node)
    (f : PSFields) (pos : Nat) :
    RM (exprStep env rec1 allowPre skipped f pos) (exprStep env rec2 allowPre skipped f pos) := by
  unfold exprStep
  simp only []
  cases peekTok env.tol _ env.s pos <;> simp only []
  · exact exprTok_rm hrec _ _ _ _
  · exact RM.refl _
  · exact RM.refl _

theorem rawParse_rm (hrec : ∀ t, RM (rec1 t) (rec2 t)) (p : Parser) (f : PSFields) (pos : Nat) :
    RMRaw (rawParse env rec1 p f pos) (rawParse env rec2 p f pos) := by
  unfold rawParse
  cases p with
  | general stop require child => exact rawGeneral_rm hrec _ _ _ _ _
  | group d o a => exact rawGroup_rm hrec _ _ _ _ _
  | math d => exact rawMath_rm hrec _ _ _
  | envBody n => exact rawEnvBody_rm hrec _ _ _
  | macroCall t a => exact rawCall_rm hrec _ _ _ _
  | specialsCall t a => exact rawCall_rm hrec _ _ _ _
  | envCall t a bm => exact rawEnvCall_rm hrec _ _ _ _ _
  | arguments a => exact rawArguments_rm hrec _ _ _
  | expression ap => exact RMRaw.ret (hrec _)
  | marker c fl ap => exact RMRaw.refl _
  | verbatim d => exact RMRaw.refl _

theorem parseContent_rm (tol : Bool) {a b : Raw} (h : RMRaw a b) :
    RM (parseContent tol a) (parseContent tol b) := by
  rcases h with rfl | rfl
  · exact Or.inl rfl
  · exact RM.refl _

theorem step_rm (hrec : ∀ t, RM (rec1 t) (rec2 t)) (t : Task) :
    RM (step env rec1 t) (step env rec2 t) := by
  cases t with
  | pc p f pos => exact parseContent_rm _ (rawParse_rm hrec _ _ _)
  | loop f stop child st => exact loopStep_rm hrec _ _ _ _
  | expr ap skipped f pos => exact exprStep_rm hrec _ _ _ _

end PartA

theorem run_le (env : Env) : ∀ (n : Nat) (t : Task), RM (run env n t) (run env (n + 1) t) := by
  intro n
  induction n with
  | zero => intro t; exact Or.inl rfl
  | succ n ih => intro t; exact step_rm ih t

/-- more fuel never changes a result that is not `.fuel` -/
theorem run_mono (env : Env) (n m : Nat) (t : Task) (h : run env n t ≠ .fuel) (hnm : n ≤ m) :
    run env m t = run env n t := by
  induction hnm with
  | refl => rfl
  | step hle ih =>
    rename_i k
    rcases run_le env k t with h' | h'
    · rw [ih] at h'; exact absurd h' h
    · rw [h', ih]


/-! ### non-vacuity (Part A) -/

/-- a context with one macro `\a` taking one mandatory argument -/
private def exCtx06 : Ctx := { macros := [("a".toList, .std [⟨.m, .none⟩])] }

private def Ret.isOk : Ret → Bool
  | .ok _ _ => true
  | _ => false

private def Ret.isFuel : Ret → Bool
  | .fuel => true
  | _ => false

/-- `\a{b}` parses with fuel 10 but not with fuel 9 -/
example : (run { tol := false, ctx := exCtx06, s := "\\a{b}".toList } 10 (topTask {})).isOk = true
    ∧ (run { tol := false, ctx := exCtx06, s := "\\a{b}".toList } 9 (topTask {})).isFuel = true := by decide

/-- the hypothesis of `run_mono` holds on that input, and the conclusion transports the result to any larger fuel -/
example : run { tol := false, ctx := exCtx06, s := "\\a{b}".toList } (fuelFor "\\a{b}".toList) (topTask {})
    = run { tol := false, ctx := exCtx06, s := "\\a{b}".toList } 10 (topTask {}) := by
  refine run_mono _ 10 _ _ ?_ (by decide)
  intro h
  have h2 : (run { tol := false, ctx := exCtx06, s := "\\a{b}".toList } 10 (topTask {})).isFuel = false := by decide
  rw [h] at h2
  cases h2

/-! ## Part B: strict success is reproduced by the tolerant parser -/

/-- results that strict `parse_content` can deliver on a path to overall success -/
def GoodSim : Ret → Prop
  | .ok _ _ => True
  | .loopEnd e => e.err = none
  | _ => False

def GoodRaw : Raw → Prop
  | .eos _ => True
  | .ret r => GoodSim r

def Sim (a b : Ret) : Prop := GoodSim a → b = a
def SimRaw (a b : Raw) : Prop := GoodRaw a → b = a

theorem Sim.refl (a : Ret) : Sim a a := fun _ => rfl
theorem SimRaw.refl (a : Raw) : SimRaw a a := fun _ => rfl
theorem Sim.of_not {a b : Ret} (h : ¬ GoodSim a) : Sim a b := fun g => absurd g h
theorem SimRaw.of_not {a b : Raw} (h : ¬ GoodRaw a) : SimRaw a b := fun g => absurd g h
theorem SimRaw.ret {a b : Ret} (h : Sim a b) : SimRaw (.ret a) (.ret b) := by
  intro g
  have := h g
  rw [this]

theorem not_good_loopFinish (f : PSFields) (st : LoopSt) (tk : Option Token) (e : PErr) :
    ¬ GoodSim (loopFinish f st tk (some e)) := by
  intro h
  unfold loopFinish at h
  simp only [GoodSim] at h
  cases h

/-- the tolerant tokenizer differs from the strict one only where the strict one reports an error -/
theorem peekTok_sim (ps : PState) (s : Str) (p : Nat) :
    (∃ w ep t r, peekTok false ps s p = .err w ep t r) ∨ peekTok true ps s p = peekTok false ps s p := by
  unfold peekTok
  cases peekImpl ps s p with
  | tok t => exact Or.inr rfl
  | eos fs => exact Or.inr rfl
  | err w ep t r => exact Or.inl ⟨w, ep, t, r, rfl⟩

/-- the strict and the tolerant environment for the same context and input -/
structure EnvRel (envS envT : Env) : Prop where
  tolS : envS.tol = false
  tolT : envT.tol = true
  ctx : envT.ctx = envS.ctx
  s : envT.s = envS.s

section PartB
variable {envS envT : Env} {recS recT : Task → Ret}

theorem afterChild_sim (hrec : ∀ t, Sim (recS t) (recT t)) (f : PSFields) (stop : StopTok) (child : ChildPS)
    (st : LoopSt) (noneOk : Bool) {r1 r2 : Ret} (h : Sim r1 r2) :
    Sim (afterChild recS f stop child st noneOk r1) (afterChild recT f stop child st noneOk r2) := by
  cases r1 with
  | ok res p =>
    have h2 := h trivial
    subst h2
    cases res with
    | node n => exact hrec _
    | none =>
      unfold afterChild
      cases noneOk
      · exact Sim.of_not (fun h => h)
      · exact hrec _
    | list _ _ _ => exact Sim.of_not (fun h => h)
    | args _ _ _ => exact Sim.of_not (fun h => h)
  | perr e => exact Sim.of_not (not_good_loopFinish _ _ _ _)
  | loopEnd e => exact Sim.of_not (fun h => h)
  | crash k => exact Sim.of_not (fun h => h)
  | fuel => exact Sim.of_not (fun h => h)

theorem loopDispatch_sim (he : EnvRel envS envT) (hrec : ∀ t, Sim (recS t) (recT t)) (f : PSFields)
    (stop : StopTok) (child : ChildPS) (st : LoopSt) (t : Token) :
    Sim (loopDispatch envS recS f stop child st t) (loopDispatch envT recT f stop child st t) := by
  unfold loopDispatch
  simp only [he.tolS, he.tolT, he.ctx, Bool.false_eq_true, if_true, if_false]
  cases t.kind <;> simp only []
  case braceClose => exact Sim.of_not (not_good_loopFinish _ _ _ _)
  case endEnv => exact Sim.of_not (not_good_loopFinish _ _ _ _)
  case comment => exact hrec _
  case braceOpen => exact afterChild_sim hrec _ _ _ _ _ (hrec _)
  case «macro» =>
    cases envS.ctx.macroSpec t.arg <;> simp only []
    · exact Sim.of_not (not_good_loopFinish _ _ _ _)
    · exact afterChild_sim hrec _ _ _ _ _ (hrec _)
  case beginEnv =>
    cases envS.ctx.envSpec t.arg <;> simp only []
    · exact Sim.of_not (not_good_loopFinish _ _ _ _)
    · exact afterChild_sim hrec _ _ _ _ _ (hrec _)
  case specials =>
    cases lookupFirst t.arg envS.ctx.specials <;> simp only []
    · exact Sim.of_not (fun h => h)
    · exact afterChild_sim hrec _ _ _ _ _ (hrec _)
  case mathInline =>
    split
    · exact afterChild_sim hrec _ _ _ _ _ (hrec _)
    · exact Sim.of_not (not_good_loopFinish _ _ _ _)
  case mathDisplay =>
    split
    · exact afterChild_sim hrec _ _ _ _ _ (hrec _)
    · exact Sim.of_not (not_good_loopFinish _ _ _ _)
  case char => exact Sim.of_not (fun h => h)

theorem loopRead_sim (he : EnvRel envS envT) (f : PSFields) (st : LoopSt) :
    (∃ r, loopRead envS f st = .inr r ∧ ¬ GoodSim r) ∨ loopRead envT f st = loopRead envS f st := by
  unfold loopRead
  rw [he.tolS, he.tolT, he.s]
  rcases peekTok_sim (mkPS f) envS.s st.pos with ⟨w, ep, t, r, h⟩ | h
  · left
    rw [h]
    exact ⟨_, rfl, not_good_loopFinish _ _ _ _⟩
  · right
    rw [h]

theorem loopStep_sim (he : EnvRel envS envT) (hrec : ∀ t, Sim (recS t) (recT t)) (f : PSFields)
    (stop : StopTok) (child : ChildPS) (st : LoopSt) :
    Sim (loopStep envS recS f stop child st) (loopStep envT recT f stop child st) := by
  unfold loopStep
  rcases loopRead_sim he f st with ⟨r, h, hg⟩ | h
  · simp only [h]
    exact Sim.of_not hg
  · rw [h]
    cases loopRead envS f st with
    | inr r => exact Sim.refl _
    | inl t =>
      simp only []
      split
      · exact Sim.refl _
      · split
        · exact hrec _
        · exact loopDispatch_sim he hrec _ _ _ _ _

theorem rawGeneral_sim (hrec : ∀ t, Sim (recS t) (recT t)) (stop : StopTok) (require : Bool) (child : ChildPS)
    (f : PSFields) (pos : Nat) :
    SimRaw (rawGeneral recS stop require child f pos) (rawGeneral recT stop require child f pos) := by
  unfold rawGeneral
  have h := hrec (.loop f stop child { pos := pos })
  cases hr : recS (.loop f stop child { pos := pos }) with
  | loopEnd e =>
    rw [hr] at h
    cases hee : e.err with
    | none =>
      have h2 := h hee
      rw [h2]
      exact SimRaw.refl _
    | some pe =>
      apply SimRaw.of_not
      simp only [retOfLoop, hee]
      exact fun h => h
  | ok r p => exact SimRaw.of_not (fun h => h)
  | perr e => exact SimRaw.of_not (fun h => h)
  | crash k => exact SimRaw.of_not (fun h => h)
  | fuel => exact SimRaw.of_not (fun h => h)

theorem bindOk_sim {r1 r2 : Ret} (h : Sim r1 r2) {k1 k2 : Res → Nat → Raw}
    (hk : ∀ res p, SimRaw (k1 res p) (k2 res p)) : SimRaw (bindOk r1 k1) (bindOk r2 k2) := by
  cases r1 with
  | ok res p =>
    have h2 := h trivial
    subst h2
    exact hk res p
  | perr e => exact SimRaw.of_not (fun h => h)
  | loopEnd e =>
    intro g
    have h2 := h g
    subst h2
    rfl
  | crash k => exact SimRaw.of_not (fun h => h)
  | fuel => exact SimRaw.of_not (fun h => h)

theorem rawGroupTok_sim (hrec : ∀ t, Sim (recS t) (recT t)) (delims : GroupDelims) (optional allowPre : Bool)
    (f g : PSFields) (t : Token) :
    SimRaw (rawGroupTok recS delims optional allowPre f g t) (rawGroupTok recT delims optional allowPre f g t) := by
  unfold rawGroupTok
  split
  · cases groupCloser delims g <;> simp only []
    · exact SimRaw.refl _
    · exact bindOk_sim (hrec _) (fun _ _ => SimRaw.refl _)
  · exact SimRaw.refl _

theorem rawGroup_sim (he : EnvRel envS envT) (hrec : ∀ t, Sim (recS t) (recT t)) (delims : GroupDelims)
    (optional allowPre : Bool) (f : PSFields) (pos : Nat) :
    SimRaw (rawGroup envS recS delims optional allowPre f pos) (rawGroup envT recT delims optional allowPre f pos) := by
  unfold rawGroup
  simp only [he.tolS, he.tolT, he.s]
  cases groupState delims f with
  | none => exact SimRaw.refl _
  | some g =>
    simp only []
    rcases peekTok_sim (mkPS g) envS.s pos with ⟨w, ep, t, r, h⟩ | h
    · simp only [h]
      exact SimRaw.of_not (fun h => h)
    · rw [h]
      cases peekTok false (mkPS g) envS.s pos <;> simp only []
      · exact rawGroupTok_sim hrec _ _ _ _ _ _
      · exact SimRaw.refl _
      · exact SimRaw.refl _

theorem rawMathTok_sim (hrec : ∀ t, Sim (recS t) (recT t)) (delim : Str) (f : PSFields) (t : Token) :
    SimRaw (rawMathTok recS delim f t) (rawMathTok recT delim f t) := by
  unfold rawMathTok
  split
  · cases (mkPS (mathFields f t.arg)).t.expectClose <;> simp only []
    · exact SimRaw.refl _
    · exact bindOk_sim (hrec _) (fun _ _ => SimRaw.refl _)
  · exact SimRaw.refl _

theorem rawMath_sim (he : EnvRel envS envT) (hrec : ∀ t, Sim (recS t) (recT t)) (delim : Str) (f : PSFields)
    (pos : Nat) : SimRaw (rawMath envS recS delim f pos) (rawMath envT recT delim f pos) := by
  unfold rawMath
  simp only [he.tolS, he.tolT, he.s]
  rcases peekTok_sim (mkPS f) envS.s pos with ⟨w, ep, t, r, h⟩ | h
  · simp only [h]
    exact SimRaw.of_not (fun h => h)
  · rw [h]
    cases peekTok false (mkPS f) envS.s pos <;> simp only []
    · exact rawMathTok_sim hrec _ _ _
    · exact SimRaw.refl _
    · exact SimRaw.refl _

theorem rawEnvBody_sim (hrec : ∀ t, Sim (recS t) (recT t)) (name : Str) (f : PSFields) (pos : Nat) :
    SimRaw (rawEnvBody recS name f pos) (rawEnvBody recT name f pos) := by
  unfold rawEnvBody
  exact bindOk_sim (hrec _) (fun _ _ => SimRaw.refl _)

theorem rawCall_sim (hrec : ∀ t, Sim (recS t) (recT t)) (mk : Nat → Option (List Arg) → Node) (a : ArgsP)
    (f : PSFields) (pos : Nat) :
    SimRaw (rawCall recS mk a f pos) (rawCall recT mk a f pos) := by
  unfold rawCall
  exact bindOk_sim (hrec _) (fun _ _ => SimRaw.refl _)

theorem rawEnvCall_sim (hrec : ∀ t, Sim (recS t) (recT t)) (t : Token) (a : ArgsP) (bodyMath : Bool)
    (f : PSFields) (pos : Nat) :
    SimRaw (rawEnvCall recS t a bodyMath f pos) (rawEnvCall recT t a bodyMath f pos) := by
  unfold rawEnvCall
  exact bindOk_sim (hrec _) (fun _ _ => bindOk_sim (hrec _) (fun _ _ => SimRaw.refl _))

theorem rawLegacyVerb_eq (he : EnvRel envS envT) (f : PSFields) (pos : Nat) :
    rawLegacyVerb envT f pos = rawLegacyVerb envS f pos := by
  unfold rawLegacyVerb
  rw [he.s]

theorem legacyVerbEnvFinish_eq (he : EnvRel envS envT) (name : Str) (f : PSFields) (pos : Nat)
    (pre : List Arg) (p : Nat) :
    legacyVerbEnvFinish envT name f pos pre p = legacyVerbEnvFinish envS name f pos pre p := by
  unfold legacyVerbEnvFinish
  rw [he.s]

theorem rawVerbatim_eq (he : EnvRel envS envT) (delims : Option (Char × Char)) (f : PSFields) (pos : Nat) :
    rawVerbatim envT delims f pos = rawVerbatim envS delims f pos := by
  unfold rawVerbatim
  rw [he.s]

theorem rawLegacyVerbEnv_sim (he : EnvRel envS envT) (hrec : ∀ t, Sim (recS t) (recT t)) (name : Str)
    (optArg : Bool) (f : PSFields) (pos : Nat) :
    SimRaw (rawLegacyVerbEnv envS recS name optArg f pos) (rawLegacyVerbEnv envT recT name optArg f pos) := by
  unfold rawLegacyVerbEnv
  simp only [legacyVerbEnvFinish_eq he, he.s]
  split
  · exact SimRaw.refl _
  · split
    · exact SimRaw.refl _
    · exact bindOk_sim (hrec _) (fun _ _ => SimRaw.refl _)

theorem argsLoop_sim (he : EnvRel envS envT) (hrec : ∀ t, Sim (recS t) (recT t)) (f : PSFields)
    (l : List ArgSpec) :
    ∀ (acc : List Arg) (pos : Nat), Sim (argsLoop envS recS f l acc pos) (argsLoop envT recT f l acc pos) := by
  induction l with
  | nil => intro acc pos; exact Sim.refl _
  | cons a rest ih =>
    intro acc pos
    unfold argsLoop
    simp only [he.tolS, he.tolT, he.s]
    rcases peekTok_sim (mkPS f) envS.s pos with ⟨w, ep, t, r, h⟩ | h
    · simp only [h]
      exact Sim.of_not (fun h => h)
    · rw [h]
      split
      · exact Sim.of_not (fun h => h)
      · have h2 := hrec (.pc (argParser a.kind) (applyDelta f a.delta) pos)
        cases hr : recS (.pc (argParser a.kind) (applyDelta f a.delta) pos) with
        | ok res p =>
          rw [hr] at h2
          rw [h2 trivial]
          exact ih _ _
        | perr e => exact Sim.of_not (fun h => h)
        | loopEnd e =>
          rw [hr] at h2
          intro g
          rw [h2 g]
        | crash k => exact Sim.of_not (fun h => h)
        | fuel => exact Sim.of_not (fun h => h)

theorem rawArguments_sim (he : EnvRel envS envT) (hrec : ∀ t, Sim (recS t) (recT t)) (a : ArgsP)
    (f : PSFields) (pos : Nat) :
    SimRaw (rawArguments envS recS a f pos) (rawArguments envT recT a f pos) := by
  unfold rawArguments
  cases a with
  | std l => exact SimRaw.ret (argsLoop_sim he hrec f l [] pos)
  | legacyVerb =>
    simp only [rawLegacyVerb_eq he]
    exact SimRaw.refl _
  | legacyVerbEnv name optArg => exact rawLegacyVerbEnv_sim he hrec _ _ _ _
  | unknown => exact SimRaw.refl _

theorem exprOnTok_sim (he : EnvRel envS envT) (hrec : ∀ t, Sim (recS t) (recT t)) (allowPre : Bool)
    (skipped : List Node) (f : PSFields) (t : Token) :
    Sim (exprOnTok envS recS allowPre skipped f t) (exprOnTok envT recT allowPre skipped f t) := by
  unfold exprOnTok
  simp only [he.tolS, he.tolT, Bool.false_eq_true, if_true, if_false]
  cases t.kind <;> simp only []
  case comment =>
    split
    · exact hrec _
    · exact Sim.of_not (fun h => h)
  case braceOpen =>
    have h2 := hrec (.pc (.group (.auto t.arg) false false) f t.pos)
    cases hr : recS (.pc (.group (.auto t.arg) false false) f t.pos) with
    | ok res p =>
      rw [hr] at h2
      rw [h2 trivial]
      exact Sim.refl _
    | perr e => exact Sim.of_not (fun h => h)
    | loopEnd e =>
      rw [hr] at h2
      intro g
      rw [h2 g]
    | crash k => exact Sim.of_not (fun h => h)
    | fuel => exact Sim.of_not (fun h => h)
  all_goals exact Sim.refl _

theorem exprTok_sim (he : EnvRel envS envT) (hrec : ∀ t, Sim (recS t) (recT t)) (allowPre : Bool)
    (skipped : List Node) (f : PSFields) (t : Token) :
    Sim (exprTok envS recS allowPre skipped f t) (exprTok envT recT allowPre skipped f t) := by
  unfold exprTok
  simp only [he.tolS, he.tolT, Bool.false_eq_true, if_true, if_false]
  split
  · split
    · exact Sim.of_not (fun h => h)
    · exact Sim.refl _
  · split
    · exact Sim.refl _
    · split
      · split
        · exact hrec _
        · exact Sim.of_not (fun h => h)
      · exact exprOnTok_sim he hrec _ _ _ _

theorem exprStep_sim (he : EnvRel envS envT) (hrec : ∀ t, Sim (recS t) (recT t)) (allowPre : Bool)
    (skipped : List Node) (f : PSFields) (pos : Nat) :
    Sim (exprStep envS recS allowPre skipped f pos) (exprStep envT recT allowPre skipped f pos) := by
  unfold exprStep
  simp only [he.tolS, he.tolT, he.s, Bool.false_eq_true, if_true, if_false]
  generalize mkPS (PSFields.normalize { f with enEnvs := false }) = ps
  rcases peekTok_sim ps envS.s pos with ⟨w, ep, t, r, h⟩ | h
  · simp only [h]
    exact Sim.of_not (fun h => h)
  · rw [h]
    cases peekTok false ps envS.s pos <;> simp only []
    · exact exprTok_sim he hrec _ _ _ _
    · exact Sim.of_not (fun h => h)
    · exact Sim.of_not (fun h => h)

theorem rawMarker_sim (he : EnvRel envS envT) (c : Char) (fullList allowPre : Bool) (f : PSFields) (pos : Nat) :
    SimRaw (rawMarker envS c fullList allowPre f pos) (rawMarker envT c fullList allowPre f pos) := by
  unfold rawMarker
  simp only [he.tolS, he.tolT, he.s]
  rcases peekTok_sim (mkPS f) envS.s pos with ⟨w, ep, t, r, h⟩ | h
  · simp only [h]
    exact SimRaw.of_not (fun h => h)
  · rw [h]
    exact SimRaw.refl _

theorem rawParse_sim (he : EnvRel envS envT) (hrec : ∀ t, Sim (recS t) (recT t)) (p : Parser) (f : PSFields)
    (pos : Nat) : SimRaw (rawParse envS recS p f pos) (rawParse envT recT p f pos) := by
  unfold rawParse
  cases p with
  | general stop require child => exact rawGeneral_sim hrec _ _ _ _ _
  | group d o a => exact rawGroup_sim he hrec _ _ _ _ _
  | math d => exact rawMath_sim he hrec _ _ _
  | envBody n => exact rawEnvBody_sim hrec _ _ _
  | macroCall t a => exact rawCall_sim hrec _ _ _ _
  | specialsCall t a => exact rawCall_sim hrec _ _ _ _
  | envCall t a bm => exact rawEnvCall_sim hrec _ _ _ _ _
  | arguments a => exact rawArguments_sim he hrec _ _ _
  | expression ap => exact SimRaw.ret (hrec _)
  | marker c fl ap => exact rawMarker_sim he _ _ _ _ _
  | verbatim d =>
    simp only [rawVerbatim_eq he]
    exact SimRaw.refl _

theorem parseContent_sim {a b : Raw} (h : SimRaw a b) :
    Sim (parseContent false a) (parseContent true b) := by
  cases a with
  | eos p =>
    have h2 := h trivial
    subst h2
    exact fun _ => rfl
  | ret r =>
    cases r with
    | perr e => exact Sim.of_not (fun h => h)
    | ok res p => intro g; have h2 := h g; subst h2; rfl
    | loopEnd e => intro g; have h2 := h g; subst h2; rfl
    | crash k => exact Sim.of_not (fun h => h)
    | fuel => exact Sim.of_not (fun h => h)

theorem step_sim (he : EnvRel envS envT) (hrec : ∀ t, Sim (recS t) (recT t)) (t : Task) :
    Sim (step envS recS t) (step envT recT t) := by
  cases t with
  | pc p f pos =>
    unfold step
    rw [he.tolS, he.tolT]
    exact parseContent_sim (rawParse_sim he hrec _ _ _)
  | loop f stop child st => exact loopStep_sim he hrec _ _ _ _
  | expr ap skipped f pos => exact exprStep_sim he hrec _ _ _ _

end PartB

/-- the general simulation: a `GoodSim` strict result is reproduced by the tolerant run, for every task and fuel -/
theorem run_sim_rel {envS envT : Env} (he : EnvRel envS envT) :
    ∀ (n : Nat) (t : Task), Sim (run envS n t) (run envT n t) := by
  intro n
  induction n with
  | zero => intro t; exact Sim.of_not (fun h => h)
  | succ n ih => intro t; exact step_sim he ih t

theorem run_sim (ctx : Ctx) (s : Str) (n : Nat) (t : Task) :
    Sim (run { tol := false, ctx := ctx, s := s } n t) (run { tol := true, ctx := ctx, s := s } n t) :=
  run_sim_rel (envS := { tol := false, ctx := ctx, s := s }) (envT := { tol := true, ctx := ctx, s := s })
    ⟨rfl, rfl, rfl, rfl⟩ n t

/-- strict success ⇒ tolerant gives the identical result, for every fuel -/
theorem C06_agree (ctx : Ctx) (s : Str) (f : PSFields) (n : Nat) (r : Res) (pos : Nat)
    (h : run { tol := false, ctx := ctx, s := s } n (topTask f) = .ok r pos) :
    run { tol := true, ctx := ctx, s := s } n (topTask f) = .ok r pos := by
  have h2 := run_sim ctx s n (topTask f)
  rw [h] at h2
  exact h2 trivial

/-! ### non-vacuity (Part B) -/

/-- the hypothesis of `C06_agree` holds for `\a{b}`; the theorem yields the tolerant result -/
example : ∃ r pos, run { tol := false, ctx := exCtx06, s := "\\a{b}".toList } 12 (topTask {}) = .ok r pos
    ∧ run { tol := true, ctx := exCtx06, s := "\\a{b}".toList } 12 (topTask {}) = .ok r pos := by
  have h : (run { tol := false, ctx := exCtx06, s := "\\a{b}".toList } 12 (topTask {})).isOk = true := by decide
  cases hr : run { tol := false, ctx := exCtx06, s := "\\a{b}".toList } 12 (topTask {}) with
  | ok r pos => exact ⟨r, pos, rfl, C06_agree _ _ _ _ _ _ hr⟩
  | perr e => rw [hr] at h; cases h
  | loopEnd e => rw [hr] at h; cases h
  | crash k => rw [hr] at h; cases h
  | fuel => rw [hr] at h; cases h

/-- the hypothesis matters: on an unknown macro the strict run fails while the tolerant run succeeds -/
example : (run { tol := false, ctx := exCtx06, s := "\\zz{b}".toList } 12 (topTask {})).isOk = false
    ∧ (run { tol := true, ctx := exCtx06, s := "\\zz{b}".toList } 12 (topTask {})).isOk = true := by decide

#print axioms run_mono
#print axioms C06_agree

end Pylx
