/-
  C10 — where math-mode tokens come from (for `C10_math`), and the relation on all nodes of a tree.
-/
import PylxProofs.C10Lemmas3
import PylxProofs.C11
import PylxProofs.C17
namespace Pylx
namespace C10

/-! ### math tokens come from the math tables -/

/-- a property of math-mode tokens -/
def MathSrc (R : Token → Prop) (t : Token) : Prop :=
  (t.kind = .mathInline ∨ t.kind = .mathDisplay) → R t

def ResM (R : Token → Prop) : PeekRes → Prop
  | .tok t => MathSrc R t
  | .err _ _ t _ => MathSrc R t
  | .eos _ => True

section
variable (R : Token → Prop)

theorem mathSrc_of_kind (t : Token) (h1 : t.kind ≠ .mathInline) (h2 : t.kind ≠ .mathDisplay) :
    MathSrc R t := by
  intro h; rcases h with h | h
  · exact absurd h h1
  · exact absurd h h2

theorem charToken_m (ps : PState) (c : Char) (p : Nat) (pre : Str) : ResM R (charToken ps c p pre) := by
  unfold charToken
  simp only
  split <;> exact mathSrc_of_kind R _ (by simp) (by simp)

theorem peekSpecialsOrChar_m (ps : PState) (s : Str) (p : Nat) (c : Char) (pre : Str) :
    ResM R (peekSpecialsOrChar ps s p c pre) := by
  unfold peekSpecialsOrChar
  split
  · exact mathSrc_of_kind R _ (by simp) (by simp)
  · exact charToken_m R ps c p pre

theorem peekGroups_m (ps : PState) (s : Str) (p : Nat) (c : Char) (pre : Str) :
    ResM R (peekGroups ps s p c pre) := by
  unfold peekGroups
  split
  · split
    · exact mathSrc_of_kind R _ (by simp) (by simp)
    · split
      · exact mathSrc_of_kind R _ (by simp) (by simp)
      · exact peekSpecialsOrChar_m R ps s p c pre
  · exact peekSpecialsOrChar_m R ps s p c pre

theorem readComment_m (ps : PState) (s : Str) (p : Nat) (pre : Str) : ResM R (readComment ps s p pre) := by
  unfold readComment
  simp only
  split <;> exact mathSrc_of_kind R _ (by simp) (by simp)

theorem peekComment_m (ps : PState) (s : Str) (p : Nat) (c : Char) (pre : Str) :
    ResM R (peekComment ps s p c pre) := by
  unfold peekComment
  split
  · exact readComment_m R ps s p pre
  · exact peekGroups_m R ps s p c pre

theorem readMacro_m (ps : PState) (s : Str) (p : Nat) (pre : Str) : ResM R (readMacro ps s p pre) := by
  unfold readMacro
  split
  · exact mathSrc_of_kind R _ (by simp) (by simp)
  · split <;> exact mathSrc_of_kind R _ (by simp) (by simp)

theorem readEnvironment_m (ps : PState) (s : Str) (p : Nat) (b : Bool) (pre : Str) :
    ResM R (readEnvironment ps s p b pre) := by
  unfold readEnvironment
  split
  · exact mathSrc_of_kind R _ (by simp) (by simp)
  · cases b <;> exact mathSrc_of_kind R _ (by simp) (by simp)

theorem peekEscape_m (ps : PState) (s : Str) (p : Nat) (c : Char) (pre : Str) :
    ResM R (peekEscape ps s p c pre) := by
  unfold peekEscape
  split
  · split
    · exact readEnvironment_m R ps s p _ pre
    · split
      · exact readMacro_m R ps s p pre
      · exact peekComment_m R ps s p c pre
  · exact peekComment_m R ps s p c pre

theorem peekAtChar_m (ps : PState) (s : Str) (p : Nat) (c : Char) (pre : Str)
    (hR : ∀ t, readMath ps s p pre = some t → R t) : ResM R (peekAtChar ps s p c pre) := by
  unfold peekAtChar
  split
  · split
    · next t ht => exact fun _ => hR t ht
    · exact peekEscape_m R ps s p c pre
  · exact peekEscape_m R ps s p c pre

theorem peekPar_m (ps : PState) (s : Str) (pos : Nat) (pre : Str) : ResM R (peekPar ps s pos pre) := by
  unfold peekPar
  simp only
  split <;> exact mathSrc_of_kind R _ (by simp) (by simp)

theorem peekImpl_m (ps : PState) (s : Str) (pos : Nat)
    (hR : ∀ p pre t, readMath ps s p pre = some t → R t) : ResM R (peekImpl ps s pos) := by
  unfold peekImpl
  simp only
  split
  · exact peekPar_m R ps s pos _
  · split
    · trivial
    · exact peekAtChar_m R ps s _ _ _ (hR _ _)

/-- every math-mode token was produced by `readMath` -/
theorem peekTok_m (tol : Bool) (ps : PState) (s : Str) (pos : Nat) (t : Token)
    (hR : ∀ p pre t, readMath ps s p pre = some t → R t)
    (h : peekTok tol ps s pos = .tok t) : MathSrc R t := by
  have hm := peekImpl_m R ps s pos hR
  unfold peekTok at h
  split at h
  · next w p t' r heq =>
    rw [heq] at hm
    split at h
    · cases h; exact hm
    · cases h
  · rw [h] at hm; exact hm

end

theorem mathTok_kindX (p : Nat) (pre : Str) (d : Str) (disp : Bool) :
    ((mathTok p pre d disp).kind == TokKind.mathDisplay) = disp := by
  cases disp <;> rfl

/-- a math-mode token carries a delimiter of the tables together with its kind -/
def TableSrc (ps : PState) (t : Token) : Prop :=
  (t.arg, t.kind == .mathDisplay) ∈ ps.t.mathAll ∨ ps.t.expectClose = some (t.arg, t.kind == .mathDisplay)

theorem readMathGeneral_m (ps : PState) (s : Str) (p : Nat) (pre : Str) (t : Token)
    (ht : readMathGeneral ps s p pre = some t) : TableSrc ps t := by
  unfold readMathGeneral at ht
  cases hf : ps.t.mathAll.find? (fun d => startsWithAt s d.1 p) with
  | none => rw [hf] at ht; cases ht
  | some d =>
    rw [hf] at ht
    simp only [Option.map_some, Option.some.injEq] at ht
    subst ht
    left
    rw [mathTok_kindX]
    exact List.mem_of_find?_eq_some hf

theorem readMath_m (ps : PState) (s : Str) (p : Nat) (pre : Str) (t : Token)
    (ht : readMath ps s p pre = some t) : TableSrc ps t := by
  unfold readMath at ht
  split at ht
  · split at ht
    · next cd hcd =>
      split at ht
      · cases ht
        right
        rw [mathTok_kindX]
        exact hcd
      · exact readMathGeneral_m ps s p pre t ht
    · exact readMathGeneral_m ps s p pre t ht
  · exact readMathGeneral_m ps s p pre t ht

theorem peekTok_table (tol : Bool) (ps : PState) (s : Str) (pos : Nat) (t : Token)
    (h : peekTok tol ps s pos = .tok t) (hk : t.kind = .mathInline ∨ t.kind = .mathDisplay) : TableSrc ps t :=
  peekTok_m (TableSrc ps) tol ps s pos t (readMath_m ps s) h hk

/-- in math mode a token that spells the expected closing delimiter has the kind of the open formula -/
def CloseSrc (ps : PState) (t : Token) : Prop :=
  ps.f.inMath = true → ∀ cd, ps.t.expectClose = some cd → t.arg = cd.1 → (t.kind == .mathDisplay) = cd.2

theorem readMath_close (ps : PState) (s : Str) (p : Nat) (pre : Str) (t : Token)
    (ht : readMath ps s p pre = some t) : CloseSrc ps t := by
  intro him cd hcd harg
  unfold readMath at ht
  rw [if_pos him, hcd] at ht
  simp only at ht
  split at ht
  · cases ht; exact mathTok_kindX _ _ _ _
  · next hns =>
    exfalso
    unfold readMathGeneral at ht
    cases hf : ps.t.mathAll.find? (fun d => startsWithAt s d.1 p) with
    | none => rw [hf] at ht; cases ht
    | some d =>
      rw [hf] at ht
      simp only [Option.map_some, Option.some.injEq] at ht
      subst ht
      have hsw : startsWithAt s d.1 p = true := by
        have := List.find?_some hf
        simpa using this
      have : d.1 = cd.1 := harg
      rw [this] at hsw
      exact hns hsw

theorem peekTok_close (tol : Bool) (ps : PState) (s : Str) (pos : Nat) (t : Token)
    (h : peekTok tol ps s pos = .tok t) (hk : t.kind = .mathInline ∨ t.kind = .mathDisplay) : CloseSrc ps t :=
  peekTok_m (CloseSrc ps) tol ps s pos t (readMath_close ps s) h hk

/-! ### the delimiter tables -/

/-- no string is both an inline and a display math delimiter -/
def DelimsDisjoint (f : PSFields) : Prop :=
  ∀ x, x ∈ flattenPairs f.inlineDelims → x ∈ flattenPairs f.displayDelims → False

/-- what `C10_math` says of a math node's delimiters: the opening delimiter is configured, with this closing
    delimiter and this kind -/
def MathCfg (f : PSFields) (dopen dclose : Str) (display : Bool) : Prop :=
  lookupLast dopen (mathTables f).2.2 = some (dclose, display)

theorem mem_flatten_fst (l : Pairs) (pr : Str × Str) (h : pr ∈ l) : pr.1 ∈ flattenPairs l := by
  unfold flattenPairs
  exact List.mem_flatMap.2 ⟨pr, h, by simp⟩

theorem mem_flatten_snd (l : Pairs) (pr : Str × Str) (h : pr ∈ l) : pr.2 ∈ flattenPairs l := by
  unfold flattenPairs
  exact List.mem_flatMap.2 ⟨pr, h, by simp⟩

/-- the list a delimiter with kind `disp` belongs to -/
def kindList (f : PSFields) (disp : Bool) : List Str :=
  if disp then flattenPairs f.displayDelims else flattenPairs f.inlineDelims

theorem byOpen_mem (f : PSFields) (d c : Str) (disp : Bool) (h : (d, (c, disp)) ∈ (mathTables f).2.2) :
    d ∈ kindList f disp ∧ c ∈ kindList f disp := by
  simp only [mathTables, List.mem_append, List.mem_map] at h
  rcases h with ⟨pr, hpr, heq⟩ | ⟨pr, hpr, heq⟩
  · cases heq
    exact ⟨mem_flatten_fst _ _ hpr, mem_flatten_snd _ _ hpr⟩
  · cases heq
    exact ⟨mem_flatten_fst _ _ hpr, mem_flatten_snd _ _ hpr⟩

theorem mathAll_mem (f : PSFields) (d : Str) (disp : Bool) (h : (d, disp) ∈ (mathTables f).2.1) :
    d ∈ kindList f disp := by
  simp only [mathTables] at h
  have h2 := mem_sortDesc _ _ h
  simp only [List.mem_append, List.mem_map] at h2
  rcases h2 with ⟨x, hx, heq⟩ | ⟨x, hx, heq⟩
  · cases heq; exact mem_dedup _ _ hx
  · cases heq; exact mem_dedup _ _ hx

theorem kindList_disjoint (f : PSFields) (hd : DelimsDisjoint f) (x : Str) (a b : Bool)
    (ha : x ∈ kindList f a) (hb : x ∈ kindList f b) : a = b := by
  cases a <;> cases b
  · rfl
  · exact absurd (hd x ha hb) id
  · exact absurd (hd x hb ha) id
  · rfl

theorem mathTables_SD {f0 f : PSFields} (h : SD f0 f) : mathTables f = mathTables f0 :=
  mathTables_congr f f0 h.1 h.2

theorem kindList_SD {f0 f : PSFields} (h : SD f0 f) (b : Bool) : kindList f b = kindList f0 b := by
  unfold kindList; rw [h.1, h.2]

theorem mkPS_mathAll (f : PSFields) : (mkPS f).t.mathAll = (mathTables f).2.1 := by
  simp only [mkPS, PState.fresh, computeTables]
  rw [mathTables_congr f.normalize f (normalize_inline f) (normalize_display f)]

theorem mkPS_expectClose (f : PSFields) :
    (mkPS f).t.expectClose = expectCloseOf f.normalize (mathTables f).2.2 := by
  simp only [mkPS, PState.fresh, computeTables]
  rw [mathTables_congr f.normalize f (normalize_inline f) (normalize_display f)]

theorem expectClose_mathFieldsX (f : PSFields) (d : Str) :
    (mkPS (mathFields f d)).t.expectClose = lookupLast d (mathTables f).2.2 := by
  rw [mkPS_expectClose]
  have h : mathTables (mathFields f d) = mathTables f :=
    mathTables_congr _ _ (by unfold mathFields; rw [normalize_inline]) (by unfold mathFields; rw [normalize_display])
  rw [h]
  simp [expectCloseOf, mathFields, PSFields.normalize]

/-- the hypothesis of the contract for `P := MathCfg f0`, from disjointness of the delimiter lists -/
theorem HP_mathCfg (f0 : PSFields) (hd : DelimsDisjoint f0) (tol : Bool) (s : Str) :
    ∀ f pos t cd, SD f0 f → peekTok tol (mkPS f) s pos = .tok t →
      (t.kind = .mathInline ∨ t.kind = .mathDisplay) →
      (mkPS (mathFields f t.arg)).t.expectClose = some cd →
      (tol = false → StopFact tol s (mathFields f t.arg) (.mathClose (t.kind == .mathDisplay) cd.1)) →
      MathCfg f0 t.arg cd.1 (t.kind == .mathDisplay) := by
  intro f pos t cd hs ht hk hcd _
  rw [expectClose_mathFieldsX, mathTables_SD hs] at hcd
  have hmem := lookupLast_mem _ _ _ hcd
  have h1 := (byOpen_mem f0 t.arg cd.1 cd.2 hmem).1
  -- the token's kind names the list its delimiter belongs to
  have h2 : t.arg ∈ kindList f0 (t.kind == .mathDisplay) := by
    rcases peekTok_table tol (mkPS f) s pos t ht hk with hm | hm
    · rw [mkPS_mathAll] at hm
      rw [← kindList_SD hs]
      exact mathAll_mem f _ _ hm
    · rw [mkPS_expectClose] at hm
      -- the expected closing delimiter: second component of a pair of the `byOpen` table
      have : ∃ o, (o, (t.arg, t.kind == TokKind.mathDisplay)) ∈ (mathTables f).2.2 := by
        unfold expectCloseOf at hm
        split at hm
        · cases hm
        · split at hm
          · cases hm
          · next d _ => exact ⟨d, lookupLast_mem _ _ _ hm⟩
      obtain ⟨o, ho⟩ := this
      rw [← kindList_SD hs]
      exact (byOpen_mem f o _ _ ho).2
  have := kindList_disjoint f0 hd t.arg _ _ h1 h2
  unfold MathCfg
  rw [hcd, ← this]

/-- the hypothesis of the contract for `P := MathCfg f0` in strict mode, without any condition on the lists:
    the formula was closed by a token that spells the looked-up closing delimiter and has the opening token's
    kind; such a token has the looked-up kind -/
theorem HP_mathCfg_strict (f0 : PSFields) (s : Str) :
    ∀ f pos t cd, SD f0 f → peekTok false (mkPS f) s pos = .tok t →
      (t.kind = .mathInline ∨ t.kind = .mathDisplay) →
      (mkPS (mathFields f t.arg)).t.expectClose = some cd →
      (false = false → StopFact false s (mathFields f t.arg) (.mathClose (t.kind == .mathDisplay) cd.1)) →
      MathCfg f0 t.arg cd.1 (t.kind == .mathDisplay) := by
  intro f pos t cd hs _ _ hcd hst
  obtain ⟨t', htest, hsrc⟩ := hst rfl
  have hcd' := hcd
  rw [expectClose_mathFieldsX, mathTables_SD hs] at hcd
  unfold MathCfg
  rw [hcd]
  -- the stop token: kind and spelling
  have hk' : (t'.kind == (if (t.kind == TokKind.mathDisplay) = true then TokKind.mathDisplay else TokKind.mathInline)) = true
      ∧ (t'.arg == cd.1) = true := by
    simpa only [StopTok.test, Bool.and_eq_true] using htest
  have harg : t'.arg = cd.1 := by simpa using hk'.2
  have hkind := kind_beq _ _ hk'.1
  have hmath : t'.kind = .mathInline ∨ t'.kind = .mathDisplay := by
    rw [hkind]; split
    · exact Or.inr rfl
    · exact Or.inl rfl
  rcases hsrc with hc | ⟨pos', hp'⟩
  · rw [hc] at hmath; rcases hmath with h | h <;> cases h
  · have hclose := peekTok_close false _ s pos' t' hp' hmath
      (by show (mathFields f t.arg).normalize.inMath = true; simp [mathFields, PSFields.normalize]) cd hcd' harg
    -- the stop token's kind is the opening token's kind
    have : (t'.kind == TokKind.mathDisplay) = (t.kind == TokKind.mathDisplay) := by
      rw [hkind]
      cases (t.kind == TokKind.mathDisplay) <;> rfl
    rw [← this, hclose]

/-! ### every math node of a consistent tree satisfies `P` -/

section
variable {P : Str → Str → Bool → Prop} {ctx : Ctx}

def IsMathP (P : Str → Str → Bool → Prop) : Node → Prop
  | .math _ _ _ d o c _ => P o c d
  | _ => True

mutual
theorem node_math : ∀ (n : Node) (cur : PSInfo), NodeM P ctx cur n → ∀ m ∈ n.subnodes, IsMathP P m
  | .chars .., _, _, m, hm => by
    simp only [Node.subnodes, List.mem_singleton] at hm; subst hm; trivial
  | .comment .., _, _, m, hm => by
    simp only [Node.subnodes, List.mem_singleton] at hm; subst hm; trivial
  | .group _ _ _ _ _ b, cur, h, m, hm => by
    simp only [Node.subnodes, List.mem_cons] at hm
    rcases hm with hm | hm
    · subst hm; trivial
    · exact body_math b cur h.2 m hm
  | .mac _ _ _ name _ a, cur, h, m, hm => by
    simp only [Node.subnodes, List.mem_cons] at hm
    rcases hm with hm | hm
    · subst hm; trivial
    · exact optArgs_math a cur _ h.2 m hm
  | .env _ _ _ name a b, cur, h, m, hm => by
    simp only [Node.subnodes, List.mem_cons, List.mem_append] at hm
    rcases hm with hm | hm | hm
    · subst hm; trivial
    · exact optArgs_math a cur _ h.2.1 m hm
    · exact body_math b _ h.2.2 m hm
  | .specials _ _ _ _ a, cur, h, m, hm => by
    simp only [Node.subnodes, List.mem_cons] at hm
    rcases hm with hm | hm
    · subst hm; trivial
    · exact optArgs_math a cur _ h.2 m hm
  | .math _ _ _ d o c b, cur, h, m, hm => by
    simp only [Node.subnodes, List.mem_cons] at hm
    rcases hm with hm | hm
    · subst hm; exact h.2.1
    · exact body_math b _ h.2.2 m hm
theorem body_math : ∀ (b : Option (List Node)) (cur : PSInfo), BodyM P ctx cur b → ∀ m ∈ subnodesBody b, IsMathP P m
  | none, _, _, m, hm => by simp [subnodesBody] at hm
  | some ns, cur, h, m, hm => list_math ns cur h m hm
theorem list_math : ∀ (ns : List Node) (cur : PSInfo), ListM P ctx cur ns → ∀ m ∈ subnodesList ns, IsMathP P m
  | [], _, _, m, hm => by simp [subnodesList] at hm
  | n :: ns, cur, h, m, hm => by
    simp only [subnodesList, List.mem_append] at hm
    rcases hm with hm | hm
    · exact node_math n cur h.1 m hm
    · exact list_math ns cur h.2 m hm
theorem optArgs_math : ∀ (a : Option (List Arg)) (cur : PSInfo) (spec : Option ArgsP), OptArgsM P ctx cur spec a →
    ∀ m ∈ subnodesArgs a, IsMathP P m
  | none, _, _, _, m, hm => by simp [subnodesArgs] at hm
  | some l, cur, spec, h, m, hm => by
    simp only [subnodesArgs] at hm
    unfold OptArgsM at h
    split at h
    · rcases h with h | h
      · exact argList_math l cur _ h.2 m hm
      · subst h; simp [subnodesArgList] at hm
    · exact argList_math l cur _ h m hm
theorem argList_math : ∀ (l : List Arg) (cur : PSInfo) (ds : List Delta), ArgListM P ctx cur ds l →
    ∀ m ∈ subnodesArgList l, IsMathP P m
  | [], _, _, _, m, hm => by simp [subnodesArgList] at hm
  | a :: l, cur, ds, h, m, hm => by
    simp only [subnodesArgList, List.mem_append] at hm
    rcases hm with hm | hm
    · exact arg_math a _ h.1 m hm
    · exact argList_math l cur _ h.2 m hm
theorem arg_math : ∀ (a : Arg) (cur : PSInfo), ArgM P ctx cur a → ∀ m ∈ subnodesArg a, IsMathP P m
  | .absent, _, _, m, hm => by simp [subnodesArg] at hm
  | .node n, cur, h, m, hm => node_math n cur h m hm
  | .list _ _ ns, cur, h, m, hm => list_math ns cur h m hm
end

end

end C10
end Pylx
