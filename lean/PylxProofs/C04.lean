/-
  C04 — encoder output equals the documented rule semantics.
  Theorems about `Pylx.encodeChunks` / `Pylx.encStep` (model of
  `UnicodeToLatexEncoder.unicode_to_latex` and `PartialLatexToLatexEncoder`).
-/
import Pylx.Enc
namespace Pylx

/-! ### Vocabulary of the statements -/

/-- rule number `i` of the list is the first one that does not miss at `(s, p)`, with result `res` -/
def FirstAt (rules : List Rule) (s : Str) (p : Nat) (i : Nat) (r : Rule) (res : RuleRes) : Prop :=
  rules[i]? = some r ∧ r.app s p = res ∧ res ≠ .miss ∧
    ∀ j r', j < i → rules[j]? = some r' → r'.app s p = .miss

/-- no rule matches at `(s, p)` -/
def AllMiss (rules : List Rule) (s : Str) (p : Nat) : Prop := ∀ r ∈ rules, r.app s p = .miss

/-- every rule consumes at least one character when it matches -/
def Productive (cfg : Cfg) : Prop := ∀ r ∈ cfg.rules, ∀ s p n t, r.app s p = .hit n t → 1 ≤ n

/-- no rule raises by itself -/
def NoRaise (cfg : Cfg) : Prop := ∀ r ∈ cfg.rules, ∀ s p e, r.app s p ≠ .raise e

/-- every rule consumes exactly one character and decides by that character only -/
def PerChar (cfg : Cfg) : Prop :=
  ∀ r ∈ cfg.rules, ∃ f : Char → Option Str, ∀ s p,
    r.app s p = match s[p]? with
      | some c => (match f c with | some t => .hit 1 t | none => .miss)
      | none => .miss

/-- positions the loop visits, starting from `p` -/
inductive ReachedFrom (cfg : Cfg) (s : Str) : Nat → Nat → Prop
  | refl (p : Nat) : ReachedFrom cfg s p p
  | encStep {p q n : Nat} {t : Str} : p < s.length → encStep cfg s p = .emit t n →
      ReachedFrom cfg s (p + n) q → ReachedFrom cfg s p q

/-- positions the loop visits on input `s` -/
def Reached (cfg : Cfg) (s : Str) (p : Nat) : Prop := ReachedFrom cfg s 0 p

/-! ### The rule loop -/

theorem firstRule_of_firstAt_hit {rules : List Rule} {s : Str} {p i : Nat} {r : Rule} {n : Nat} {t : Str}
    (h : FirstAt rules s p i r (.hit n t)) : firstRule s p rules = .hit r n t := by
  induction rules generalizing i with
  | nil => simp [FirstAt] at h
  | cons r0 rs ih =>
    obtain ⟨hi, happ, hne, hmiss⟩ := h
    cases i with
    | zero =>
      simp at hi; subst hi
      simp [firstRule, happ]
    | succ i =>
      have h0 : r0.app s p = .miss := hmiss 0 r0 (by omega) (by simp)
      simp only [firstRule, h0]
      exact ih ⟨by simpa using hi, happ, hne, fun j r' hj hr' => hmiss (j+1) r' (by omega) (by simpa using hr')⟩

theorem firstRule_of_firstAt_raise {rules : List Rule} {s : Str} {p i : Nat} {r : Rule} {e : EncExc}
    (h : FirstAt rules s p i r (.raise e)) : firstRule s p rules = .raise e := by
  induction rules generalizing i with
  | nil => simp [FirstAt] at h
  | cons r0 rs ih =>
    obtain ⟨hi, happ, hne, hmiss⟩ := h
    cases i with
    | zero =>
      simp at hi; subst hi
      simp [firstRule, happ]
    | succ i =>
      have h0 : r0.app s p = .miss := hmiss 0 r0 (by omega) (by simp)
      simp only [firstRule, h0]
      exact ih ⟨by simpa using hi, happ, hne, fun j r' hj hr' => hmiss (j+1) r' (by omega) (by simpa using hr')⟩

theorem firstRule_of_allMiss {rules : List Rule} {s : Str} {p : Nat}
    (h : AllMiss rules s p) : firstRule s p rules = .none := by
  induction rules with
  | nil => rfl
  | cons r0 rs ih =>
    have h0 : r0.app s p = .miss := h r0 (by simp)
    simp only [firstRule, h0]
    exact ih (fun r hr => h r (by simp [hr]))

/-- the three outcomes of the rule loop are exhaustive and determined by the *first* rule
    in list order that does not miss -/
theorem firstRule_cases (rules : List Rule) (s : Str) (p : Nat) :
    (AllMiss rules s p ∧ firstRule s p rules = .none) ∨
    (∃ i r n t, FirstAt rules s p i r (.hit n t) ∧ firstRule s p rules = .hit r n t) ∨
    (∃ i r e, FirstAt rules s p i r (.raise e) ∧ firstRule s p rules = .raise e) := by
  induction rules with
  | nil => left; exact ⟨fun r hr => by simp at hr, rfl⟩
  | cons r0 rs ih =>
    cases h0 : r0.app s p with
    | miss =>
      have lift : ∀ {i r res}, FirstAt rs s p i r res → FirstAt (r0 :: rs) s p (i+1) r res := by
        intro i r res ⟨h1, h2, h3, h4⟩
        refine ⟨by simpa using h1, h2, h3, ?_⟩
        intro j r' hj hr'
        cases j with
        | zero => simp at hr'; subst hr'; exact h0
        | succ j => exact h4 j r' (by omega) (by simpa using hr')
      rcases ih with ⟨ha, hf⟩ | ⟨i, r, n, t, hF, hf⟩ | ⟨i, r, e, hF, hf⟩
      · left
        refine ⟨?_, by simp only [firstRule, h0]; exact hf⟩
        intro r hr
        rcases List.mem_cons.mp hr with rfl | hr
        · exact h0
        · exact ha r hr
      · right; left
        exact ⟨i+1, r, n, t, lift hF, by simp only [firstRule, h0]; exact hf⟩
      · right; right
        exact ⟨i+1, r, e, lift hF, by simp only [firstRule, h0]; exact hf⟩
    | hit n t =>
      right; left
      refine ⟨0, r0, n, t, ⟨by simp, h0, by simp, fun j _ hj _ => by omega⟩, by simp [firstRule, h0]⟩
    | raise e =>
      right; right
      refine ⟨0, r0, e, ⟨by simp, h0, by simp, fun j _ hj _ => by omega⟩, by simp [firstRule, h0]⟩

theorem firstAt_mem {rules : List Rule} {s : Str} {p i : Nat} {r : Rule} {res : RuleRes}
    (h : FirstAt rules s p i r res) : r ∈ rules := List.mem_of_getElem? h.1

/-- **C04 (rule order).**  The rule loop returns the replacement and consumed length of the
    first rule in the given order that matches, and nothing else. -/
theorem C04_first_rule (rules : List Rule) (s : Str) (p : Nat) :
    (∀ r n t, firstRule s p rules = .hit r n t ↔ ∃ i, FirstAt rules s p i r (.hit n t)) ∧
    (∀ e, firstRule s p rules = .raise e ↔ ∃ i r, FirstAt rules s p i r (.raise e)) ∧
    (firstRule s p rules = .none ↔ AllMiss rules s p) := by
  refine ⟨?_, ?_, ?_⟩
  · intro r n t
    constructor
    · intro h
      rcases firstRule_cases rules s p with ⟨_, hf⟩ | ⟨i, r', n', t', hF, hf⟩ | ⟨_, _, _, _, hf⟩
      · rw [hf] at h; cases h
      · rw [hf] at h; cases h; exact ⟨i, hF⟩
      · rw [hf] at h; cases h
    · rintro ⟨i, hF⟩; exact firstRule_of_firstAt_hit hF
  · intro e
    constructor
    · intro h
      rcases firstRule_cases rules s p with ⟨_, hf⟩ | ⟨_, _, _, _, _, hf⟩ | ⟨i, r, e', hF, hf⟩
      · rw [hf] at h; cases h
      · rw [hf] at h; cases h
      · rw [hf] at h; cases h; exact ⟨i, r, hF⟩
    · rintro ⟨i, r, hF⟩; exact firstRule_of_firstAt_raise hF
  · constructor
    · intro h
      rcases firstRule_cases rules s p with ⟨ha, _⟩ | ⟨_, _, _, _, _, hf⟩ | ⟨_, _, _, _, hf⟩
      · exact ha
      · rw [hf] at h; cases h
      · rw [hf] at h; cases h
    · exact firstRule_of_allMiss

/-! ### One encStep -/

theorem step_eq_stepAt {cfg : Cfg} {s : Str} {p : Nat} {c : Char} (hc : s[p]? = some c) :
    encStep cfg s p = stepAt cfg s p c := by
  simp [encStep, hc]

/-- **C04 (one loop encStep).**  At a position `p` holding `c`:
    * `non_ascii_only` and `c` below the ASCII limit: `c` is copied, advance 1;
    * otherwise, if rule `i` is the first in order that matches, with `(n, t)`: the chunk is `t`
      wrapped by the rule's own protection if it has one, else by the global one; advance `n`;
    * (a rule that raises before any rule matches: that exception);
    * otherwise printable ASCII / DEL / `\n\r\t` are copied, advance 1;
    * otherwise the unknown-character policy supplies the chunk (or the `ValueError`), advance 1.
    The cases are exhaustive (`firstRule_cases`). -/
theorem C04_step (cfg : Cfg) (s : Str) (p : Nat) (c : Char) (hc : s[p]? = some c) :
    (skipsAscii cfg c = true → encStep cfg s p = .emit [c] 1) ∧
    (skipsAscii cfg c = false → ∀ i r n t, FirstAt cfg.rules s p i r (.hit n t) →
        encStep cfg s p = .emit (protect cfg.isAlpha (match r.prot with | some pr => pr | none => cfg.prot) t) n) ∧
    (skipsAscii cfg c = false → ∀ i r e, FirstAt cfg.rules s p i r (.raise e) → encStep cfg s p = .raise e) ∧
    (skipsAscii cfg c = false → AllMiss cfg.rules s p → isCopyChar c = true → encStep cfg s p = .emit [c] 1) ∧
    (skipsAscii cfg c = false → AllMiss cfg.rules s p → isCopyChar c = false →
        encStep cfg s p = unknownChar cfg.policy c) := by
  rw [step_eq_stepAt hc]
  refine ⟨?_, ?_, ?_, ?_, ?_⟩
  · intro h; simp [stepAt, h]
  · intro h i r n t hF
    simp only [stepAt, h, firstRule_of_firstAt_hit hF]
    cases r.prot <;> simp [Option.getD]
  · intro h i r e hF
    simp [stepAt, h, firstRule_of_firstAt_raise hF]
  · intro h ha hcp
    simp [stepAt, h, firstRule_of_allMiss ha, hcp]
  · intro h ha hcp
    simp [stepAt, h, firstRule_of_allMiss ha, hcp]

theorem unknownChar_adv {pol : Policy} {c : Char} {t : Str} {n : Nat}
    (h : unknownChar pol c = .emit t n) : n = 1 := by
  cases pol <;> simp [unknownChar] at h <;> omega

theorem unknownChar_raise {pol : Policy} {c : Char} {e : EncExc} :
    unknownChar pol c = .raise e ↔ pol = .fail ∧ e = .valueError c := by
  cases pol <;> simp [unknownChar] <;> exact eq_comm

/-- advance of a encStep under `Productive` -/
theorem step_adv_pos {cfg : Cfg} (hP : Productive cfg) {s : Str} {p : Nat} {c : Char}
    (hc : s[p]? = some c) {t : Str} {n : Nat} (h : encStep cfg s p = .emit t n) : 1 ≤ n := by
  rw [step_eq_stepAt hc] at h
  unfold stepAt at h
  split at h
  · cases h; omega
  · rcases firstRule_cases cfg.rules s p with ⟨_, hf⟩ | ⟨i, r, n', t', hF, hf⟩ | ⟨_, _, _, _, hf⟩
    · rw [hf] at h
      simp only at h
      split at h
      · cases h; omega
      · have := unknownChar_adv h; omega
    · rw [hf] at h
      simp only at h
      cases h
      exact hP r (firstAt_mem hF) s p _ _ hF.2.1
    · rw [hf] at h; simp at h

/-- when does a encStep raise -/
theorem step_raise_iff {cfg : Cfg} (hN : NoRaise cfg) {s : Str} {p : Nat} {c : Char}
    (hc : s[p]? = some c) (e : EncExc) :
    encStep cfg s p = .raise e ↔
      (e = .valueError c ∧ cfg.policy = .fail ∧ skipsAscii cfg c = false ∧ AllMiss cfg.rules s p ∧
        isCopyChar c = false) := by
  rw [step_eq_stepAt hc]
  unfold stepAt
  constructor
  · intro h
    split at h
    · cases h
    · rename_i hsk
      rcases firstRule_cases cfg.rules s p with ⟨ha, hf⟩ | ⟨_, _, _, _, _, hf⟩ | ⟨i, r, e', hF, hf⟩
      · rw [hf] at h
        simp only at h
        split at h
        · cases h
        · rename_i hcp
          have := unknownChar_raise.mp h
          exact ⟨this.2, this.1, by simpa using hsk, ha, by simpa using hcp⟩
      · rw [hf] at h; simp at h
      · exact absurd hF.2.1 (hN r (firstAt_mem hF) s p e')
  · rintro ⟨rfl, hpol, hsk, ha, hcp⟩
    simp [hsk, firstRule_of_allMiss ha, hcp, hpol, unknownChar]

/-! ### The loop -/

theorem cons_ne_diverge {t : Str} {x : EncRes} (h : x ≠ .diverge) : x.cons t ≠ .diverge := by
  cases x <;> simp [EncRes.cons] at *

theorem cons_eq_raise {t : Str} {x : EncRes} {e : EncExc} : x.cons t = .raise e ↔ x = .raise e := by
  cases x <;> simp [EncRes.cons]

theorem loop_succ_lt {cfg : Cfg} {s : Str} {f p : Nat} (hp : p < s.length) :
    loop cfg s (f+1) p = match encStep cfg s p with
      | .emit t n => (loop cfg s f (p + n)).cons t
      | .raise e => .raise e := by
  rw [loop, if_pos hp]
  cases encStep cfg s p <;> rfl

theorem loop_ge {cfg : Cfg} {s : Str} {f p : Nat} (hp : s.length ≤ p) : loop cfg s f p = .ok [] := by
  cases f <;> simp [loop, Nat.not_lt.mpr hp]

theorem getElem?_of_lt {s : Str} {p : Nat} (hp : p < s.length) : ∃ c, s[p]? = some c :=
  ⟨s[p], by simp [hp]⟩

theorem loop_ne_diverge {cfg : Cfg} (hP : Productive cfg) (s : Str) :
    ∀ f p, s.length - p ≤ f → loop cfg s f p ≠ .diverge := by
  intro f
  induction f with
  | zero => intro p h; rw [loop_ge (by omega)]; simp
  | succ f ih =>
    intro p h
    by_cases hp : p < s.length
    · rw [loop_succ_lt hp]
      obtain ⟨c, hc⟩ := getElem?_of_lt hp
      cases hs : encStep cfg s p with
      | emit t n =>
        have := step_adv_pos hP hc hs
        exact cons_ne_diverge (ih (p + n) (by omega))
      | raise e => simp
    · rw [loop_ge (by omega)]; simp

/-- **C04 (termination).**  If every rule consumes at least one character, the encoder loop
    terminates on every input (the model never runs out of its fuel `|s|`). -/
theorem C04_terminates (cfg : Cfg) (hP : Productive cfg) (s : Str) : encodeChunks cfg s ≠ .diverge :=
  loop_ne_diverge hP s s.length 0 (by omega)

theorem loop_raise_fwd {cfg : Cfg} {s : Str} {e : EncExc} :
    ∀ f p, loop cfg s f p = .raise e →
      ∃ q, ReachedFrom cfg s p q ∧ q < s.length ∧ encStep cfg s q = .raise e := by
  intro f
  induction f with
  | zero => intro p h; simp only [loop] at h; split at h <;> cases h
  | succ f ih =>
    intro p h
    by_cases hp : p < s.length
    · rw [loop_succ_lt hp] at h
      cases hs : encStep cfg s p with
      | emit t n =>
        rw [hs] at h
        simp only at h
        obtain ⟨q, hr, hq, hst⟩ := ih (p + n) (cons_eq_raise.mp h)
        exact ⟨q, .encStep hp hs hr, hq, hst⟩
      | raise e' =>
        rw [hs] at h
        simp only at h
        cases h
        exact ⟨p, .refl p, hp, hs⟩
    · rw [loop_ge (by omega)] at h; cases h

theorem loop_raise_bwd {cfg : Cfg} (hP : Productive cfg) {s : Str} {e : EncExc} {p q : Nat}
    (hr : ReachedFrom cfg s p q) (hq : q < s.length) (hst : encStep cfg s q = .raise e) :
    ∀ f, s.length - p ≤ f → loop cfg s f p = .raise e := by
  induction hr with
  | refl p =>
    intro f hf
    obtain ⟨f', rfl⟩ : ∃ f', f = f' + 1 := ⟨f - 1, by omega⟩
    rw [loop_succ_lt hq, hst]
  | @encStep p q n t hp hs _ ih =>
    intro f hf
    obtain ⟨f', rfl⟩ : ∃ f', f = f' + 1 := ⟨f - 1, by omega⟩
    obtain ⟨c, hc⟩ := getElem?_of_lt hp
    have := step_adv_pos hP hc hs
    rw [loop_succ_lt hp, hs]
    simp only
    rw [ih hq hst f' (by omega)]
    rfl

/-- **C04 (exceptions).**  When no rule raises by itself and every rule consumes at least one
    character, an encoder call raises `e` if and only if `e` is the `ValueError` of policy
    `fail` for a character at a position the loop reaches where `non_ascii_only` does not pass
    it through, no rule matches, and it is not a copied ASCII character.  In particular no other
    exception can occur, and none at all under the other policies. -/
theorem C04_exceptions (cfg : Cfg) (hN : NoRaise cfg) (hP : Productive cfg) (s : Str) (e : EncExc) :
    encodeChunks cfg s = .raise e ↔
      ∃ p c, Reached cfg s p ∧ s[p]? = some c ∧ e = .valueError c ∧ cfg.policy = .fail ∧
        skipsAscii cfg c = false ∧ AllMiss cfg.rules s p ∧ isCopyChar c = false := by
  constructor
  · intro h
    obtain ⟨q, hr, hq, hst⟩ := loop_raise_fwd _ _ h
    obtain ⟨c, hc⟩ := getElem?_of_lt hq
    exact ⟨q, c, hr, hc, (step_raise_iff hN hc e).mp hst⟩
  · rintro ⟨p, c, hr, hc, hrest⟩
    have hp : p < s.length := by
      rcases Nat.lt_or_ge p s.length with h | h
      · exact h
      · simp [List.getElem?_eq_none h] at hc
    exact loop_raise_bwd hP hr hp ((step_raise_iff hN hc e).mpr hrest) _ (by omega)

/-! ### Per-character rules: the encoder is a homomorphism -/

/-- encoding character by character (what the loop computes under `PerChar`) -/
def encChars (cfg : Cfg) : Str → EncRes
  | [] => .ok []
  | c :: cs =>
    match stepAt cfg [c] 0 c with
    | .emit t _ => (encChars cfg cs).cons t
    | .raise e => .raise e

theorem firstRule_perChar {rules : List Rule}
    (h : ∀ r ∈ rules, ∃ f : Char → Option Str, ∀ s p,
      r.app s p = match s[p]? with
        | some c => (match f c with | some t => .hit 1 t | none => .miss)
        | none => .miss)
    {s s' : Str} {p p' : Nat} (hsp : s[p]? = s'[p']?) :
    firstRule s p rules = firstRule s' p' rules ∧
      ∀ r n t, firstRule s p rules = .hit r n t → n = 1 := by
  induction rules with
  | nil => exact ⟨rfl, fun r n t h => by simp [firstRule] at h⟩
  | cons r0 rs ih =>
    obtain ⟨f, hf⟩ := h r0 (by simp)
    have ih' := ih (fun r hr => h r (by simp [hr]))
    have e1 : r0.app s p = r0.app s' p' := by rw [hf s p, hf s' p', hsp]
    constructor
    · simp only [firstRule, ← e1]
      cases hr0 : r0.app s p <;> simp [ih'.1]
    · intro r n t hh
      simp only [firstRule] at hh
      cases hr0 : r0.app s p with
      | miss => rw [hr0] at hh; exact ih'.2 r n t hh
      | hit n' t' =>
        rw [hr0] at hh
        simp only at hh
        cases hh
        rw [hf s p] at hr0
        split at hr0
        · split at hr0
          · cases hr0; rfl
          · cases hr0
        · cases hr0
      | raise e => rw [hr0] at hh; cases hh

theorem stepAt_perChar {cfg : Cfg} (h : PerChar cfg) {s : Str} {p : Nat} {c : Char} (hc : s[p]? = some c) :
    stepAt cfg s p c = stepAt cfg [c] 0 c ∧ ∀ t n, stepAt cfg s p c = .emit t n → n = 1 := by
  have hsp : s[p]? = ([c] : Str)[0]? := by simp [hc]
  obtain ⟨h1, h2⟩ := firstRule_perChar h hsp
  constructor
  · simp only [stepAt, h1]
  · intro t n hh
    unfold stepAt at hh
    split at hh
    · cases hh; rfl
    · cases hf : firstRule s p cfg.rules with
      | none =>
        rw [hf] at hh
        simp only at hh
        split at hh
        · cases hh; rfl
        · exact unknownChar_adv hh
      | hit r n' t' =>
        rw [hf] at hh
        simp only at hh
        cases hh
        exact h2 r _ t' hf
      | raise e => rw [hf] at hh; simp at hh

theorem loop_eq_encChars {cfg : Cfg} (h : PerChar cfg) (s : Str) :
    ∀ f p, s.length - p ≤ f → loop cfg s f p = encChars cfg (s.drop p) := by
  intro f
  induction f with
  | zero =>
    intro p hf
    rw [loop_ge (by omega), List.drop_of_length_le (by omega)]
    rfl
  | succ f ih =>
    intro p hf
    by_cases hp : p < s.length
    · rw [loop_succ_lt hp, List.drop_eq_getElem_cons hp]
      have hc : s[p]? = some s[p] := by simp [hp]
      obtain ⟨h1, h2⟩ := stepAt_perChar h hc
      rw [step_eq_stepAt hc]
      simp only [encChars, ← h1]
      cases hs : stepAt cfg s p s[p] with
      | emit t n =>
        have := h2 t n hs
        subst this
        simp only
        rw [ih (p + 1) (by omega)]
      | raise e => rfl
    · rw [loop_ge (by omega), List.drop_of_length_le (by omega)]
      rfl

theorem encodeChunks_eq_encChars {cfg : Cfg} (h : PerChar cfg) (s : Str) :
    encodeChunks cfg s = encChars cfg s := by
  have := loop_eq_encChars h s s.length 0 (by omega)
  simpa [encodeChunks] using this

theorem append_ok_nil (y : EncRes) : (EncRes.ok []).append y = y := by
  cases y <;> simp [EncRes.append]

theorem cons_append (t : Str) (x y : EncRes) : (x.cons t).append y = (x.append y).cons t := by
  cases x <;> cases y <;> simp [EncRes.cons, EncRes.append]

theorem encChars_append (cfg : Cfg) (a b : Str) :
    encChars cfg (a ++ b) = (encChars cfg a).append (encChars cfg b) := by
  induction a with
  | nil => simp [encChars, append_ok_nil]
  | cons c cs ih =>
    simp only [List.cons_append, encChars]
    cases stepAt cfg [c] 0 c with
    | emit t n => simp only; rw [ih, cons_append]
    | raise e => simp [EncRes.append]

/-- **C04 (concatenation).**  With per-character rules (in particular the built-in dictionary
    rules) encoding a concatenation is the concatenation of the encodings — chunk by chunk, and
    including the error case: the first failing part decides. -/
theorem C04_concat (cfg : Cfg) (h : PerChar cfg) (a b : Str) :
    encodeChunks cfg (a ++ b) = (encodeChunks cfg a).append (encodeChunks cfg b) := by
  rw [encodeChunks_eq_encChars h, encodeChunks_eq_encChars h, encodeChunks_eq_encChars h, encChars_append]

/-- the same statement for the returned strings -/
theorem C04_concat_str (cfg : Cfg) (h : PerChar cfg) (a b x y : Str)
    (ha : encode cfg a = some x) (hb : encode cfg b = some y) :
    encode cfg (a ++ b) = some (x ++ y) := by
  unfold encode at *
  rw [C04_concat cfg h]
  cases hA : encodeChunks cfg a <;> rw [hA] at ha <;> simp [EncRes.joined] at ha
  cases hB : encodeChunks cfg b <;> rw [hB] at hb <;> simp [EncRes.joined] at hb
  subst ha; subst hb
  simp [EncRes.append, EncRes.joined]

/-- dictionary rules are per-character rules -/
theorem dictRule_perChar (d : List (Nat × Str)) (pr : Option Prot) :
    ∃ f : Char → Option Str, ∀ s p,
      (dictRule d pr).app s p = match s[p]? with
        | some c => (match f c with | some t => .hit 1 t | none => .miss)
        | none => .miss := by
  refine ⟨fun c => d.lookup c.toNat, ?_⟩
  intro s p
  simp only [dictRule]
  cases s[p]? with
  | none => rfl
  | some c => cases d.lookup c.toNat <;> rfl

theorem perChar_of_dictRules (cfg : Cfg) (h : ∀ r ∈ cfg.rules, ∃ d pr, r = dictRule d pr) : PerChar cfg := by
  intro r hr
  obtain ⟨d, pr, rfl⟩ := h r hr
  exact dictRule_perChar d pr

theorem perChar_productive {cfg : Cfg} (h : PerChar cfg) : Productive cfg := by
  intro r hr s p n t happ
  obtain ⟨f, hf⟩ := h r hr
  rw [hf s p] at happ
  split at happ
  · split at happ
    · cases happ; omega
    · cases happ
  · cases happ

theorem perChar_noRaise {cfg : Cfg} (h : PerChar cfg) : NoRaise cfg := by
  intro r hr s p e happ
  obtain ⟨f, hf⟩ := h r hr
  rw [hf s p] at happ
  split at happ
  · split at happ <;> cases happ
  · cases happ

/-! ### `non_ascii_only` -/

theorem loop_congr {cfg cfg' : Cfg} {s : Str} (h : ∀ p, p < s.length → encStep cfg s p = encStep cfg' s p) :
    ∀ f p, loop cfg s f p = loop cfg' s f p := by
  intro f
  induction f with
  | zero => intro p; rfl
  | succ f ih =>
    intro p
    by_cases hp : p < s.length
    · rw [loop_succ_lt hp, loop_succ_lt hp, h p hp]
      cases encStep cfg' s p with
      | emit t n => simp only; rw [ih]
      | raise e => rfl
    · rw [loop_ge (by omega), loop_ge (by omega)]

theorem loop_unit_steps {cfg : Cfg} {s : Str} (g : Char → Str)
    (h : ∀ p c, s[p]? = some c → encStep cfg s p = .emit (g c) 1) :
    ∀ f p, s.length - p ≤ f → loop cfg s f p = .ok ((s.drop p).map g) := by
  intro f
  induction f with
  | zero => intro p hf; rw [loop_ge (by omega), List.drop_of_length_le (by omega)]; rfl
  | succ f ih =>
    intro p hf
    by_cases hp : p < s.length
    · rw [loop_succ_lt hp, List.drop_eq_getElem_cons hp, h p s[p] (by simp [hp])]
      simp only
      rw [ih (p + 1) (by omega)]
      rfl
    · rw [loop_ge (by omega), List.drop_of_length_le (by omega)]; rfl

theorem flatten_singletons (s : Str) : (s.map fun c => [c]).flatten = s := by
  induction s with
  | nil => rfl
  | cons c cs ih => simp [ih]

/-- **C04 (non_ascii_only).**  With `non_ascii_only` set and the ASCII limit at 128 (the
    repaired code) every ASCII character, U+007F included, is copied untouched whatever the
    rules say; hence an all-ASCII string is returned unchanged. -/
theorem C04_ascii_untouched (cfg : Cfg) (hn : cfg.nonAsciiOnly = true) (hl : cfg.asciiLimit = 128) (s : Str) :
    (∀ p c, s[p]? = some c → c.toNat < 128 → encStep cfg s p = .emit [c] 1) ∧
    ((∀ c ∈ s, c.toNat < 128) → encodeChunks cfg s = .ok (s.map fun c => [c]) ∧ encode cfg s = some s) := by
  have hstep : ∀ p c, s[p]? = some c → c.toNat < 128 → encStep cfg s p = .emit [c] 1 := by
    intro p c hc hlt
    exact (C04_step cfg s p c hc).1 (by simp [skipsAscii, hn, hl, hlt])
  refine ⟨hstep, ?_⟩
  intro hall
  have h1 : encodeChunks cfg s = .ok (s.map fun c => [c]) := by
    have := loop_unit_steps (cfg := cfg) (s := s) (fun c => [c])
      (fun p c hc => hstep p c hc (hall c (List.mem_of_getElem? hc))) s.length 0 (by omega)
    simpa [encodeChunks] using this
  refine ⟨h1, ?_⟩
  simp only [encode, h1, EncRes.joined, flatten_singletons]

/-! ### The partial encoder -/

theorem partial_firstRule_not_keep {keep : Char → Bool} {peek : Str → Nat → Peek} {catchErr : Bool}
    {base : Cfg} {s : Str} {p : Nat} {c : Char} (hc : s[p]? = some c) (hk : keep c = false) :
    firstRule s p (partialCfg keep peek catchErr base).rules = firstRule s p base.rules := by
  simp [partialCfg, firstRule, partialRule, hc, hk]

theorem skipsAscii_partial (keep : Char → Bool) (peek : Str → Nat → Peek) (catchErr : Bool) (base : Cfg) (c : Char) :
    skipsAscii (partialCfg keep peek catchErr base) c = skipsAscii base c := rfl

theorem partial_firstRule_keep {keep : Char → Bool} {peek : Str → Nat → Peek} {catchErr : Bool}
    {base : Cfg} {s : Str} {p : Nat} {c : Char} (hc : s[p]? = some c) (hk : keep c = true) :
    firstRule s p (partialCfg keep peek catchErr base).rules =
      match peek s p with
      | .tok pre a b => .hit (partialRule keep peek catchErr) (b - p) (pre ++ slice s a b)
      | .eos => if catchErr then .hit (partialRule keep peek catchErr) 1 [c] else .raise .endOfStream
      | .err => if catchErr then .hit (partialRule keep peek catchErr) 1 [c] else .raise .tokenParseError := by
  have happ : (partialRule keep peek catchErr).app s p =
      match peek s p with
      | .tok pre a b => .hit (b - p) (pre ++ slice s a b)
      | .eos => if catchErr then .hit 1 [c] else .raise .endOfStream
      | .err => if catchErr then .hit 1 [c] else .raise .tokenParseError := by
    simp [partialRule, hc, hk]
    cases peek s p <;> rfl
  simp only [partialCfg, firstRule, happ]
  cases peek s p <;> cases catchErr <;> rfl

/-- **C04 (partial encoder).**  At every position the `PartialLatexToLatexEncoder` performs
    exactly the base encoder's encStep, except at a position that holds a keep-character (and is
    not passed through by `non_ascii_only`): there it copies, unprotected, exactly
    `pre_space ++ s[tokStart:tokEnd]` of the token the tokenizer reports and advances to
    `tokEnd`; when the tokenizer reports no token, the repaired code copies the character
    itself and the code as it is lets the tokenizer's exception escape. -/
theorem C04_partial (keep : Char → Bool) (peek : Str → Nat → Peek) (catchErr : Bool) (base : Cfg)
    (s : Str) (p : Nat) (c : Char) (hc : s[p]? = some c) :
    ((skipsAscii base c = true ∨ keep c = false) →
      encStep (partialCfg keep peek catchErr base) s p = encStep base s p) ∧
    (skipsAscii base c = false → keep c = true →
      (∀ pre a b, peek s p = .tok pre a b →
        encStep (partialCfg keep peek catchErr base) s p = .emit (pre ++ slice s a b) (b - p)) ∧
      (peek s p = .err → encStep (partialCfg keep peek catchErr base) s p =
        if catchErr then .emit [c] 1 else .raise .tokenParseError) ∧
      (peek s p = .eos → encStep (partialCfg keep peek catchErr base) s p =
        if catchErr then .emit [c] 1 else .raise .endOfStream)) := by
  refine ⟨?_, ?_⟩
  · rintro (h | h)
    · rw [step_eq_stepAt hc, step_eq_stepAt hc]
      simp [stepAt, skipsAscii_partial, h]
    · rw [step_eq_stepAt hc, step_eq_stepAt hc]
      simp only [stepAt, skipsAscii_partial, partial_firstRule_not_keep hc h]
      rfl
  · intro h hk
    rw [step_eq_stepAt hc]
    refine ⟨?_, ?_, ?_⟩
    · intro pre a b hpk
      simp only [stepAt, skipsAscii_partial, h, partial_firstRule_keep hc hk, hpk]
      simp [partialRule, protect]
    · intro hpk
      simp only [stepAt, skipsAscii_partial, h, partial_firstRule_keep hc hk, hpk]
      cases catchErr <;> simp [partialRule, protect]
    · intro hpk
      simp only [stepAt, skipsAscii_partial, h, partial_firstRule_keep hc hk, hpk]
      cases catchErr <;> simp [partialRule, protect]

/-- a string without keep-characters is encoded exactly as by the base encoder -/
theorem C04_partial_no_keep (keep : Char → Bool) (peek : Str → Nat → Peek) (catchErr : Bool) (base : Cfg)
    (s : Str) (h : ∀ c ∈ s, keep c = false) :
    encodeChunks (partialCfg keep peek catchErr base) s = encodeChunks base s := by
  unfold encodeChunks
  apply loop_congr
  intro p hp
  have hc : s[p]? = some s[p] := by simp [hp]
  exact (C04_partial keep peek catchErr base s p s[p] hc).1 (Or.inr (h _ (List.getElem_mem hp)))

/-- the repaired keep-character rule never raises and always advances when the tokenizer's
    tokens end after the position they were asked at; so `C04_exceptions` and `C04_terminates`
    apply to the repaired partial encoder -/
theorem C04_partial_exceptions (keep : Char → Bool) (peek : Str → Nat → Peek) (base : Cfg)
    (hN : NoRaise base) :
    NoRaise (partialCfg keep peek true base) ∧
    (Productive base → (∀ s p pre a b, peek s p = .tok pre a b → p < b) →
      Productive (partialCfg keep peek true base)) := by
  constructor
  · intro r hr s p e
    rcases List.mem_cons.mp hr with rfl | hr
    · simp only [partialRule]
      cases s[p]? with
      | none => simp
      | some c =>
        simp only
        split
        · cases peek s p <;> simp
        · simp
    · exact hN r hr s p e
  · intro hP hpk r hr s p n t happ
    rcases List.mem_cons.mp hr with rfl | hr
    · simp only [partialRule] at happ
      cases hc : s[p]? with
      | none => rw [hc] at happ; cases happ
      | some c =>
        rw [hc] at happ
        simp only at happ
        split at happ
        · cases hp : peek s p with
          | tok pre a b =>
            rw [hp] at happ
            simp only at happ
            cases happ
            have := hpk s p pre a b hp
            omega
          | eos => rw [hp] at happ; simp at happ; omega
          | err => rw [hp] at happ; simp at happ; omega
        · cases happ
    · exact hP r hr s p n t happ

/-! ### The concrete rule kinds never raise -/

theorem regexApp_ne_raise (s : Str) (p : Nat) (es : List (Rx × List Piece)) (e : EncExc) :
    regexApp s p es ≠ .raise e := by
  induction es with
  | nil => simp [regexApp]
  | cons x xs ih =>
    obtain ⟨rx, repl⟩ := x
    simp only [regexApp]
    split
    · simp
    · exact ih

theorem famApp_ne_raise (f : Fam) (s : Str) (p : Nat) (e : EncExc) : famApp f s p ≠ .raise e := by
  cases f <;> simp only [famApp] <;> repeat' split <;> simp

/-- dictionary, regular-expression and family-callable rules — everything the driver can be
    given for the base encoder — satisfy the `NoRaise` hypothesis of `C04_exceptions` -/
theorem C04_concrete_noRaise (cfg : Cfg)
    (h : ∀ r ∈ cfg.rules, (∃ d pr, r = dictRule d pr) ∨ (∃ es pr, r = regexRule es pr) ∨ (∃ f pr, r = famRule f pr)) :
    NoRaise cfg := by
  intro r hr s p e
  rcases h r hr with ⟨d, pr, rfl⟩ | ⟨es, pr, rfl⟩ | ⟨f, pr, rfl⟩
  · simp only [dictRule]
    cases s[p]? with
    | none => simp
    | some c =>
      simp only
      split <;> simp
  · exact regexApp_ne_raise s p es e
  · exact famApp_ne_raise f s p e

/-! ### The code as it is: witnesses of the two defects -/

/-- keep-characters of the default `keep_latex_chars` that matter here -/
def keepBackslash (c : Char) : Bool := c == '\\'

/-- a tokenizer that reports a parse error (as the real strict tokenizer does for a trailing
    backslash, `\begin x`, `\end`) -/
def peekErr : Str → Nat → Peek := fun _ _ => .err

/-- **Defect (a), code as it is.**  With the unrepaired keep-character rule the partial encoder
    raises the tokenizer's `LatexWalkerTokenParseError` (not a `ValueError`, and under policy
    `keep`); the repaired rule copies the character. -/
theorem C04_asis_partial_raises :
    encodeChunks (partialCfg keepBackslash peekErr false { rules := [] }) ['a', '\\'] = .raise .tokenParseError ∧
    encodeChunks (partialCfg keepBackslash peekErr true { rules := [] }) ['a', '\\'] = .ok [['a'], ['\\']] := by
  constructor <;> decide

/-- **Defect (b), code as it is.**  With the limit `ord < 127` a rule for U+007F is applied
    although `non_ascii_only` is set; with `< 128` the character passes through. -/
theorem C04_asis_del_not_passed :
    encodeChunks { rules := [dictRule [(0x7f, ['X'])]], nonAsciiOnly := true, asciiLimit := 127 } [Char.ofNat 0x7f]
      = .ok [['X']] ∧
    encodeChunks { rules := [dictRule [(0x7f, ['X'])]], nonAsciiOnly := true, asciiLimit := 128 } [Char.ofNat 0x7f]
      = .ok [[Char.ofNat 0x7f]] := by
  constructor <;> decide

/-! ### Non-vacuity -/

/-- a configuration with overlapping rules of the three kinds: the regex `a+b` comes first,
    then a dictionary with `a`, then the callable `upperRun 2` -/
def exampleCfg : Cfg :=
  { rules := [ regexRule [([⟨.lit ['a'], true⟩, ⟨.lit ['b'], false⟩], [.text ['\\', 'x']])] (some .bracesAll),
               dictRule [(97, ['\\', 'y'])],
               famRule (.upperRun 2) ],
    policy := .fail }

example : encodeChunks exampleCfg "aabaXYZ".toList
    = .ok ["{\\x}".toList, "{\\y}".toList, "{XYZ}".toList] := by decide
example : encodeChunks exampleCfg ['a', Char.ofNat 0x4e7e] = .raise (.valueError (Char.ofNat 0x4e7e)) := by decide
example : FirstAt exampleCfg.rules ['a', 'c'] 0 1 (dictRule [(97, ['\\', 'y'])]) (.hit 1 ['\\', 'y']) := by
  refine ⟨rfl, by decide, by simp, ?_⟩
  intro j r' hj hr'
  have : j = 0 := by omega
  subst this
  simp [exampleCfg] at hr'
  subst hr'
  decide
example : PerChar { rules := [dictRule [(233, "\\'e".toList)]] } :=
  perChar_of_dictRules _ (by intro r hr; simp at hr; exact ⟨_, _, hr⟩)
example : encodeChunks { rules := [dictRule [(233, "\\'e".toList)]] } ['a', Char.ofNat 233, 'b']
    = .ok [['a'], "\\'e".toList, ['b']] := by decide
example : encodeChunks { rules := [], policy := .unihex } [Char.ofNat 0x1F600]
    = .ok ["\\ensuremath{\\langle}\\texttt{U+1F600}\\ensuremath{\\rangle}".toList] := by decide
example : Reached exampleCfg ['a', 'a', 'b', 'c'] 3 :=
  .encStep (t := "{\\x}".toList) (n := 3) (by decide) (by decide) (.refl _)

/-- a configuration with one dictionary rule and policy `fail`: it satisfies `PerChar`, hence
    `Productive` and `NoRaise` -/
def dictCfg : Cfg := { rules := [dictRule [(233, "\\'e".toList)]], policy := .fail }

theorem dictCfg_perChar : PerChar dictCfg :=
  perChar_of_dictRules _ (by intro r hr; simp [dictCfg] at hr; exact ⟨_, _, hr⟩)

-- hypotheses of `C04_exceptions` hold, and its left-hand side occurs: the error is located
example : ∃ p c, Reached dictCfg ['a', Char.ofNat 0x4e7e, 'b'] p ∧ ['a', Char.ofNat 0x4e7e, 'b'][p]? = some c ∧
    EncExc.valueError (Char.ofNat 0x4e7e) = .valueError c ∧ dictCfg.policy = .fail ∧ skipsAscii dictCfg c = false ∧
    AllMiss dictCfg.rules ['a', Char.ofNat 0x4e7e, 'b'] p ∧ isCopyChar c = false :=
  (C04_exceptions dictCfg (perChar_noRaise dictCfg_perChar) (perChar_productive dictCfg_perChar) _ _).mp (by decide)

-- `C04_concat` on a concrete split, with an error in the second half
example : encodeChunks dictCfg (['a', Char.ofNat 233] ++ [Char.ofNat 0x4e7e]) = .raise (.valueError (Char.ofNat 0x4e7e)) := by
  rw [C04_concat dictCfg dictCfg_perChar]; decide

example : NoRaise exampleCfg :=
  C04_concrete_noRaise _ (by
    intro r hr
    simp [exampleCfg] at hr
    rcases hr with rfl | rfl | rfl
    · right; left; exact ⟨_, _, rfl⟩
    · left; exact ⟨_, _, rfl⟩
    · right; right; exact ⟨_, _, rfl⟩)

-- the partial encoder keeps the token `\'` the tokenizer reports at a backslash, and the
-- hypotheses of `C04_partial_exceptions` are met by such a tokenizer
example : encStep (partialCfg keepBackslash (fun _ p => .tok [] p (p+2)) true dictCfg) ['\\', '\'', Char.ofNat 233] 0
    = .emit ['\\', '\''] 2 := by decide
example : encodeChunks (partialCfg keepBackslash (fun _ p => .tok [] p (p+2)) true dictCfg) ['\\', '\'', Char.ofNat 233]
    = .ok [['\\', '\''], "\\'e".toList] := by decide
example : Productive (partialCfg keepBackslash (fun _ p => .tok [] p (p+2)) true dictCfg) :=
  (C04_partial_exceptions _ _ dictCfg (perChar_noRaise dictCfg_perChar)).2
    (perChar_productive dictCfg_perChar) (by intro s p pre a b h; cases h; omega)

end Pylx
