/-
  C05Bal — C05, "strict parsing rejects unbalanced markup", as theorems.

  * `C05Bal.accepted_balanced` (C05BalParse): for every context whose specials are plain and every input without
    verbatim constructs, acceptance by the strict parser implies balance of `{ }`, `$` (parity), `\( \)`, `\[ \]`,
    `\begin \end` — an input-universal necessary condition for acceptance.
  * `C05Bal.fault_rejected` (here): a document of the grammar's proved fragment (`Doc.Core`) without verbatim constructs,
    with ONE structural delimiter injected at an item boundary or an argument boundary of any nesting depth (outside
    comments), is answered by a located `LatexWalkerParseError` — never accepted.  One corollary per fault kind.
-/
import PylxProofs.C05BalDoc
namespace Pylx
namespace C05Bal
open Doc

/-! ### the general statement -/

/-- **A single injected delimiter is rejected.**  `ctx`: closed world, specials plain (`ctxOk`).  `d`: a document of the
    `Doc.Core` fragment all of whose macros / environments have non-verbatim specifications (`docOk`).  `x`: a fault text
    that starts with a non-letter, weighs `wx ≢ 0` for some class `k` and nothing for the class `verb`.  `p`: any path
    to an item / argument boundary of `d`.  Then the strict parse of the faulty source is a parse error (located, by
    `C05_located`), and the faulty source is the source of `d` with `x` inserted. -/
theorem fault_rejected (ctx : Ctx) (hcl : ctx.Closed) (hc : ctxOk ctx = true) (d : List Item) (hcore : Core ctx d = true)
    (hdoc : docOk ctx d = true) (x : Str) (k : Sym) (wx : Int)
    (hx : ∀ r, cnt ctx k .n (x ++ r) = wx + cnt ctx k .n r)
    (hxv : ∀ r, cnt ctx .verb .n (x ++ r) = 0 + cnt ctx .verb .n r)
    (hxh : headIs isAsciiAlpha x = false) (hxne : x ≠ []) (hw : ¬ Rel k wx 0)
    (p : Path) (d' : List Item) (hins : insItems x p d = some d') :
    (∃ e, parseStrict ctx (unparse d') = .perr e) ∧ Inserted x (unparse d) (unparse d') := by
  unfold Core at hcore
  rw [Bool.and_eq_true] at hcore
  have hci := hcore.2
  obtain ⟨h1, _, h3⟩ := (ins_bal ctx hc k x wx hx hxh hxne p).1 d false [] hci hdoc d' hins [] (HeadLe.refl _)
  obtain ⟨v1, _, _⟩ := (ins_bal ctx hc .verb x 0 hxv hxh hxne p).1 d false [] hci hdoc d' hins [] (HeadLe.refl _)
  rw [List.append_nil] at h1 v1
  refine ⟨unbalanced_rejected ctx hcl hc (unparse d') ?_ k ?_, h3⟩
  · exact v1.verb
  · intro hb
    apply hw
    have e : cnt ctx k .n ([] : Str) = 0 := rfl
    rw [e, Int.add_zero] at h1
    exact Rel.trans h1.symm hb

/-! ### the fault kinds -/

inductive Fault where
  | openBrace | closeBrace | dollar | openParen | closeParen | openBrack | closeBrack
  | beginEnv (name : Str) | endEnv (name : Str)
deriving Repr

def Fault.text : Fault → Str
  | .openBrace => ['{'] | .closeBrace => ['}'] | .dollar => ['$']
  | .openParen => ['\\', '('] | .closeParen => ['\\', ')'] | .openBrack => ['\\', '['] | .closeBrack => ['\\', ']']
  | .beginEnv name => beginStr name | .endEnv name => endStr name

def Fault.sym : Fault → Sym
  | .openBrace => .brace | .closeBrace => .brace | .dollar => .dollar
  | .openParen => .paren | .closeParen => .paren | .openBrack => .brack | .closeBrack => .brack
  | .beginEnv _ => .env | .endEnv _ => .env

def Fault.weight : Fault → Int
  | .openBrace => 1 | .closeBrace => -1 | .dollar => 1
  | .openParen => 1 | .closeParen => -1 | .openBrack => 1 | .closeBrack => -1
  | .beginEnv _ => 1 | .endEnv _ => -1

/-- side condition of a fault: an environment name is a non-empty string of name characters; the name of an injected
    `\begin` is not that of a verbatim-like environment of the context (which would swallow the rest of the input) -/
def Fault.ok (ctx : Ctx) : Fault → Bool
  | .beginEnv name => !name.isEmpty && name.all isEnvNameChar && !envBad ctx name
  | .endEnv name => !name.isEmpty && name.all isEnvNameChar
  | _ => true

theorem Fault.weight_ne (f : Fault) : ¬ Rel f.sym f.weight 0 := by
  intro h
  cases f
  case dollar =>
    have h : (2 : Int) ∣ 1 - 0 := h
    omega
  all_goals
    have := Rel.eq_of_ne_dollar (k := _) (by simp [Fault.sym]) h
    simp [Fault.weight] at this

theorem cnt_single (ctx : Ctx) (k : Sym) {c : Char} (h1 : c ≠ '\\') (h2 : c ≠ '%') (r : Str) :
    cnt ctx k .n ([c] ++ r) = plainW k c + cnt ctx k .n r := cnt_cons ctx k h1 h2 r

theorem Fault.count (ctx : Ctx) (f : Fault) (hf : f.ok ctx = true) :
    (∀ r, cnt ctx f.sym .n (f.text ++ r) = f.weight + cnt ctx f.sym .n r) ∧
    (∀ r, cnt ctx .verb .n (f.text ++ r) = 0 + cnt ctx .verb .n r) := by
  cases f with
  | openBrace => exact ⟨fun r => cnt_single ctx _ (by decide) (by decide) r, fun r => cnt_single ctx _ (by decide) (by decide) r⟩
  | closeBrace => exact ⟨fun r => cnt_single ctx _ (by decide) (by decide) r, fun r => cnt_single ctx _ (by decide) (by decide) r⟩
  | dollar => exact ⟨fun r => cnt_single ctx _ (by decide) (by decide) r, fun r => cnt_single ctx _ (by decide) (by decide) r⟩
  | openParen => exact ⟨fun r => cnt_math ctx _ (by decide) r, fun r => cnt_math ctx _ (by decide) r⟩
  | closeParen => exact ⟨fun r => cnt_math ctx _ (by decide) r, fun r => cnt_math ctx _ (by decide) r⟩
  | openBrack => exact ⟨fun r => cnt_math ctx _ (by decide) r, fun r => cnt_math ctx _ (by decide) r⟩
  | closeBrack => exact ⟨fun r => cnt_math ctx _ (by decide) r, fun r => cnt_math ctx _ (by decide) r⟩
  | beginEnv name =>
    simp only [Fault.ok, Bool.and_eq_true, Bool.not_eq_eq_eq_not, Bool.not_true] at hf
    obtain ⟨⟨hne, hall⟩, hbad⟩ := hf
    have hne' : name ≠ [] := by intro e; rw [e] at hne; cases hne
    refine ⟨fun r => cnt_beginStr ctx _ hall hne' r, fun r => ?_⟩
    rw [show (Fault.beginEnv name).text = beginStr name from rfl, cnt_beginStr ctx _ hall hne' r]
    simp [kindW, hbad]
  | endEnv name =>
    simp only [Fault.ok, Bool.and_eq_true, Bool.not_eq_eq_eq_not, Bool.not_true] at hf
    obtain ⟨hne, hall⟩ := hf
    have hne' : name ≠ [] := by intro e; rw [e] at hne; cases hne
    exact ⟨fun r => cnt_endStr ctx _ hall hne' r, fun r => cnt_endStr ctx _ hall hne' r⟩

theorem Fault.head (f : Fault) : headIs isAsciiAlpha f.text = false ∧ f.text ≠ [] := by
  cases f with
  | beginEnv name =>
    have : (Fault.beginEnv name).text = '\\' :: (envWordStr true ++ '{' :: (name ++ '}' :: [])) := by
      rw [← C02.beginStr_append, List.append_nil]; rfl
    rw [this]; exact ⟨by simp [headIs]; decide, by simp⟩
  | endEnv name =>
    have : (Fault.endEnv name).text = '\\' :: (envWordStr false ++ '{' :: (name ++ '}' :: [])) := by
      rw [← C02.endStr_append, List.append_nil]; rfl
    rw [this]; exact ⟨by simp [headIs]; decide, by simp⟩
  | _ => exact ⟨by decide, by decide⟩

/-- **C05, fault clause (all nine fault kinds).**  For every closed-world context with plain specials, every document
    `d` of the `Doc.Core` fragment without verbatim constructs, every fault `f` (`{`, `}`, `$`, `\(`, `\)`, `\[`, `\]`,
    `\begin{name}`, `\end{name}`) and every item / argument boundary `p` of `d` at any nesting depth outside comments:
    the strict parse of the source of `d` with the text of `f` inserted at `p` is a parse error. -/
theorem C05_fault_rejected (ctx : Ctx) (hcl : ctx.Closed) (hc : ctxOk ctx = true) (d : List Item)
    (hcore : Core ctx d = true) (hdoc : docOk ctx d = true) (f : Fault) (hf : f.ok ctx = true)
    (p : Path) (d' : List Item) (hins : insItems f.text p d = some d') :
    (∃ e, parseStrict ctx (unparse d') = .perr e) ∧ Inserted f.text (unparse d) (unparse d') :=
  fault_rejected ctx hcl hc d hcore hdoc f.text f.sym f.weight (f.count ctx hf).1 (f.count ctx hf).2
    f.head.1 f.head.2 f.weight_ne p d' hins

/-! ### one theorem per fault kind -/

section kinds
variable (ctx : Ctx) (hcl : ctx.Closed) (hc : ctxOk ctx = true) (d : List Item) (hcore : Core ctx d = true)
  (hdoc : docOk ctx d = true) (p : Path) (d' : List Item)

include hcl hc hcore hdoc

/-- (1) a stray `}` at top level or at any depth -/
theorem stray_close_brace_rejected (hins : insItems ['}'] p d = some d') :
    ∃ e, parseStrict ctx (unparse d') = .perr e :=
  (C05_fault_rejected ctx hcl hc d hcore hdoc .closeBrace rfl p d' hins).1

/-- (2) a stray `{` (also when it steals the closing brace of an enclosing group) -/
theorem stray_open_brace_rejected (hins : insItems ['{'] p d = some d') :
    ∃ e, parseStrict ctx (unparse d') = .perr e :=
  (C05_fault_rejected ctx hcl hc d hcore hdoc .openBrace rfl p d' hins).1

/-- (3) a stray `\)` -/
theorem stray_close_paren_rejected (hins : insItems ['\\', ')'] p d = some d') :
    ∃ e, parseStrict ctx (unparse d') = .perr e :=
  (C05_fault_rejected ctx hcl hc d hcore hdoc .closeParen rfl p d' hins).1

/-- (3) a stray `\]` -/
theorem stray_close_brack_rejected (hins : insItems ['\\', ']'] p d = some d') :
    ∃ e, parseStrict ctx (unparse d') = .perr e :=
  (C05_fault_rejected ctx hcl hc d hcore hdoc .closeBrack rfl p d' hins).1

/-- (3) a stray `\end{name}` -/
theorem stray_end_rejected (name : Str) (hn : (!name.isEmpty && name.all isEnvNameChar) = true)
    (hins : insItems (endStr name) p d = some d') :
    ∃ e, parseStrict ctx (unparse d') = .perr e :=
  (C05_fault_rejected ctx hcl hc d hcore hdoc (.endEnv name) hn p d' hins).1

/-- (4) a stray `\(` -/
theorem stray_open_paren_rejected (hins : insItems ['\\', '('] p d = some d') :
    ∃ e, parseStrict ctx (unparse d') = .perr e :=
  (C05_fault_rejected ctx hcl hc d hcore hdoc .openParen rfl p d' hins).1

/-- (4) a stray `\[` -/
theorem stray_open_brack_rejected (hins : insItems ['\\', '['] p d = some d') :
    ∃ e, parseStrict ctx (unparse d') = .perr e :=
  (C05_fault_rejected ctx hcl hc d hcore hdoc .openBrack rfl p d' hins).1

/-- (4) a stray `\begin{name}` (`name` not a verbatim-like environment of the context) -/
theorem stray_begin_rejected (name : Str) (hn : (!name.isEmpty && name.all isEnvNameChar && !envBad ctx name) = true)
    (hins : insItems (beginStr name) p d = some d') :
    ∃ e, parseStrict ctx (unparse d') = .perr e :=
  (C05_fault_rejected ctx hcl hc d hcore hdoc (.beginEnv name) hn p d' hins).1

/-- (5) a stray `$`, in text or in math mode, also directly in front of / behind another `$` and in front of a later
    `$…$` formula with which it re-pairs: the number of `$` characters stays odd -/
theorem stray_dollar_rejected (hins : insItems ['$'] p d = some d') :
    ∃ e, parseStrict ctx (unparse d') = .perr e :=
  (C05_fault_rejected ctx hcl hc d hcore hdoc .dollar rfl p d' hins).1

end kinds

/-! ### every boundary of a list has a path -/

/-- the path to the boundary after the first `n` items of the current list -/
def Path.nexts : Nat → Path → Path
  | 0, p => p
  | n + 1, p => .next (Path.nexts n p)

theorem insItems_nexts (x : Str) (pre post : List Item) :
    insItems x (Path.nexts pre.length .here) (pre ++ post) = some (pre ++ .T x :: post) := by
  induction pre with
  | nil => rfl
  | cons it pre ih => simp only [List.length_cons, Path.nexts, List.cons_append, insItems, ih, Option.map_some]

theorem unparse_insert (x : Str) (d1 d2 : List Item) :
    unparseItems (d1 ++ Item.T x :: d2) = unparseItems d1 ++ x ++ unparseItems d2 := by
  induction d1 with
  | nil => simp [unparseItems]
  | cons it d1 ih =>
    rw [List.cons_append, unparse_cons, unparse_cons it d1, ih]
    simp

/-- **top-level form**: a fault between any two items of the document (or in front of the first / behind the last) -/
theorem C05_fault_rejected_top (ctx : Ctx) (hcl : ctx.Closed) (hc : ctxOk ctx = true) (d1 d2 : List Item)
    (hcore : Core ctx (d1 ++ d2) = true) (hdoc : docOk ctx (d1 ++ d2) = true) (f : Fault) (hf : f.ok ctx = true) :
    ∃ e, parseStrict ctx (unparse d1 ++ f.text ++ unparse d2) = .perr e := by
  have := (C05_fault_rejected ctx hcl hc (d1 ++ d2) hcore hdoc f hf _ _ (insItems_nexts f.text d1 d2)).1
  have e : unparse (d1 ++ Item.T f.text :: d2) = unparse d1 ++ f.text ++ unparse d2 := unparse_insert _ _ _
  rw [e] at this
  exact this

/-! ### all boundaries of a document -/

mutual
/-- the paths to all item boundaries (at every nesting depth, outside comments, `\verb` texts and specials) and all
    argument boundaries of a list of items — mirror of `docgen.boundaries`, as paths instead of positions -/
def itemPaths : List Item → List Path
  | [] => [.here]
  | .G b :: tl => .here :: ((itemPaths b).map Path.body ++ (itemPaths tl).map Path.next)
  | .M _ _ a :: tl => .here :: ((argPaths a).map Path.args ++ (itemPaths tl).map Path.next)
  | .E _ a b :: tl =>
    .here :: ((argPaths a).map Path.args ++ ((itemPaths b).map Path.body ++ (itemPaths tl).map Path.next))
  | .F _ b :: tl => .here :: ((itemPaths b).map Path.body ++ (itemPaths tl).map Path.next)
  | .T _ :: tl => .here :: (itemPaths tl).map Path.next
  | .W _ :: tl => .here :: (itemPaths tl).map Path.next
  | .P _ :: tl => .here :: (itemPaths tl).map Path.next
  | .C _ _ :: tl => .here :: (itemPaths tl).map Path.next
  | .S _ _ :: tl => .here :: (itemPaths tl).map Path.next
  | .V _ _ :: tl => .here :: (itemPaths tl).map Path.next
  | .VE _ _ _ _ :: tl => .here :: (itemPaths tl).map Path.next
def argPaths : List ArgVal → List Path
  | [] => [.here]
  | .br b :: tl => .here :: ((itemPaths b).map Path.body ++ (argPaths tl).map Path.next)
  | .grp b :: tl => .here :: ((itemPaths b).map Path.body ++ (argPaths tl).map Path.next)
  | .del _ _ b :: tl => .here :: ((itemPaths b).map Path.body ++ (argPaths tl).map Path.next)
  | .absent :: tl => .here :: (argPaths tl).map Path.next
  | .star :: tl => .here :: (argPaths tl).map Path.next
  | .marker _ :: tl => .here :: (argPaths tl).map Path.next
  | .tok _ :: tl => .here :: (argPaths tl).map Path.next
  | .verb _ _ _ :: tl => .here :: (argPaths tl).map Path.next
end

mutual
/-- every listed path is a boundary: the insertion is defined there -/
theorem itemPaths_valid (x : Str) : ∀ (a : List Item) (p : Path), p ∈ itemPaths a → ∃ a', insItems x p a = some a'
  | [], p, h => by
    simp only [itemPaths, List.mem_singleton] at h
    subst h; exact ⟨_, rfl⟩
  | .G b :: tl, p, h => by
    simp only [itemPaths, List.mem_cons, List.mem_append, List.mem_map] at h
    rcases h with rfl | ⟨q, hq, rfl⟩ | ⟨q, hq, rfl⟩
    · exact ⟨_, rfl⟩
    · obtain ⟨b', hb'⟩ := itemPaths_valid x b q hq
      exact ⟨_, by simp only [insItems, hb', Option.map_some]; rfl⟩
    · obtain ⟨l', hl'⟩ := itemPaths_valid x tl q hq
      exact ⟨_, by simp only [insItems, hl', Option.map_some]; rfl⟩
  | .M n post a :: tl, p, h => by
    simp only [itemPaths, List.mem_cons, List.mem_append, List.mem_map] at h
    rcases h with rfl | ⟨q, hq, rfl⟩ | ⟨q, hq, rfl⟩
    · exact ⟨_, rfl⟩
    · obtain ⟨a', ha'⟩ := argPaths_valid x a q hq
      exact ⟨_, by simp only [insItems, ha', Option.map_some]; rfl⟩
    · obtain ⟨l', hl'⟩ := itemPaths_valid x tl q hq
      exact ⟨_, by simp only [insItems, hl', Option.map_some]; rfl⟩
  | .E n a b :: tl, p, h => by
    simp only [itemPaths, List.mem_cons, List.mem_append, List.mem_map] at h
    rcases h with rfl | ⟨q, hq, rfl⟩ | ⟨q, hq, rfl⟩ | ⟨q, hq, rfl⟩
    · exact ⟨_, rfl⟩
    · obtain ⟨a', ha'⟩ := argPaths_valid x a q hq
      exact ⟨_, by simp only [insItems, ha', Option.map_some]; rfl⟩
    · obtain ⟨b', hb'⟩ := itemPaths_valid x b q hq
      exact ⟨_, by simp only [insItems, hb', Option.map_some]; rfl⟩
    · obtain ⟨l', hl'⟩ := itemPaths_valid x tl q hq
      exact ⟨_, by simp only [insItems, hl', Option.map_some]; rfl⟩
  | .F fk b :: tl, p, h => by
    simp only [itemPaths, List.mem_cons, List.mem_append, List.mem_map] at h
    rcases h with rfl | ⟨q, hq, rfl⟩ | ⟨q, hq, rfl⟩
    · exact ⟨_, rfl⟩
    · obtain ⟨b', hb'⟩ := itemPaths_valid x b q hq
      exact ⟨_, by simp only [insItems, hb', Option.map_some]; rfl⟩
    · obtain ⟨l', hl'⟩ := itemPaths_valid x tl q hq
      exact ⟨_, by simp only [insItems, hl', Option.map_some]; rfl⟩
  | .T _ :: tl, p, h | .W _ :: tl, p, h | .P _ :: tl, p, h | .C _ _ :: tl, p, h | .S _ _ :: tl, p, h
  | .V _ _ :: tl, p, h | .VE _ _ _ _ :: tl, p, h => by
    simp only [itemPaths, List.mem_cons, List.mem_map] at h
    rcases h with rfl | ⟨q, hq, rfl⟩
    · exact ⟨_, rfl⟩
    · obtain ⟨l', hl'⟩ := itemPaths_valid x tl q hq
      exact ⟨_, by simp only [insItems, hl', Option.map_some]; rfl⟩
termination_by a => sizeOf a
decreasing_by
  all_goals first
    | decreasing_tactic
    | (subst_vars; decreasing_tactic)
theorem argPaths_valid (x : Str) : ∀ (a : List ArgVal) (p : Path), p ∈ argPaths a → ∃ a', insArgs x p a = some a'
  | [], p, h => by
    simp only [argPaths, List.mem_singleton] at h
    subst h; exact ⟨_, rfl⟩
  | .br b :: tl, p, h | .grp b :: tl, p, h | .del _ _ b :: tl, p, h => by
    simp only [argPaths, List.mem_cons, List.mem_append, List.mem_map] at h
    rcases h with rfl | ⟨q, hq, rfl⟩ | ⟨q, hq, rfl⟩
    · exact ⟨_, rfl⟩
    · obtain ⟨b', hb'⟩ := itemPaths_valid x b q hq
      exact ⟨_, by simp only [insArgs, hb', Option.map_some]; rfl⟩
    · obtain ⟨l', hl'⟩ := argPaths_valid x tl q hq
      exact ⟨_, by simp only [insArgs, hl', Option.map_some]; rfl⟩
  | .absent :: tl, p, h | .star :: tl, p, h | .marker _ :: tl, p, h | .tok _ :: tl, p, h | .verb _ _ _ :: tl, p, h => by
    simp only [argPaths, List.mem_cons, List.mem_map] at h
    rcases h with rfl | ⟨q, hq, rfl⟩
    · exact ⟨_, rfl⟩
    · obtain ⟨l', hl'⟩ := argPaths_valid x tl q hq
      exact ⟨_, by simp only [insArgs, hl', Option.map_some]; rfl⟩
termination_by a => sizeOf a
decreasing_by
  all_goals first
    | decreasing_tactic
    | (subst_vars; decreasing_tactic)
end

/-- **C05, fault clause, every boundary.**  For every listed boundary of the document (`itemPaths d`: in front of, between
    and behind the items of every item list of `d` — top level, brace groups, formulas, environment bodies, bracket /
    brace / delimited arguments — and in front of, between and behind the written arguments of every call) and every
    fault: the faulty document exists, its source is the source of `d` with the fault text inserted, and the strict
    parser rejects it. -/
theorem C05_fault_rejected_all (ctx : Ctx) (hcl : ctx.Closed) (hc : ctxOk ctx = true) (d : List Item)
    (hcore : Core ctx d = true) (hdoc : docOk ctx d = true) (f : Fault) (hf : f.ok ctx = true) :
    ∀ p ∈ itemPaths d, ∃ d', insItems f.text p d = some d' ∧ Inserted f.text (unparse d) (unparse d') ∧
      ∃ e, parseStrict ctx (unparse d') = .perr e := by
  intro p hp
  obtain ⟨d', hd'⟩ := itemPaths_valid f.text d p hp
  have := C05_fault_rejected ctx hcl hc d hcore hdoc f hf p d' hd'
  exact ⟨d', hd', this.2, this.1⟩

/-! ### non-vacuity: the default context, a nested document, faults at depth -/

def Ret.isPerr : Ret → Bool
  | .perr _ => true
  | _ => false

def Ret.isOk : Ret → Bool
  | .ok _ _ => true
  | _ => false

theorem isPerr_of_ex {r : Ret} (h : ∃ e, r = .perr e) : Ret.isPerr r = true := by
  obtain ⟨e, rfl⟩ := h; rfl

/-- the default walker context satisfies the condition on the context -/
theorem ctxOk_default : ctxOk Gen.defaultCtx = true := by decide +kernel

/-- `a{\textbf{b}$x$}c` -/
def exD : List Item :=
  [.T ['a'], .G [.M "textbf".toList [] [.grp [.T ['b']]], .F .dollar [.T ['x']]], .T ['c']]

theorem exD_core : Core Gen.defaultCtx exD = true := by decide +kernel
theorem exD_docOk : docOk Gen.defaultCtx exD = true := by decide +kernel

/-- behind the `b` inside the argument of `\textbf` inside the group: depth 3 -/
def exP1 : Path := .next (.body (.args (.body (.next .here))))
/-- in front of `\textbf` inside the group: depth 1 -/
def exP2 : Path := .next (.body .here)
/-- inside the formula, behind the `x` -/
def exP3 : Path := .next (.body (.next (.body (.next .here))))

/-- a stray `}` at depth 3: `a{\textbf{b}}$x$}c` -/
def exD1 : List Item :=
  [.T ['a'], .G [.M "textbf".toList [] [.grp [.T ['b'], .T ['}']]], .F .dollar [.T ['x']]], .T ['c']]
theorem exD1_ins : insItems ['}'] exP1 exD = some exD1 := rfl
example : unparse exD1 = "a{\\textbf{b}}$x$}c".toList := by decide +kernel
/-- the theorem applies … -/
example : ∃ e, parseStrict Gen.defaultCtx (unparse exD1) = .perr e :=
  stray_close_brace_rejected Gen.defaultCtx defaultCtx_closed ctxOk_default exD exD_core exD_docOk exP1 exD1 exD1_ins
/-- … and, independently, kernel evaluation of the model: the faulty source is rejected, the original accepted -/
example : Ret.isPerr (parseStrict Gen.defaultCtx "a{\\textbf{b}}$x$}c".toList) = true := by decide +kernel
example : Ret.isOk (parseStrict Gen.defaultCtx "a{\\textbf{b}$x$}c".toList) = true := by decide +kernel

/-- a stray `$` in text mode in front of `\textbf{b}$x$`: it re-pairs with the opening `$` of the formula
    (`a{$\textbf{b}$x$}c`); the count of `$` is odd, the source is rejected -/
def exD2 : List Item :=
  [.T ['a'], .G [.T ['$'], .M "textbf".toList [] [.grp [.T ['b']]], .F .dollar [.T ['x']]], .T ['c']]
theorem exD2_ins : insItems ['$'] exP2 exD = some exD2 := rfl
example : unparse exD2 = "a{$\\textbf{b}$x$}c".toList := by decide +kernel
example : ∃ e, parseStrict Gen.defaultCtx (unparse exD2) = .perr e :=
  stray_dollar_rejected Gen.defaultCtx defaultCtx_closed ctxOk_default exD exD_core exD_docOk exP2 exD2 exD2_ins
example : Ret.isPerr (parseStrict Gen.defaultCtx "a{$\\textbf{b}$x$}c".toList) = true := by decide +kernel

/-- a stray `{` inside the formula: it steals the closing brace of the enclosing group (`a{\textbf{b}$x{$}c`) -/
def exD3 : List Item :=
  [.T ['a'], .G [.M "textbf".toList [] [.grp [.T ['b']]], .F .dollar [.T ['x'], .T ['{']]], .T ['c']]
theorem exD3_ins : insItems ['{'] exP3 exD = some exD3 := rfl
example : unparse exD3 = "a{\\textbf{b}$x{$}c".toList := by decide +kernel
example : Ret.isPerr (parseStrict Gen.defaultCtx (unparse exD3)) = true :=
  isPerr_of_ex (stray_open_brace_rejected Gen.defaultCtx defaultCtx_closed ctxOk_default exD exD_core exD_docOk exP3 exD3 exD3_ins)
example : Ret.isPerr (parseStrict Gen.defaultCtx "a{\\textbf{b}$x{$}c".toList) = true := by decide +kernel

/-- the example document has 13 boundaries (11 item boundaries: 4 at top level, 3 in the group, 2 in the formula, 2 in
    the argument of `\textbf`; 2 argument boundaries around that argument), each of them covered by
    `C05_fault_rejected_all` for each of the nine faults -/
example : (itemPaths exD).length = 13 ∧ exP1 ∈ itemPaths exD ∧ exP2 ∈ itemPaths exD ∧ exP3 ∈ itemPaths exD := by
  decide +kernel

/-- `\end{zz}` and `\begin{zz}` at top level behind the group -/
example : ∃ e, parseStrict Gen.defaultCtx (unparse [.T ['a']] ++ (Fault.endEnv ['z', 'z']).text ++ unparse [.T ['c']]) = .perr e :=
  C05_fault_rejected_top Gen.defaultCtx defaultCtx_closed ctxOk_default [.T ['a']] [.T ['c']] (by decide +kernel)
    (by decide +kernel) (.endEnv ['z', 'z']) (by decide +kernel)
example : ∃ e, parseStrict Gen.defaultCtx (unparse [.T ['a']] ++ (Fault.beginEnv ['z', 'z']).text ++ unparse [.T ['c']]) = .perr e :=
  C05_fault_rejected_top Gen.defaultCtx defaultCtx_closed ctxOk_default [.T ['a']] [.T ['c']] (by decide +kernel)
    (by decide +kernel) (.beginEnv ['z', 'z']) (by decide +kernel)

/-! ### the hypotheses are needed -/

/-- `VerbFree` is needed in `accepted_balanced`: `\verb|{|` is accepted and has one more `{` than `}` -/
example : Ret.isOk (parseStrict Gen.defaultCtx "\\verb|{|".toList) = true ∧
    cnt Gen.defaultCtx .brace .n "\\verb|{|".toList = 1 ∧ cnt Gen.defaultCtx .verb .n "\\verb|{|".toList = 1 := by
  decide +kernel

/-- `ctxOk` is needed in `accepted_balanced`: with a specials string `~{` the input `~{` is accepted -/
def cxCtxKey : Ctx := { specials := [(['~', '{'], .std [])] }
example : Ret.isOk (parseStrict cxCtxKey ['~', '{']) = true ∧ cnt cxCtxKey .brace .n ['~', '{'] = 1 ∧
    ctxOk cxCtxKey = false := by decide +kernel

/-- `docOk` is needed in the fault theorem (a `v` argument; context with `\p{…}<verbatim>`): `}` injected between the
    two arguments of `\p{a}!{{}!` gives `\p{a}}!{{}!`, whose verbatim argument is now `}!{{}` — accepted -/
def cxCtxV : Ctx := { macros := [(['p'], .std [⟨.m, .none⟩, ⟨.v, .none⟩])] }
example : Ret.isOk (parseStrict cxCtxV "\\p{a}!{{}!".toList) = true ∧
    Ret.isOk (parseStrict cxCtxV "\\p{a}}!{{}!".toList) = true := by decide +kernel

end C05Bal
end Pylx
