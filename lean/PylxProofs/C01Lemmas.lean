/-
  C01Lemmas — structural lemmas for C01: `Tiles` / `Chain` algebra, the subnode lists, slices,
  and the "text" facts about tokens (`TokText`) that the tokenizer guarantees.
-/
import PylxProofs.ParseSpec
import PylxProofs.C11
namespace Pylx

/-! ### slices -/

theorem slice_length (s : Str) (a b : Nat) (hab : a ≤ b) (hb : b ≤ s.length) : (slice s a b).length = b - a := by
  simp [slice]; omega

theorem slice_zero_length (s : Str) : slice s 0 s.length = s := by
  simp [slice]

theorem slice_one (s : Str) (p : Nat) (c : Char) (h : s[p]? = some c) : slice s p (p + 1) = [c] := by
  have hlt := getElem?_lt _ _ _ h
  unfold slice
  rw [Nat.add_sub_cancel_left]
  rw [List.getElem?_eq_getElem hlt] at h
  cases h
  rw [List.drop_eq_getElem_cons hlt]
  simp [List.take]

/-! ### chains and tilings -/

theorem Tiles.le {ns : List Node} {a b : Nat} (h : Tiles ns a b) : a ≤ b := by
  induction h with
  | nil => exact Nat.le_refl _
  | cons h1 _ ih => omega

theorem Tiles.append {xs ys : List Node} {a b c : Nat} (h1 : Tiles xs a b) (h2 : Tiles ys b c) :
    Tiles (xs ++ ys) a c := by
  induction h1 with
  | nil => exact h2
  | cons hle _ ih => exact Tiles.cons hle (ih h2)

theorem Tiles.single (n : Node) (h : n.pos ≤ n.posEnd) : Tiles [n] n.pos n.posEnd :=
  Tiles.cons h Tiles.nil

theorem Tiles.snoc {xs : List Node} {a : Nat} {n : Node} (h1 : Tiles xs a n.pos) (h : n.pos ≤ n.posEnd) :
    Tiles (xs ++ [n]) a n.posEnd :=
  h1.append (Tiles.single n h)

theorem Tiles.snoc' {xs : List Node} {a m e : Nat} {n : Node} (h1 : Tiles xs a m) (hp : n.pos = m)
    (he : n.posEnd = e) (h : m ≤ e) : Tiles (xs ++ [n]) a e := by
  subst hp; subst he; exact h1.snoc h

theorem Chain.le {ns : List Node} {a b : Nat} (h : Chain ns a b) : a ≤ b := by
  induction h with
  | nil h => exact h
  | cons h1 h2 _ ih => omega

theorem Chain.weaken {ns : List Node} {a b a' b' : Nat} (h : Chain ns a b) (ha : a' ≤ a) (hb : b ≤ b') :
    Chain ns a' b' := by
  induction h generalizing a' with
  | nil h => exact Chain.nil (by omega)
  | cons h1 h2 _ ih => exact Chain.cons (by omega) h2 (ih (Nat.le_refl _) hb)

theorem Chain.append {xs ys : List Node} {a b c : Nat} (h1 : Chain xs a b) (h2 : Chain ys b c) :
    Chain (xs ++ ys) a c := by
  induction h1 with
  | nil h => exact h2.weaken h (Nat.le_refl _)
  | cons h1 h2' _ ih => exact Chain.cons h1 h2' (ih h2)

theorem Chain.single {n : Node} {a b : Nat} (h1 : a ≤ n.pos) (h2 : n.pos ≤ n.posEnd) (h3 : n.posEnd ≤ b) :
    Chain [n] a b :=
  Chain.cons h1 h2 (Chain.nil h3)

theorem Tiles.toChain {ns : List Node} {a b a' b' : Nat} (h : Tiles ns a b) (ha : a' ≤ a) (hb : b ≤ b') :
    Chain ns a' b' := by
  induction h generalizing a' with
  | nil => exact Chain.nil (by omega)
  | cons h1 _ ih => exact Chain.cons ha h1 (ih (Nat.le_refl _) hb)

/-- the verbatim source of a tiling is the source slice of the tiled range -/
theorem Tiles.verbatim (s : Str) {ns : List Node} {a b : Nat} (h : Tiles ns a b) :
    (ns.map (fun x => slice s x.pos x.posEnd)).flatten = slice s a b := by
  induction h with
  | nil => simp [slice_self]
  | cons h1 h2 ih =>
    simp only [List.map_cons, List.flatten_cons, ih]
    exact slice_slice_append s _ _ _ h1 h2.le

/-! ### subnodes -/

theorem subnodesList_append (xs ys : List Node) : subnodesList (xs ++ ys) = subnodesList xs ++ subnodesList ys := by
  induction xs with
  | nil => simp [subnodesList]
  | cons x xs ih => simp [subnodesList, ih]

theorem subnodesArg_eq (a : Arg) : subnodesArg a = subnodesList a.nodes := by
  cases a <;> simp [subnodesArg, Arg.nodes, subnodesList]

theorem subnodesArgList_eq (l : List Arg) : subnodesArgList l = subnodesList (l.flatMap Arg.nodes) := by
  induction l with
  | nil => simp [subnodesArgList, subnodesList]
  | cons a l ih => simp [subnodesArgList, subnodesArg_eq, ih, subnodesList_append]

theorem subnodesArgs_eq (a : Option (List Arg)) : subnodesArgs a = subnodesList (argNodes a) := by
  cases a with
  | none => simp [subnodesArgs, argNodes, subnodesList]
  | some l => simp [subnodesArgs, argNodes, subnodesArgList_eq]

theorem subnodesBody_eq (b : Option (List Node)) : subnodesBody b = subnodesList (b.getD []) := by
  cases b <;> simp [subnodesBody, subnodesList]

theorem Node.subnodes_eq (n : Node) : n.subnodes = n :: subnodesList n.children := by
  cases n <;>
    simp [Node.subnodes, Node.children, subnodesList, subnodesArgs_eq, subnodesBody_eq, subnodesList_append]

/-- every node of the forest `ns` covers its source -/
def AllOk (s cs : Str) (ns : List Node) : Prop := ∀ x ∈ subnodesList ns, NodeOk s cs x

theorem allOk_nil (s cs : Str) : AllOk s cs [] := by
  intro x hx; simp [subnodesList] at hx

theorem allOk_append {s cs : Str} {xs ys : List Node} : AllOk s cs (xs ++ ys) ↔ AllOk s cs xs ∧ AllOk s cs ys := by
  unfold AllOk
  rw [subnodesList_append]
  constructor
  · intro h; exact ⟨fun x hx => h x (List.mem_append_left _ hx), fun x hx => h x (List.mem_append_right _ hx)⟩
  · intro h x hx
    rcases List.mem_append.mp hx with hx | hx
    · exact h.1 x hx
    · exact h.2 x hx

theorem allOk_single {s cs : Str} {n : Node} : AllOk s cs [n] ↔ NodeOk s cs n ∧ AllOk s cs n.children := by
  unfold AllOk
  simp only [subnodesList, List.append_nil]
  rw [Node.subnodes_eq]
  constructor
  · intro h; exact ⟨h n List.mem_cons_self, fun x hx => h x (List.mem_cons_of_mem _ hx)⟩
  · intro h x hx
    rcases List.mem_cons.mp hx with hx | hx
    · rw [hx]; exact h.1
    · exact h.2 x hx

theorem allOk_snoc {s cs : Str} {xs : List Node} {n : Node} (h1 : AllOk s cs xs) (h2 : AllOk s cs [n]) :
    AllOk s cs (xs ++ [n]) := allOk_append.mpr ⟨h1, h2⟩

/-- a leaf node (no children) is fine as soon as its own conditions hold -/
theorem allOk_leaf {s cs : Str} {n : Node} (hc : n.children = []) (h1 : n.pos ≤ n.posEnd) (h2 : n.posEnd ≤ s.length)
    (h3 : TextOk s cs n) : AllOk s cs [n] := by
  rw [allOk_single, hc]
  exact ⟨⟨h1, h2, by rw [hc]; exact Chain.nil h1, h3⟩, allOk_nil s cs⟩

theorem allOk_chars {s cs : Str} (a b : Nat) (pi : PSInfo) (hab : a ≤ b) (hb : b ≤ s.length) :
    AllOk s cs [Node.chars a b pi (slice s a b)] :=
  allOk_leaf rfl hab hb rfl

theorem allOk_chars' {s cs : Str} (a b : Nat) (pi : PSInfo) (c : Str) (hab : a ≤ b) (hb : b ≤ s.length)
    (hc : c = slice s a b) : AllOk s cs [Node.chars a b pi c] :=
  allOk_leaf rfl hab hb hc

theorem AllOk.pos_le {s cs : Str} {n : Node} (h : AllOk s cs [n]) : n.pos ≤ n.posEnd := (allOk_single.mp h).1.1
theorem AllOk.end_le {s cs : Str} {n : Node} (h : AllOk s cs [n]) : n.posEnd ≤ s.length := (allOk_single.mp h).1.2.1

end Pylx
