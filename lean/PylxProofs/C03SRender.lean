/-
  C03SRender — step 3 of the string-level statement of C03: the renderer model `Pylx.L2T` depends on a node tree only
  through its exact position-free tree `erase src ns`.

  `renderXNode` … are the functions of `Pylx.L2T`'s renderer block written over `XNode` (no positions, no parsing
  states, no source text; the slice of the source a formula or environment spans is the node's `verb` field).
  `agree_*`: the renderer model on a node tree equals the position-free renderer on its erasure (mutual induction
  over the tree, every function of the block).  `C03_render_erase_congr`: two node lists (over two sources) with the
  same erasure render to the same text, for every option set and all databases.
-/
import PylxProofs.C03SRound
namespace Pylx.L2T.C03S
open Pylx Pylx.L2T

/-- the renderer's environment without the source text -/
structure XE where
  opts : Opts
  db : TextDb
  ctx : Ctx
  lib : Lib

/-- the environment of the renderer model over the source `src` -/
def XE.at (E : XE) (src : Str) : Env := { opts := E.opts, db := E.db, ctx := E.ctx, lib := E.lib, src := src }

def isAbsentX : XArg → Bool
  | .absent => true
  | _ => false

/-- `_is_bare_macro_node(prev)` -/
def isBareX (E : XE) : Option XNode → Out Bool
  | some (.mac name _ args) =>
    match args with
    | none => if E.opts.repaired then .ok true else .crash "TypeError"
    | some [] => .ok true
    | some l =>
      let lg := legacyOf (((walkerSpec (E.at []) .mac name).map argspecOf).getD [])
      match lg.optIdx with
      | none => .ok false
      | some k =>
        match l[k]? with
        | none => .crash "IndexError"
        | some a => .ok (isAbsentX a && (l.drop lg.off).isEmpty)
  | _ => .ok false

def postSpaceOfX : Option XNode → Str
  | some (.mac _ post _) => post
  | _ => []

def preOfX (E : XE) (c : Sls) (prev : Option XNode) (n : XNode) : Out Str :=
  match isBareX E prev with
  | .crash k => .crash k
  | .ok b => .ok (if b && n.isChars && !c.mc then postSpaceOfX prev else [])

def isSpecialsNamedX (s : Str) : XNode → Bool
  | .specials c _ => c == s
  | _ => false

def isMacroNamedX (s : Str) : XNode → Bool
  | .mac n _ _ => n == s
  | _ => false

def absentAtX (l : List XArg) (k : Nat) : Bool :=
  match l[k]? with
  | some a => isAbsentX a
  | none => false

mutual
/-- `node_to_text` on a position-free node -/
def renderXNode (E : XE) (c : Sls) : XNode → R Str
  | .chars ch => R.pure (if !c.lc && (strip ch).isEmpty then [] else ch)
  | .comment cm post =>
    R.pure (
      if E.opts.keepComments then
        (if c.ac then '%' :: cm ++ (if post.isEmpty then [] else ['\n']) else '%' :: cm ++ post)
      else (if c.ac then [] else post))
  | .group o cl body =>
    R.bind (renderXBody E c body) fun t =>
      R.pure (if E.opts.keepBraced && (t.length : Int) ≥ E.opts.minLen then o ++ t ++ cl else t)
  | .mac name _ args =>
    let l := args.getD []
    let th : Thunks := {
      noArgd := args.isNone, n := l.length, absent := absentAtX l,
      each := argsEachOX E c args, single := fun k => singleAtOX E c k args, contents := fun k => contentsAtOX E c k args,
      body := R.pure [], bodyEq := R.pure [], bodyNone := true, matrix := R.pure [] }
    let sp := (lookupFirst name E.db.macros).getD ⟨true, true, .none⟩
    applySpec (E.at []) ⟨.mac, name, 0, 0⟩ th sp (argsCatOX E c args)
  | .env verb name args body =>
    let l := args.getD []
    let th : Thunks := {
      noArgd := args.isNone, n := l.length, absent := absentAtX l,
      each := argsEachOX E c args, single := fun k => singleAtOX E c k args, contents := fun k => contentsAtOX E c k args,
      body := renderXBody E c body, bodyEq := renderXBody E c.enterEq body, bodyNone := body.isNone,
      matrix := matrixBodyX E c body }
    let sp := (lookupFirst name E.db.envs).getD ⟨true, false, .none⟩
    applySpec (E.at verb) ⟨.env, name, 0, verb.length⟩ th sp (renderXBody E c body)
  | .specials ch args =>
    match lookupFirst ch E.db.specials with
    | none => R.pure ch
    | some sp =>
      let l := args.getD []
      let th : Thunks := {
        noArgd := args.isNone, n := l.length, absent := absentAtX l,
        each := argsEachOX E c args, single := fun k => singleAtOX E c k args, contents := fun k => contentsAtOX E c k args,
        body := R.pure [], bodyEq := R.pure [], bodyNone := true, matrix := R.pure [] }
      applySpec (E.at []) ⟨.specials, ch, 0, 0⟩ th sp (argsCatOX E c args)
  | .math verb display o cl body =>
    mathText (E.at verb) false display o cl 0 verb.length (renderXBody E c.enterEq body)
def renderXBody (E : XE) (c : Sls) : Option (List XNode) → R Str
  | none => R.pure []
  | some ns => renderXList E c none [] ns
def renderXList (E : XE) (c : Sls) (prev : Option XNode) (acc : Str) : List XNode → R Str
  | [] => R.pure acc
  | n :: ns =>
    R.bind (R.ofOut (preOfX E c prev n)) fun pre =>
      R.bind (renderXNode E c n) fun t =>
        renderXList E c (some n) (acc ++ pre ++ t) ns
def groupContentsX (E : XE) (c : Sls) : XArg → R Str
  | .absent => R.pure []
  | .list ns => renderXList E c none [] ns
  | .node (.group _ _ body) => renderXBody E c body
  | .node n => renderXNode E c n
def singleArgX (E : XE) (c : Sls) : XArg → R Str
  | .absent => R.pure []
  | .list _ => R.crash "AttributeError"
  | .node n => renderXNode E c n
def argsCatX (E : XE) (c : Sls) : List XArg → R Str
  | [] => R.pure []
  | a :: l => R.bind (groupContentsX E c a) fun t => R.bind (argsCatX E c l) fun r => R.pure (t ++ r)
def argsEachX (E : XE) (c : Sls) : List XArg → R (List Str)
  | [] => R.pure []
  | a :: l => R.bind (groupContentsX E c a) fun t => R.bind (argsEachX E c l) fun r => R.pure (t :: r)
def singleAtX (E : XE) (c : Sls) : Nat → List XArg → R Str
  | _, [] => R.crash "IndexError"
  | 0, a :: _ => singleArgX E c a
  | k + 1, _ :: l => singleAtX E c k l
def contentsAtX (E : XE) (c : Sls) : Nat → List XArg → R Str
  | _, [] => R.crash "IndexError"
  | 0, a :: _ => groupContentsX E c a
  | k + 1, _ :: l => contentsAtX E c k l
def argsCatOX (E : XE) (c : Sls) : Option (List XArg) → R Str
  | none => R.pure []
  | some l => argsCatX E c l
def argsEachOX (E : XE) (c : Sls) : Option (List XArg) → R (List Str)
  | none => R.pure []
  | some l => argsEachX E c l
def singleAtOX (E : XE) (c : Sls) (k : Nat) : Option (List XArg) → R Str
  | none => R.crash "IndexError"
  | some l => singleAtX E c k l
def contentsAtOX (E : XE) (c : Sls) (k : Nat) : Option (List XArg) → R Str
  | none => R.crash "IndexError"
  | some l => contentsAtX E c k l
def matrixBodyX (E : XE) (c : Sls) : Option (List XNode) → R (List (List Str))
  | none => R.pure [[]]
  | some ns => matrixLoopX E c none none [] [] ns
def matrixLoopX (E : XE) (c : Sls) (prev : Option XNode) (cell : Option Str) (row : List Str) (rows : List (List Str)) :
    List XNode → R (List (List Str))
  | [] => R.pure (rows ++ [closeCell cell row])
  | n :: ns =>
    if isSpecialsNamedX ['&'] n then matrixLoopX E c none none (closeCell cell row) rows ns
    else if isMacroNamedX ['\\'] n then matrixLoopX E c none none [] (rows ++ [closeCell cell row]) ns
    else
      R.bind (R.ofOut (preOfX E c prev n)) fun pre =>
        R.bind (renderXNode E c n) fun t =>
          matrixLoopX E c (some n) (some (cell.getD [] ++ pre ++ t)) row rows ns
end

/-- `nodelist_to_text` of a fresh converter object on a position-free node list -/
def renderX (E : XE) (nodes : List XNode) : Out Str :=
  if !E.db.shapeOk then .crash "unmodelled" else
  match renderXList E (parseSls E.opts.sls) none [] nodes {} with
  | .ok (t, _) => .ok t
  | .crash k => .crash k

/-! ### the helper functions agree -/

theorem eraseArgList_map (s : Str) (l : List Arg) : eraseArgList s l = l.map (eraseArg s) := by
  induction l with
  | nil => rfl
  | cons a l ih => simp only [eraseArgList, List.map_cons, ih]

theorem isAbsentX_erase (s : Str) (a : Arg) : isAbsentX (eraseArg s a) = isAbsent a := by
  cases a <;> rfl

theorem isChars_erase (s : Str) (n : Node) : (erase s n).isChars = isCharsNode n := by
  cases n <;> rfl

theorem postSpaceOfX_erase (s : Str) (prev : Option Node) : postSpaceOfX (prev.map (erase s)) = postSpaceOf prev := by
  cases prev with
  | none => rfl
  | some n => cases n <;> rfl

theorem isBareX_erase (E : XE) (s : Str) (prev : Option Node) : isBareX E (prev.map (erase s)) = isBare (E.at s) prev := by
  cases prev with
  | none => rfl
  | some n =>
    cases n with
    | mac p e ps name post args =>
      cases args with
      | none => rfl
      | some l =>
        cases l with
        | nil => rfl
        | cons a l =>
          simp only [Option.map_some, erase, eraseArgs, eraseArgList, isBareX, isBare]
          have hw : walkerSpec (E.at []) Kind.mac name = walkerSpec (E.at s) Kind.mac name := rfl
          rw [hw]
          generalize legacyOf (Option.getD (Option.map argspecOf (walkerSpec (E.at s) Kind.mac name)) []) = lg
          cases lg.optIdx with
          | none => rfl
          | some k =>
            simp only
            have e1 : (eraseArg s a :: eraseArgList s l) = (a :: l).map (eraseArg s) := by
              rw [List.map_cons, eraseArgList_map]
            rw [e1, List.getElem?_map]
            cases (a :: l)[k]? with
            | none => rfl
            | some b =>
              simp only [Option.map_some, isAbsentX_erase, ← List.map_drop, List.isEmpty_map]
    | _ => rfl

theorem preOfX_erase (E : XE) (s : Str) (c : Sls) (prev : Option Node) (n : Node) :
    preOfX E c (prev.map (erase s)) (erase s n) = preOf (E.at s) c prev n := by
  unfold preOfX preOf
  rw [isBareX_erase, isChars_erase, postSpaceOfX_erase]
  rfl

theorem absentAtX_erase (s : Str) (l : List Arg) : absentAtX (l.map (eraseArg s)) = absentAt l := by
  funext k
  unfold absentAtX absentAt
  rw [List.getElem?_map]
  cases l[k]? with
  | none => rfl
  | some a => simp only [Option.map_some, isAbsentX_erase]

theorem isSpecialsNamedX_erase (s : Str) (x : Str) (n : Node) : isSpecialsNamedX x (erase s n) = isSpecialsNamed x n := by
  cases n <;> rfl

theorem isMacroNamedX_erase (s : Str) (x : Str) (n : Node) : isMacroNamedX x (erase s n) = isMacroNamed x n := by
  cases n <;> rfl

/-! ### positions matter only through the source slice (and only for `math_mode='verbatim'`) -/

theorem mathText_src (E : XE) (s s' : Str) (isEnv display : Bool) (d0 d1 : Str) (p e p' e' : Nat) (b : R Str)
    (h : slice s p e = slice s' p' e') :
    mathText (E.at s) isEnv display d0 d1 p e b = mathText (E.at s') isEnv display d0 d1 p' e' b := by
  unfold mathText
  show (match E.opts.mathMode with
    | .verbatim => R.pure (if (isEnv || display) = true then indentedBlock (slice s p e) [] else slice s p e)
    | .remove => R.pure []
    | .withDelims => _
    | .text => _) = (match E.opts.mathMode with
    | .verbatim => R.pure (if (isEnv || display) = true then indentedBlock (slice s' p' e') [] else slice s' p' e')
    | .remove => R.pure []
    | .withDelims => _
    | .text => _)
  rw [h]

theorem slice_whole (v : Str) : slice v 0 v.length = v := by
  unfold slice
  simp

theorem applyCallable_src (E : XE) (s s' : Str) (k : Kind) (name : Str) (p e p' e' : Nat) (th : Thunks) (r : Repl)
    (h : k = .env → slice s p e = slice s' p' e') :
    applyCallable (E.at s) ⟨k, name, p, e⟩ th r = applyCallable (E.at s') ⟨k, name, p', e'⟩ th r := by
  cases r with
  | eqEnv =>
    unfold applyCallable
    cases k with
    | env => exact mathText_src E s s' true false _ _ p e p' e' _ (h rfl)
    | mac => rfl
    | specials => rfl
  | _ => rfl

theorem applySpec_src (E : XE) (s s' : Str) (k : Kind) (name : Str) (p e p' e' : Nat) (th : Thunks) (sp : TSpec) (d : R Str)
    (h : k = .env → slice s p e = slice s' p' e') :
    applySpec (E.at s) ⟨k, name, p, e⟩ th sp d = applySpec (E.at s') ⟨k, name, p', e'⟩ th sp d := by
  unfold applySpec
  have hl : (E.at s).lib = (E.at s').lib := rfl
  rw [hl]
  split
  · cases hr : sp.repl with
    | lit x => rfl
    | today => rfl
    | fmt raw segs => rfl
    | badFmt x => rfl
    | unknownCallable => rfl
    | _ => exact applyCallable_src E s s' k name p e p' e' th _ h
  · rfl

/-! ### the renderer on a tree is the position-free renderer on its erasure -/

theorem bind_congr {α β : Type} {x y : R α} {f g : α → R β} (h1 : x = y) (h2 : ∀ a, f a = g a) : R.bind x f = R.bind y g := by
  subst h1
  have : f = g := funext h2
  rw [this]

mutual
theorem agree_node (E : XE) (s : Str) : ∀ (n : Node) (c : Sls), renderNode (E.at s) c n = renderXNode E c (erase s n)
  | .chars _ _ _ ch, c => by rw [renderNode, erase, renderXNode]
  | .comment _ _ _ cm post, c => by rw [renderNode, erase, renderXNode]; rfl
  | .group _ _ _ o cl body, c => by
    rw [renderNode, erase, renderXNode]
    exact bind_congr (agree_body E s body c) (fun _ => rfl)
  | .mac p e _ name post args, c => by
    rw [renderNode, erase, renderXNode]
    have h1 := agree_argsEachO E s args c
    have h2 : (fun k => singleAtO (E.at s) c k args) = fun k => singleAtOX E c k (eraseArgs s args) :=
      funext fun k => agree_singleAtO E s args k c
    have h3 : (fun k => contentsAtO (E.at s) c k args) = fun k => contentsAtOX E c k (eraseArgs s args) :=
      funext fun k => agree_contentsAtO E s args k c
    have h4 := agree_argsCatO E s args c
    rw [h1, h2, h3, h4]
    cases args with
    | none => exact applySpec_src E s [] .mac name p e 0 0 _ _ _ (fun h => by cases h)
    | some l =>
      simp only [eraseArgs, Option.isNone_some, Option.getD_some, eraseArgList_map, absentAtX_erase, List.length_map]
      exact applySpec_src E s [] .mac name p e 0 0 _ _ _ (fun h => by cases h)
  | .env p e _ name args body, c => by
    rw [renderNode, erase, renderXNode]
    have h1 := agree_argsEachO E s args c
    have h2 : (fun k => singleAtO (E.at s) c k args) = fun k => singleAtOX E c k (eraseArgs s args) :=
      funext fun k => agree_singleAtO E s args k c
    have h3 : (fun k => contentsAtO (E.at s) c k args) = fun k => contentsAtOX E c k (eraseArgs s args) :=
      funext fun k => agree_contentsAtO E s args k c
    have h5 := agree_body E s body c
    have h6 := agree_body E s body c.enterEq
    have h7 := agree_matrixBody E s body c
    have h8 : body.isNone = (eraseBody s body).isNone := by cases body <;> rfl
    rw [h1, h2, h3, h5, h6, h7, h8]
    have hsl : Kind.env = .env → slice s p e = slice (slice s p e) 0 (slice s p e).length := fun _ => (slice_whole _).symm
    cases args with
    | none => exact applySpec_src E s (slice s p e) .env name p e 0 _ _ _ _ hsl
    | some l =>
      simp only [eraseArgs, Option.isNone_some, Option.getD_some, eraseArgList_map, absentAtX_erase, List.length_map]
      exact applySpec_src E s (slice s p e) .env name p e 0 _ _ _ _ hsl
  | .specials p e _ ch args, c => by
    rw [renderNode, erase, renderXNode]
    have hdb : (E.at s).db = E.db := rfl
    rw [hdb]
    cases lookupFirst ch E.db.specials with
    | none => rfl
    | some sp =>
      have h1 := agree_argsEachO E s args c
      have h2 : (fun k => singleAtO (E.at s) c k args) = fun k => singleAtOX E c k (eraseArgs s args) :=
        funext fun k => agree_singleAtO E s args k c
      have h3 : (fun k => contentsAtO (E.at s) c k args) = fun k => contentsAtOX E c k (eraseArgs s args) :=
        funext fun k => agree_contentsAtO E s args k c
      have h4 := agree_argsCatO E s args c
      rw [h1, h2, h3, h4]
      cases args with
      | none => exact applySpec_src E s [] .specials ch p e 0 0 _ _ _ (fun h => by cases h)
      | some l =>
        simp only [eraseArgs, Option.isNone_some, Option.getD_some, eraseArgList_map, absentAtX_erase, List.length_map]
        exact applySpec_src E s [] .specials ch p e 0 0 _ _ _ (fun h => by cases h)
  | .math p e _ display o cl body, c => by
    rw [renderNode, erase, renderXNode, agree_body E s body c.enterEq]
    exact mathText_src E s (slice s p e) false display o cl p e 0 _ _ (slice_whole _).symm
theorem agree_body (E : XE) (s : Str) : ∀ (b : Option (List Node)) (c : Sls),
    renderBody (E.at s) c b = renderXBody E c (eraseBody s b)
  | none, c => by rw [renderBody, eraseBody, renderXBody]
  | some ns, c => by
    rw [renderBody, eraseBody, renderXBody]
    exact agree_list E s ns c none []
theorem agree_list (E : XE) (s : Str) : ∀ (ns : List Node) (c : Sls) (prev : Option Node) (acc : Str),
    renderList (E.at s) c prev acc ns = renderXList E c (prev.map (erase s)) acc (eraseNodes s ns)
  | [], c, prev, acc => by rw [renderList, eraseNodes, renderXList]
  | n :: ns, c, prev, acc => by
    rw [renderList, eraseNodes, renderXList, preOfX_erase]
    refine bind_congr rfl (fun pre => bind_congr (agree_node E s n c) (fun t => ?_))
    exact agree_list E s ns c (some n) _
theorem agree_contents (E : XE) (s : Str) : ∀ (a : Arg) (c : Sls), groupContents (E.at s) c a = groupContentsX E c (eraseArg s a)
  | .absent, c => by rw [groupContents, eraseArg, groupContentsX]
  | .list _ _ ns, c => by
    rw [groupContents, eraseArg, groupContentsX]
    exact agree_list E s ns c none []
  | .node n, c => by
    cases n with
    | group p e ps o cl body =>
      rw [groupContents, eraseArg, erase, groupContentsX]
      exact agree_body E s body c
    | chars p e ps ch => rw [groupContents, eraseArg, agree_node E s _ c, erase]; rfl; all_goals (intro _ _ _ _ _ _ h; cases h)
    | comment p e ps cm post => rw [groupContents, eraseArg, agree_node E s _ c, erase]; rfl; all_goals (intro _ _ _ _ _ _ h; cases h)
    | mac p e ps name post args => rw [groupContents, eraseArg, agree_node E s _ c, erase]; rfl; all_goals (intro _ _ _ _ _ _ h; cases h)
    | env p e ps name args body => rw [groupContents, eraseArg, agree_node E s _ c, erase]; rfl; all_goals (intro _ _ _ _ _ _ h; cases h)
    | specials p e ps ch args => rw [groupContents, eraseArg, agree_node E s _ c, erase]; rfl; all_goals (intro _ _ _ _ _ _ h; cases h)
    | math p e ps d o cl body => rw [groupContents, eraseArg, agree_node E s _ c, erase]; rfl; all_goals (intro _ _ _ _ _ _ h; cases h)
theorem agree_single (E : XE) (s : Str) : ∀ (a : Arg) (c : Sls), singleArg (E.at s) c a = singleArgX E c (eraseArg s a)
  | .absent, c => by rw [singleArg, eraseArg, singleArgX]
  | .list _ _ ns, c => by rw [singleArg, eraseArg, singleArgX]
  | .node n, c => by rw [singleArg, eraseArg, singleArgX]; exact agree_node E s n c
theorem agree_argsCat (E : XE) (s : Str) : ∀ (l : List Arg) (c : Sls), argsCat (E.at s) c l = argsCatX E c (eraseArgList s l)
  | [], c => by rw [argsCat, eraseArgList, argsCatX]
  | a :: l, c => by
    rw [argsCat, eraseArgList, argsCatX]
    exact bind_congr (agree_contents E s a c) (fun t => bind_congr (agree_argsCat E s l c) (fun _ => rfl))
theorem agree_argsEach (E : XE) (s : Str) : ∀ (l : List Arg) (c : Sls), argsEach (E.at s) c l = argsEachX E c (eraseArgList s l)
  | [], c => by rw [argsEach, eraseArgList, argsEachX]
  | a :: l, c => by
    rw [argsEach, eraseArgList, argsEachX]
    exact bind_congr (agree_contents E s a c) (fun t => bind_congr (agree_argsEach E s l c) (fun _ => rfl))
theorem agree_singleAt (E : XE) (s : Str) : ∀ (l : List Arg) (k : Nat) (c : Sls),
    singleAt (E.at s) c k l = singleAtX E c k (eraseArgList s l)
  | [], k, c => by rw [singleAt, eraseArgList, singleAtX]
  | a :: l, 0, c => by rw [singleAt, eraseArgList, singleAtX]; exact agree_single E s a c
  | a :: l, k + 1, c => by rw [singleAt, eraseArgList, singleAtX]; exact agree_singleAt E s l k c
theorem agree_contentsAt (E : XE) (s : Str) : ∀ (l : List Arg) (k : Nat) (c : Sls),
    contentsAt (E.at s) c k l = contentsAtX E c k (eraseArgList s l)
  | [], k, c => by rw [contentsAt, eraseArgList, contentsAtX]
  | a :: l, 0, c => by rw [contentsAt, eraseArgList, contentsAtX]; exact agree_contents E s a c
  | a :: l, k + 1, c => by rw [contentsAt, eraseArgList, contentsAtX]; exact agree_contentsAt E s l k c
theorem agree_argsCatO (E : XE) (s : Str) : ∀ (a : Option (List Arg)) (c : Sls), argsCatO (E.at s) c a = argsCatOX E c (eraseArgs s a)
  | none, c => by rw [argsCatO, eraseArgs, argsCatOX]
  | some l, c => by rw [argsCatO, eraseArgs, argsCatOX]; exact agree_argsCat E s l c
theorem agree_argsEachO (E : XE) (s : Str) : ∀ (a : Option (List Arg)) (c : Sls), argsEachO (E.at s) c a = argsEachOX E c (eraseArgs s a)
  | none, c => by rw [argsEachO, eraseArgs, argsEachOX]
  | some l, c => by rw [argsEachO, eraseArgs, argsEachOX]; exact agree_argsEach E s l c
theorem agree_singleAtO (E : XE) (s : Str) : ∀ (a : Option (List Arg)) (k : Nat) (c : Sls),
    singleAtO (E.at s) c k a = singleAtOX E c k (eraseArgs s a)
  | none, k, c => by rw [singleAtO, eraseArgs, singleAtOX]
  | some l, k, c => by rw [singleAtO, eraseArgs, singleAtOX]; exact agree_singleAt E s l k c
theorem agree_contentsAtO (E : XE) (s : Str) : ∀ (a : Option (List Arg)) (k : Nat) (c : Sls),
    contentsAtO (E.at s) c k a = contentsAtOX E c k (eraseArgs s a)
  | none, k, c => by rw [contentsAtO, eraseArgs, contentsAtOX]
  | some l, k, c => by rw [contentsAtO, eraseArgs, contentsAtOX]; exact agree_contentsAt E s l k c
theorem agree_matrixBody (E : XE) (s : Str) : ∀ (b : Option (List Node)) (c : Sls),
    matrixBody (E.at s) c b = matrixBodyX E c (eraseBody s b)
  | none, c => by rw [matrixBody, eraseBody, matrixBodyX]
  | some ns, c => by
    rw [matrixBody, eraseBody, matrixBodyX]
    exact agree_matrixLoop E s ns c none none [] []
theorem agree_matrixLoop (E : XE) (s : Str) : ∀ (ns : List Node) (c : Sls) (prev : Option Node) (cell : Option Str)
    (row : List Str) (rows : List (List Str)),
    matrixLoop (E.at s) c prev cell row rows ns = matrixLoopX E c (prev.map (erase s)) cell row rows (eraseNodes s ns)
  | [], c, prev, cell, row, rows => by rw [matrixLoop, eraseNodes, matrixLoopX]
  | n :: ns, c, prev, cell, row, rows => by
    rw [matrixLoop, eraseNodes, matrixLoopX, isSpecialsNamedX_erase, isMacroNamedX_erase, preOfX_erase]
    split
    · exact agree_matrixLoop E s ns c none none _ rows
    · split
      · exact agree_matrixLoop E s ns c none none [] _
      · refine bind_congr rfl (fun pre => bind_congr (agree_node E s n c) (fun t => ?_))
        exact agree_matrixLoop E s ns c (some n) _ row rows
end

/-- `render` (a fresh converter object on a node list over the source `s`) is the position-free renderer on the
    erasure of the list -/
theorem render_eq_renderX (opts : Opts) (db : TextDb) (ctx : Ctx) (lib : Lib) (s : Str) (ns : List Node) :
    render opts db ctx lib s ns = renderX ⟨opts, db, ctx, lib⟩ (eraseNodes s ns) := by
  unfold render renderX
  have := agree_list ⟨opts, db, ctx, lib⟩ s ns (parseSls opts.sls) none []
  unfold XE.at at this
  simp only at this
  rw [this]
  rfl

/-- **C03, step 3 (position independence of the renderer).**  For every option set, all databases and library
    oracles: two node lists — possibly parsed from two different sources — with the same exact position-free tree
    (`erase`: characters of all chars nodes, post-spaces, comments, delimiters, argument lists with their `None` slots,
    source slices of formulas and environments) render to the same text (or raise the same exception). -/
theorem C03_render_erase_congr (opts : Opts) (db : TextDb) (ctx : Ctx) (lib : Lib) (s s' : Str) (ns ns' : List Node)
    (h : eraseNodes s ns = eraseNodes s' ns') :
    render opts db ctx lib s ns = render opts db ctx lib s' ns' := by
  rw [render_eq_renderX, render_eq_renderX, h]

/-- in particular `latex_to_text` of the source of a core document is the position-free renderer on the exact tree the
    document was written with (steps 1–3 combined) -/
theorem latexToText_exact (opts : Opts) (db : TextDb) (ctx : Ctx) (lib : Lib) (d : List Doc.Item) (h : Doc.Core ctx d = true) :
    latexToTextWith opts db ctx lib (Doc.unparse d) = renderX ⟨opts, db, ctx, lib⟩ (exactOf ctx d) := by
  obtain ⟨a, b, ns, hp, hx⟩ := C03_exact_roundtrip ctx d h
  unfold latexToTextWith
  rw [hp]
  simp only
  rw [render_eq_renderX, hx]

/-! ### non-vacuity -/

/-- the same tree at two different positions in two different sources: `$x$` parsed from `$x$` and from `ab$x$` -/
example (opts : Opts) (lib : Lib) :
    render opts Gen.defaultTextDb Gen.defaultCtx lib "$x$".toList [.math 0 3 {} false ['$'] ['$'] (some [.chars 1 2 {} ['x']])] =
    render opts Gen.defaultTextDb Gen.defaultCtx lib "ab$x$".toList
      [.math 2 5 { inMath := true } false ['$'] ['$'] (some [.chars 3 4 { inMath := true } ['x']])] :=
  C03_render_erase_congr opts _ _ lib _ _ _ _ (by rfl)

set_option maxRecDepth 100000 in
/-- **positions cannot be forgotten altogether**: under `math_mode='verbatim'` a formula renders as the slice of the
    source it spans, so two trees that differ only in positions render differently (`$x$` read at `[0,3)` and at `[3,6)`
    of `$x$$y$`) — which is why `erase` keeps the source slice of formulas and environments -/
theorem C03_render_positions_matter :
    render { mathMode := .verbatim } Gen.defaultTextDb Gen.defaultCtx C03.idLib "$x$$y$".toList
        [.math 0 3 {} false ['$'] ['$'] (some [.chars 1 2 {} ['x']])] = .ok "$x$".toList ∧
    render { mathMode := .verbatim } Gen.defaultTextDb Gen.defaultCtx C03.idLib "$x$$y$".toList
        [.math 3 6 {} false ['$'] ['$'] (some [.chars 1 2 {} ['x']])] = .ok "$y$".toList :=
  ⟨C03.eq_ok_of_okIs (by decide +kernel), C03.eq_ok_of_okIs (by decide +kernel)⟩

#print axioms C03_render_erase_congr
#print axioms latexToText_exact

end Pylx.L2T.C03S
