/-
  C04 (front door) — the module-level shorthand with its process-wide cache answers, after every
  history of earlier calls, what a fresh encoder built with the same four options answers.
-/
import Pylx.EncCache
namespace Pylx.EncCache

/-- every stored encoder is the one its key describes -/
def Inv (c : Cache) : Prop := ∀ k e, c.lookup k = some e → e = mkEnc k

theorem inv_nil : Inv [] := by intro k e h; simp at h

theorem call_out (c : Cache) (h : Inv c) (k : Key) (s : Str) :
    (call c k s).2 = encodeChunks (mkEnc k) s := by
  unfold call
  cases hl : c.lookup k with
  | none => rfl
  | some e => simp [h k e hl]

theorem call_inv (c : Cache) (h : Inv c) (k : Key) (s : Str) : Inv (call c k s).1 := by
  unfold call
  cases hl : c.lookup k with
  | some e => simpa using h
  | none =>
    intro k' e' h'
    simp only [List.lookup_cons] at h'
    by_cases hk : k' = k
    · subst hk; simp at h'; exact h'.symm
    · have : (k' == k) = false := by simpa using hk
      simp [this] at h'
      exact h k' e' h'

theorem runHist_eq (c : Cache) (h : Inv c) (hist : List (Key × Str)) :
    runHist c hist = hist.map (fun ks => encodeChunks (mkEnc ks.1) ks.2) := by
  induction hist generalizing c with
  | nil => rfl
  | cons ks hist ih =>
    obtain ⟨k, s⟩ := ks
    simp only [runHist, List.map_cons]
    rw [call_out c h k s, ih _ (call_inv c h k s)]

/-- **C04_cached**: for every history of calls of the shorthand in one process (any option values,
    any strings, any order), each call returns what `UnicodeToLatexEncoder(<the same four options>)
    .unicode_to_latex(s)` returns. -/
theorem C04_cached (hist : List (Key × Str)) :
    runHist [] hist = hist.map (fun ks => encodeChunks (mkEnc ks.1) ks.2) :=
  runHist_eq [] inv_nil hist

/-- the last call of any history, stated alone -/
theorem C04_cached_last (hist : List (Key × Str)) (k : Key) (s : Str) :
    (runHist [] (hist ++ [(k, s)])).getLast? = some (encodeChunks (mkEnc k) s) := by
  rw [C04_cached]; simp

/-- every component of the key is needed: with a key that forgets the policy, a call with policy
    `fail` after a call with policy `keep` answers with the first encoder (kernel-evaluated) -/
theorem C04_cached_key_needs_policy :
    let k1 : Key := { nao := false, prot := .braces, pol := .keep, warn := false }
    let k2 : Key := { k1 with pol := .fail }
    let s : Str := [Char.ofNat 0x4e7e]
    (callNoPol (callNoPol [] k1 s).1 k2 s).2 ≠ encodeChunks (mkEnc k2) s := by
  decide +kernel

/-- non-vacuity: a history with a repeated key, a changed policy and a raising call -/
example :
    let k1 : Key := { nao := false, prot := .braces, pol := .keep, warn := false }
    let k2 : Key := { k1 with pol := .fail }
    let s : Str := [Char.ofNat 0x4e7e]
    runHist [] [(k1, s), (k2, s), (k1, "é".toList)]
      = [.ok [s], .raise (.valueError (Char.ofNat 0x4e7e)), .ok ["\\'e".toList]] := by
  decide +kernel

end Pylx.EncCache
