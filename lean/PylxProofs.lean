import PylxProofs.BasicLemmas
import PylxProofs.C20
import PylxProofs.C11
import PylxProofs.C17
import PylxProofs.C19
import PylxProofs.C04
import PylxProofs.C14
import PylxProofs.ParseSpec
