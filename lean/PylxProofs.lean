import PylxProofs.C20
