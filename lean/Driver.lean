import Pylx
open Pylx

/-- every model file contributes one handler; the first that recognises the operation answers -/
def handlers : List (List String → Option String) := [
  handleLine,
  handleTok,
  handleParse,
  handleVisit,
  handleEnc,
  CtxDb.handleDb,
  handleInput,
  Split.handleSplit,
  Split.handleArgV,
  Doc.handleDoc,
  Legacy.handleLeg,
  EncB.handleEncP,
  EncCache.handleCache,
  L2T.handleL2T,
  C08.handleC08,
  World.handleHist,
  L2T.C03.handleSpec
]

def handle (fields : List String) : String :=
  match handlers.findSome? (fun h => h fields) with
  | some r => r
  | none => "bad-op"

partial def loop (h : IO.FS.Stream) (out : IO.FS.Stream) : IO Unit := do
  let line ← h.getLine
  if line.isEmpty then return ()
  let l := if line.back == '\n' then (line.dropEnd 1).toString else line
  out.putStrLn (handle (l.splitOn "\t"))
  loop h out

def main : IO Unit := do
  let out ← IO.getStdout
  loop (← IO.getStdin) out
