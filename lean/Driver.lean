import Pylx
open Pylx

def handle (fields : List String) : String :=
  match fields with
  | ["LINE", lo, fo, co, s, p] =>
    match lo.toInt?, fo.toInt?, co.toInt?, decodeStr s, p.toNat? with
    | some lo, some fo, some co, some s, some p =>
      let r := posToLineCol { lineOffset := lo, firstLineColOffset := fo, colOffset := co } s p
      s!"{r.1} {r.2}"
    | _, _, _, _, _ => "bad-op"
  | _ => "bad-op"

partial def loop (h : IO.FS.Stream) (out : IO.FS.Stream) : IO Unit := do
  let line ← h.getLine
  if line.isEmpty then return ()
  let l := if line.back == '\n' then line.dropRight 1 else line
  out.putStrLn (handle (l.splitOn "\t"))
  loop h out

def main : IO Unit := do
  let out ← IO.getStdout
  loop (← IO.getStdin) out
