import Pylx.Basic
import Pylx.Node
import Pylx.LineNo
import Pylx.PState
import Pylx.Tok
import Pylx.TokDrv
