import Pylx.Basic
import Pylx.Node
import Pylx.LineNo
