import Pylx.Basic
import Pylx.LineNo
