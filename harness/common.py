# Shared machinery of the checks: wire encoding, model driver, build, audit,
# parallel evaluation on the implementation, shrinking, known findings,
# evidence.  Runs under /venv/bin/python (imports /repo's working tree).
import os, sys, json, time, random, hashlib, subprocess, re, signal, fcntl, traceback, itertools

import logging as _logging
_logging.getLogger('pylatexenc').addHandler(_logging.NullHandler())   # main process: keep the library's warnings off stderr
VERIF = os.path.dirname(os.path.dirname(os.path.abspath(__file__)))
LEAN = os.path.join(VERIF, 'lean')
DRIVER = os.path.join(LEAN, '.lake', 'build', 'bin', 'pylxdriver')
REPO = os.environ.get('VERIF_REPO', '/repo')
NPROC = int(os.environ.get('VERIF_NPROC', '16'))

ALLOWED_AXIOMS = {'propext', 'Classical.choice', 'Quot.sound'}

if REPO not in sys.path:
    sys.path.insert(0, REPO)

# ---------------------------------------------------------------- encoding

def wire(s):
    """string -> hex code points (driver input)"""
    return ','.join('%x' % ord(c) for c in s)

def unwire(f):
    return ''.join(chr(int(h, 16)) for h in f.split(',')) if f else ''

def show_char(c):
    n = ord(c)
    if 0x21 <= n <= 0x7e and c not in '%"':
        return c
    return '%' + ('%x' % n) + ';'

def show_str(s):
    """mirror of Pylx.showStr"""
    if s is None:
        return 'None'
    return '"' + ''.join(show_char(c) for c in s) + '"'

def show_opt(n):
    return 'None' if n is None else str(n)

def show_bool(b):
    return 'T' if b else 'F'

# ---------------------------------------------------------------- time limit

class CaseTimeout(BaseException):
    """not an Exception: harness and library code that catches Exception must not swallow the watchdog"""
    pass

class time_limit(object):
    """watchdog for one case: `secs` of CPU time of this process (a loop that never ends burns CPU; a loaded machine
    does not turn a slow case into a false "does not terminate"), with a wall-clock backstop of 30 x secs"""
    def __init__(self, secs):
        self.secs = secs
    def _h(self, signum, frame):
        raise CaseTimeout()
    def __enter__(self):
        self.old = signal.signal(signal.SIGALRM, self._h)
        self.oldp = signal.signal(signal.SIGPROF, self._h)
        signal.setitimer(signal.ITIMER_REAL, self.secs * 30, 1.0)     # repeating: a swallowed signal is raised again
        signal.setitimer(signal.ITIMER_PROF, self.secs, 1.0)
    def __exit__(self, *a):
        signal.setitimer(signal.ITIMER_PROF, 0)
        signal.setitimer(signal.ITIMER_REAL, 0)
        signal.signal(signal.SIGPROF, self.oldp)
        signal.signal(signal.SIGALRM, self.old)
        return False

# ---------------------------------------------------------------- build

class Lock(object):
    def __enter__(self):
        os.makedirs(os.path.join(LEAN, '.lake'), exist_ok=True)
        self.f = open(os.path.join(LEAN, '.lake', 'verif.lock'), 'w')
        fcntl.flock(self.f, fcntl.LOCK_EX)
    def __exit__(self, *a):
        fcntl.flock(self.f, fcntl.LOCK_UN)
        self.f.close()

def run(cmd, cwd=None, timeout=3600, input=None):
    p = subprocess.run(cmd, cwd=cwd, stdout=subprocess.PIPE, stderr=subprocess.STDOUT,
                       timeout=timeout, input=input, text=True)
    return p.returncode, p.stdout

def regenerate():
    """run all data translators; they rewrite a file only if its content changes"""
    sys.path.insert(0, os.path.join(VERIF, 'translate'))
    import translate_all
    return translate_all.main(REPO, os.path.join(LEAN, 'Pylx', 'Gen'))

LEAN_RSS_LIMIT_KB = int(os.environ.get('VERIF_LEAN_RSS_LIMIT_GB', '9')) * 1024 * 1024
LEAN_WALL_LIMIT_S = int(os.environ.get('VERIF_LEAN_WALL_LIMIT_S', '2400'))

def _guard_lean_children(stop):
    """kills Lean processes of THIS project that outgrow the budget a proof file of this project ever needs (a kernel
    evaluation over regenerated tables that no longer reduces to `true` can run away); the build then fails, which the
    check reports as a proof obligation that no longer checks"""
    killed = []
    while not stop.wait(3.0):
        try:
            out = subprocess.run(['ps', '-eo', 'pid,rss,etimes,args'], stdout=subprocess.PIPE, text=True).stdout
        except Exception:
            continue
        for line in out.split('\n')[1:]:
            f = line.split(None, 3)
            if len(f) < 4 or '/bin/lean' not in f[3] or LEAN not in f[3]:
                continue
            try:
                pid, rss, et = int(f[0]), int(f[1]), int(f[2])
            except ValueError:
                continue
            if rss > LEAN_RSS_LIMIT_KB or et > LEAN_WALL_LIMIT_S:
                try:
                    os.kill(pid, signal.SIGKILL)
                    killed.append('%s (rss %.1f GB, %d s)' % (f[3].split(' ')[1] if ' ' in f[3] else f[3], rss / 1048576.0, et))
                except OSError:
                    pass
    return killed

def lake_build(targets=None):
    import threading
    cmd = ['lake', 'build'] + (targets or [])
    stop = threading.Event()
    res = {}
    th = threading.Thread(target=lambda: res.setdefault('killed', _guard_lean_children(stop)), daemon=True)
    th.start()
    try:
        rc, out = run(cmd, cwd=LEAN, timeout=10800)
    finally:
        stop.set(); th.join(10)
    if res.get('killed'):
        out += '\n[verif] Lean processes stopped by the resource guard: ' + '; '.join(res['killed'])
    return rc == 0, out

def build_all(prop_module):
    """Regenerate the tables from the source tree, then build what this property needs: the model driver and the
    property's own proof modules (with everything they import).  The complete build is setup.sh's job.
    Returns dict(driver_ok, proofs_ok, log)."""
    with Lock():
        regen = regenerate()
        res = {'regen': regen, 'log': ''}
        ok_d, log_d = lake_build(['pylxdriver'])
        res['driver_ok'] = ok_d
        if not ok_d:
            res['log'] += '\n--- driver build ---\n' + log_d
        mods = prop_module if isinstance(prop_module, (list, tuple)) else [prop_module]
        ok_p, log_p = lake_build(['PylxProofs.' + m for m in mods])
        res['proofs_ok'] = ok_p
        if not ok_p:
            res['log'] += '\n--- proof module build ---\n' + log_p
        return res

FORBIDDEN = re.compile(r'\b(sorry|admit|native_decide|bv_decide|implemented_by|unsafe)\b|^\s*axiom\s|maxHeartbeats\s+0\b', re.M)

def strip_lean_comments(t):
    # remove /- ... -/ (nested) and -- ... comments
    out = []
    i = 0
    depth = 0
    n = len(t)
    while i < n:
        if t.startswith('/-', i):
            depth += 1; i += 2; continue
        if depth and t.startswith('-/', i):
            depth -= 1; i += 2; continue
        if depth:
            i += 1; continue
        if t.startswith('--', i):
            j = t.find('\n', i)
            i = n if j < 0 else j
            continue
        if t[i] == '"':
            j = i + 1
            while j < n and t[j] != '"':
                j += 2 if t[j] == '\\' else 1
            out.append('""'); i = j + 1; continue
        out.append(t[i]); i += 1
    return ''.join(out)

def forbidden_scan():
    hits = []
    for root in ('Pylx', 'PylxProofs'):
        for dp, dn, fn in os.walk(os.path.join(LEAN, root)):
            for f in fn:
                if f.endswith('.lean'):
                    p = os.path.join(dp, f)
                    t = strip_lean_comments(open(p).read())
                    for m in FORBIDDEN.finditer(t):
                        hits.append('%s: %s' % (os.path.relpath(p, LEAN), m.group(0).strip()))
    for f in ('Driver.lean',):
        pass
    return hits

def audit(prop_module, theorems):
    """#print axioms for each theorem; returns {thm: [axioms] | None (missing)}"""
    d = os.path.join(LEAN, '.lake', 'audit')
    os.makedirs(d, exist_ok=True)
    mods = prop_module if isinstance(prop_module, (list, tuple)) else [prop_module]
    p = os.path.join(d, 'Audit_%s_%d.lean' % (mods[0], os.getpid()))
    with open(p, 'w') as f:
        for m in mods:
            f.write('import PylxProofs.%s\n' % m)
        for t in theorems:
            f.write('#print axioms %s\n' % t)
    rc, out = run(['lake', 'env', 'lean', p], cwd=LEAN, timeout=1800)
    os.unlink(p)
    res = {}
    for t in theorems:
        res[t] = None
    # outputs: "'X' depends on axioms: [a, b]"  or "'X' does not depend on any axioms"; may wrap lines
    flat = re.sub(r'\s+', ' ', out)
    for m in re.finditer(r"'([^']+)' depends on axioms: \[([^\]]*)\]", flat):
        res[m.group(1)] = [a.strip() for a in m.group(2).split(',') if a.strip()]
    for m in re.finditer(r"'([^']+)' does not depend on any axioms", flat):
        res[m.group(1)] = []
    return res, out

# ---------------------------------------------------------------- driver

def run_driver(lines):
    if not lines:
        return []
    data = '\n'.join(lines) + '\n'
    # split over processes for large inputs
    n = len(lines)
    if n < 4000:
        p = subprocess.run([DRIVER], input=data, stdout=subprocess.PIPE, stderr=subprocess.PIPE, text=True)
        out = p.stdout.split('\n')
        if out and out[-1] == '':
            out.pop()
        if len(out) != n:
            raise RuntimeError('driver returned %d lines for %d inputs; stderr=%s' % (len(out), n, p.stderr[:2000]))
        return out
    k = min(NPROC, (n + 1999) // 2000)
    size = (n + k - 1) // k
    procs = []
    for i in range(k):
        chunk = lines[i*size:(i+1)*size]
        pr = subprocess.Popen([DRIVER], stdin=subprocess.PIPE, stdout=subprocess.PIPE, stderr=subprocess.PIPE, text=True)
        procs.append((pr, chunk))
    # feed with threads to avoid pipe deadlock
    import threading
    outs = [None]*len(procs)
    def feed(i):
        pr, chunk = procs[i]
        o, e = pr.communicate('\n'.join(chunk) + '\n')
        o = o.split('\n')
        if o and o[-1] == '':
            o.pop()
        if len(o) != len(chunk):
            outs[i] = RuntimeError('driver returned %d lines for %d inputs; stderr=%s' % (len(o), len(chunk), e[:2000]))
        else:
            outs[i] = o
    ths = [threading.Thread(target=feed, args=(i,)) for i in range(len(procs))]
    for t in ths: t.start()
    for t in ths: t.join()
    res = []
    for o in outs:
        if isinstance(o, Exception):
            raise o
        res.extend(o)
    return res

# ---------------------------------------------------------------- parallel impl evaluation

_MOD = None

def _worker_init(modname):
    global _MOD
    import importlib
    sys.path.insert(0, os.path.join(VERIF, 'harness'))
    _MOD = importlib.import_module(modname)
    sys.setrecursionlimit(1000)
    import logging
    logging.getLogger('pylatexenc').addHandler(logging.NullHandler())   # keep the library's warnings off stderr

def _worker_eval(chunk):
    out = []
    for case in chunk:
        out.append(eval_case(_MOD, case))
    return out

_TIMEOUTS_SEEN = [0]

def eval_case(mod, case):
    """returns dict(out=str|None, fail=None|dict(kind,detail), sig=str)"""
    tl = getattr(mod, 'CASE_TIMEOUT', 5.0)
    if _TIMEOUTS_SEEN[0] >= 10:
        # this process has already met ten cases that do not terminate: the verdict is settled, do not spend
        # the full limit on each of the remaining ones
        tl = min(tl, 1.0)
    try:
        with time_limit(tl):
            return mod.run_impl(case)
    except CaseTimeout:
        _TIMEOUTS_SEEN[0] += 1
        return {'out': 'TIMEOUT', 'fail': {'kind': 'timeout', 'detail': 'no result within %.1fs of CPU time' % tl}, 'sig': 'timeout'}
    except RecursionError:
        return {'out': 'RECURSION', 'fail': {'kind': 'recursion-error', 'detail': 'RecursionError'}, 'sig': 'recursion'}
    except Exception as e:
        return {'out': 'HARNESS-EXC', 'fail': {'kind': 'harness-exception', 'detail': ''.join(traceback.format_exception_only(type(e), e)).strip() + ' @ ' + traceback.format_exc()[-600:]}, 'sig': 'harness-exc'}

def pmap_cases(modname, cases, chunk=200):
    import multiprocessing as mp
    if len(cases) <= chunk or NPROC <= 1:
        _worker_init(modname)
        return _worker_eval(cases)
    # striped chunks: neighbouring blocks of cases (which tend to be equally slow) go to different workers;
    # blocks of 8 keep the locality some harnesses use (a directory layout shared by consecutive cases)
    n = max(NPROC, (len(cases) + chunk - 1) // chunk)
    idx = [[] for _ in range(n)]
    for i in range(len(cases)):
        idx[(i // 8) % n].append(i)
    chunks = [[cases[i] for i in ix] for ix in idx]
    ctx = mp.get_context('fork')
    with ctx.Pool(min(NPROC, len(chunks)), initializer=_worker_init, initargs=(modname,)) as pool:
        res = pool.map(_worker_eval, chunks)
    out = [None] * len(cases)
    for ix, r in zip(idx, res):
        for i, x in zip(ix, r):
            out[i] = x
    return out

# ---------------------------------------------------------------- known findings

def load_known_findings():
    p = os.path.join(VERIF, 'known_findings.jsonl')
    out = []
    if os.path.exists(p):
        for l in open(p):
            l = l.strip()
            if l:
                out.append(json.loads(l))
    return out

# ---------------------------------------------------------------- misc

def case_hash(obj):
    return hashlib.sha1(json.dumps(obj, sort_keys=True, default=str).encode()).hexdigest()[:12]

def write_replay(prop, payload):
    d = os.path.join(VERIF, 'replays')
    os.makedirs(d, exist_ok=True)
    p = os.path.join(d, '%s-%s.json' % (prop, case_hash(payload)))
    with open(p, 'w') as f:
        json.dump(payload, f, indent=1, sort_keys=True, default=str)
    return p

def load_corpus(prop):
    d = os.path.join(VERIF, 'corpus', prop)
    out = []
    if os.path.isdir(d):
        for f in sorted(os.listdir(d)):
            if f.endswith('.json'):
                try:
                    j = json.load(open(os.path.join(d, f)))
                    if isinstance(j, dict) and 'case' in j:
                        out.append(j['case'])
                    elif isinstance(j, list):
                        out.extend(j)
                except Exception:
                    pass
    return out

def all_strings(alphabet, maxlen, minlen=0):
    for n in range(minlen, maxlen + 1):
        for t in itertools.product(alphabet, repeat=n):
            yield ''.join(t)
