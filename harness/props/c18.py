# C18 — node-list splitting and key-value parsing are order-preserving partitions.
#
# Inputs: argument-like LaTeX is parsed with the real parser
# (LatexWalker(s).parse_content(LatexGeneralNodesParser())); the resulting
# LatexNodeList (optionally with None entries spliced in) is split with
# split_at_chars / split_at_node / parse_keyval_content.  The top-level nodes
# are flattened to the model's item list (chars nodes transparent, everything
# else opaque with span and source text) and sent to the driver ops SPLIT and
# KEYVAL.
#
# Which model variant is compared: always the repaired model (Pylx.Split
# Variant.fixed, wire 'X'): max_split counts separators consumed (F15), the
# equals split of parse_keyval_content keeps empty pieces (F-b), policy 'first'
# keeps the stored node list (F-c), a callable's start index < -1 means "no
# more separators" (F-d), a non-advancing separator match raises ValueError
# (F-e).  On a tree without these repairs (findings/c18-*.diff) the oracle
# reports the violations with replays and the correspondence shows mismatches.
import re, itertools
from common import wire, show_str, show_opt

THEOREMS = ['Pylx.Split.C18_partition', 'Pylx.Split.C18_part_position', 'Pylx.Split.C18_node_position', 'Pylx.Split.C18_opaque_position',
            'Pylx.Split.C18_total', 'Pylx.Split.C18_fixed_terminates', 'Pylx.Split.C18_keep_empty', 'Pylx.Split.C18_max_split',
            'Pylx.Split.C18_split_node', 'Pylx.Split.C18_asis_split_node_one_short', 'Pylx.Split.C18_keyval',
            'Pylx.Split.C18_asIs_eq_fixed', 'Pylx.Split.C18_asIs_keep_empty_false', 'Pylx.Split.C18_asIs_negative_start',
            'Pylx.Split.C18_asIs_empty_match', 'Pylx.Split.C18_asIs_keyval_first_equals', 'Pylx.Split.C18_asIs_policy_first',
            'Pylx.Split.C18_argview_same_delims', 'Pylx.Split.C18_argview_unwrap', 'Pylx.Split.C18_argview_no_unwrap', 'Pylx.Split.C18_argview_keyval']
PROOF_MODULES = ['C18', 'C18ArgView']
RULE = ('SPLIT/KEYVAL: all concatenations of up to k atoms over {sep, letter, group containing seps, macro with argument containing seps, '
        'comment containing seps, math, specials} x keep_empty x max_split None,0..3 x skip_none (None entries spliced in) x separator given as '
        'str / compiled regex / callable (tuple, match object, list protocols) / node predicate x repeated-key policy; '
        'oracle: parts + gaps tile the source, gaps are separator matches, opaque nodes are returned by identity in order, '
        'keep_empty=False == filter(keep_empty=True), at most max_split splits and prefix agreement with the unlimited split, '
        'keyval == comma split then first-equals split folded with the policy')
TRUSTED = ['regular expressions and callables are represented by three matcher combinators (literal, ordered alternatives of literals, '
           'character-class run) that harness and model interpret alike; Python re is trusted to implement them',
           'opaque nodes carry the source slice s[pos:pos_end] as their text (that it equals latex_verbatim() is C01)']
ASSUMPTIONS = ['matchers are productive (no empty match); empty matches are exercised by the oracle only (termination)',
               'chars nodes satisfy pos_end == pos + len(chars) (true of parsed nodes; checked per case)']
TRIVIAL_SIGS = ('skip',)
CASE_TIMEOUT = 5.0

class Runaway(Exception):
    pass

# ---------------------------------------------------------------- parsing and flattening

def _parse(s):
    from pylatexenc.latexwalker import LatexWalker
    from pylatexenc.latexnodes.parsers import LatexGeneralNodesParser
    try:
        w = LatexWalker(s, tolerant_parsing=False)
        r = w.parse_content(LatexGeneralNodesParser())
    except Exception:
        return None
    nl = r[0] if isinstance(r, tuple) else r
    return nl

def _with_nones(nl, nones):
    from pylatexenc.latexnodes import nodes as N
    if not nones:
        return nl
    l = list(nl.nodelist)
    for i in sorted(nones):
        l.insert(min(i, len(l)), None)
    return N.LatexNodeList(l, parsing_state=nl.parsing_state, latex_walker=nl.latex_walker, pos=nl.pos, pos_end=nl.pos_end)

def _src(c):
    return ''.join(c['atoms'])

def _opt(n):
    return '-' if n is None else str(n)

def _flat_items(s, nl):
    """model items of the top-level nodes; None if the list is outside the model's input domain"""
    from pylatexenc.latexnodes import nodes as N
    from pylatexenc.latexnodes import LatexWalkerParseError
    out = []
    for n in nl.nodelist:
        if n is None:
            out.append('N'); continue
        if n.pos is None or n.pos_end is None:
            return None
        if isinstance(n, N.LatexCharsNode):
            if n.pos_end != n.pos + len(n.chars) or s[n.pos:n.pos_end] != n.chars:
                return None
            out.append('C:%d:%s' % (n.pos, wire(n.chars)))
            continue
        head = 'O:%d:%d:%s' % (n.pos, n.pos_end, wire(s[n.pos:n.pos_end]))
        if isinstance(n, N.LatexCommentNode):
            out.append(head + ':c')
        elif isinstance(n, N.LatexGroupNode):
            try:
                inner = 'S' + wire(N._get_content_as_chars(n.nodelist))
            except LatexWalkerParseError:
                inner = 'N'
            gl = n.nodelist
            if not isinstance(gl, N.LatexNodeList):
                return None
            kids = []
            for k in gl.nodelist:
                if k is None or k.pos is None or k.pos_end is None:
                    return None
                if isinstance(k, N.LatexCharsNode):
                    if k.pos_end != k.pos + len(k.chars):
                        return None
                    kids.append('c.%d.%s' % (k.pos, wire(k.chars)))
                else:
                    kids.append('o.%d.%d.%s' % (k.pos, k.pos_end, wire(s[k.pos:k.pos_end])))
            out.append('%s:g:%s:%s:%s:%s' % (head, inner, _opt(gl.pos), _opt(gl.pos_end), '~'.join(kids)))
        else:
            out.append(head + ':o')
    return ';'.join(out)

def _sep_wire(sep):
    t, v = sep['t'], sep['v']
    neg = 'N' if sep.get('nomatch') == 'neg' else ''
    if t == 'L':
        return neg + 'L:' + wire(v)
    if t == 'K':
        return neg + 'K:' + wire(v)
    if t == 'S':
        return neg + 'S:' + wire(v)
    if t == 'E':
        return neg + 'E:'
    if t == 'B':
        return neg + 'B:' + wire(v)
    if t == 'H':
        return neg + 'H:' + wire(v)
    return neg + 'A:' + '|'.join(wire(x) for x in v)

def _may_match_empty(sep):
    return sep['t'] in ('S', 'E') or (sep['t'] == 'L' and sep['v'] == '')

def _sep_rx(sep):
    t, v = sep['t'], sep['v']
    if t == 'L':
        return re.compile(re.escape(v))
    if t == 'K':
        return re.compile('[' + ''.join(re.escape(ch) for ch in v) + ']+')
    if t == 'S':
        return re.compile('[' + ''.join(re.escape(ch) for ch in v) + ']*')
    if t == 'E':
        return re.compile(r'\Z')
    if t == 'B':
        # a separator that looks at what precedes it: `v` not preceded by `v` (in the chars node, not in the part searched)
        return re.compile('(?<!' + re.escape(v) + ')' + re.escape(v))
    if t == 'H':
        # v[1] anywhere, v[0] only at the very beginning of the chars node
        return re.compile(re.escape(v[1]) + '|^' + re.escape(v[0]))
    return re.compile('(?:' + '|'.join(re.escape(x) for x in v) + ')')

def _sep_obj(sep, budget=None):
    """the object handed to split_at_chars"""
    iface = sep.get('iface', 'str')
    rx = _sep_rx(sep)
    nomatch = sep.get('nomatch', 'none')
    calls = [0]
    def tick():
        calls[0] += 1
        if budget is not None and calls[0] > budget:
            raise Runaway()
    if iface == 'str':
        return sep['v']
    if iface == 'rx':
        return _CountingRx(rx, budget) if budget is not None else rx
    def no():
        return {'none': None, 'empty': [], 'startnone': (None, 0), 'minus1': (-1, 0), 'neg': (-2, 0)}[nomatch]
    if iface == 'fn':
        def f(chars, pos):
            tick()
            m = rx.search(chars, pos)
            return no() if m is None else (m.start(), m.end())
        return f
    if iface == 'fnl':
        def f(chars, pos):
            tick()
            m = rx.search(chars, pos)
            return no() if m is None else [m.start(), m.end()]
        return f
    if iface == 'fnm':
        def f(chars, pos):
            tick()
            return rx.search(chars, pos)
        return f
    raise ValueError(iface)

def _variant():
    return 'X'

class _CountingRx(object):
    """a compiled regex that gives up (Runaway) after `budget` searches"""
    def __init__(self, rx, budget):
        self.rx, self.budget, self.calls = rx, budget, 0
    def search(self, chars, pos=0):
        self.calls += 1
        if self.calls > self.budget:
            raise Runaway()
        return self.rx.search(chars, pos)

# ---------------------------------------------------------------- canonical dumps (mirror of Pylx.Split.show*)

def _dump_item(s, n):
    from pylatexenc.latexnodes import nodes as N
    if n is None:
        return 'None'
    if isinstance(n, N.LatexCharsNode):
        return '(C %s %s %s)' % (show_opt(n.pos), show_opt(n.pos_end), show_str(n.chars))
    return '(O %s %s %s)' % (show_opt(n.pos), show_opt(n.pos_end), show_str(s[n.pos:n.pos_end]))

def _dump_part(s, p):
    return '[%s %s: %s]' % (show_opt(p.pos), show_opt(p.pos_end), ' '.join(_dump_item(s, n) for n in p.nodelist))

def _dump_parts(s, parts):
    return 'ok ' + ' '.join(_dump_part(s, p) for p in parts)

def _dump_val(s, v):
    from pylatexenc.latexnodes import nodes as N
    if isinstance(v, N.LatexNodeList):
        return _dump_part(s, v)
    if isinstance(v, list):
        return 'raw[%s]' % ' '.join(_dump_item(s, n) for n in v)
    return '?' + type(v).__name__

# ---------------------------------------------------------------- to_line

def to_line(c):
    k = c['k']
    if k == 'argview':
        return _argview_line(c)
    if k not in ('chars', 'node', 'kv'):
        return None
    s = _src(c)
    nl = _parse(s)
    if nl is None:
        return None
    nl = _with_nones(nl, c.get('nones'))
    items = _flat_items(s, nl)
    if items is None:
        return None
    if k == 'chars':
        return '\t'.join(['SPLIT', 'chars', _variant(), _sep_wire(c['sep']), _opt(c['ms']), 'T' if c['ke'] else 'F',
                          'T' if c['sn'] else 'F', _opt(nl.pos_end), items])
    if k == 'node':
        return '\t'.join(['SPLIT', 'node', c['pred'] or '_', _opt(c['ms']), 'T' if c['ks'] else 'F', 'T' if c['sn'] else 'F', items])
    return '\t'.join(['KEYVAL', _variant(), _sep_wire(c['csep']), _sep_wire(c['esep']), c['pol'], 'T' if c['eg'] else 'F',
                      _opt(nl.pos_end), items])

# ---------------------------------------------------------------- oracle: split_at_chars

def _verb(s, p):
    return ''.join(s[n.pos:n.pos_end] for n in p.nodelist if n is not None)

def _check_partition(s, nl, parts, sep, ke, sn):
    """parts and the gaps between them tile s[nl.pos:nl.pos_end]; gaps are separator matches inside top-level chars
    nodes; nodes carry the position of their text; opaque nodes are the input's own objects, in order"""
    from pylatexenc.latexnodes import nodes as N
    rx = _sep_rx(sep)
    one = re.compile('(?:' + rx.pattern + ')')
    many = re.compile('(?:' + rx.pattern + ')*')
    inp = [n for n in nl.nodelist if not (sn and n is None)]
    in_chars = [n for n in inp if n is not None and isinstance(n, N.LatexCharsNode)]
    # opaque nodes (and None entries) are returned unsplit, by identity, in order
    got_o = [n for p in parts for n in p.nodelist if n is None or not isinstance(n, N.LatexCharsNode)]
    exp_o = [n for n in inp if n is None or not isinstance(n, N.LatexCharsNode)]
    if len(got_o) != len(exp_o) or any(a is not b for a, b in zip(got_o, exp_o)):
        return ('opaque-split', 'non-chars nodes of the parts are not the input\'s non-chars nodes in order: got %d, expected %d'
                % (len(got_o), len(exp_o)))
    cur = nl.pos
    for i, p in enumerate(parts):
        if not ke and len(p.nodelist) == 0:
            return ('partition', 'empty part %d returned although keep_empty=False' % i)
        real = [n for n in p.nodelist if n is not None]
        if p.pos_end is None:
            return ('position', 'part %d has pos_end None' % i)
        if real:
            if p.pos != real[0].pos:
                return ('position', 'part %d: pos %r but first node starts at %r' % (i, p.pos, real[0].pos))
            a = p.pos
            for n in real:
                if n.pos != a:
                    return ('position', 'part %d: node at %r expected at %r' % (i, n.pos, a))
                if isinstance(n, N.LatexCharsNode):
                    if n.pos_end != n.pos + len(n.chars) or s[n.pos:n.pos_end] != n.chars:
                        return ('position', 'part %d: chars node %r (%r..%r) does not carry the source text at its position'
                                % (i, n.chars, n.pos, n.pos_end))
                    if not any(m.pos <= n.pos and n.pos_end <= m.pos_end for m in in_chars):
                        return ('opaque-split', 'part %d: chars node %r..%r does not lie inside one input chars node' % (i, n.pos, n.pos_end))
                a = n.pos_end
            if a != p.pos_end:
                return ('position', 'part %d: pos_end %r but its nodes end at %r' % (i, p.pos_end, a))
            start = p.pos
        else:
            if len(p.nodelist) == 0 and p.pos != p.pos_end:
                return ('position', 'empty part %d has pos %r != pos_end %r' % (i, p.pos, p.pos_end))
            start = p.pos_end
        if start < cur:
            return ('partition', 'part %d starts at %r before the end %r of the previous one' % (i, start, cur))
        gap = s[cur:start]
        if i == 0:
            okgap = (gap == '') if ke else bool(many.fullmatch(gap))
        else:
            okgap = bool(one.fullmatch(gap)) if ke else ((gap != '' or _may_match_empty(sep)) and bool(many.fullmatch(gap)))
        if not okgap:
            return ('partition', 'text %r between part %d and part %d is not %s' % (gap, i - 1, i, 'one separator' if ke else 'a run of separators'))
        if gap and not any(m.pos <= cur and start <= m.pos_end for m in in_chars):
            return ('opaque-split', 'separator text %r at %d..%d is not inside a top-level chars node' % (gap, cur, start))
        cur = p.pos_end
    tail = s[cur:nl.pos_end]
    if ke:
        if not parts:
            return ('partition', 'no parts although keep_empty=True')
        if tail != '':
            return ('partition', 'last part ends at %r, list ends at %r' % (cur, nl.pos_end))
    elif not many.fullmatch(tail):
        return ('partition', 'text %r after the last part is not a run of separators' % tail)
    return None

def _run_split(nl, c, ke=None, ms='same', budget=None):
    sep = c['sep']
    if budget is None:
        budget = 20 * (len(_src(c)) + 5)
    try:
        return nl.split_at_chars(_sep_obj(sep, budget), max_split=(c['ms'] if ms == 'same' else ms),
                                 keep_empty=(c['ke'] if ke is None else ke), skip_none=c['sn'])
    except ValueError as e:
        if 'empty string' in str(e):
            return 'VE'
        raise

def _impl_chars(c):
    from pylatexenc.latexnodes import nodes as N
    s = _src(c)
    nl0 = _parse(s)
    if nl0 is None:
        return {'out': None, 'fail': None, 'sig': 'skip'}
    nl = _with_nones(nl0, c.get('nones'))
    if _flat_items(s, nl) is None:
        return {'out': None, 'fail': None, 'sig': 'skip'}
    empty_ok = _may_match_empty(c['sep'])
    sigbase = 'chars:%s/%s%s:ke%d:ms%s:sn%d' % (c['sep']['t'], c['sep'].get('iface', 'str'), '-neg' if c['sep'].get('nomatch') == 'neg' else '',
                                            c['ke'], _opt(c['ms']), c['sn'])
    try:
        parts = _run_split(nl, c)
        pk = parts if c['ke'] else _run_split(nl, c, ke=True)
        pall = _run_split(nl, c, ke=True, ms=None) if c['ms'] is not None else None
    except (Runaway, TypeError) as e:
        if c['sep'].get('nomatch') == 'neg':
            kind, what = 'callable-negative-start', 'callable answering (-2, 0) for "no more separators"'
        elif isinstance(e, TypeError):
            raise
        else:
            kind, what = 'empty-match-nontermination', 'separator %r can match the empty string' % _sep_rx(c['sep']).pattern
        return {'out': 'RUNAWAY', 'fail': {'kind': kind, 'detail': '%s: split_at_chars does not return (%s)' % (what, type(e).__name__)},
                'sig': sigbase + ':runaway'}
    if parts == 'VE':
        # refusing a non-advancing match (as str.split('') does) is a terminating answer; only legitimate if the separator can match ''
        fail = None if empty_ok else {'kind': 'partition', 'detail': 'ValueError(empty match) although the separator cannot match the empty string'}
        return {'out': 'ValueError-empty-match', 'fail': fail, 'sig': sigbase + ':valueerror'}
    out = _dump_parts(s, parts)
    fail = None
    if c['sep']['t'] in ('B', 'H'):
        # separators whose match depends on what precedes them in the chars node: the context-free checks below do not
        # apply; the reference is the list of non-overlapping matches of the expression in each top-level chars node
        # (re.finditer sees the whole node), cut at max_split; the separators consumed are the gaps between the parts
        rx = _sep_rx(c['sep'])
        ref = []
        for n in nl.nodelist:
            if n is not None and isinstance(n, N.LatexCharsNode):
                ref += [(n.pos + m.start(), n.pos + m.end()) for m in rx.finditer(n.chars)]
        if c['ms'] is not None:
            ref = ref[:c['ms']]
        if pk != 'VE' and all(p.pos is not None and p.pos_end is not None for p in pk):
            gaps = [(pk[i].pos_end, pk[i + 1].pos) for i in range(len(pk) - 1)]
            if gaps != ref:
                fail = {'kind': 'partition', 'detail': 'separator %r on %r: split at %r, the expression matches (in the chars nodes, max_split=%r) at %r'
                                                     % (rx.pattern, s, gaps, c['ms'], ref)}
            elif not c['ke'] and [_dump_part(s, p) for p in pk if len(p.nodelist) > 0] != [_dump_part(s, p) for p in parts]:
                fail = {'kind': 'keep-empty-not-filter', 'detail': 'keep_empty=False is not the keep_empty=True result without its empty parts'}
        return {'out': out, 'fail': fail, 'sig': sigbase + ':parts%d' % min(len(parts), 4)}
    r = _check_partition(s, nl, parts, c['sep'], c['ke'], c['sn'])
    if r:
        fail = {'kind': r[0], 'detail': r[1]}
    if fail is None and (pk == 'VE' or pall == 'VE'):
        fail = {'kind': 'keep-empty-not-filter', 'detail': 'ValueError(empty match) only with keep_empty=True / without max_split'} if pk == 'VE' else None
        if pall == 'VE':
            pall = None
    if fail is None and pk != 'VE' and not c['ke']:
        want = [_dump_part(s, p) for p in pk if len(p.nodelist) > 0]
        got = [_dump_part(s, p) for p in parts]
        if want != got:
            fail = {'kind': 'keep-empty-not-filter',
                    'detail': 'keep_empty=False gives %s; dropping the empty parts of the keep_empty=True result gives %s' % (got, want)}
    if fail is None and c['ms'] is not None and pall is not None and pk != 'VE':
        # judged on the keep_empty=True result (parts = splits + 1)
        nspl = len(pk) - 1
        if nspl > c['ms']:
            fail = {'kind': 'max-split', 'detail': '%d splits with max_split=%d' % (nspl, c['ms'])}
        elif [_dump_part(s, p) for p in pk[:nspl]] != [_dump_part(s, p) for p in pall[:nspl]]:
            fail = {'kind': 'max-split', 'detail': 'the first %d parts differ from those of the unlimited split' % nspl}
        else:
            r = _check_partition(s, nl, pk, c['sep'], True, c['sn'])
            if r:
                fail = {'kind': 'max-split', 'detail': 'keep_empty=True result: ' + r[1]}
    if fail is None and c['ms'] is None and not empty_ok:
        rx = _sep_rx(c['sep'])
        for p in parts:
            for n in p.nodelist:
                if n is not None and isinstance(n, N.LatexCharsNode) and rx.search(n.chars):
                    fail = {'kind': 'max-split', 'detail': 'max_split=None but chars node %r still contains a separator' % n.chars}
    nsp = (len(pk) - 1) if pk != 'VE' else 9
    return {'out': out, 'fail': fail, 'sig': sigbase + ':parts%d:seps%d' % (min(len(parts), 4), min(nsp, 4))}

# ---------------------------------------------------------------- oracle: split_at_node

def _pred_fn(d):
    from pylatexenc.latexnodes import nodes as N
    def f(n):
        if n is None:
            return 'n' in d
        if isinstance(n, N.LatexCharsNode):
            return 'a' in d or ('w' in d and all(ch.isspace() for ch in n.chars))
        if isinstance(n, N.LatexCommentNode):
            return 'c' in d
        if isinstance(n, N.LatexGroupNode):
            return 'g' in d
        return 'o' in d
    return f

def _impl_node(c):
    s = _src(c)
    nl0 = _parse(s)
    if nl0 is None:
        return {'out': None, 'fail': None, 'sig': 'skip'}
    nl = _with_nones(nl0, c.get('nones'))
    if _flat_items(s, nl) is None:
        return {'out': None, 'fail': None, 'sig': 'skip'}
    pred = _pred_fn(c['pred'])
    parts = nl.split_at_node(pred, skip_none=c['sn'], keep_separators=c['ks'], max_split=c['ms'])
    out = _dump_parts(s, parts)
    fail = None
    inp = [n for n in nl.nodelist if not (c['sn'] and n is None)]
    # re-insert the separators: the parts, in order, with one separator between consecutive parts, are the input list
    i = 0
    for j, p in enumerate(parts):
        l = list(p.nodelist)
        if j > 0:
            if c['ks']:
                if not l or l[0] is not inp[i] or not pred(l[0]):
                    fail = {'kind': 'split-node-partition', 'detail': 'part %d does not start with the separator node' % j}; break
            else:
                if i >= len(inp) or not pred(inp[i]):
                    fail = {'kind': 'split-node-partition', 'detail': 'node between part %d and %d is not a separator' % (j - 1, j)}; break
                i += 1
        if len(inp) - i < len(l) or any(a is not b for a, b in zip(l, inp[i:i + len(l)])):
            fail = {'kind': 'split-node-partition', 'detail': 'part %d is not the next %d nodes of the list' % (j, len(l))}; break
        i += len(l)
        real = [n for n in l if n is not None]
        if real and (p.pos != real[0].pos or p.pos_end != real[-1].pos_end):
            fail = {'kind': 'split-node-position', 'detail': 'part %d span %r..%r, nodes %r..%r' % (j, p.pos, p.pos_end, real[0].pos, real[-1].pos_end)}; break
    if fail is None and i != len(inp):
        fail = {'kind': 'split-node-partition', 'detail': '%d trailing nodes lost' % (len(inp) - i)}
    nspl = len(parts) - 1
    total0 = sum(1 for n in inp if pred(n))
    if fail is None and c['ms'] is not None and nspl != min(c['ms'], total0):
        fail = {'kind': 'split-node-max-split', 'detail': '%d splits with max_split=%d and %d separator nodes (expected %d: at most max_split, the remainder unsplit in the last part)'
                % (nspl, c['ms'], total0, min(c['ms'], total0))}
    if fail is None and c['ms'] is None:
        for j, p in enumerate(parts):
            for t, n in enumerate(p.nodelist):
                if pred(n) and not (c['ks'] and j > 0 and t == 0):
                    fail = {'kind': 'split-node-max-split', 'detail': 'max_split=None but part %d still contains a separator node' % j}
    total = sum(1 for n in inp if pred(n))
    sig = 'node:%s:ks%d:ms%s:sn%d:splits%d/%d' % (c['pred'], c['ks'], _opt(c['ms']), c['sn'], min(nspl, 4), min(total, 4))
    return {'out': out, 'fail': fail, 'sig': sig}

# ---------------------------------------------------------------- oracle: parse_keyval_content

def _kv_pairs(s, nl, c, ke):
    """generator of (key, value spans) for every comma part, the part split at its first equals sign; ke=True keeps an empty key
    or an empty value in place (this is the property's reading and the repaired code), ke=False is what the code did before F-b.  Lazy, so that an
    exception is met in document order (get_content_as_chars may raise LatexWalkerParseError)."""
    from pylatexenc.latexnodes import nodes as N
    for part in nl.split_at_chars(_sep_obj(c['csep'])):
        kv = part.split_at_chars(_sep_obj(c['esep']), max_split=1, keep_empty=ke)
        if not kv:
            continue
        key = kv[0].get_content_as_chars()
        vt = []
        if len(kv) >= 2:
            v = kv[1]
            if c['eg'] and len(v) == 1 and isinstance(v.nodelist[0], N.LatexGroupNode):
                v = v.nodelist[0].nodelist
            vt = [(n.pos, n.pos_end) for n in v if n is not None]
        yield (key, vt)

def _kv_fold(pairs, pol):
    """fold in document order; returns (result, pairs seen)"""
    from pylatexenc.latexnodes import LatexWalkerParseError
    d = []
    idx = {}
    seen = []
    try:
        for key, vt in pairs:
            seen.append((key, vt))
            if key in idx:
                if pol == 'error':
                    return ('exc', 'ValueError'), seen
                if pol == 'last':
                    d[idx[key]] = (key, vt)
                elif pol == 'concatenate':
                    d[idx[key]] = (key, d[idx[key]][1] + vt)
            else:
                idx[key] = len(d)
                d.append((key, vt))
    except LatexWalkerParseError:
        return ('exc', 'LatexWalkerParseError'), seen
    return ('ok', d), seen

def _impl_kv(c):
    from pylatexenc.latexnodes import nodes as N
    from pylatexenc.latexnodes import LatexWalkerParseError
    s = _src(c)
    nl = _parse(s)
    if nl is None or _flat_items(s, nl) is None:
        return {'out': None, 'fail': None, 'sig': 'skip'}
    exc = None
    try:
        kv = nl.parse_keyval_content(comma_sep_chars=_sep_obj(c['csep']), eq_sep_chars=_sep_obj(c['esep']),
                                     repeated_key_aggregate_action=c['pol'], extract_value_group_contents=c['eg'])
    except LatexWalkerParseError:
        exc = 'LatexWalkerParseError'; out = exc
    except ValueError as e:
        if 'empty string' in str(e):
            exc = 'ValueError-empty-match'; out = exc
        else:
            exc = 'ValueError'
            m = re.search('\u2018(.*)\u2019', str(e), re.S)
            out = 'ValueError ' + show_str(m.group(1) if m else '?')
    except AttributeError:
        exc = 'AttributeError'; out = exc
    except RuntimeError:
        exc = 'RuntimeError'; out = exc
    if exc is None:
        out = 'ok ' + ' '.join(show_str(k) + '=' + _dump_val(s, v) for k, v in kv.items())
        got = ('ok', [(k, [(n.pos, n.pos_end) for n in v if n is not None]) for k, v in kv.items()])
    else:
        got = ('exc', exc)
    want, want_pairs = _kv_fold(_kv_pairs(s, nl, c, True), c['pol'])
    fail = None
    if got != want:
        # which half of the statement fails: if the result is what folding the keep_empty=False pieces gives (the call made
        # before repair F-b) the pairs are wrong; otherwise the way they are combined is
        old, old_pairs = _kv_fold(_kv_pairs(s, nl, c, False), c['pol'])
        kind = 'keyval-first-equals' if (old_pairs != want_pairs and got == old) else 'keyval-policy'
        fail = {'kind': kind, 'detail': 'result %r; comma split, first-equals split %r, policy %r gives %r' % (got, want_pairs, c['pol'], want)}
    sig = 'kv:%s:eg%d:%s:%d' % (c['pol'], c['eg'], exc or 'ok', 0 if exc else min(len(kv), 4))
    return {'out': out, 'fail': fail, 'sig': sig}

# ---------------------------------------------------------------- argument views (ParsedArgumentsInfo), oracle only

_ARGDB = []
def _arg_db():
    if not _ARGDB:
        from pylatexenc import latexwalker, macrospec
        db = latexwalker.get_default_latex_context_db()
        db.add_context_category('c18-argviews', prepend=True, macros=[macrospec.MacroSpec('cmd', '[{'), macrospec.MacroSpec('one', '{')])
        _ARGDB.append(db)
    return _ARGDB[0]

def _argview_parse(c):
    """(s, walker, macro node, argument index, argument node) or None"""
    from pylatexenc.latexwalker import LatexWalker
    from pylatexenc.latexnodes.parsers import LatexGeneralNodesParser
    from pylatexenc.latexnodes import nodes as N
    body = _src(c)
    wrap = c['wrap']
    s = {'m': '\\cmd{%s}', 'o': '\\cmd[%s]{z}', 'mg': '\\cmd{{%s}}', 'og': '\\cmd[{%s}]{z}', 'mgx': '\\cmd{{%s}x}', 'absent': '\\cmd {%s}', 'tok': '\\one %s'}[wrap] % body
    ai = 0 if wrap in ('o', 'og', 'absent') else (0 if wrap == 'tok' else 1)
    try:
        w = LatexWalker(s, latex_context=_arg_db(), tolerant_parsing=False)
        nl, _ = w.parse_content(LatexGeneralNodesParser())
    except Exception:
        return None
    node = nl[0]
    if not isinstance(node, N.LatexMacroNode) or node.nodeargd is None or len(node.nodeargd.argnlist) <= ai:
        return None
    return s, w, node, ai, node.nodeargd.argnlist[ai]

def _argview_line(c):
    """driver line ARGV: the argument as the model's ArgV (flattened as for SPLIT)"""
    from pylatexenc.latexnodes import nodes as N
    r = _argview_parse(c)
    if r is None:
        return None
    s, w, node, ai, arg = r
    uw = 'T' if c.get('uw', True) else 'F'
    if arg is None:
        return '\t'.join(['ARGV', 'absent', uw, '', '', '-', ''])
    if isinstance(arg, N.LatexNodeList):
        its = _flat_items(s, arg)
        return None if its is None else '\t'.join(['ARGV', 'list', uw, '', its, '-', ''])
    if isinstance(arg, N.LatexGroupNode):
        if not isinstance(arg.nodelist, N.LatexNodeList):
            return None
        its = _flat_items(s, arg.nodelist)
        if its is None:
            return None
        so, sits = '-', ''
        inner = list(arg.nodelist)
        if len(inner) == 1 and isinstance(inner[0], N.LatexGroupNode):
            if not isinstance(inner[0].nodelist, N.LatexNodeList):
                return None
            sits = _flat_items(s, inner[0].nodelist)
            if sits is None:
                return None
            so = wire(inner[0].delimiters[0])
            if so == '-' or so == '':
                return None
        return '\t'.join(['ARGV', 'group', uw, wire(arg.delimiters[0]), its, so, sits])
    its = _flat_items(s, N.LatexNodeList([arg]))
    return None if its is None else '\t'.join(['ARGV', 'single', uw, '', its, '-', ''])

def _impl_argview(c):
    """`\\cmd[<o>]{<m>}`: the content view of an argument is the group's node list (for an argument that is ONE group with
    DIFFERENT delimiters — `[{…}]` — that inner group's node list, as documented), a single-token argument is itself, an absent
    optional argument is [None]; key-value parsing / comma splitting through the view agree with doing it on that node list"""
    from pylatexenc.latexwalker import LatexWalker
    from pylatexenc.latexnodes.parsers import LatexGeneralNodesParser
    from pylatexenc.latexnodes import nodes as N, ParsedArgumentsInfo, LatexWalkerParseError
    body = _src(c)
    wrap = c['wrap']
    s = {'m': '\\cmd{%s}', 'o': '\\cmd[%s]{z}', 'mg': '\\cmd{{%s}}', 'og': '\\cmd[{%s}]{z}', 'mgx': '\\cmd{{%s}x}', 'absent': '\\cmd {%s}', 'tok': '\\one %s'}[wrap] % body
    ai = 0 if wrap in ('o', 'og', 'absent') else (0 if wrap == 'tok' else 1)
    try:
        w = LatexWalker(s, latex_context=_arg_db(), tolerant_parsing=False)
        nl, _ = w.parse_content(LatexGeneralNodesParser())
    except Exception:
        return {'out': None, 'fail': None, 'sig': 'skip'}
    node = nl[0]
    if not isinstance(node, N.LatexMacroNode) or node.nodeargd is None or len(node.nodeargd.argnlist) <= ai:
        return {'out': None, 'fail': None, 'sig': 'skip'}
    arg = node.nodeargd.argnlist[ai]
    # the documented content, computed here from the tree
    if arg is None:
        want_nodes = [None]
    elif isinstance(arg, N.LatexGroupNode):
        inner = list(arg.nodelist)
        if len(inner) == 1 and isinstance(inner[0], N.LatexGroupNode) and inner[0].delimiters[0] != arg.delimiters[0]:
            inner = list(inner[0].nodelist)
        want_nodes = inner
    else:
        want_nodes = [arg]
    info = ParsedArgumentsInfo(node=node).get_argument_info(ai)
    if not c.get('uw', True):
        # documented flag: no double unwrap — the content is the group's own node list
        got = info.get_content_nodelist(unwrap_double_group=False)
        want0 = list(arg.nodelist) if isinstance(arg, N.LatexGroupNode) else ([None] if arg is None else [arg])
        ident0 = lambda l: [None if n is None else (type(n).__name__, n.pos, n.pos_end) for n in l]
        out0 = 'ok ' + ' '.join(_dump_item(s, n) for n in got)
        if ident0(got) != ident0(want0):
            return {'out': out0, 'sig': 'argview:nouw', 'fail': {'kind': 'argview-content', 'detail': 'argument %d of %r: get_content_nodelist(unwrap_double_group=False) gives %r, the group\'s own content is %r'
                                                                  % (ai, s, ident0(got), ident0(want0))}}
        return {'out': out0, 'fail': None, 'sig': 'argview:nouw:%s' % wrap}
    got = info.get_content_nodelist()
    ident = lambda l: [None if n is None else (type(n).__name__, n.pos, n.pos_end) for n in l]
    out = 'ok ' + ' '.join(_dump_item(s, n) for n in got)
    sig = 'argview:%s:%d' % (wrap, min(len(want_nodes), 3))
    if not isinstance(got, N.LatexNodeList) or ident(got) != ident(want_nodes):
        return {'out': out, 'sig': sig, 'fail': {'kind': 'argview-content', 'detail': 'argument %d of %r: get_content_nodelist() gives %r, the documented content is %r'
                                                 % (ai, s, ident(got), ident(want_nodes))}}
    # independent of the tree for simple bodies: the content's source text is what was written between the delimiters
    if wrap in ('m', 'o', 'mg', 'og', 'mgx') and not any(ch in body for ch in '[]') and arg is not None and s[arg.pos:arg.pos_end] in ('{%s}' % body, '[%s]' % body, '{{%s}}' % body, '[{%s}]' % body, '{{%s}x}' % body):
        want_src = {'m': body, 'o': body, 'mg': '{%s}' % body, 'og': body, 'mgx': '{%s}x' % body}[wrap]
        if wrap in ('m', 'o') and False:
            pass
        src = ''.join(s[n.pos:n.pos_end] for n in got if n is not None)
        # (a body that is itself one brace group inside [...] is unwrapped, as documented)
        b2 = _parse(body)
        if wrap == 'o' and b2 is not None and len(b2) == 1 and isinstance(b2[0], N.LatexGroupNode):
            want_src = body[1:-1]
        if src != want_src:
            return {'out': out, 'sig': sig, 'fail': {'kind': 'argview-content', 'detail': 'argument %d of %r: content source %r, written %r' % (ai, s, src, want_src)}}
    # key-value parsing and comma splitting through the view = on the documented content
    wl = N.LatexNodeList(want_nodes, parsing_state=got.parsing_state, latex_walker=w)
    def kv(f):
        try:
            r = f()
            return ('ok', [(k, [(n.pos, n.pos_end) for n in v if n is not None]) for k, v in r.items()])
        except LatexWalkerParseError:
            return ('exc', 'LatexWalkerParseError')
        except ValueError:
            return ('exc', 'ValueError')
    kw = dict(repeated_key_aggregate_action=c['pol'], extract_value_group_contents=c['eg'])
    g = kv(lambda: info.parse_content_as_keyval(**kw))
    cc = dict(c, csep=COMMA, esep=EQ)
    want, pairs = _kv_fold(_kv_pairs(s, wl, cc, True), c['pol'])
    if g != want:
        return {'out': out, 'sig': sig, 'fail': {'kind': 'argview-keyval', 'detail': 'argument %d of %r: parse_content_as_keyval(%r) gives %r; splitting the documented content at commas, then at the first equals sign, policy %r: %r'
                                                 % (ai, s, kw, g, c['pol'], want)}}
    def chars(f):
        try: return ('ok', f())
        except LatexWalkerParseError: return ('exc', 'LatexWalkerParseError')
    gc, wc = chars(info.get_content_as_chars), chars(wl.get_content_as_chars)
    if gc != wc:
        return {'out': out, 'sig': sig, 'fail': {'kind': 'argview-chars', 'detail': 'argument %d of %r: get_content_as_chars() %r, on the documented content %r' % (ai, s, gc, wc)}}
    return {'out': out, 'fail': None, 'sig': sig + ':' + g[0]}

# ---------------------------------------------------------------- oracle-only kinds

def _impl_proto(c):
    """callable protocol: 'a strictly negative start index' means no more separators (docstring of split_at_chars)"""
    s = _src(c)
    nl = _parse(s)
    if nl is None:
        return {'out': None, 'fail': None, 'sig': 'skip'}
    ref = dict(c); ref['sep'] = dict(c['sep'], nomatch='none')
    want = _dump_parts(s, _run_split(nl, ref))
    try:
        got = _dump_parts(s, _run_split(nl, c))
    except Runaway:
        got = 'does not terminate (separator callable called more than %d times)' % (20 * (len(s) + 5))
    except TypeError as e:
        got = 'TypeError: %s' % e
    fail = None
    if got != want:
        fail = {'kind': 'callable-negative-start', 'detail': 'callable answering %r for "no more separators": %s; with None: %s'
                % ((-2, 0), got, want)}
    return {'out': None, 'fail': fail, 'sig': 'proto:' + c['sep']['nomatch']}

def _impl_empty(c):
    """a regular expression that can match the empty string: the split must terminate (re.split does)"""
    s = _src(c)
    nl = _parse(s)
    if nl is None:
        return {'out': None, 'fail': None, 'sig': 'skip'}
    budget = 50 * (len(s) + 5)
    rx = _CountingRx(re.compile(c['rx']), budget)
    fail = None
    try:
        parts = nl.split_at_chars(rx, max_split=c['ms'], keep_empty=c['ke'])
        sig = 'empty:terminates'
    except ValueError:
        sig = 'empty:refused'        # refusing an empty match (as str.split('') does) is a terminating answer
    except Runaway:
        fail = {'kind': 'empty-match-nontermination',
                'detail': 'split_at_chars(re.compile(%r)) on %r: still searching after %d searches (re.split terminates: %r)'
                % (c['rx'], s, budget, re.split(c['rx'], s))}
        sig = 'empty:runaway'
    return {'out': None, 'fail': fail, 'sig': sig}

def run_impl(c):
    k = c['k']
    if k == 'chars':
        return _impl_chars(c)
    if k == 'node':
        return _impl_node(c)
    if k == 'kv':
        return _impl_kv(c)
    if k == 'argview':
        return _impl_argview(c)
    if k == 'proto':
        return _impl_proto(c)
    if k == 'empty':
        return _impl_empty(c)
    raise ValueError(k)

# ---------------------------------------------------------------- generators

COMMA = {'t': 'L', 'v': ',', 'iface': 'str'}
EQ = {'t': 'L', 'v': '=', 'iface': 'str'}
A_CORE = [',', 'a', '{b,c}', '\\emph{d,e}', '%f,\n']
A_MORE = [',', 'a', 'b ', '{b,c}', '{}', '\\emph{d,e}', '\\textbf{x}', '%f,\n', '$x,y$', '~', ';', '//', ' ', '\\x ', ',,', '{,}', '[', ']']
A_KV = ['a', 'b', 'k', '=', ',', '{v}', '{x=y,z}', '\\emph{u}', '%c=,\n', ' ', '1']
SEPS = [
    {'t': 'L', 'v': ',', 'iface': 'str'},
    {'t': 'L', 'v': ',', 'iface': 'rx'},
    {'t': 'L', 'v': ',', 'iface': 'fn'},
    {'t': 'L', 'v': ',,', 'iface': 'str'},
    {'t': 'L', 'v': '//', 'iface': 'str'},
    {'t': 'A', 'v': [',', '//'], 'iface': 'rx'},
    {'t': 'A', 'v': [',', '//'], 'iface': 'fn'},
    {'t': 'A', 'v': [',', ',,', ';'], 'iface': 'fnm'},
    {'t': 'A', 'v': [',,', ','], 'iface': 'fnl', 'nomatch': 'empty'},
    {'t': 'K', 'v': ',; ', 'iface': 'rx'},
    {'t': 'K', 'v': ',;', 'iface': 'fn', 'nomatch': 'startnone'},
    {'t': 'K', 'v': ' ', 'iface': 'fn', 'nomatch': 'minus1'},
    {'t': 'K', 'v': ',', 'iface': 'fnm'},
    {'t': 'L', 'v': ',', 'iface': 'fn', 'nomatch': 'neg'},
    {'t': 'A', 'v': [',', '//'], 'iface': 'fnl', 'nomatch': 'neg'},
    {'t': 'S', 'v': ',', 'iface': 'rx'},
    {'t': 'S', 'v': ', ', 'iface': 'fn'},
    {'t': 'E', 'v': '', 'iface': 'rx'},
    {'t': 'E', 'v': '', 'iface': 'fnm'},
    {'t': 'L', 'v': '', 'iface': 'rx'},
    {'t': 'B', 'v': ',', 'iface': 'rx'},
    {'t': 'B', 'v': ',', 'iface': 'fnm'},
    {'t': 'H', 'v': ',;', 'iface': 'rx'},
    {'t': 'H', 'v': ',;', 'iface': 'fn'},
]
SEPS_EDGE = [s for s in SEPS if s.get('nomatch') == 'neg' or s['t'] in ('S', 'E') or s['v'] == '']
MS = [None, 0, 1, 2, 3]
PREDS = ['c', 'g', 'o', 'w', 'go', 'cgo', 'a', 'n', 'gn', '']
POLS = ['first', 'last', 'concatenate', 'error']

def _strings(alphabet, maxlen):
    for n in range(0, maxlen + 1):
        for t in itertools.product(alphabet, repeat=n):
            yield list(t)

def cases(tier, rng):
    quick = (tier == 'quick')
    # 0. fixed regression inputs (the defects this property exposed)
    yield {'k': 'chars', 'atoms': [',', 'a', ',', 'b'], 'sep': COMMA, 'ms': 1, 'ke': False, 'sn': True, 'nones': []}
    yield {'k': 'chars', 'atoms': [',', 'a', ',', 'b'], 'sep': COMMA, 'ms': 1, 'ke': True, 'sn': True, 'nones': []}
    yield {'k': 'kv', 'atoms': ['=', 'b', '=', 'c'], 'csep': COMMA, 'esep': EQ, 'pol': 'concatenate', 'eg': True}
    yield {'k': 'kv', 'atoms': ['a', '=', '1', ',', 'a', '=', '2', ',', 'a', '=', '3'], 'csep': COMMA, 'esep': EQ, 'pol': 'first', 'eg': True}
    # 1. bounded-exhaustive: literal comma, every option combination
    for atoms in _strings(A_CORE, 4 if quick else 5):
        for ke in (False, True):
            for ms in MS:
                yield {'k': 'chars', 'atoms': atoms, 'sep': COMMA, 'ms': ms, 'ke': ke, 'sn': True, 'nones': []}
    # 1b. bounded-exhaustive: separators that can match the empty string, negative-start callables
    for atoms in _strings(A_CORE, 3 if quick else 4):
        for sep in SEPS_EDGE:
            for ke in (False, True):
                for ms in (None, 0, 1, 2):
                    yield {'k': 'chars', 'atoms': atoms, 'sep': sep, 'ms': ms, 'ke': ke, 'sn': True, 'nones': []}
    # 1c. bounded-exhaustive: separators whose match depends on what PRECEDES it in the chars node (look-behind, ^)
    for atoms in _strings([',', ',,', 'a', ';', '{b,c}', ';,'], 3 if quick else 4):
        for sep in [s for s in SEPS if s['t'] in ('B', 'H')]:
            for ke in (False, True):
                for ms in (None, 1):
                    yield {'k': 'chars', 'atoms': atoms, 'sep': sep, 'ms': ms, 'ke': ke, 'sn': True, 'nones': []}
    # 2. random: larger alphabet, all separator kinds, None entries, skip_none
    n = 4000 if quick else 60000
    for _ in range(n):
        L = rng.randint(0, 9)
        atoms = [rng.choice(A_MORE) for _ in range(L)]
        nones = [rng.randint(0, L) for _ in range(rng.choice([0, 0, 1, 2]))]
        yield {'k': 'chars', 'atoms': atoms, 'sep': rng.choice(SEPS), 'ms': rng.choice(MS + [None, 5]),
               'ke': rng.random() < 0.5, 'sn': rng.random() < 0.6, 'nones': nones}
    # 3. split_at_node
    for atoms in _strings(['a', '{b}', '%c\n', '\\x ', ' '], 3 if quick else 4):
        for pred in ('g', 'cgo', 'w'):
            for ms in MS[:4]:
                for ks in (False, True):
                    yield {'k': 'node', 'atoms': atoms, 'pred': pred, 'ms': ms, 'ks': ks, 'sn': True, 'nones': []}
    for _ in range(1500 if quick else 20000):
        L = rng.randint(0, 9)
        atoms = [rng.choice(['a', '{b}', '%c\n', '\\x ', ' ', '~', '{}', '$m$', ',']) for _ in range(L)]
        nones = [rng.randint(0, L) for _ in range(rng.choice([0, 1, 2]))]
        yield {'k': 'node', 'atoms': atoms, 'pred': rng.choice(PREDS), 'ms': rng.choice(MS + [None, 5]), 'ks': rng.random() < 0.5,
               'sn': rng.random() < 0.5, 'nones': nones}
    # 4. key-value parsing
    for atoms in _strings(['a', '=', ',', '{v}'], 5 if quick else 7):
        for pol in (POLS if len(atoms) >= 5 else ['concatenate']):
            yield {'k': 'kv', 'atoms': atoms, 'csep': COMMA, 'esep': EQ, 'pol': pol, 'eg': True}
    for _ in range(3000 if quick else 40000):
        L = rng.randint(0, 12)
        atoms = [rng.choice(A_KV) for _ in range(L)]
        cs, es = rng.choice([(COMMA, EQ), (COMMA, EQ), ({'t': 'A', 'v': [',', ';'], 'iface': 'rx'}, {'t': 'K', 'v': '=:', 'iface': 'fn'}),
                             ({'t': 'L', 'v': ',', 'iface': 'fn'}, {'t': 'L', 'v': '=', 'iface': 'rx'})])
        yield {'k': 'kv', 'atoms': atoms, 'csep': cs, 'esep': es, 'pol': rng.choice(POLS), 'eg': rng.random() < 0.7}
    # 4b. argument views: the same through ParsedArgumentsInfo / SingleParsedArgumentInfo
    WRAPS = ['m', 'o', 'mg', 'og', 'mgx', 'absent', 'tok']
    for atoms in _strings(['a', '=', ',', '{v,w}'], 3 if quick else 4):
        for wrap in WRAPS:
            yield {'k': 'argview', 'atoms': atoms, 'wrap': wrap, 'pol': 'concatenate', 'eg': True}
    for _ in range(1500 if quick else 30000):
        atoms = [rng.choice(A_KV) for _ in range(rng.randint(0, 8))]
        yield {'k': 'argview', 'atoms': atoms, 'wrap': rng.choice(WRAPS), 'pol': rng.choice(POLS), 'eg': rng.random() < 0.7, 'uw': rng.random() < 0.8}
    # 5. oracle-only: callable protocol, empty matches
    for atoms in (['a'], ['a', ',', 'b'], [',', 'a'], ['a', ',']):
        for ke in (False, True):
            yield {'k': 'proto', 'atoms': atoms, 'sep': {'t': 'L', 'v': ',', 'iface': 'fn', 'nomatch': 'neg'}, 'ms': None, 'ke': ke, 'sn': True}
    for atoms in (['a', ',', 'b'], ['a', 'b'], [',', 'a'], ['a', ' ', 'b']):
        for rx in (',*', r'\s*', ',?'):
            for ke in (False, True):
                yield {'k': 'empty', 'atoms': atoms, 'rx': rx, 'ms': None, 'ke': ke}

def shrink_candidates(c):
    atoms = c['atoms']
    for i in range(len(atoms)):
        d = dict(c); d['atoms'] = atoms[:i] + atoms[i+1:]
        if d.get('nones'):
            d['nones'] = [min(x, len(d['atoms'])) for x in d['nones']]
        yield d
    if c.get('nones'):
        for i in range(len(c['nones'])):
            d = dict(c); d['nones'] = c['nones'][:i] + c['nones'][i+1:]
            yield d
    if c.get('ms') not in (None, 0):
        d = dict(c); d['ms'] = c['ms'] - 1
        yield d
    for i, a in enumerate(atoms):
        if len(a) > 1 and a not in (',,', '//'):
            for b in ('a', ','):
                d = dict(c); d['atoms'] = atoms[:i] + [b] + atoms[i+1:]
                yield d
    if c['k'] == 'chars' and c['sep'] != COMMA:
        d = dict(c); d['sep'] = COMMA
        yield d

def known_match(m, case, fail):
    if 'k' in m and case.get('k') != m['k']:
        return False
    return True

LEVEL_TEXT = ('Theorems C18_partition (+ C18_part/node/opaque_position) / C18_total / C18_fixed_terminates / C18_keep_empty / C18_max_split / '
              'C18_split_node / C18_keyval prove of the model of the repaired code, for every item list that tiles its span, every matcher and '
              'every option combination: the parts interleaved with the consumed separators reproduce the source text with every part and node '
              'at the position of its text, opaque nodes unsplit and in order; keep_empty only filters; max_split=n consumes exactly the first n '
              'separators; the split always returns (normally, or ValueError for a non-advancing match); the node-predicate variant partitions '
              'in order; key-value parsing is the comma split, the first-equals split (both pieces kept) and the policy fold. '
              'C18_asIs_* are kernel-checked witnesses that the code before the five repairs (findings/c18-*.diff) violated each clause; '
              'C18_asIs_eq_fixed transfers the theorems to it for keep_empty=True or max_split=None. The model (Variant.fixed) is tied to nodes.py '
              'by running both on parsed argument-like content.')
LEVEL_NOTE = ('regex/callable separators are three matcher combinators; the tie is differential testing (exhaustive to the atom bound, random '
              'beyond); Lean kernel + propext/Classical.choice/Quot.sound')
TECHNIQUE = 'Lean 4 proof (induction over the node list and the per-node scanning loop) + model-vs-implementation correspondence on parsed content'
