# C08 — encode, then convert back with latex2text: the original NFC string.
#
# Case descriptor (JSON):
#   {'k': 'rt',  's': str, 'prot': P, 'sls': bool}    a string over the invertible alphabet (oracle: round trip)
#   {'k': 'neg', 's': str, 'prot': P, 'sls': bool}    negative control: one character of the committed exception list
#                                                     (no oracle: the signature records that it indeed does not come back)
#   P = 'braces' | 'braces-all' | 'braces-almost-all' | 'braces-after-macro';  sls = strict_latex_spaces (False = default 'macros')
#
# Driver line:  C08 <prot> <B0|B1> <NFC input>
#   answer:     ok "<chunk>" ... | ok "<text>"          (encoder chunks, then latex2text of their concatenation)
#
# The invertible alphabet is DATA: built-in `defaults` characters minus the committed list c08_noninvertible.json, plus
# printable ASCII without rule except ' - ` , plus newline (translate/c08alphabet.py).  The list is never recomputed here:
# a character that stops round-tripping is a VIOLATION.
import os, sys, json, unicodedata, logging, itertools
from common import wire, show_str, VERIF, REPO

logging.disable(logging.WARNING)

# audited / leanchecker-replayed modules: the cheap ones (the 32 split files C08Char*/C08Pair*/C08Cls[A-H]/C08FChk[A-H] hold only
# kernel evaluations; they are imported by C08 / C08F and rebuilt by `lake build`; replaying them in one leanchecker process would
# need tens of GB).  C08F* = the statement for all strings (exact parse of the encoder-output grammar, renderer laws, induction).
PROOF_MODULES = ['C08Defs', 'C08Cls', 'C08', 'C08FDefs', 'C08FReach', 'C08FParse', 'C08FRender', 'C08F']
THEOREMS = ['Pylx.C08.C08_char', 'Pylx.C08.C08_pair', 'Pylx.C08.C08_reps_cover', 'Pylx.C08.C08_class_pairs',
            'Pylx.C08.C08_encode_chunks', 'Pylx.C08.C08_lift', 'Pylx.C08.C08_parbreak_false', 'Pylx.C08.C08_ligature_false',
            'Pylx.C08.C08_none_false',
            # the statement for all strings (PylxProofs/C08F*.lean)
            'Pylx.C08.Full.C08_full_proved', 'Pylx.C08.Full.C08_roundtrip', 'Pylx.C08.Full.C08_concat_proved',
            'Pylx.C08.Full.C08_class_proved', 'Pylx.C08.Full.reachX_all', 'Pylx.C08.Full.doc_exact',
            'Pylx.C08.Full.latexToText_doc', 'Pylx.C08.Full.chunk_good', 'Pylx.C08.Full.render_docs',
            'Pylx.C08.Full.renderXList_app', 'Pylx.C08.Full.renderXList_mergeX', 'Pylx.C08.Full.par_fact']
RULE = ('C08: LatexNodes2Text(strict_latex_spaces=pol).latex_to_text(UnicodeToLatexEncoder(replacement_latex_protection=scheme)'
        '.unicode_to_latex(s)) on: every character of the invertible alphabet alone and in the contexts aca, "c c", cc, 1c1, "c."; all '
        'ordered pairs of class representatives (classes = replacement shapes of C13_shapes + letter/digit/space/newline/punctuation) '
        'and random pairs of alphabet characters; random strings of length <= 12 over the alphabet (class-balanced); x four '
        'brace-protection schemes x default/strict whitespace policy.  Model (generated tables + Pylx.encodeChunks + Pylx.parseTop + '
        'Pylx.L2T.render, NFC from the generated table) vs implementation: chunk list and final text; oracle on the implementation: '
        'text == NFC(s).  Characters of the committed exception list are only run as negative controls (signature negctl:*).')
TRUSTED = ['unicodedata.normalize("NFC"): the model receives the normalised string and composes accents through the generated table '
           'Gen.c08Nfc (translate/c08alphabet.py, validated by every C08 comparison that renders an accent)',
           'c08_noninvertible.json: the fixed exception list (computed once by tools/c08_make_noninvertible.py, reason class per entry)',
           'translate/c08alphabet.py, translate/uni2latex.py, translate/textdb.py, translate/walkerdb.py copy the data into Lean; '
           'str.isalpha on replacement texts = ASCII letters (C13_table_ascii)']
ASSUMPTIONS = ['strings over the invertible alphabet (1231 built-in characters + 80 ASCII characters incl. newline), NFC (every string over '
               'the alphabet is: all 1311^2 ordered pairs were checked at design time)',
               'no paragraph break other than exactly "\\n\\n" (a run of white space with two or more newlines is rendered as "\\n\\n" by '
               'latex2text by design): predicate ParClean',
               'scheme none is outside the property; default rule set, unknown_char_policy keep, non_ascii_only False; default latex2text '
               'options other than strict_latex_spaces']
TRIVIAL_SIGS = ()
CASE_TIMEOUT = 10.0

PROTS = ['braces', 'braces-all', 'braces-almost-all', 'braces-after-macro']
POLS = [False, True]
COMBOS = [(p, q) for p in PROTS for q in POLS]
NFC = lambda x: unicodedata.normalize('NFC', x)

# ------------------------------------------------------------------ data

_D = None
def data():
    global _D
    if _D is None:
        tdir = os.path.join(VERIF, 'translate')
        if tdir not in sys.path:
            sys.path.insert(0, tdir)
        import c08alphabet
        table, exc, alphabet, classes = c08alphabet.read_all(REPO)
        reps = c08alphabet.pick_reps(table, classes)
        cls_of = {}
        for cl, ks in classes.items():
            for k in ks:
                cls_of[k] = cl
        doc = json.load(open(os.path.join(VERIF, 'c08_noninvertible.json')))
        _D = {'table': table, 'exc': sorted(exc), 'alphabet': alphabet, 'aset': set(alphabet), 'classes': classes, 'reps': reps,
              'cls_of': cls_of, 'doc': doc}
    return _D

def par_clean(s):
    """mirror of Pylx.C08.ParClean: no "\\n\\n\\n", no newline + spaces + newline"""
    n = len(s)
    for i in range(n):
        if s[i] != '\n':
            continue
        if s[i+1:i+3] == '\n\n':
            return False
        j = i + 1
        while j < n and s[j] == ' ':
            j += 1
        if j > i + 1 and j < n and s[j] == '\n':
            return False
    return True

def admissible(s):
    D = data()
    return all(ord(c) in D['aset'] for c in s) and par_clean(s) and NFC(s) == s

# ------------------------------------------------------------------ the real objects

class ChunkList(object):
    def __init__(self):
        self.chunks = []
    def __iadd__(self, s):
        self.chunks.append(s)
        return self

_ENC, _L2T = {}, {}
def get_encoder(prot):
    if prot not in _ENC:
        from pylatexenc import latexencode as le
        _ENC[prot] = le.UnicodeToLatexEncoder(replacement_latex_protection=prot, unknown_char_warning=False, latex_string_class=ChunkList)
    return _ENC[prot]

def get_l2t(sls):
    if sls not in _L2T:
        from pylatexenc.latex2text import LatexNodes2Text
        _L2T[sls] = LatexNodes2Text(strict_latex_spaces=sls)
    return _L2T[sls]

def cls_short(k):
    return data()['cls_of'].get(k, 'other').split(':')[1]

def other_converter(kind):
    """another part of the program builds (and uses) a converter with the documented dictionary form of the whitespace
    policy; this must not touch the policy of the default / strict converters of the round trip"""
    from pylatexenc.latex2text import LatexNodes2Text
    pol = {'lc': {'between-latex-constructs': False}, 'mc': {'between-macro-and-chars': False, 'after-comment': True},
           'eq': {'in-equations': {'between-latex-constructs': False, 'between-macro-and-chars': False}}}[kind]
    LatexNodes2Text(strict_latex_spaces=pol).latex_to_text('a \\alpha b {c} {d} $x {y}$ %e\n f')

def run_impl(c):
    s = c['s']
    sn = NFC(s)
    if c.get('other'):
        other_converter(c['other'])
    pol = 'strict' if c['sls'] else 'default'
    try:
        res = get_encoder(c['prot']).unicode_to_latex(s)
    except Exception as e:
        return {'out': 'raise ' + type(e).__name__, 'fail': None if c['k'] == 'neg' else
                {'kind': 'encoder-raised-' + type(e).__name__, 'detail': str(e)[:200]}, 'sig': 'enc-raise'}
    chunks = list(res.chunks)
    text = ''.join(chunks)
    if c.get('via') == 'cli':
        # the two command-line tools (python -m pylatexenc.latexencode / latex2text), run in-process on files: their text
        # output is the objects' output (latex2text adds one final newline)
        import io, os, tempfile, contextlib, shutil, logging
        from pylatexenc.latexencode import __main__ as em
        from pylatexenc.latex2text import __main__ as tm
        d = tempfile.mkdtemp(prefix='pylxc08-')
        root = logging.getLogger(); lvl, hs = root.level, list(root.handlers)
        try:
            f = os.path.join(d, 'in.txt')
            with open(f, 'w', encoding='utf-8', newline='') as fh: fh.write(s)
            o = io.StringIO()
            with contextlib.redirect_stdout(o), contextlib.redirect_stderr(io.StringIO()):
                em.main(['--replacement-latex-protection', c['prot'], '-q', f])
            cenc = o.getvalue()
            g = os.path.join(d, 'mid.tex')
            with open(g, 'w', encoding='utf-8', newline='') as fh: fh.write(cenc)
            o = io.StringIO()
            with contextlib.redirect_stdout(o), contextlib.redirect_stderr(io.StringIO()):
                tm.main((['--strict-latex-spaces', 'on'] if c['sls'] else []) + ['-q', g])
            cback = o.getvalue()
        except BaseException as e:
            if isinstance(e, (KeyboardInterrupt,)) or type(e).__name__ == 'CaseTimeout':
                raise
            return {'out': 'cli-raise ' + type(e).__name__, 'fail': {'kind': 'cli-raised-' + type(e).__name__, 'detail': str(e)[:200]}, 'sig': 'cli-raise'}
        finally:
            shutil.rmtree(d, ignore_errors=True)
            root.setLevel(lvl)
            for h in list(root.handlers):
                if h not in hs: root.removeHandler(h)
        want_back = get_l2t(c['sls']).latex_to_text(text)
        if cenc != text or cback != want_back + '\n':
            return {'out': ' '.join(['ok'] + [show_str(x) for x in chunks]) + ' | cli ' + show_str(cenc) + ' ' + show_str(cback),
                    'fail': {'kind': 'cli-differs', 'detail': 'scheme %s, strict=%s, %r: command-line tools give %r -> %r, the objects give %r -> %r (+ final newline)'
                             % (c['prot'], c['sls'], s[:60], cenc[:120], cback[:80], text[:120], want_back[:80])}, 'sig': 'cli'}
    if c.get('via') in ('rule', 'ruleobjs', 'partial0'):
        # other documented spellings of the same encoder: the built-in table as a rule object carrying the scheme itself
        # (replacement_latex_protection on the rule overrides the encoder-wide one, here a weaker one), the rule objects of
        # get_builtin_conversion_rules, the partial encoder keeping no characters
        from pylatexenc import latexencode as le
        try:
            if c['via'] == 'rule':
                e2 = le.UnicodeToLatexEncoder(conversion_rules=[le.UnicodeToLatexConversionRule(
                        le.RULE_DICT, le.get_builtin_uni2latex_dict(), replacement_latex_protection=c['prot'])],
                        replacement_latex_protection=c.get('wide', 'none'), unknown_char_warning=False)
            elif c['via'] == 'ruleobjs':
                e2 = le.UnicodeToLatexEncoder(conversion_rules=le.get_builtin_conversion_rules('defaults'),
                                              replacement_latex_protection=c['prot'], unknown_char_warning=False)
            else:
                e2 = le.PartialLatexToLatexEncoder(keep_latex_chars='', replacement_latex_protection=c['prot'], unknown_char_warning=False)
            text2 = e2.unicode_to_latex(s)
        except Exception as e:
            return {'out': 'raise ' + type(e).__name__, 'fail': {'kind': 'spelling-raised-' + type(e).__name__, 'detail': c['via'] + ': ' + str(e)[:200]}, 'sig': 'enc-raise'}
        if text2 != text:
            return {'out': ' '.join(['ok'] + [show_str(x) for x in chunks]) + ' | ' + c['via'] + ' ' + show_str(text2),
                    'fail': {'kind': 'spelling-differs:' + c['via'], 'detail': 'scheme %r on %r through spelling %r (encoder-wide %r): %r, UnicodeToLatexEncoder(replacement_latex_protection=scheme) gives %r'
                             % (c['prot'], s[:60], c['via'], c.get('wide'), text2[:120], text[:120])}, 'sig': 'spelling'}
    if c.get('via') == 'shorthand':
        # the documented front door: the module-level unicode_to_latex() with its process-wide cache of encoder objects,
        # after calls with other option values in the same process; it must return what an encoder object returns
        from pylatexenc import latexencode as le
        for kw in c.get('pre') or []:
            try:
                le.unicode_to_latex('a%b_c \u00e9{}\\', **kw)
            except Exception:
                pass
        try:
            text2 = le.unicode_to_latex(s, replacement_latex_protection=c['prot'])
        except Exception as e:
            return {'out': 'raise ' + type(e).__name__, 'fail': {'kind': 'shorthand-raised-' + type(e).__name__, 'detail': str(e)[:200]}, 'sig': 'enc-raise'}
        if text2 != text:
            return {'out': ' '.join(['ok'] + [show_str(x) for x in chunks]) + ' | shorthand ' + show_str(text2),
                    'fail': {'kind': 'shorthand-differs', 'detail': 'latexencode.unicode_to_latex(%r, replacement_latex_protection=%r) = %r after calls with %r, an encoder object gives %r'
                             % (s[:60], c['prot'], text2[:120], c.get('pre'), text[:120])}, 'sig': 'shorthand'}
    try:
        back = get_l2t(c['sls']).latex_to_text(text)
        out2 = 'ok ' + show_str(back)
    except RecursionError:
        raise
    except Exception as e:
        back = None
        out2 = 'CRASH ' + type(e).__name__
    out = ' '.join(['ok'] + [show_str(x) for x in chunks]) + ' | ' + out2
    if c['k'] == 'neg':
        good = (back == sn) and NFC(s) == s
        return {'out': out, 'fail': None, 'sig': 'negctl:' + ('ROUNDTRIPS-though-listed' if good else 'fails-as-listed')}
    fail = None
    if back is None:
        fail = {'kind': 'latex2text-raised', 'detail': '%s on %r (scheme %s, %s)' % (out2, text[:200], c['prot'], pol)}
    elif back != sn:
        # locate the first character that did not survive
        i = 0
        while i < min(len(back), len(sn)) and back[i] == sn[i]:
            i += 1
        fail = {'kind': 'roundtrip-differs',
                'detail': 'scheme %s, %s policy: %r -> %r -> %r (first difference at index %d: expected %s)'
                % (c['prot'], pol, sn[:60], text[:200], back[:60], i, ('U+%04X' % ord(sn[i])) if i < len(sn) else 'end of string')}
    if len(sn) == 2:
        sig = 'pair:%s>%s' % (cls_short(ord(sn[0])), cls_short(ord(sn[1])))
    else:
        sig = '%s|%s|len%s' % (c['prot'], pol, len(sn) if len(sn) < 3 else '3+')
    return {'out': out, 'fail': fail, 'sig': sig}

# ------------------------------------------------------------------ driver line

def to_line(c):
    s = NFC(c['s'])
    if any(0xD800 <= ord(ch) <= 0xDFFF for ch in s):
        return None
    return '\t'.join(['C08', c['prot'], 'B1' if c['sls'] else 'B0', wire(s)])

# ------------------------------------------------------------------ generators

def rt(s, prot, sls):
    return {'k': 'rt', 's': s, 'prot': prot, 'sls': sls}

CONTEXTS = ['%s', 'a%sa', '%s %s', '%s%s', '1%s1', '%s.']

def cases(tier, rng):
    D = data()
    quick = (tier == 'quick')
    A = [chr(k) for k in D['alphabet']]
    # 0. fixed probes (each under all schemes x policies)
    probes = ['', 'aé ı—b', 'ıt', 'æsop', '—–x', 'naïve café', 'Ångström',
              'łódź ßø', '\\{a}$%&#_~<>', 'a\n\nb \n c', ' a ', '\n', '\n\n', ' \n\n ', 'x y', '!?[*]', 'ı[ı*',
              'αβ ≤∞', '— —', 'éé', 'éa', 'é a', 'ı a', 'ı\nı', '\U0001d400\U0001d6a3x']
    for s in probes:
        if admissible(s):
            for (p, q) in COMBOS:
                yield rt(s, p, q)
    # 1. every alphabet character alone (all combos) and in five neighbour contexts
    for ch in A:
        for (p, q) in COMBOS:
            yield rt(ch, p, q)
        for ctx in CONTEXTS[1:]:
            s = ctx.replace('%s', ch)
            if not admissible(s):
                continue
            for (p, q) in (rng.sample(COMBOS, 2) if quick else COMBOS):
                yield rt(s, p, q)
    # 2. all ordered pairs of class representatives, every combo; random pairs of alphabet characters
    reps = [chr(k) for cl in sorted(D['reps']) for k in D['reps'][cl]]
    for a in reps:
        for b in reps:
            if admissible(a + b):
                for (p, q) in COMBOS:
                    yield rt(a + b, p, q)
    # one member of every class against one member of every class, chosen at random (beyond the fixed representatives)
    cls = sorted(D['classes'])
    for rep in range(2 if quick else 12):
        for ca in cls:
            for cb in cls:
                s = chr(rng.choice(D['classes'][ca])) + chr(rng.choice(D['classes'][cb]))
                if admissible(s):
                    p, q = rng.choice(COMBOS)
                    yield rt(s, p, q)
    for _ in range(3000 if quick else 40000):
        s = rng.choice(A) + rng.choice(A)
        if admissible(s):
            p, q = rng.choice(COMBOS)
            yield rt(s, p, q)
    # 3. random strings over the alphabet, length <= 12, class-balanced half of the time
    n3 = 4000 if quick else 60000
    for _ in range(n3):
        L = rng.randint(3, 12)
        if rng.random() < 0.5:
            s = ''.join(chr(rng.choice(D['classes'][rng.choice(cls)])) for _ in range(L))
        else:
            s = ''.join(rng.choice(A) for _ in range(L))
        if not admissible(s):
            continue
        p, q = rng.choice(COMBOS)
        yield rt(s, p, q)
    # 4. negative controls: the characters of the committed exception list do not come back (not violations; see signature)
    # 4. through the module-level shorthand (process-wide encoder cache), after calls with other option values
    PRE = [{'non_ascii_only': True}, {'unknown_char_policy': 'replace'}, {'unknown_char_warning': False}, {'unknown_char_policy': 'ignore', 'non_ascii_only': True}]
    for _ in range(400 if quick else 6000):
        L = rng.randint(1, 10)
        s = ''.join(rng.choice(A) if rng.random() < 0.6 else rng.choice('%&#_{}$\\~ ab') for _ in range(L))
        if not par_clean(s):
            continue
        p, q = rng.choice(COMBOS)
        c = rt(s, p, q)
        c['via'] = 'shorthand'
        c['pre'] = [dict(rng.choice(PRE), replacement_latex_protection=p) for _ in range(rng.randint(1, 2))]
        yield c
    # 4b. after another converter with a dictionary policy was built and used in the same process
    for _ in range(300 if quick else 5000):
        L = rng.randint(2, 8)
        s = ''.join(rng.choice(A) if rng.random() < 0.6 else rng.choice('ab   \n') for _ in range(L))
        if not par_clean(s):
            continue
        p, q = rng.choice(COMBOS)
        c = rt(s, p, q)
        c['other'] = rng.choice(['lc', 'mc', 'eq'])
        yield c
    # 4d. every ASCII punctuation character doubled and tripled (candidate ligatures: two characters that are harmless alone)
    for ch in [chr(k) for k in range(33, 127) if not chr(k).isalnum()]:
        for s in (ch + ch, 'a' + ch + ch + 'b', ch * 3, 'x ' + ch + ch + ' y', ch + ch + '\n' + ch):
            if not admissible(s):
                continue
            p, q = rng.choice(COMBOS)
            yield rt(s, p, q)
            yield rt(s, 'braces', False)
    # 4c. other documented spellings of the encoder
    for _ in range(450 if quick else 6000):
        L = rng.randint(1, 8)
        s = ''.join(rng.choice(A) if rng.random() < 0.6 else rng.choice('ab c~%') for _ in range(L))
        if not par_clean(s):
            continue
        p, q = rng.choice(COMBOS)
        c = rt(s, p, q)
        c['via'] = rng.choice(['rule', 'rule', 'ruleobjs', 'partial0'])
        if c['via'] == 'rule':
            c['wide'] = rng.choice(['none', 'none', 'braces', 'braces-all', 'braces-after-macro'])
        yield c
    # 5. through the two command-line tools
    for _ in range(150 if quick else 2500):
        L = rng.randint(1, 8)
        s = ''.join(rng.choice(A) if rng.random() < 0.6 else rng.choice('ab c') for _ in range(L))
        if not par_clean(s) or '\n' in s or '\r' in s:
            continue
        p, q = rng.choice(COMBOS)
        c = rt(s, p, q)
        c['via'] = 'cli'
        yield c
    for k in D['exc']:
        if k in D['table']:
            yield {'k': 'neg', 's': chr(k), 'prot': 'braces', 'sls': False}

# ------------------------------------------------------------------ shrinking

def shrink_candidates(c):
    if c['k'] != 'rt':
        return
    s = c['s']
    for i in range(len(s)):
        t = s[:i] + s[i+1:]
        if admissible(t):
            d = dict(c); d['s'] = t
            yield d
    if c['sls']:
        d = dict(c); d['sls'] = False; yield d
    if c['prot'] != 'braces':
        d = dict(c); d['prot'] = 'braces'; yield d

def extra_evidence():
    D = data()
    return {'c08_alphabet_size': len(D['alphabet']), 'c08_exception_list_size': len(D['exc']),
            'c08_exception_reasons': D['doc'].get('counts'), 'c08_classes': {k: len(v) for k, v in D['classes'].items()},
            'c08_representatives': {k: ['U+%04X' % x for x in v] for k, v in D['reps'].items()}}

LEVEL_TEXT = ('Theorems about the two models chained (Pylx.EncB.builtinCfg with the generated `defaults` table, then Pylx.L2T.latexToText with the '
              'generated walker and text databases): C08_full_proved — EVERY string over the 1311 characters of the generated invertible alphabet '
              'whose paragraph breaks are exactly "\\n\\n" (ParClean) round-trips under each of the four brace-protection schemes and both '
              'whitespace policies (no bound on the length).  Proof: C08_encode_chunks (the encoder output is the concatenation of per-character '
              'chunks); chunk_good (kernel evaluation over the whole alphabet: each chunk is the source of a document of the encoder-output grammar '
              'that is well formed whatever follows, starts no ligature, is solid, and whose exact tree renders to the character from a fresh '
              'converter state, leaving it fresh); reachX_all / doc_exact / latexToText_doc (exact prefix lemma: the tolerant parse of the source of '
              'every well-formed document of that grammar is exactly its position-free tree, for every collector state; so latex_to_text of the '
              'encoder output is the position-free renderer on that tree); renderXList_app / renderXList_mergeX / render_docs (the renderer loop is a '
              'homomorphism on the concatenation because both policies switch between-macro-and-chars on, and merging chars nodes does not change '
              'the text); par_fact (whitespace runs of a ParClean string render to themselves); induction over the string.  Also kept: C08_char, '
              'C08_pair, C08_reps_cover (both models evaluated by the kernel on every character and every pair of class representatives, so a '
              'table change that breaks a character no longer checks), C08_lift with its two former gaps now proved (C08_concat_proved, '
              'C08_class_proved), and C08_parbreak_false / C08_ligature_false / C08_none_false — the side conditions are needed.  The models are '
              'tied to UnicodeToLatexEncoder and LatexNodes2Text by comparing chunk lists and final texts on all generated strings; the oracle '
              'evaluates text == NFC(s) on the implementation.')
LEVEL_NOTE = ('C08_full is proved for the models (all strings over the alphabet, side condition ParClean shown necessary); NFC is trusted (the model '
              'receives the normalised string); the exception list c08_noninvertible.json is fixed data; the tie between models and library is '
              'differential testing; Lean kernel + propext/Classical.choice/Quot.sound')
TECHNIQUE = ('Lean 4 proof (exact prefix lemma for the encoder-output grammar over every collector state, algebraic laws of the renderer loop, '
             'kernel evaluation of the per-chunk facts over the generated alphabet, induction over the string; in addition kernel evaluation of '
             'encoder, parser and renderer models on every character and every class-representative pair) + model-vs-implementation '
             'correspondence + round-trip oracle on the implementation')
