# C06 — tolerant mode: total, equals strict on valid input, keeps pre-error content.
import parseprops, parsecase, dump
from common import show_str

THEOREMS = ['Pylx.C06_total', 'Pylx.C06_total_list', 'Pylx.C06_agree', 'Pylx.C06_agree_top', 'Pylx.C06_prefix', 'Pylx.C06_prefix_top', 'Pylx.run_mono',
            'Pylx.run_adv', 'Pylx.run_nf', 'Pylx.C06_no_fuel', 'Pylx.C06_no_perr', 'Pylx.C06_reader_monotone', 'Pylx.C05_tolerant_total']
PROOF_MODULES = ['C06Total', 'C06', 'C05']
RULE = ('PARSE in both modes on the same inputs: every string of <= k atoms over the LaTeX-significant alphabets (default + custom '
        'contexts), random token soups, generated documents followed by stray closing tokens and garbage; model vs implementation in '
        'tolerant mode (full tree); oracle on the implementation: tolerant parse returns (watchdog), raises nothing; if strict '
        'succeeds the two dumps are identical; if strict fails, the nodes it had completed (recovery_nodes of the error) are a prefix of '
        'the tolerant result (the last chars node may be extended); sig = strict outcome class x tolerant node kinds')
TRUSTED = ['tokenizer model (C11)', 'closed world of argument parsers']
ASSUMPTIONS = ['construct nesting below the interpreter recursion limit (about 140 levels); CPU-time watchdog of 10 s per case (wall-clock backstop 300 s) stands for "terminates"']
TRIVIAL_SIGS = ()
CASE_TIMEOUT = 10.0

def cases(tier, rng):
    # deep nesting: the interpreter's recursion limit is a runtime effect outside the model (known finding F18)
    for s in ['{' * 200 + '}' * 200, '$' + '{' * 180 + 'x' + '}' * 180 + '$', '\\emph{' * 150 + '}' * 150]:
        yield {'tol': True, 'ctx': 'default', 's': s, 'deep': True}
    for c in parseprops.base_cases(tier, rng, tol_only=True):
        yield c
    import docgen
    n = 200 if tier == 'quick' else 3000
    garbage = ['}', ']', '$', '$$', '\\)', '\\]', '\\end{e}', '\\end{x}', '\\end', '\\begin', '\\', '}}', '\\verb', '{', '\\frac', '\\begin{e}', ')', '>', '\\m', '%', '&']
    for i in range(n):
        ctxname = rng.choice(['default', 'A'])
        d = docgen.gen_doc(rng, ctxname, budget=rng.randint(1, 8))
        s = docgen.unparse(d)
        ctx = ctxname if ctxname == 'default' else docgen.ctx_of(ctxname)
        for g in rng.sample(garbage, 4):
            yield {'tol': True, 'ctx': ctx, 's': s + g}
            yield {'tol': True, 'ctx': ctx, 's': s + g + ' ' + rng.choice(garbage) + 'x'}

def to_line(c):
    if c.get('deep'):
        return None
    return parsecase.to_line(c)

def run_impl(c):
    from pylatexenc.latexnodes import nodes as N
    s = c['s']
    w, kind, p = parsecase.parse(c)
    out = parsecase.show_result(kind, p)
    fail = None
    if kind != 'ok':
        fail = {'kind': 'tolerant-raised', 'detail': out[:300] + ' / ' + str(p)[:200]}
    elif p is None:
        fail = {'kind': 'tolerant-returned-none', 'detail': ''}
    if not fail:
        # the same parse through the documented entry point get_latex_nodes() must not raise either
        try:
            import warnings
            with warnings.catch_warnings():
                warnings.simplefilter('ignore')
                w3 = parsecase.make_walker(c)
                r3 = w3.get_latex_nodes(pos=0)
            if not (isinstance(r3, tuple) and len(r3) == 3):
                fail = {'kind': 'tolerant-get-latex-nodes', 'detail': 'unexpected result %r' % (r3,)}
        except RecursionError:
            raise
        except Exception as e:
            fail = {'kind': 'tolerant-raised', 'detail': 'get_latex_nodes(): %s: %s' % (type(e).__name__, str(e)[:200])}
    cs = dict(c); cs['tol'] = False
    w2, kind2, p2 = parsecase.parse(cs)
    if not fail:
        if kind2 == 'ok':
            o2 = parsecase.show_result(kind2, p2)
            if o2 != out:
                fail = {'kind': 'tolerant-differs-from-strict', 'detail': 'strict: %s ; tolerant: %s' % (o2[:400], out[:400])}
        elif kind2 == 'err':
            rn = getattr(p2, 'recovery_nodes', None)
            if rn is not None and isinstance(rn, N.LatexNodeList):
                a = [dump.dump_node(n) for n in rn if n is not None]
                b = [dump.dump_node(n) for n in p if n is not None]
                ok = len(a) <= len(b) or (len(a) == len(b) + 0)
                if ok:
                    for i, x in enumerate(a):
                        if x == b[i]:
                            continue
                        n1 = [n for n in rn if n is not None][i]; n2 = [n for n in p if n is not None][i]
                        if i == len(a) - 1 and isinstance(n1, N.LatexCharsNode) and isinstance(n2, N.LatexCharsNode) \
                           and n1.pos == n2.pos and n2.chars.startswith(n1.chars):
                            continue
                        ok = False
                        break
                if not ok:
                    fail = {'kind': 'pre-error-content-lost', 'detail': 'strict had parsed %s before the error at %r; tolerant returns %s' % (a, p2.pos, b)}
    if not fail and not c.get('ps') and not c.get('pre'):
        # the documented token_reader= argument: a tolerant walker driven with a reader the caller made (LatexTokenReader(s),
        # whose own tolerant_parsing default is False, so token errors are RAISED by the reader and recovered by the walker):
        # no exception, and what strict mode had completed before its error is still there
        try:
            from pylatexenc.latexnodes import LatexTokenReader
            from pylatexenc.latexnodes.parsers import LatexGeneralNodesParser
            w4 = parsecase.make_walker(c)
            p4, _ = w4.parse_content(LatexGeneralNodesParser(), token_reader=LatexTokenReader(s))
        except RecursionError:
            raise
        except Exception as e:
            p4 = None
            fail = {'kind': 'tolerant-raised', 'detail': 'tolerant walker with a caller-made LatexTokenReader: %s: %s' % (type(e).__name__, str(e)[:200])}
        if not fail and p4 is not None and kind2 == 'err':
            rn = getattr(p2, 'recovery_nodes', None)
            if rn is not None and isinstance(rn, N.LatexNodeList):
                a = [n for n in rn if n is not None]
                b = [n for n in p4 if n is not None]
                ok = len(a) <= len(b)
                for i, n1 in enumerate(a):
                    if not ok: break
                    n2 = b[i]
                    if dump.dump_node(n1) == dump.dump_node(n2):
                        continue
                    if i == len(a) - 1 and isinstance(n1, N.LatexCharsNode) and isinstance(n2, N.LatexCharsNode) and n1.pos == n2.pos and n2.chars.startswith(n1.chars):
                        continue
                    ok = False
                if not ok:
                    fail = {'kind': 'pre-error-content-lost', 'detail': 'tolerant walker with a caller-made LatexTokenReader on %r: strict had parsed %s before the error at %r; returned %s'
                                                                   % (s, [dump.dump_node(n) for n in a], p2.pos, [dump.dump_node(n) for n in b])}
        if not fail and p4 is not None and kind2 == 'err' and isinstance(getattr(p2, 'pos', None), int):
            # the top-level nodes that the ordinary tolerant parse completed before the position of the first error are
            # also what this parse returns first (the last of them, if text, up to trailing blanks)
            E = p2.pos
            a = [n for n in p if n is not None and n.pos_end is not None and n.pos_end < E]     # strictly before: a node ending AT the error may contain it
            while a and isinstance(a[-1], N.LatexCharsNode) and not a[-1].chars.strip():
                a.pop()         # blanks in front of the token that could not be read belong to that token (its pre-space)
            b = [n for n in p4 if n is not None]
            # (how the failing construct itself is recovered may differ between the two readers; what must not differ is that
            # the source before it is still covered by returned nodes — blanks aside)
            covered = set()
            for n in b:
                if n.pos is not None and n.pos_end is not None:
                    covered.update(range(n.pos, n.pos_end))
            need = set(q for n in a for q in range(n.pos, n.pos_end) if not s[q].isspace())
            ok = need <= covered
            if not ok:
                fail = {'kind': 'pre-error-content-lost', 'detail': 'tolerant walker with a caller-made LatexTokenReader on %r: first error at %r; the ordinary tolerant parse has %s before it; returned %s'
                                                               % (s, E, [dump.dump_node(n) for n in a], [dump.dump_node(n) for n in b])}
    return {'out': out, 'fail': fail, 'sig': 'T:' + kind2 + ':' + parseprops.sig_of(kind, p)}

shrink_candidates = parseprops.shrink_parse_case

LEVEL_TEXT = ('Theorems about the parser model in tolerant mode, for every closed-world context, every input and every walker start state: '
              'C06_total — with the model\'s fuel (8·len+40, shown sufficient: the proved need is 4·len+3) the tolerant parse returns a node '
              'list, never a parse error, another exception or fuel exhaustion (progress measure: every collector iteration and every '
              'recovery leaves the reader at or after where it was, run_adv); C06_agree — a strict success is reproduced identically by '
              'the tolerant parser (simulation for every task); C06_prefix — if strict fails, the nodes it had completed are continued by '
              'the tolerant result (same nodes, the last chars node possibly extended); run_mono — results do not depend on surplus fuel. '
              'The model is tied to the parser by comparing full tolerant tree dumps; the oracle checks totality (watchdog), strict/tolerant '
              'equality and the prefix clause on the implementation.')
LEVEL_NOTE = ('termination of the real code is observed with a wall-clock watchdog, proved for the model as a fuel bound; interpreter recursion limit '
              'is outside the model; closed world of argument parsers; Lean kernel + propext/Classical.choice/Quot.sound')
TECHNIQUE = 'Lean 4 proof (simulation strict->tolerant, fuel bound) + PARSE correspondence in both modes + prefix oracle'
