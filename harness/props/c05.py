# C05 — strict mode rejects unbalanced markup and fails only with a located parse error.
import parseprops, parsecase, dump, docgen
from common import show_str

THEOREMS = []
RULE = ('PARSE strict: every string of <= k atoms over the LaTeX-significant alphabets (default + custom contexts), random token soups; '
        'every single structural fault (unmatched { } $ \\( \\) \\[ \\] \\begin{x} \\end{x}) injected at every token boundary outside '
        'verbatim text and comments of generated well-formed documents; oracle: outcome is a tree or LatexWalkerParseError with '
        '0 <= pos <= len and (lineno, colno) = pos_to_lineno_colno(pos); faulty documents are rejected; sig = outcome class + error kind')
TRUSTED = ['tokenizer model (C11)', 'closed world of argument parsers (standard argument types, legacy verbatim parsers)']
ASSUMPTIONS = ['construct nesting below the interpreter recursion limit (about 140 levels)']
TRIVIAL_SIGS = ()
CASE_TIMEOUT = 10.0

def cases(tier, rng):
    for c in parseprops.base_cases(tier, rng, strict_only=True):
        yield c
    # fault injection on generated well-formed documents
    n = 150 if tier == 'quick' else 2500
    for i in range(n):
        ctxname = rng.choice(['default', 'A'])
        d = docgen.gen_doc(rng, ctxname, budget=rng.randint(2, 9))
        s = docgen.unparse(d)
        yield {'tol': False, 'ctx': ctxname if ctxname == 'default' else docgen.ctx_of(ctxname), 's': s, 'wf': True}
        for (pos, txt) in docgen.fault_sites(d, rng, ctxname):
            yield {'tol': False, 'ctx': ctxname if ctxname == 'default' else docgen.ctx_of(ctxname), 's': s[:pos] + txt + s[pos:], 'fault': [pos, txt], 'base': s}

to_line = parsecase.to_line

def run_impl(c):
    w, kind, p = parsecase.parse(c)
    out = parsecase.show_result(kind, p)
    s = c['s']
    fail = None
    if kind == 'crash':
        fail = {'kind': 'non-parse-error-exception', 'detail': '%s: %s' % (type(p).__name__, str(p)[:200])}
    elif kind == 'err':
        e = p
        if e.pos is None:
            fail = {'kind': 'error-without-position', 'detail': str(e)[:200]}
        elif not (0 <= e.pos <= len(s)):
            fail = {'kind': 'error-position-out-of-range', 'detail': 'pos=%r len=%d' % (e.pos, len(s))}
        elif (e.lineno, e.colno) != tuple(w.pos_to_lineno_colno(e.pos)):
            fail = {'kind': 'error-line-col-mismatch', 'detail': 'error says %r, pos %d maps to %r' % ((e.lineno, e.colno), e.pos, w.pos_to_lineno_colno(e.pos))}
    elif kind == 'ok':
        if p is None:
            fail = {'kind': 'strict-returned-none', 'detail': ''}
        elif c.get('fault'):
            fail = {'kind': 'unbalanced-accepted', 'detail': 'fault %r at %d of %r was accepted' % (c['fault'][1], c['fault'][0], c['base'])}
    if kind != 'err' and c.get('wf') and kind != 'ok':
        pass
    if c.get('wf') and kind == 'err':
        fail = {'kind': 'generator-document-rejected', 'detail': 'well-formed generated document rejected: %s' % out}
    return {'out': out, 'fail': fail, 'sig': ('F:' if c.get('fault') else 'S:') + parseprops.sig_of(kind, p)}

def shrink_candidates(c):
    if c.get('fault') or c.get('wf'):
        return
    for d in parseprops.shrink_parse_case(c):
        yield d

LEVEL_TEXT = 'under construction'
LEVEL_NOTE = 'under construction'
TECHNIQUE = 'Lean 4 proof (no-crash and located-error contracts over the parser model) + PARSE correspondence + fault-injection oracle'
