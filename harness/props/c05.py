# C05 — strict mode rejects unbalanced markup and fails only with a located parse error.
import itertools
import parseprops, parsecase, dump, docgen
from common import show_str

THEOREMS = ['Pylx.C05_no_crash_strict', 'Pylx.C05_no_crash_partial', 'Pylx.C05_no_crash_full_false', 'Pylx.C05_located', 'Pylx.C05_line_col',
            'Pylx.C05_shape_strict', 'Pylx.C05_parseTop_no_crash_strict', 'Pylx.C05_parseTop_located', 'Pylx.C05_parseTop_line_col',
            # "unbalanced markup is rejected" (PylxProofs/C05Bal*.lean)
            'Pylx.C05Bal.accepted_balanced_run', 'Pylx.C05Bal.accepted_balanced', 'Pylx.C05Bal.unbalanced_rejected',
            'Pylx.C05Bal.ins_bal', 'Pylx.C05Bal.fault_rejected', 'Pylx.C05Bal.C05_fault_rejected', 'Pylx.C05Bal.C05_fault_rejected_all', 'Pylx.C05Bal.C05_fault_rejected_top',
            'Pylx.C05Bal.stray_close_brace_rejected', 'Pylx.C05Bal.stray_open_brace_rejected',
            'Pylx.C05Bal.stray_close_paren_rejected', 'Pylx.C05Bal.stray_close_brack_rejected', 'Pylx.C05Bal.stray_end_rejected',
            'Pylx.C05Bal.stray_open_paren_rejected', 'Pylx.C05Bal.stray_open_brack_rejected', 'Pylx.C05Bal.stray_begin_rejected',
            'Pylx.C05Bal.stray_dollar_rejected']
PROOF_MODULES = ['C05', 'C05Bal']
RULE = ('PARSE strict: every string of <= k atoms over the LaTeX-significant alphabets (default + custom contexts), random token soups; '
        'every single structural fault (unmatched { } $ \\( \\) \\[ \\] \\begin{x} \\end{x}) injected at every token boundary, and every closing marker replaced by the closing marker of another construct (\\end{e} by \\end{zz}, \\) by \\] and conversely), outside '
        'verbatim text and comments of generated well-formed documents; oracle: outcome is a tree or LatexWalkerParseError with '
        '0 <= pos <= len and (lineno, colno) = pos_to_lineno_colno(pos); faulty documents are rejected; sig = outcome class + error kind')
TRUSTED = ['tokenizer model (C11)', 'closed world of argument parsers (standard argument types, legacy verbatim parsers)']
ASSUMPTIONS = ['construct nesting below the interpreter recursion limit (about 140 levels)']
TRIVIAL_SIGS = ()
CASE_TIMEOUT = 10.0

def cases(tier, rng):
    # deep nesting: the interpreter's recursion limit is a runtime effect outside the model (known finding F18)
    for s in ['{' * 200 + '}' * 200, '$' + '{' * 180 + 'x' + '}' * 180 + '$', '\\emph{' * 150 + '}' * 150]:
        yield {'tol': False, 'ctx': 'default', 's': s, 'deep': True}
    for c in parseprops.base_cases(tier, rng, strict_only=True):
        yield c
    # histories: strict parses that fail inside (nested) verbatim arguments, groups or formulas, then a faulty document that
    # must still be rejected and a well-formed one that must still be accepted (the model answers for the last document alone)
    import gen as _gen
    for ctxn, pres, docs in () and (('A', ['\\v{if(a){b', '\\v{{{', '\\v[a[b', '{\\v{x{', '$\\v(y(('], ['a \\v{x}} b', '\\v{x}}', '\\v{f{y}}} z', '\\v[x]] b', '\\v{x} ok', 'a \\v(p)) b', '{\\v{x}}} c']),
                             ('C', ['\\v{if(a){b', '\\v{{{{'], ['a \\v{x}} b', '\\v{x}}', '\\v{x} {y}']),
                             ('default', ['{{{\\end{x}', '$\\verb|', '\\begin{verbatim}x', '\\[ {'], ['a}', '{a}} b', '$x$ }', '\\verb|x|}', 'ok {a} $b$'])):
        for k in (1, 2, 3):
            for pre in itertools.product(pres, repeat=k) if k == 1 else [tuple(rng.choice(pres) for _ in range(k)) for _ in range(6)]:
                for s in docs:
                    yield {'tol': False, 'ctx': _gen.CONTEXTS[ctxn], 's': s, 'pre': list(pre)}
    # located errors under the walker's line / column offset keyword arguments (oracle only)
    FAULTY = ['{abc', 'a\n{b', 'a\nb}\nc', '$x', 'a\n\n\\[ x', '\\begin{e}\nx', 'x\n\\end{e}', 'a\n b \\emph', '{a\n{b}\n', 'a}\n', '\\(x$\n']
    for offs in [[0, 0, 0], [1, 0, 0], [0, 3, 0], [2, 0, 5], [7, 1, 1], [0, 0, 2], [1, 4, 0]]:
        for s in FAULTY:
            yield {'tol': False, 'ctx': 'default', 's': s, 'offs': offs}
        for _ in range(15 if tier == 'quick' else 300):
            s = ''.join(rng.choice(['a', '\n', ' ', '{', '}', '$', '\\x', '\\begin{e}', '\\end{e}', '\n\n']) for _ in range(rng.randint(1, 8)))
            yield {'tol': False, 'ctx': 'default', 's': s, 'offs': offs}
    # fault injection on generated well-formed documents
    n = 300 if tier == "quick" else 4000
    for i in range(n):
        ctxname = rng.choice(['default', 'A'])
        d = docgen.gen_doc(rng, ctxname, budget=rng.randint(2, 9))
        s = docgen.unparse(d)
        yield {'tol': False, 'ctx': ctxname if ctxname == 'default' else docgen.ctx_of(ctxname), 's': s, 'wf': True}
        for (pos, txt) in docgen.fault_sites(d, rng, ctxname):
            yield {'tol': False, 'ctx': ctxname if ctxname == 'default' else docgen.ctx_of(ctxname), 's': s[:pos] + txt + s[pos:], 'fault': [pos, txt], 'base': s}
        if not any(docgen.STRUCTURAL & set(v) for v in docgen.verbatim_texts(d)):
            for (pos, oldm, newm) in docgen.replacement_faults(d)[:6]:
                assert s[pos:pos+len(oldm)] == oldm, (s, pos, oldm)
                yield {'tol': False, 'ctx': ctxname if ctxname == 'default' else docgen.ctx_of(ctxname), 's': s[:pos] + newm + s[pos+len(oldm):],
                       'fault': [pos, oldm + ' -> ' + newm], 'base': s}

def to_line(c):
    if c.get('deep') or c.get('offs'):
        return None
    return parsecase.to_line(c)

def _line_col(s, pos, offs):
    """line and column of a position, computed from the text: first line has number offs[0]; columns count from
    offs[1] on the first line and from offs[2] on the others"""
    line = s.count('\n', 0, pos)
    start = s.rfind('\n', 0, pos) + 1
    return (line + offs[0], pos - start + (offs[1] if line == 0 else offs[2]))

def run_impl(c):
    w, kind, p = parsecase.parse(c)          # runs the earlier parses of c['pre'] first
    out = parsecase.show_result(kind, p)
    s = c['s']
    fail = None
    if kind == 'crash':
        fail = {'kind': 'non-parse-error-exception', 'detail': '%s: %s' % (type(p).__name__, str(p)[:200])}
    elif kind == 'err':
        e = p
        if e.pos is None:
            fail = {'kind': 'error-without-position', 'detail': str(e)[:200]}
        elif not (0 <= e.pos <= len(s)):
            fail = {'kind': 'error-position-out-of-range', 'detail': 'pos=%r len=%d' % (e.pos, len(s))}
        elif (e.lineno, e.colno) != _line_col(s, e.pos, c.get('offs') or [1, 0, 0]):
            fail = {'kind': 'error-line-col-mismatch', 'detail': 'walker offsets %r: error says %r, pos %d is (line, column) %r' % (c.get('offs') or [1, 0, 0], (e.lineno, e.colno), e.pos, _line_col(s, e.pos, c['offs']))}
        elif (e.lineno, e.colno) != tuple(w.pos_to_lineno_colno(e.pos)):
            fail = {'kind': 'error-line-col-mismatch', 'detail': 'error says %r, pos %d maps to %r' % ((e.lineno, e.colno), e.pos, w.pos_to_lineno_colno(e.pos))}
    elif kind == 'ok':
        if p is None:
            fail = {'kind': 'strict-returned-none', 'detail': ''}
        elif c.get('fault'):
            fail = {'kind': 'unbalanced-accepted', 'detail': 'fault %r at %d of %r was accepted' % (c['fault'][1], c['fault'][0], c['base'])}
    if kind != 'err' and c.get('wf') and kind != 'ok':
        pass
    if c.get('wf') and kind == 'err':
        fail = {'kind': 'generator-document-rejected', 'detail': 'well-formed generated document rejected: %s' % out}
    return {'out': out, 'fail': fail, 'sig': ('F:' if c.get('fault') else 'S:') + parseprops.sig_of(kind, p)}

def shrink_candidates(c):
    if c.get('fault') or c.get('wf'):
        return
    for d in parseprops.shrink_parse_case(c):
        yield d

LEVEL_TEXT = ('Theorems about the strict parser model, for every closed-world context, every input string, every walker start state and every '
              'amount of fuel: C05_no_crash_strict — the result is never one of the model\'s explicit Python-exception outcomes (IndexError, '
              'TypeError, AttributeError, ValueError, KeyError sites are all modelled as `crash`), only a tree, a LatexWalkerParseError or fuel; '
              'C05_located — a parse error carries a position 0 <= p <= len; C05_line_col — the reported line/column are those of that '
              'position (via the C20 theorem); C05_shape_strict — the outcome shape. C05_no_crash_partial extends crash-freedom to tolerant '
              'mode under an explicit hypothesis on exotic start states, whose necessity is kernel-checked (C05_no_crash_full_false). '
              'The "every single injected unmatched delimiter is rejected" clause is a theorem on the fragment of C02_core: '
              'C05Bal.accepted_balanced — for every context whose specials strings are plain (no \\ % { } $) and every input string without '
              'calls of verbatim constructs (\\verb, verbatim-like environments, v arguments; a decidable scan VerbFree), acceptance by the strict '
              'parser implies that, outside comments and with \\x read as one unit, the input has as many { as }, an even number of $, as many '
              '\\( as \\), \\[ as \\], \\begin as \\end (a contract over all parser tasks, every fuel); C05Bal.unbalanced_rejected — such an '
              'unbalanced input gets a located parse error; C05Bal.C05_fault_rejected (+ one corollary per fault kind, stray_*_rejected, and '
              'the all-boundaries form C05_fault_rejected_all over the enumeration itemPaths, and the top-level form C05_fault_rejected_top) — for every document of Doc.Core without verbatim constructs (docOk), each of the nine '
              'faults { } $ \\( \\) \\[ \\] \\begin{n} \\end{n} inserted at any item boundary or argument boundary of any nesting depth outside '
              'comments is rejected; the hypotheses are shown necessary by kernel-checked witnesses that the library reproduces. Documents '
              'with \\verb / verbatim environments / v arguments and documents outside Doc.Core stay with the fault enumeration (oracle). '
              'The model is tied to the parser by comparing outcome class, '
              'error kind, position, line and column on bounded-exhaustive atom strings, soups and faulty documents.')
LEVEL_NOTE = ('closed world of argument parsers; the fault-rejection clause is proved for Doc.Core documents without verbatim constructs in contexts '
              'with plain specials (all nine fault kinds, any depth) and is fault enumeration beyond that; tolerant-mode exotic states (escape character '
              'that is also a group delimiter with macros disabled) excluded by hypothesis; Lean kernel + propext/Classical.choice/Quot.sound')
TECHNIQUE = 'Lean 4 proof (no-crash and located-error contracts over the parser model) + PARSE correspondence + fault-injection oracle'
