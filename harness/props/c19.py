# C19 — a node visitor sees every node exactly once, children first, in document order,
# and hands each parent the results of its children (None placeholders for absent arguments).
import logging

THEOREMS = ['Pylx.C19_results', 'Pylx.C19_order', 'Pylx.C19_once', 'Pylx.C19_once_nodup',
            'Pylx.C19_children_first', 'Pylx.C19_returns_own_callback', 'Pylx.C19_none_containers']
RULE = ('VISIT (followed by a second visitor whose callbacks return falsy values 0, \'\', [], False, (), {}: a parent is handed exactly what its children returned): a recording LatexNodesVisitor subclass is started on (a) strict parses of generated documents '
        '(default context and a context with macros/environments/specials taking every standard argument kind, '
        'node-list valued arguments, math-mode arguments), (b) tolerant parses of all short atom sequences and of random '
        'token soups, (c) the same trees with nodelist=None / nodeargd=None / None argument slots / node-list arguments '
        'injected; the tree is dumped with dump.py, the model replays the visit on the dump and the callback logs '
        '(callback kind, pos, pos_end, named visited_results_* received, nested) are compared; oracle on the implementation: '
        'the sequence of visited objects (by id()) equals the post-order of the objects reachable through nodelist / '
        'nodeargd.argnlist computed by an independent walker (hence exactly once, children before parents, arguments '
        'before body, document order), each callback received exactly the return values (by identity) of its children '
        'in order with None for None slots, and start() returns the root callback value')
TRUSTED = ['harness/dump.py renders the tree faithfully (the model driver re-prints the parsed tree and refuses a text that is not canonical)',
           'object identity of results: the recording callbacks return fresh objects, the oracle compares with `is`']
ASSUMPTIONS = ['nesting depth of generated documents is bounded by the interpreter recursion limit (the theorems have no depth bound)',
               'ParsedArguments.argnlist is a list (the constructor guarantees it); a hand-set argnlist=None is checked by the oracle only']
TRIVIAL_SIGS = ('tol:empty', 'strict:empty')
CASE_TIMEOUT = 10.0

logging.disable(logging.CRITICAL)

# ----------------------------------------------------------------------------- contexts

_CTX = {}

def _ctx(name):
    if name in _CTX:
        return _CTX[name]
    from pylatexenc import latexwalker, macrospec
    from pylatexenc.latexnodes import parsers, LatexArgumentSpec, ParsingStateDeltaEnterMathMode
    db = latexwalker.get_default_latex_context_db()
    if name == 'c':
        A = LatexArgumentSpec
        db.add_context_category('c19', prepend=True, macros=[
            macrospec.MacroSpec('two', '{{'), macrospec.MacroSpec('opt', '[{'), macrospec.MacroSpec('star', '*[{'),
            macrospec.MacroSpec('oo', [A('[', 'a'), A('[', 'b'), A('{', 'c')]),
            macrospec.MacroSpec('mm', [A('{', 'a', parsing_state_delta=ParsingStateDeltaEnterMathMode())]),
            macrospec.MacroSpec('exl', [A(parsers.LatexExpressionParser(return_full_node_list=True), 'a')]),
            macrospec.MacroSpec('mk', [A(parsers.LatexOptionalCharsMarkerParser(['*', '+'], return_full_node_list=True), 'a'), A('{', 'b')]),
            macrospec.MacroSpec('tk', [A(parsers.LatexTackOnInformationFieldMacrosParser(['label', 'tag'], allow_multiple=True), 'a')]),
            macrospec.MacroSpec('dd', [A('d()', 'a'), A('t+', 'b'), A('m', 'c')]),
            macrospec.MacroSpec('cs', [A(parsers.LatexCharsCommaSeparatedListParser(), 'a')]),
            macrospec.MacroSpec('cg', [A(parsers.LatexCharsGroupParser(), 'a')]),
            macrospec.MacroSpec('vv', [A('v', 'a')]), macrospec.MacroSpec('vo', [A('[', 'a'), A('v', 'b')]),
        ], environments=[
            macrospec.EnvironmentSpec('ea', '[{'), macrospec.EnvironmentSpec('em', '{', is_math_mode=True),
            macrospec.EnvironmentSpec('eo', [A('[', 'a'), A('[', 'b')]),
        ], specials=[
            macrospec.SpecialsSpec('!', '{'), macrospec.SpecialsSpec('?[', None), macrospec.SpecialsSpec('@', '[{'),
        ])
    _CTX[name] = db
    return db

def _parse(s, ctx, tolerant):
    from pylatexenc import latexwalker
    from pylatexenc.latexnodes import parsers
    w = latexwalker.LatexWalker(s, latex_context=_ctx(ctx), tolerant_parsing=tolerant)
    return w.parse_content(parsers.LatexGeneralNodesParser())[0]

# ----------------------------------------------------------------------------- independent walker

def _kids(o):
    """[(kwarg name, 'one'|'many', child object | list | None)] — the children of o through
    nodeargd / argnlist / nodelist, arguments before body; written without the visitor's helpers"""
    from pylatexenc.latexnodes import nodes as N, ParsedArguments
    if isinstance(o, ParsedArguments):
        return [('argnlist', 'many', o.argnlist)]
    if isinstance(o, N.LatexNodeList):
        return [('nodelist', 'many', o.nodelist)]
    if isinstance(o, (N.LatexGroupNode, N.LatexMathNode)):
        return [('nodelist', 'many', o.nodelist)]
    if isinstance(o, (N.LatexMacroNode, N.LatexSpecialsNode)):
        return [('arguments', 'one', o.nodeargd)]
    if isinstance(o, N.LatexEnvironmentNode):
        return [('arguments', 'one', o.nodeargd), ('body', 'many', o.nodelist)]
    return []

def _children(o):
    out = []
    for _, how, v in _kids(o):
        if v is None:
            continue
        if how == 'one':
            out.append(v)
        else:
            out.extend(c for c in v if c is not None)
    return out

def _postorder(root):
    """iterative post-order of everything reachable from root (objects, with multiplicity)"""
    out = []
    stack = [(root, False)]
    while stack:
        o, done = stack.pop()
        if done:
            out.append(o)
            continue
        stack.append((o, True))
        for c in reversed(_children(o)):
            stack.append((c, False))
    return out

def _preorder(root):
    out = []
    stack = [root]
    while stack:
        o = stack.pop()
        out.append(o)
        stack.extend(reversed(_children(o)))
    return out

# ----------------------------------------------------------------------------- injection of None shapes

def _inject(root, inj):
    """apply [(what, k)] to the tree in place; k indexes (mod n) the candidates in pre-order.
       'b0' nodelist=None, 'a0' nodeargd=None, 's0' an argnlist slot=None, 'gl' a group argument
       becomes a LatexNodeList argument, 'al0' argnlist=None (not representable in the model)"""
    from pylatexenc.latexnodes import nodes as N
    applied = []
    for what, k in inj:
        objs = _preorder(root)
        if what == 'b0':
            c = [o for o in objs if isinstance(o, (N.LatexGroupNode, N.LatexMathNode, N.LatexEnvironmentNode)) and o.nodelist is not None]
            if c:
                c[k % len(c)].nodelist = None; applied.append(what)
        elif what == 'a0':
            c = [o for o in objs if isinstance(o, (N.LatexMacroNode, N.LatexSpecialsNode, N.LatexEnvironmentNode)) and o.nodeargd is not None]
            if c:
                c[k % len(c)].nodeargd = None; applied.append(what)
        elif what == 'al0':
            c = [o for o in objs if isinstance(o, (N.LatexMacroNode, N.LatexSpecialsNode, N.LatexEnvironmentNode)) and o.nodeargd is not None]
            if c:
                c[k % len(c)].nodeargd.argnlist = None; applied.append(what)
        elif what in ('s0', 'gl'):
            c = []
            for o in objs:
                if isinstance(o, (N.LatexMacroNode, N.LatexSpecialsNode, N.LatexEnvironmentNode)) and o.nodeargd is not None \
                   and isinstance(o.nodeargd.argnlist, list):
                    for i, a in enumerate(o.nodeargd.argnlist):
                        if a is None:
                            continue
                        if what == 's0' or (isinstance(a, N.LatexGroupNode) and a.nodelist is not None):
                            c.append((o, i))
            if c:
                o, i = c[k % len(c)]
                if what == 's0':
                    o.nodeargd.argnlist[i] = None
                else:
                    g = o.nodeargd.argnlist[i]
                    o.nodeargd.argnlist[i] = g.nodelist if isinstance(g.nodelist, N.LatexNodeList) \
                        else N.LatexNodeList(list(g.nodelist))
                applied.append(what)
    return applied

# ----------------------------------------------------------------------------- recording visitor

class _Rec(object):
    __slots__ = ('tag', 'obj', 'kw')
    def __init__(self, tag, obj, kw):
        self.tag = tag; self.obj = obj; self.kw = kw

def _make_visitor():
    from pylatexenc.latexnodes import nodes as N
    class RecVisitor(N.LatexNodesVisitor):
        def __init__(self):
            self.log = []
        def _cb(self, tag, obj, kw):
            r = _Rec(tag, obj, list(kw.items()))
            self.log.append(r)
            return r
        def visit_chars_node(self, node, **kw): return self._cb('C', node, kw)
        def visit_comment_node(self, node, **kw): return self._cb('%', node, kw)
        def visit_group_node(self, node, **kw): return self._cb('G', node, kw)
        def visit_macro_node(self, node, **kw): return self._cb('M', node, kw)
        def visit_environment_node(self, node, **kw): return self._cb('E', node, kw)
        def visit_specials_node(self, node, **kw): return self._cb('S', node, kw)
        def visit_math_node(self, node, **kw): return self._cb('F', node, kw)
        def visit_node_list(self, nodes, **kw): return self._cb('L', nodes, kw)
        def visit_parsed_arguments(self, pa, **kw): return self._cb('A', pa, kw)
        def visit_unknown_node(self, node, **kw): return self._cb('?', node, kw)
        def visit(self, node, **kw): return self._cb('V', node, kw)
    return RecVisitor()

def _show(v):
    """canonical text of a visited_results value / callback return value — mirror of Pylx.showRes
       (iterative: results nest as deep as the tree)"""
    out = []
    stack = [v]
    while stack:
        x = stack.pop()
        if isinstance(x, tuple) and x and x[0] == '#':
            out.append(x[1]); continue
        if x is None:
            out.append('None')
        elif isinstance(x, str):
            out.append("''" if x == '' else "'?str'")
        elif isinstance(x, list):
            items = [('#', '[')]
            for i, y in enumerate(x):
                if i:
                    items.append(('#', ' '))
                items.append(y)
            items.append(('#', ']'))
            stack.extend(reversed(items))
        elif isinstance(x, _Rec):
            o = x.obj
            p = getattr(o, 'pos', None); e = getattr(o, 'pos_end', None)
            if x.tag == 'A':
                p = e = None     # a ParsedArguments object has no position in the canonical tree
            items = [('#', '(%s %s %s' % (x.tag, 'None' if p is None else p, 'None' if e is None else e))]
            for k, y in x.kw:
                name = k[len('visited_results_'):] if k.startswith('visited_results_') else '!' + k
                items.append(('#', ' ' + name + '='))
                items.append(y)
            items.append(('#', ')'))
            stack.extend(reversed(items))
        else:
            out.append('?' + type(x).__name__)
    return ''.join(out)

# ----------------------------------------------------------------------------- oracle

def _oracle(root, vis, ret):
    """the property, stated on the implementation's run; None or (kind, detail)"""
    expected = _postorder(root)
    got = [r.obj for r in vis.log]
    exp_ids = [id(o) for o in expected]
    got_ids = [id(o) for o in got]
    if got_ids != exp_ids:
        import collections
        ce = collections.Counter(exp_ids); cg = collections.Counter(got_ids)
        if ce != cg:
            missing = [type(o).__name__ + '@' + str(getattr(o, 'pos', None)) for o in expected if cg[id(o)] < ce[id(o)]]
            extra = [type(o).__name__ + '@' + str(getattr(o, 'pos', None)) for o in got if cg[id(o)] > ce[id(o)]]
            return ('not-exactly-once', 'reachable objects not visited as often as they occur: missing %r, too often %r'
                    % (missing[:5], extra[:5]))
        i = next(j for j in range(len(exp_ids)) if exp_ids[j] != got_ids[j])
        return ('wrong-order', 'callback %d visits %s@%s, post-order (arguments, body, then parent; document order) has %s@%s'
                % (i, type(got[i]).__name__, getattr(got[i], 'pos', None), type(expected[i]).__name__, getattr(expected[i], 'pos', None)))
    # results: by identity of the values returned by the children's callbacks
    result_of = {}
    for r in vis.log:
        result_of.setdefault(id(r.obj), []).append(r)
    # (an object that occurs at several places has several results; any of them is acceptable there)
    def take(o):
        return result_of[id(o)]
    for r in vis.log:
        spec = _kids(r.obj)
        names = [k for k, _ in r.kw]
        want = ['visited_results_' + n for n, _, _ in spec]
        if names != want:
            return ('wrong-results', '%s@%s received keyword arguments %r, expected %r' % (r.tag, getattr(r.obj, 'pos', None), names, want))
        for (n, how, v), (_, val) in zip(spec, r.kw):
            if v is None:
                continue        # the property does not say what a None container yields (the model does: correspondence)
            if how == 'one':
                if not any(val is x for x in take(v)):
                    return ('wrong-results', '%s@%s: %s is not the value returned by the arguments callback' % (r.tag, getattr(r.obj, 'pos', None), n))
            else:
                if not isinstance(val, list) or len(val) != len(v):
                    return ('wrong-results', '%s@%s: %s has %s entries for %d children' %
                            (r.tag, getattr(r.obj, 'pos', None), n, len(val) if isinstance(val, list) else type(val).__name__, len(v)))
                for i, (c, x) in enumerate(zip(v, val)):
                    if c is None:
                        if x is not None:
                            return ('wrong-results', '%s@%s: %s[%d] should be the None placeholder of an absent argument' % (r.tag, getattr(r.obj, 'pos', None), n, i))
                    elif not any(x is y for y in take(c)):
                        return ('wrong-results', '%s@%s: %s[%d] is not the value returned by the callback of child %d' % (r.tag, getattr(r.obj, 'pos', None), n, i, i))
    if not vis.log or ret is not vis.log[-1] or vis.log[-1].obj is not root:
        return ('wrong-results', 'start() did not return the value of the root callback')
    return None

def _falsy_pass(root):
    """a second visitor whose callbacks return falsy values (0, '', [], False, (), {}): a parent must be handed exactly
    what its children returned — a falsy result is not the None placeholder of an absent argument"""
    from pylatexenc.latexnodes import nodes as N
    FALSY = [lambda: 0, lambda: '', lambda: [], lambda: False, lambda: (), lambda: {}, lambda: 0.0]
    class FalsyVisitor(N.LatexNodesVisitor):
        def __init__(self):
            self.ret = {}      # id(object) -> list of returned values
            self.calls = []
        def visit(self, node, **kw):
            v = FALSY[(len(self.calls) + (getattr(node, 'pos', 0) or 0)) % len(FALSY)]()
            self.ret.setdefault(id(node), []).append(v)
            self.calls.append((node, kw))
            return v
    vis = FalsyVisitor()
    try:
        vis.start(root)
    except RecursionError:
        raise
    except Exception as e:
        return ('visitor-exception', 'visitor with falsy results: %s: %s' % (type(e).__name__, e))
    same = lambda x, y: x is y or (type(x) is type(y) and x == y and not isinstance(x, (list, dict)))
    for obj, kw in vis.calls:
        for (n, how, v) in _kids(obj):
            val = kw.get('visited_results_' + n)
            if v is None:
                continue
            if how == 'one':
                if not any(same(val, y) for y in vis.ret.get(id(v), [])):
                    return ('wrong-results', '%s@%s: %s=%r is not the (falsy) value its child returned (%r)'
                            % (type(obj).__name__, getattr(obj, 'pos', None), n, val, vis.ret.get(id(v))))
            else:
                if not isinstance(val, list) or len(val) != len(v):
                    return ('wrong-results', '%s@%s: %s has the wrong length' % (type(obj).__name__, getattr(obj, 'pos', None), n))
                for i, (c, x) in enumerate(zip(v, val)):
                    if c is None:
                        if x is not None:
                            return ('wrong-results', '%s@%s: %s[%d] should be None' % (type(obj).__name__, getattr(obj, 'pos', None), n, i))
                    elif not any(same(x, y) for y in vis.ret.get(id(c), [])):
                        return ('wrong-results', '%s@%s: %s[%d]=%r is not the (falsy) value child %d returned (%r)'
                                % (type(obj).__name__, getattr(obj, 'pos', None), n, i, x, i, vis.ret.get(id(c))))
    return None

# ----------------------------------------------------------------------------- building the tree of a case

def _build(c):
    """returns (root or None, status, applied injections)"""
    from pylatexenc.latexwalker import LatexWalkerError
    try:
        root = _parse(c['s'], c.get('ctx', 'd'), c['k'] != 'strict')
    except LatexWalkerError as e:
        return None, 'parse-error', []
    except RecursionError:
        return None, 'parse-recursion', []
    except Exception as e:
        # a crash of the parser is not this property's business (C05/C06); no tree, nothing to visit
        return None, 'parse-crash-' + type(e).__name__, []
    if root is None:
        return None, 'parse-none', []
    pick = c.get('root')
    if pick is not None:
        objs = _preorder(root)
        root = objs[pick % len(objs)]
    applied = _inject(root, c.get('inj') or [])
    return root, 'ok', applied

def _representable(root):
    """the model's Node type needs integer positions on nodes, node entries in bodies, list-valued argnlist"""
    from pylatexenc.latexnodes import nodes as N, ParsedArguments
    for o in _preorder(root):
        if isinstance(o, ParsedArguments):
            if o.argnlist is None:
                return 'argnlist-None'
            for a in o.argnlist:
                if a is not None and not isinstance(a, (N.LatexNode, N.LatexNodeList)):
                    return 'arg-' + type(a).__name__
        elif isinstance(o, N.LatexNodeList):
            if o.nodelist is None or any(x is None for x in o.nodelist):
                return 'None-in-nodelist'
        elif isinstance(o, N.LatexNode):
            if o.pos is None or o.pos_end is None:
                return 'pos-None'
            nl = getattr(o, 'nodelist', None)
            if nl is not None and any(x is None for x in nl):
                return 'None-in-nodelist'
            if type(o) not in (N.LatexCharsNode, N.LatexCommentNode, N.LatexGroupNode, N.LatexMacroNode,
                               N.LatexEnvironmentNode, N.LatexSpecialsNode, N.LatexMathNode):
                return 'node-' + type(o).__name__
        else:
            return 'obj-' + type(o).__name__
    return None

def _dump_root(root):
    import dump
    from pylatexenc.latexnodes import nodes as N, ParsedArguments
    if isinstance(root, ParsedArguments):
        return '<' + ' '.join(dump.dump_arg(a) for a in root.argnlist) + '>'
    if isinstance(root, N.LatexNodeList):
        return dump.dump_arg(root)
    return dump.dump_node(root)

def to_line(c):
    root, st, _ = _build(c)
    if root is None or _representable(root) is not None:
        return None
    return 'VISIT\t' + _dump_root(root)

def _depth(root):
    best = 0
    stack = [(root, 0)]
    while stack:
        o, d = stack.pop()
        if d > best:
            best = d
        for ch in _children(o):
            stack.append((ch, d + 1))
    return best

def _sig(c, root, applied):
    from pylatexenc.latexnodes import nodes as N, ParsedArguments
    objs = _preorder(root)
    f = set()
    for o in objs:
        if isinstance(o, ParsedArguments):
            if o.argnlist is None:
                f.add('argnlist=None')
            else:
                if any(a is None for a in o.argnlist): f.add('slot=None')
                if any(isinstance(a, N.LatexNodeList) for a in o.argnlist): f.add('arg-nodelist')
        elif isinstance(o, N.LatexNodeList):
            pass
        else:
            if hasattr(o, 'nodeargd') and o.nodeargd is None:
                f.add('nodeargd=None')
            if hasattr(o, 'nodelist'):
                if o.nodelist is None: f.add('nodelist=None')
                elif len(o.nodelist) == 0: f.add('empty-body')
            if isinstance(o, N.LatexSpecialsNode) and o.nodeargd is not None and o.nodeargd.argnlist: f.add('specials-args')
            if isinstance(o, N.LatexEnvironmentNode) and o.nodeargd is not None and o.nodeargd.argnlist: f.add('env-args')
    d = _depth(root)
    db = '0' if d == 0 else '1-3' if d <= 3 else '4-8' if d <= 8 else '9+'
    if len(objs) <= 1 and not isinstance(root, N.LatexNode):
        return ('tol' if c['k'] != 'strict' else 'strict') + ':empty'
    return '%s%s depth%s %s' % ('strict' if c['k'] == 'strict' else 'tol', '+inj' if applied else '', db, ','.join(sorted(f)) or 'plain')

def run_impl(c):
    root, st, applied = _build(c)
    if root is None:
        # strict parse errors / None results are outside the property's quantifier (generator miss)
        return {'out': None, 'fail': None, 'sig': ('strict' if c['k'] == 'strict' else 'tol') + ':' + st}
    vis = _make_visitor()
    try:
        ret = vis.start(root)
    except RecursionError:
        raise
    except Exception as e:
        import traceback
        where = traceback.extract_tb(e.__traceback__)[-1]
        return {'out': 'EXC ' + type(e).__name__,
                'fail': {'kind': 'visitor-exception', 'detail': '%s: %s at %s:%d' % (type(e).__name__, e, where.filename.split('/')[-1], where.lineno)},
                'sig': 'visitor-exception'}
    bad = _oracle(root, vis, ret)
    if not bad:
        bad = _falsy_pass(root)
    if not bad:
        # "starting a visitor on any tree": the same visitor object started again (same tree, then once more) makes the
        # same callbacks again — nothing an earlier start() left on the object may shorten a later traversal
        first = [_show(r) for r in vis.log]
        for again in (2, 3):
            del vis.log[:]
            try:
                ret2 = vis.start(root)
            except Exception as e:
                bad = ('visitor-exception', 'start() number %d on the same visitor object raised %s: %s' % (again, type(e).__name__, e)); break
            b2 = _oracle(root, vis, ret2)
            if b2:
                bad = (b2[0], 'start() number %d on the same visitor object: %s' % (again, b2[1])); break
            if [_show(r) for r in vis.log] != first:
                bad = ('not-exactly-once', 'start() number %d on the same visitor object made %d callbacks, the first start() made %d' % (again, len(vis.log), len(first))); break
        else:
            del vis.log[:]
            vis.start(root)
    fail = {'kind': bad[0], 'detail': bad[1]} if bad else None
    unrep = _representable(root)
    sig = _sig(c, root, applied)
    if unrep is not None:
        return {'out': None, 'fail': fail, 'sig': sig + ' unrepresentable:' + unrep}
    out = '%d | %s | %s' % (len(vis.log), ' '.join(_show(r) for r in vis.log), _show(ret))
    return {'out': out, 'fail': fail, 'sig': sig}

# ----------------------------------------------------------------------------- generators

# atoms for exhaustive short sequences (tolerant mode, default context)
SMALL = ['a', ' ', '{', '}', '[', ']', '$', '%c\n', '&', '~', '\\(', '\\)', '\\\\', '\\textbf', '\\frac', '\\sqrt',
         '\\item', '\\verb', '\\begin{itemize}', '\\end{itemize}', '\\begin{equation}', '\\end{equation}',
         '\\begin{tabular}', '\\begin{verbatim}', '\\x']
SOUP_D = SMALL + ['\n', '$$', '--', '``', '*', '\\[', '\\]', '\\section', '\\verb|x|', '\\begin', '\\end', '\\end{tabular}',
                  '\\end{verbatim}', '\\begin{x}', '\\end{x}', '\\begin{', '\\end{', '\\', '\\begin{array}', '\\end{array}',
                  '\\begin{enumerate}', '\\end{enumerate}', '\\left', '\\right', '(', ')', '\\href', '\\input',
                  '\\documentclass', '\\newcommand', '\\cite', '\\footnote', '\\begin{lstlisting}', '\\end{lstlisting}', '\\alpha', '^', '_']
SOUP_C = SOUP_D + ['\\vv', '\\vv||', '\\vv{}', '|', '\\vo', '\\two', '\\opt', '\\star', '\\oo', '\\mm', '\\exl', '\\mk', '\\tk', '\\label', '\\tag', '\\dd', '+', '\\cs', '\\cg', ',',
                   '\\begin{ea}', '\\end{ea}', '\\begin{em}', '\\end{em}', '\\begin{eo}', '\\end{eo}', '!', '?[', '@']

def _gen_doc(rng, ctx, budget, depth, math=False):
    """a strictly parseable document (string); every node kind, absent/present optional arguments,
       empty bodies, environments and specials with arguments, math inside arguments"""
    parts = []
    n = rng.randint(0, 4) if depth > 0 else rng.randint(1, 6)
    for _ in range(n):
        if budget[0] <= 0:
            break
        budget[0] -= 1
        sub = lambda m=math: _gen_doc(rng, ctx, budget, depth + 1, m) if depth < 9 and budget[0] > 0 else rng.choice(['', 'a', 'x y'])
        kinds = ['chars', 'chars', 'group', 'macro0', 'macro1', 'macro2', 'sqrt', 'tok', 'comment']
        if not math:
            kinds += ['math', 'math', 'env', 'env', 'special', 'section', 'item', 'nl', 'verb']
        if ctx == 'c':
            kinds += ['cmac', 'cmac', 'cmac']
            if not math:
                kinds += ['cenv', 'cspecial']
        k = rng.choice(kinds)
        if k == 'chars':
            parts.append(rng.choice(['a', 'b c', ' ', 'x1', '\n', '.', 'y ']))
        elif k == 'comment':
            parts.append('%' + rng.choice(['', 'c', ' d ']) + '\n' + rng.choice(['', ' ', '  ']))
        elif k == 'group':
            parts.append('{' + sub() + '}')
        elif k == 'macro0':
            parts.append(rng.choice(['\\alpha', '\\beta ', '\\ldots', '\\%', '\\unknownmacro ']) )
        elif k == 'macro1':
            parts.append(rng.choice(['\\textbf', '\\emph', '\\textit', '\\mathrm']) + rng.choice(['', ' ']) + '{' + sub() + '}')
        elif k == 'macro2':
            parts.append('\\frac{' + sub() + '}{' + sub() + '}')
        elif k == 'sqrt':
            parts.append('\\sqrt' + (('[' + rng.choice(['3', 'n', '']) + ']') if rng.random() < 0.5 else '') + '{' + sub() + '}')
        elif k == 'tok':
            parts.append(rng.choice(['\\textbf a', '\\frac12', '\\sqrt x', '\\emph\\alpha ', '\\frac a{b}']))
        elif k == 'math':
            o, cl = rng.choice([('$', '$'), ('$$', '$$'), ('\\(', '\\)'), ('\\[', '\\]')])
            body = _gen_doc(rng, ctx, budget, depth + 1, True) if depth < 9 else 'x'
            if o in ('$', '$$') and body == '':
                body = rng.choice(['x', ' '])
            parts.append(o + body + cl)
        elif k == 'env':
            e = rng.choice(['itemize', 'enumerate', 'equation', 'align', 'tabular', 'array', 'x', 'center', 'verbatim', 'document'])
            if e in ('equation', 'align'):
                parts.append('\\begin{%s}' % e + _gen_doc(rng, ctx, budget, depth + 1, True) + '\\end{%s}' % e)
            elif e == 'tabular':
                parts.append('\\begin{tabular}' + rng.choice(['{cc}', '{l|r}', '[t]{c}']) + sub() + rng.choice(['', '&', ' & b\\\\']) + '\\end{tabular}')
            elif e == 'array':
                parts.append('$\\begin{array}{c}' + _gen_doc(rng, ctx, budget, depth + 1, True) + '\\end{array}$')
            elif e == 'verbatim':
                parts.append('\\begin{verbatim}' + rng.choice(['', 'a{b', '\\x $ %']) + '\\end{verbatim}')
            else:
                parts.append('\\begin{%s}' % e + sub() + '\\end{%s}' % e)
        elif k == 'special':
            parts.append(rng.choice(['~', '&', '--', '---', '``', "''"]))
        elif k == 'section':
            parts.append('\\section' + rng.choice(['', '*']) + (('[' + sub() + ']') if rng.random() < 0.4 else '') + '{' + sub() + '}')
        elif k == 'item':
            parts.append('\\item' + (('[' + rng.choice(['a', '', '--']) + ']') if rng.random() < 0.5 else ' ') )
        elif k == 'nl':
            parts.append('\\\\' + rng.choice(['', '[2pt]', '*']))
        elif k == 'verb':
            parts.append(rng.choice(['\\verb|a{|', '\\verb+x+', '\\verb!y!']))
        elif k == 'cmac':
            m = rng.choice(['two', 'opt', 'star', 'oo', 'mm', 'exl', 'mk', 'tk', 'dd', 'cs', 'cg'])
            if m == 'two':
                parts.append('\\two{' + sub() + '}{' + sub() + '}')
            elif m == 'opt':
                parts.append('\\opt' + (('[' + sub() + ']') if rng.random() < 0.5 else '') + '{' + sub() + '}')
            elif m == 'star':
                parts.append('\\star' + rng.choice(['', '*']) + (('[' + sub() + ']') if rng.random() < 0.5 else '') + '{' + sub() + '}')
            elif m == 'oo':
                parts.append('\\oo' + rng.choice(['', '[1]', '[1][2]', '[][' + sub() + ']']) + '{' + sub() + '}')
            elif m == 'mm':
                parts.append('\\mm{' + (_gen_doc(rng, ctx, budget, depth + 1, True) if depth < 9 else 'x') + '}')
            elif m == 'exl':
                parts.append('\\exl' + rng.choice(['', ' ', ' %c\n ']) + rng.choice(['a', '\\alpha ', '{' + sub() + '}']))
            elif m == 'mk':
                parts.append('\\mk' + rng.choice(['', '*', '+', '*+', '+*']) + '{' + sub() + '}')
            elif m == 'tk':
                parts.append('\\tk' + rng.choice(['', '\\label{l}', '\\label{l}\\tag{' + sub() + '}', '\\tag{t}\\tag{u}']) + rng.choice([' ', '.']))
            elif m == 'dd':
                parts.append('\\dd' + rng.choice(['', '(' + sub() + ')']) + rng.choice(['', '+']) + rng.choice(['{' + sub() + '}', ' x']))
            elif m == 'cs':
                parts.append('\\cs{' + rng.choice(['a', 'a,b', 'a,{b,c},d', 'a ,b{$x$}']) + '}')
            else:
                parts.append('\\cg{' + rng.choice(['', 'a', 'a{b}c']) + '}')
        elif k == 'cenv':
            e = rng.choice(['ea', 'em', 'eo'])
            if e == 'ea':
                parts.append('\\begin{ea}' + (('[' + sub() + ']') if rng.random() < 0.5 else '') + '{' + sub() + '}' + sub() + '\\end{ea}')
            elif e == 'em':
                parts.append('\\begin{em}{' + sub() + '}' + _gen_doc(rng, ctx, budget, depth + 1, True) + '\\end{em}')
            else:
                parts.append('\\begin{eo}' + rng.choice(['', '[a]', '[a][b]']) + rng.choice(['', 'x', ' y']) + '\\end{eo}')
        elif k == 'cspecial':
            parts.append(rng.choice(['!{' + sub() + '}', '@[' + sub() + ']{' + sub() + '}', '@{' + sub() + '}', '?[', '!a']))
    return ''.join(parts)

def _nest(rng, depth):
    """one deep chain: groups / macro arguments / optional arguments / environments nested depth levels"""
    s = rng.choice(['', 'a', '\\alpha', '$x$', '\\(\\frac{1}{{2}}\\)'])
    for _ in range(depth):
        w = rng.choice('gmoeafs')
        if w == 'g': s = '{' + s + '}'
        elif w == 'm': s = '\\textbf{' + s + '}'
        elif w == 'o': s = '\\sqrt[' + s + ']{z}'
        elif w == 'e': s = '\\begin{itemize}' + s + '\\end{itemize}'
        elif w == 'a': s = '\\begin{tabular}{c}' + s + '\\end{tabular}'
        elif w == 'f': s = '\\frac{' + s + '}{2}'
        elif w == 's': s = '\\section[' + s + ']{t}'
    return s

INJ = ['b0', 'a0', 's0', 'gl']

def _rand_inj(rng, allow_al0=False):
    n = rng.choice([1, 1, 1, 2, 2, 3, 5])
    kinds = INJ + (['al0'] if allow_al0 else [])
    return [[rng.choice(kinds), rng.randint(0, 10 ** 6)] for _ in range(n)]

FIXED = [
    ('strict', 'd', ''), ('strict', 'd', 'a'), ('strict', 'd', '{}'), ('strict', 'd', '$ $'), ('strict', 'd', '\\(\\)'),
    ('strict', 'd', '\\begin{x}\\end{x}'), ('strict', 'd', '\\begin{tabular}{cc}a&b\\\\\\end{tabular}'),
    ('strict', 'd', '\\sqrt x\\sqrt[3]{y}\\section*[s]{t}\\section{t}\\item[x]\\item y'),
    ('strict', 'd', 'a\\textbf{b$x^{2}$}%c\n {d}~--``'), ('strict', 'd', '\\begin{equation}\\frac{a}{\\sqrt[n]{b}}\\end{equation}'),
    ('strict', 'c', '\\two{a}{b}\\opt{x}\\opt[y]{x}\\star*{a}\\oo[1]{3}\\oo{3}\\mm{x^2}\\exl  %c\n \\alpha \\mk*+*{b}\\mk{c}\\tk\\label{x}\\tag{y} z'),
    ('strict', 'c', '\\dd(a)+{c}\\dd x\\begin{ea}[o]{m}body\\end{ea}\\begin{ea}{m}\\end{ea}\\begin{em}{x}y\\end{em}!{a} @[x]{y} @{z} ?[\\cs{a,b{c},d}\\cg{a{b}c}'),
    # verbatim arguments of the pylatexenc-3 parser: a group holding one chars node, of length zero when the argument is empty
    ('strict', 'c', 'a \\vv|| next to \\vv{} and \\vo[]{\\vv++}.'), ('strict', 'c', '\\vv|x=1| \\vv{a{b}c}\\vo[o]!!'), ('tol', 'c', '\\vv|'), ('tol', 'c', '\\vo[\\vv||'),
    ('strict', 'c', '{}[]{{}}\\two{}{}\\opt[]{}'),
    ('tol', 'd', 'a}b'), ('tol', 'd', '\\begin{x}a'), ('tol', 'd', '{a'), ('tol', 'd', '$a'), ('tol', 'd', '\\frac{a'), ('tol', 'd', '\\begin{tabular}'),
    ('tol', 'd', '\\begin'), ('tol', 'd', '\\begin{a}\\end{b}'), ('tol', 'd', '\\textbf'), ('tol', 'd', '\\sqrt['), ('tol', 'd', '\\end{x}'),
    ('tol', 'd', '\\(a\\]'), ('tol', 'd', 'a\\textbf{b$}c'), ('tol', 'd', '\\begin{enumerate}['), ('tol', 'd', '\\verb'), ('tol', 'd', '\\begin{verbatim}x'),
    ('tol', 'c', '\\exl'), ('tol', 'c', '\\mk'), ('tol', 'c', '\\tk\\label'), ('tol', 'c', '!'), ('tol', 'c', '@['), ('tol', 'c', '\\begin{ea}['),
]

def cases(tier, rng):
    import itertools
    quick = tier == 'quick'
    for k, ctx, s in FIXED:
        yield {'k': k, 'ctx': ctx, 's': s}
        for what in INJ + ['al0']:
            for j in range(3):
                yield {'k': k, 'ctx': ctx, 's': s, 'inj': [[what, j]]}
    # bounded-exhaustive: every sequence of at most n atoms, tolerant parsing
    n = 2 if quick else 3
    for L in range(1, n + 1):
        for t in itertools.product(SMALL, repeat=L):
            yield {'k': 'tol', 'ctx': 'd', 's': ''.join(t)}
    if quick:
        for _ in range(2500):
            t = [rng.choice(SMALL) for _ in range(3)]
            yield {'k': 'tol', 'ctx': 'd', 's': ''.join(t)}
    # strict parses of generated documents
    m = 2500 if quick else 40000
    for i in range(m):
        ctx = 'c' if i % 2 else 'd'
        budget = [rng.choice([3, 6, 12, 25, 60])]
        s = _gen_doc(rng, ctx, budget, 0)
        c = {'k': 'strict', 'ctx': ctx, 's': s}
        r = rng.random()
        if r < 0.35:
            c['inj'] = _rand_inj(rng, allow_al0=(rng.random() < 0.1))
        elif r < 0.45:
            c['root'] = rng.randint(0, 10 ** 6)      # start() on an inner node / node list / ParsedArguments
        yield c
    # deep nesting
    for i in range(60 if quick else 600):
        d = rng.randint(5, 14)
        yield {'k': 'strict', 'ctx': 'd', 's': _nest(rng, d)}
    # tolerant parses of token soups
    m = 3000 if quick else 50000
    for i in range(m):
        ctx = 'c' if i % 2 else 'd'
        atoms = SOUP_C if ctx == 'c' else SOUP_D
        s = ''.join(rng.choice(atoms) for _ in range(rng.randint(1, 12)))
        c = {'k': 'tol', 'ctx': ctx, 's': s}
        r = rng.random()
        if r < 0.25:
            c['inj'] = _rand_inj(rng)
        elif r < 0.3:
            c['root'] = rng.randint(0, 10 ** 6)
        yield c
    # tolerant parses of damaged generated documents (one structural fault)
    m = 600 if quick else 10000
    for i in range(m):
        ctx = 'c' if i % 2 else 'd'
        s = _gen_doc(rng, ctx, [rng.choice([6, 12, 25])], 0)
        if s:
            p = rng.randint(0, len(s))
            if rng.random() < 0.5:
                s = s[:p] + s[p + 1:]
            else:
                s = s[:p] + rng.choice(['{', '}', '$', '[', ']', '\\begin{x}', '\\end{x}', '\\)', '\\']) + s[p:]
        yield {'k': 'tol', 'ctx': ctx, 's': s}

def shrink_candidates(c):
    if c.get('inj'):
        for i in range(len(c['inj'])):
            d = dict(c); d['inj'] = c['inj'][:i] + c['inj'][i + 1:]
            if not d['inj']:
                del d['inj']
            yield d
        for i, (w, k) in enumerate(c['inj']):
            if k > 8:
                d = dict(c); d['inj'] = [list(x) for x in c['inj']]; d['inj'][i][1] = k % 7
                yield d
    if c.get('root') is not None:
        d = dict(c); del d['root']
        yield d
    if c['k'] == 'strict':
        d = dict(c); d['k'] = 'tol'     # lets deletions produce unbalanced documents
        yield d
    s = c['s']
    n = len(s)
    size = n // 2
    while size >= 1:
        for i in range(0, n - size + 1, max(1, size // 2) if size > 1 else 1):
            d = dict(c); d['s'] = s[:i] + s[i + size:]
            yield d
        size //= 2

LEVEL_TEXT = ('Theorem C19_results proves, for every tree over the seven node kinds, node-list and ParsedArguments objects — '
              'including None bodies, None argument containers and None argument slots, at any depth — that the recording visitor '
              'started by LatexNodesVisitor.start logs exactly one callback per object of the post-order (arguments before body, '
              'document order) and that each callback receives exactly the results of its direct children in that order, None for an '
              'absent argument; C19_order, C19_once (multiset equality with the reachable objects, so nothing is skipped or repeated) '
              'and C19_children_first (each callback is immediately preceded by the complete traversals of its children) are derived. '
              'The model (Pylx.visitStart) is tied to the implementation by replaying the visit on the canonical dump of the '
              'implementation\'s own trees and comparing the full nested callback logs; the oracle restates the property on the '
              'implementation by object identity.')
LEVEL_NOTE = ('tie = differential testing on generated trees (strict, tolerant, None-injected); depth bounded by the interpreter '
              'recursion limit in the harness only; Lean kernel + propext/Classical.choice/Quot.sound')
TECHNIQUE = 'Lean 4 proof (mutual structural induction over the Node/Arg tree) + model-vs-implementation correspondence on full callback logs'
