# C11 — tokenizer is lossless, always advances, peeking has no effect.
import itertools
from common import wire, show_str
import psdesc

THEOREMS = ['Pylx.tablesOk_of_fields', 'Pylx.C11_span', 'Pylx.C11_progress', 'Pylx.C11_lossless', 'Pylx.C11_rewind',
            'Pylx.C11_tolerant_span', 'Pylx.C11_reads_bounded']
RULE = ('TOK: every string of <= k atoms over the LaTeX-significant atom alphabet (k=3 quick / 4 thorough) under the base '
        'parsing-state configurations, random longer strings under random configurations (flags, math mode and delimiter, '
        'extra group delimiters, with/without context and specials, comment start, forbidden characters, escape character), '
        'strict and tolerant reader; each case runs an operation sequence (peek/next/rewind/move-past/skip-space/cur-pos/'
        'peek_chars/next_chars) on model and implementation and the oracle (lossless, progress, peek does not move, '
        'rewind+read gives an equal token) on the implementation; sig = sorted set of token kinds + outcome')
TRUSTED = ['str.isspace modelled by the 29 code points of CPython 3.12 (validated exhaustively against the interpreter in every run)',
           "re '\\s' agrees with str.isspace (validated in every run)", 'lone surrogates are outside the model']
ASSUMPTIONS = ['comment_start is non-empty; macro_escape_char is a single character']
TRIVIAL_SIGS = ('eos',)
CASE_TIMEOUT = 5.0

ATOMS = ['a', ' ', '\n', '{', '}', '[', ']', '$', '%', '~', '\\', '\\(', '\\)', '\\[', '\\]', '\\\\',
         '\\x', '\\begin', '\\end', '\\begin{e}', '\\end{e}', '`', '-', '\t']
EXTRA = ['b', '\xa0', "'", '&', '*', '|', '\\begin {e*}', '\\end\n{e}', '\\begin{}', '\\beginx', '\\endy ', '\\ab  ',
         '\\ab \n\n', '\\ab\n \n', '$$', '#', '##', '@', '@x', '\r', '\x0b', '\u2028', '\u3000', '\x1c', '\\@', '<', '>',
         '\\begin{e', '\\begin{e f}', '\\1', 'é', '\ufeff', '\u200b', '\x00', '\U0001d504', '``', "''", '---', '?`', '!`']

SK_DEFAULT = ['~', '&', '\n\n', '``', "''", '--', '---', '!`', '?`']

BASE_PS = [
    {'cx': True, 'sk': SK_DEFAULT},
    {'cx': True, 'sk': SK_DEFAULT, 'im': True, 'md': '$'},
    {'cx': False},
    {'cx': True, 'sk': SK_DEFAULT, 'us': True},
]

def random_ps(rng):
    d = {}
    if rng.random() < 0.8:
        d['cx'] = True
        d['sk'] = rng.choice([SK_DEFAULT, [], ['~'], ['`', '``', '~'], ['``', '`'], ['\n\n'], ['-', '--', '---', 'a-'], ['ab', 'a']])
        if rng.random() < 0.25:
            d['us'] = True
    else:
        d['cx'] = False
    if rng.random() < 0.4:
        d['im'] = True
        d['md'] = rng.choice(['$', '$$', '\\(', '\\[', None, 'x'])
    for k in ('nl', 'ma', 'en', 'co', 'gr', 'sp', 'mm'):
        if rng.random() < 0.15:
            d[k] = False
    if rng.random() < 0.25:
        d['gd'] = rng.choice([[('{', '}'), ('[', ']')], [('[', ']')], [('{', '}'), ('<', '>'), ('{', ']')], [('(', ')'), ('{', '}')]])
    if rng.random() < 0.15:
        d['il'] = rng.choice([[('$', '$')], [('\\(', '\\)')], [('$', '$'), ('\\(', '\\)'), ('|', '|')], [('$$', '$')]])
    if rng.random() < 0.15:
        d['dl'] = rng.choice([[('$$', '$$')], [('\\[', '\\]')], [('$$', '$$'), ('\\[', '\\]'), ('$', '$')], []])
    if rng.random() < 0.1:
        d['cs'] = rng.choice(['##', '#', '%%'])
    if rng.random() < 0.1:
        d['fb'] = rng.choice(['$', '%a', '~#', '\n'])
    if rng.random() < 0.1:
        d['ec'] = rng.choice(['@', '|'])
    if rng.random() < 0.1:
        d['al'] = rng.choice(['abcdefghijklmnopqrstuvwxyzABCDEFGHIJKLMNOPQRSTUVWXYZ@', 'ab'])
    return d

def std_ops(n):
    ops = []
    for _ in range(n + 2):
        ops += ['C', 'P', 'N']
    ops += ['O', 'C', 'R0', 'P', 'N', 'C', 'r1', 'N', 'C', 'M0', 'C', 'm1', 'C', 'W', 'C', 'S', 'C', 'K2', 'X1', 'C', 'N', 'R2', 'C', 'N', 'J%d' % min(1, n), 'C', 'O', 'N', 'O']
    return ops

def random_ops(rng, n):
    ops = []
    k = 0
    for _ in range(rng.randint(3, 3 * n + 6)):
        r = rng.random()
        if r < 0.35: ops.append('N'); k += 1
        elif r < 0.55: ops.append('P'); k += 1
        elif r < 0.65: ops.append('C')
        elif r < 0.75: ops.append('R%d' % rng.randint(0, max(0, k)))
        elif r < 0.8: ops.append('r%d' % rng.randint(0, max(0, k)))
        elif r < 0.85: ops.append('M%d' % rng.randint(0, max(0, k)))
        elif r < 0.9: ops.append('m%d' % rng.randint(0, max(0, k)))
        elif r < 0.92: ops.append('S')
        elif r < 0.94: ops.append('O'); k += 1
        elif r < 0.955: ops.append('W')
        elif r < 0.965: ops.append('J%d' % rng.randint(0, max(0, min(n, 3))))
        elif r < 0.985: ops.append('K%d' % rng.randint(0, 3))
        else: ops.append('X%d' % rng.randint(0, 3))
    ops.append('C')
    return ops

def cases(tier, rng):
    yield {'k': 'isspace'}
    k = 3 if tier == 'quick' else 4
    for n in range(0, k + 1):
        for t in itertools.product(ATOMS, repeat=n):
            s = ''.join(t)
            pss = BASE_PS if n <= 3 else BASE_PS[:1]
            for i, ps in enumerate(pss):
                for tol in ((False, True) if (n <= 2 or i == 0) else (True,)):
                    yield {'k': 'tok', 's': s, 'ps': ps, 'tol': tol, 'ops': std_ops(n)}
    # whitespace after comments and control words: who owns which newline (comment post-space, macro post-space, paragraph)
    WSA = ['%c', '%', '\n', '\n', ' ', '\t', '\\ab', 'a', '\n\n', ' \n', '\n ', '{', '~']
    for _ in range(2500 if tier == 'quick' else 40000):
        n = rng.randint(2, 7)
        s = ''.join(rng.choice(WSA) for _ in range(n))
        yield {'k': 'tok', 's': s, 'ps': rng.choice(BASE_PS), 'tol': rng.random() < 0.5, 'ops': std_ops(n)}
    # unusual first characters (byte order mark, zero-width space, NUL, no-break space, form feed): the reader starts at 0 whatever is there
    for first in ['\ufeff', '\u200b', '\x00', '\xa0', '\x0c', '\ufeff\ufeff', '\ufeff ', ' \ufeff']:
        for rest in ['', 'a', '\\x', '{a}', ' a', '\n\na', '%c\n', '$x$', '\\begin{e}']:
            for ps in BASE_PS[:2]:
                for tol in (False, True):
                    n = 3
                    yield {'k': 'tok', 's': first + rest, 'ps': ps, 'tol': tol, 'ops': std_ops(n)}
    m = 6000 if tier == 'quick' else 120000
    allatoms = ATOMS + EXTRA
    for _ in range(m):
        n = rng.randint(1, 9)
        s = ''.join(rng.choice(allatoms) for _ in range(n))
        yield {'k': 'tok', 's': s, 'ps': random_ps(rng), 'tol': rng.random() < 0.5,
               'ops': random_ops(rng, n) if rng.random() < 0.7 else std_ops(n)}

def to_line(c):
    if c['k'] != 'tok':
        return None
    return '\t'.join(['TOK', 'T' if c['tol'] else 'F', psdesc.enc_desc(c['ps']), wire(c['s']), ' '.join(c['ops'])])

def _tokeq(a, b):
    return a == b

def oracle(s, psd, tol):
    """the property stated on the implementation; returns (fail, sig)"""
    from pylatexenc.latexnodes import LatexTokenReader, LatexWalkerEndOfStream, LatexWalkerTokenParseError
    ps = psdesc.make_ps(psd, s)
    r = LatexTokenReader(s, tolerant_parsing=tol)
    out = ''
    reads = 0
    kinds = set()
    toks = []
    end = 'eos'
    while True:
        p0 = r.cur_pos()
        try:
            pk = r.peek_token(ps)
        except LatexWalkerEndOfStream as e:
            fs = e.final_space
            if r.cur_pos() != p0:
                return {'kind': 'peek-moved', 'detail': 'peek at end of stream moved %d -> %d' % (p0, r.cur_pos())}, 'x'
            if s[p0:] != fs:
                return {'kind': 'not-lossless', 'detail': 'final space %r but remaining input %r' % (fs, s[p0:])}, 'x'
            out += fs
            break
        except LatexWalkerTokenParseError as e:
            if tol:
                return {'kind': 'token-error-in-tolerant-mode', 'detail': repr(e)[:200]}, 'x'
            if r.cur_pos() != p0:
                return {'kind': 'peek-moved', 'detail': 'failed peek moved %d -> %d' % (p0, r.cur_pos())}, 'x'
            end = 'tokerr'
            break
        if r.cur_pos() != p0:
            return {'kind': 'peek-moved', 'detail': 'peek moved the reader %d -> %d' % (p0, r.cur_pos())}, 'x'
        t = r.next_token(ps)
        reads += 1
        if not _tokeq(t, pk):
            return {'kind': 'peek-differs-from-next', 'detail': '%s vs %s' % (psdesc.show_tok(pk), psdesc.show_tok(t))}, 'x'
        p1 = r.cur_pos()
        if not (p1 > p0):
            return {'kind': 'no-progress', 'detail': 'read at %d left the reader at %d (%s)' % (p0, p1, psdesc.show_tok(t))}, 'x'
        if p1 != t.pos_end:
            return {'kind': 'position-after-read', 'detail': 'reader at %d, token ends at %d' % (p1, t.pos_end)}, 'x'
        if not (t.pos == p0 + len(t.pre_space) and s[p0:t.pos] == t.pre_space and t.pos <= t.pos_end <= len(s)):
            return {'kind': 'not-lossless', 'detail': 'token %s read at %d: pre_space/pos do not match the source' % (psdesc.show_tok(t), p0)}, 'x'
        if not (t.pos < t.pos_end):
            return {'kind': 'empty-token', 'detail': psdesc.show_tok(t)}, 'x'
        post = getattr(t, 'post_space', '') or ''
        if post and s[t.pos_end - len(post):t.pos_end] != post:
            return {'kind': 'not-lossless', 'detail': 'post_space of %s is not the tail of its source' % psdesc.show_tok(t)}, 'x'
        out += t.pre_space + s[t.pos:t.pos_end]
        kinds.add(t.tok)
        toks.append((p0, t))
        if reads > len(s):
            return {'kind': 'too-many-reads', 'detail': '%d reads for %d characters' % (reads, len(s))}, 'x'
    if end == 'eos' and out != s:
        return {'kind': 'not-lossless', 'detail': 'reassembled %r != input %r' % (out, s)}, 'x'
    if end == 'tokerr' and out != s[:r.cur_pos()]:
        return {'kind': 'not-lossless', 'detail': 'reassembled %r != consumed input %r' % (out, s[:r.cur_pos()])}, 'x'
    # rewind and re-read
    for (p0, t) in toks:
        r.move_to_token(t)
        if r.cur_pos() != p0:
            return {'kind': 'rewind-position', 'detail': 'move_to_token(%s) -> %d, token was read at %d' % (psdesc.show_tok(t), r.cur_pos(), p0)}, 'x'
        t2 = r.next_token(ps)
        if not _tokeq(t, t2):
            return {'kind': 'reread-differs', 'detail': '%s then %s' % (psdesc.show_tok(t), psdesc.show_tok(t2))}, 'x'
    return None, end + ':' + ','.join(sorted(kinds))

def run_ops(s, psd, tol, ops):
    from pylatexenc.latexnodes import LatexTokenReader, LatexWalkerEndOfStream, LatexWalkerTokenParseError
    ps = psdesc.make_ps(psd, s)
    r = LatexTokenReader(s, tolerant_parsing=tol)
    toks = []
    outs = []
    names = {'token_forbidden_character': 'forbidden-char', 'token_end_of_stream_immediately_after_escape_character': 'escape-at-end',
             'token_error_parse_beginend_environment_name': 'bad-env-name'}
    for op in ops:
        code, arg = op[0], op[1:]
        try:
            if code in 'PN':
                t = r.peek_token(ps) if code == 'P' else r.next_token(ps)
                toks.append(t)
                outs.append(psdesc.show_tok(t))
            elif code in 'RrMm':
                i = int(arg)
                if i >= len(toks):
                    outs.append('no-token')
                else:
                    if code == 'R': r.move_to_token(toks[i])
                    elif code == 'r': r.move_to_token(toks[i], rewind_pre_space=False)
                    elif code == 'M': r.move_past_token(toks[i])
                    else: r.move_past_token(toks[i], fastforward_post_space=False)
                    outs.append('ok')
            elif code == 'S':
                sp, a, b = r.skip_space_chars(ps)
                outs.append('%s %d %d' % (show_str(sp), a, b))
            elif code == 'C':
                outs.append(str(r.cur_pos()))
            elif code == 'O':
                t = r.peek_token_or_none(ps)
                if t is None:
                    outs.append('None')
                else:
                    toks.append(t); outs.append(psdesc.show_tok(t))
            elif code == 'W':
                sp, a, b = r.peek_space_chars(ps)
                outs.append('%s %d %d' % (show_str(sp), a, b))
            elif code == 'J':
                r.move_to_pos_chars(int(arg)); outs.append('ok')
            elif code == 'K':
                outs.append(show_str(r.peek_chars(int(arg), ps)))
            elif code == 'X':
                outs.append(show_str(r.next_chars(int(arg), ps)))
            else:
                outs.append('bad-op')
        except LatexWalkerEndOfStream as e:
            outs.append('EOS' if code in 'KX' else '(EOS %s)' % show_str(e.final_space))
        except LatexWalkerTokenParseError as e:
            w = names.get((e.error_type_info or {}).get('what'), '?')
            outs.append('(ERR %s %d %s %d)' % (w, e.pos, psdesc.show_tok(e.recovery_token_placeholder), e.recovery_token_at_pos))
    return ' '.join(outs)

def run_impl(c):
    if c['k'] == 'isspace':
        import re, sys
        sp = [i for i in range(0x110000) if chr(i).isspace()]
        model = list(range(9, 14)) + list(range(28, 33)) + [0x85, 0xa0, 0x1680] + list(range(0x2000, 0x200b)) + [0x2028, 0x2029, 0x202f, 0x205f, 0x3000]
        fail = None
        if sp != model:
            fail = {'kind': 'isspace-model', 'detail': 'str.isspace set differs from the modelled set: %r' % (sorted(set(sp) ^ set(model))[:10],)}
        rx = re.compile(r'\s')
        bad = [i for i in list(range(0, 0x3100)) if bool(rx.match(chr(i))) != chr(i).isspace()]
        if bad and not fail:
            fail = {'kind': 'isspace-model', 'detail': 're \\s differs from isspace at %r' % bad[:10]}
        return {'out': None, 'fail': fail, 'sig': 'isspace-table'}
    s, psd, tol = c['s'], c['ps'], c['tol']
    fail, sig = oracle(s, psd, tol)
    out = run_ops(s, psd, tol, c['ops'])
    return {'out': out, 'fail': fail, 'sig': sig}

def shrink_candidates(c):
    if c['k'] != 'tok':
        return
    s = c['s']
    for i in range(len(s)):
        d = dict(c); d['s'] = s[:i] + s[i+1:]
        yield d
    for k in list(c['ps'].keys()):
        if k in ('cx',):
            continue
        d = dict(c); d['ps'] = {a: b for a, b in c['ps'].items() if a != k}
        yield d
    ops = c['ops']
    if len(ops) > 1:
        d = dict(c); d['ops'] = ops[:len(ops)//2]; yield d
        for i in range(len(ops)):
            d = dict(c); d['ops'] = ops[:i] + ops[i+1:]; yield d

LEVEL_TEXT = ('Theorems about the tokenizer model Pylx.peekImpl for every parsing-state configuration (all switches, delimiter lists, specials '
              'list of an arbitrary context), every string and position: C11_span (token position = read position + leading whitespace, which is '
              'exactly the source slice, non-empty span inside the input, post-space is the tail of the span), C11_progress (a read moves forward), '
              'C11_reads_bounded (at most len(input) reads), C11_lossless (leading whitespace + slices + final space reproduce the input), '
              'C11_rewind (going back to a token and reading again gives the same token), C11_tolerant_span (the same for recovery tokens). '
              'Peek is a pure function of the position in the model; on the implementation "peek does not move" is observed by operation '
              'sequences. The model is tied to LatexTokenReader by running identical operation sequences on both.')
LEVEL_NOTE = ('str.isspace / re \\s modelled as a 29-code-point set validated exhaustively each run; correspondence is differential testing '
              '(exhaustive over the atom alphabet to the bound, random beyond); Lean kernel + standard axioms')
TECHNIQUE = 'Lean 4 proof (case analysis over the tokenizer model, induction over reads) + model-vs-implementation operation-sequence correspondence'
