# C02 — parsing recovers the structure a well-formed document was written with.
import parseprops, parsecase, docgen, dump
from common import show_str

THEOREMS = []
RULE = ('PARSE strict on documents derived from the document grammar (text, groups, macro calls with every mix of star / bracket / '
        'mandatory arguments as groups or single tokens, environments with arguments, the four math delimiters, comments, specials, '
        'paragraph breaks, verbatim), random derivations of unbounded depth under the default context, a fixed custom context and '
        'randomly generated contexts with every signature over {m,o,s,t<c>,r<c1c2>,d<c1c2>,v} with and without unknown-macro fallback; '
        'oracle: the structure projection of the returned tree (kinds, names, delimiters, argument presence, nesting, text) equals the '
        'structure the document was generated from; model vs implementation: full tree dump; sig = set of constructs in the document')
TRUSTED = ['the document generator and its separation discipline WF (harness/docgen.py); its expected tree is cross-checked against the model']
ASSUMPTIONS = ['documents respect LaTeX\'s own adjacency rules (WF): control word followed by a letter, absent optional followed by its opener, comment newline']
TRIVIAL_SIGS = ()
CASE_TIMEOUT = 10.0

def cases(tier, rng):
    n = 2500 if tier == 'quick' else 40000
    for i in range(n):
        r = rng.random()
        if r < 0.4:
            cn = 'default'; d = docgen.gen_doc(rng, cn, budget=rng.randint(1, 9)); ctx = 'default'; cgk = 'default'
            yield {'tol': False, 'ctx': ctx, 's': docgen.unparse(d), 'doc': d, 'cg': cgk}
        elif r < 0.65:
            d = docgen.gen_doc(rng, 'A', budget=rng.randint(1, 9))
            yield {'tol': False, 'ctx': docgen.ctx_of('A'), 's': docgen.unparse(d), 'doc': d, 'cg': 'A'}
        else:
            ctx, cg = docgen.gen_random_ctx(rng)
            d = docgen.gen_doc_cg(rng, cg, budget=rng.randint(1, 8))
            yield {'tol': False, 'ctx': ctx, 's': docgen.unparse(d), 'doc': d, 'cg': cg}

to_line = parsecase.to_line

def _tuplify(x):
    if isinstance(x, list):
        return [_tuplify(y) for y in x]
    if isinstance(x, tuple):
        return tuple(_tuplify(y) for y in x)
    return x

def _doc(d):
    # JSON round trips turn tuples into lists
    if isinstance(d, (list, tuple)):
        return tuple(_doc(x) for x in d) if (len(d) > 0 and isinstance(d[0], str)) else [_doc(x) for x in d]
    return d

def run_impl(c):
    w, kind, p = parsecase.parse(c)
    out = parsecase.show_result(kind, p)
    fail = None
    cg = c['cg'] if isinstance(c['cg'], dict) else docgen.CTXG[c['cg']]
    if isinstance(cg, dict) and 'envs' in cg:
        cg = dict(cg); cg['envs'] = dict((k, tuple(v)) for k, v in cg['envs'].items())
    if c['cg'] == 'default':
        docgen.sync_default()
    doc = _doc(c['doc'])
    kinds = set()
    def walk(items):
        for it in items:
            kinds.add(it[0])
            for x in it[1:]:
                if isinstance(x, list):
                    for y in x:
                        if isinstance(y, tuple) and y and y[0] in ('br', 'grp', 'del'):
                            kinds.add(y[0]); walk(y[-1])
                        elif isinstance(y, tuple) and y and isinstance(y[0], str) and len(y[0]) <= 2 and y[0].isupper():
                            walk([y])
                        elif isinstance(y, tuple) and y:
                            kinds.add(y[0])
    try:
        walk(doc)
    except Exception:
        pass
    if kind != 'ok':
        fail = {'kind': 'well-formed-document-rejected', 'detail': out[:300]}
    else:
        exp = docgen.tree_of(doc, cg)
        got = docgen.project_list(p)
        if _tuplify(exp) != _tuplify(got):
            fail = {'kind': 'structure-differs', 'detail': 'expected %r ; parsed %r' % (exp, got)}
    return {'out': out, 'fail': fail, 'sig': ','.join(sorted(kinds))}

LEVEL_TEXT = 'under construction'
LEVEL_NOTE = 'under construction'
TECHNIQUE = 'Lean 4 proof (round trip parse ∘ unparse on the core fragment) + PARSE correspondence + structure oracle on grammar documents'
