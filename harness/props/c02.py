# C02 — parsing recovers the structure a well-formed document was written with.
import parseprops, parsecase, docgen, dump, docwire
from common import show_str

THEOREMS = ['Pylx.C02.C02_core', 'Pylx.C02.C02_core_run', 'Pylx.C02.C02_core_ok', 'Pylx.C02.items_reach', 'Pylx.C02.args_reach']
PROOF_MODULES = ['C02']
RULE = ('DOC: the same derivation through docgen (unparse, tree_of, WF) and through the Lean grammar Pylx.Doc (unparse, treeOf, WF, and shapeOf(parse(unparse d)) = treeOf d evaluated by the driver); PARSE strict on documents derived from the document grammar (text, groups, macro calls with every mix of star / bracket / '
        'mandatory arguments as groups or single tokens, environments with arguments, the four math delimiters, comments, specials, '
        'paragraph breaks, verbatim; also with blanks, newlines or a comment line between two arguments of a call), random derivations of unbounded depth under the default context, a fixed custom context and '
        'randomly generated contexts with every signature over {m,o,s,t<c>,r<c1c2>,d<c1c2>,v} with and without unknown-macro fallback; '
        'oracle: the structure projection of the returned tree (kinds, names, delimiters, argument presence, nesting, text) equals the '
        'structure the document was generated from; model vs implementation: full tree dump; sig = set of constructs in the document')
TRUSTED = ['the document generator and its separation discipline WF (harness/docgen.py); its unparse / tree_of / WF are cross-checked against the Lean grammar Pylx.Doc (unparse, treeOf, WF) on every generated derivation (DOC cases), and the model parse of the Lean unparse against the Lean treeOf']
ASSUMPTIONS = ['documents respect LaTeX\'s own adjacency rules (WF): control word followed by a letter, absent optional followed by its opener, comment newline']
TRIVIAL_SIGS = ()
CASE_TIMEOUT = 10.0

def cases(tier, rng):
    """every derivation is used twice: as a PARSE case (implementation vs model, structure oracle on the implementation)
    and as a DOC case (the Lean grammar vs docgen: unparse, treeOf, WF, and model parse of the Lean unparse vs Lean treeOf)"""
    for c in _parse_cases(tier, rng):
        yield c
        if c.get('fixed'):
            continue
        d = dict(c); d['k'] = 'doc'
        yield d
        # the same derivation with whitespace / a comment line written between two arguments of a call (the Lean grammar
        # has no such form: PARSE correspondence and the structure oracle only)
        # the same derivation with bracket characters as text at the start of brace groups (`[{]}]`, `{[a}`): inside braces
        # a bracket is a character, whatever encloses the group (PARSE correspondence and structure oracle only)
        d3, nb = bracketize(rng, _doc(c['doc']))
        if nb:
            e = dict(c); e['doc'] = d3; e['s'] = docgen.unparse(d3); e['bracketed'] = nb
            yield e
        import random as _random
        seed = rng.getrandbits(48)
        s2, n, ncb = docgen.unparse_spaced(_random.Random(seed), _doc(c['doc']), _cg(c))
        if n:
            e = dict(c); e['s'] = s2; e['spaced'] = n
            if ncb:
                # the same source with a blank instead of each comment line in front of a bracket value (known finding F34)
                e['s_blank'] = docgen.unparse_spaced(_random.Random(seed), _doc(c['doc']), _cg(c), nocomment=True)[0]
            yield e

def bracketize(rng, items):
    cnt = [0]
    def arg(a):
        if a[0] in ('br', 'grp'):
            return (a[0], go(a[1]))
        if a[0] == 'del':
            return (a[0], a[1], a[2], go(a[3]))
        return a
    def go(its):
        out = []
        for it in its:
            k = it[0]
            if k == 'G':
                body = go(it[1])
                if body and body[0][0] == 'T' and rng.random() < 0.5:
                    body = [('T', rng.choice(['[', ']', '][', '[]']) + body[0][1])] + body[1:]
                    cnt[0] += 1
                it = ('G', body)
            elif k == 'F':
                it = ('F', it[1], go(it[2]))
            elif k == 'M':
                it = ('M', it[1], it[2], [arg(a) for a in it[3]])
            elif k == 'E':
                it = ('E', it[1], [arg(a) for a in it[2]], go(it[3]))
            elif k == 'S':
                it = ('S', it[1], [arg(a) for a in it[2]])
            out.append(it)
        return out
    return go(items), cnt[0]

def gen_core(rng, depth=0):
    """derivations of the proved fragment Doc.Core: text, brace groups, comments with newline + indentation, nested"""
    items = []
    for _ in range(rng.randint(0 if depth else 1, 4)):
        r = rng.random()
        if r < 0.45:
            items.append(('T', docgen.gen_text(rng)))
        elif r < 0.8 and depth < 6:
            items.append(('G', gen_core(rng, depth + 1)))
        else:
            items.append(('C', ''.join(rng.choice('ab {}$\\%') for _ in range(rng.randint(0, 4))), rng.choice(['\n', '\n  ', '\n\t'])))
    return items

def _fixed_default_docs():
    """facts the property states in words about the default context: no optional argument after whitespace for the
    line-break macro (but directly behind it, and a star); blanks are allowed in front of other optional arguments"""
    A = ('absent',)
    lb = lambda post, *args: ('M', '\\', post, list(args))
    return [
        [('T', 'a'), lb('', A, A), ('W', ' '), ('T', '[b]c')],
        [('T', 'a'), lb('', A, A), ('W', '\n'), ('T', '[1cm]')],
        [('T', 'a'), lb('', A, ('br', [('T', '1cm')])), ('T', 'c')],
        [('T', 'a'), lb('', ('star',), ('br', [('T', '1cm')])), ('T', 'c')],
        [('T', 'a'), lb('', ('star',), A), ('W', ' '), ('T', '[b]')],
        [('M', 'sqrt', ' ', [('br', [('T', '3')]), ('grp', [('T', 'x')])])],
        [('M', 'item', ' ', [('br', [('T', 'x')])]), ('T', 'b')],
        [('M', 'item', ' ', [A]), ('T', 'b')],
    ]

LISTS_CTX = {'lists': True, 'macros': [], 'envs': [], 'specials': [], 'um': None, 'ue': None}

def _fixed_lists_docs():
    """(source, expected structure) under a context whose list environments extend the context for their body (nested:
    extended twice); unknown macros are known to the fallback at every depth"""
    g = lambda *b: ('g', '{', '}', list(b))
    item = lambda a=None: ('m', 'item', [a])
    foo = ('m', 'foo', [])
    return [
        ('\\begin{enumerate}\\item one \\foo{x}\\begin{itemize}\\item[a] two \\foo{y}\\end{itemize}\\end{enumerate}',
         [('e', 'enumerate', [], [item(), ('c', 'one '), foo, g(('c', 'x')),
                                  ('e', 'itemize', [], [item(('g', '[', ']', [('c', 'a')])), ('c', ' two '), foo, g(('c', 'y'))])])]),
        ('\\begin{itemize}\\item p\\begin{itemize}\\item q\\begin{enumerate}\\item[r]\\bar\\end{enumerate}\\end{itemize}\\baz\\end{itemize}\\item',
         [('e', 'itemize', [], [item(), ('c', 'p'), ('e', 'itemize', [], [item(), ('c', 'q'),
              ('e', 'enumerate', [], [item(('g', '[', ']', [('c', 'r')])), ('m', 'bar', [])])]), ('m', 'baz', [])]), ('m', 'item', [])]),
        ('\\foo\\begin{enumerate}\\foo\\begin{unk}\\item[z]\\foo\\end{unk}\\end{enumerate}',
         [foo, ('e', 'enumerate', [], [foo, ('e', 'unk', [], [item(('g', '[', ']', [('c', 'z')])), foo])])]),
    ]

def _parse_cases(tier, rng):
    for s, exp in _fixed_lists_docs():
        for tol in (False, True):
            yield {'tol': tol, 'ctx': LISTS_CTX, 's': s, 'doc': [], 'cg': 'default', 'fixed': True, 'expect': exp}
    for d in _fixed_default_docs():
        yield {'tol': False, 'ctx': 'default', 's': docgen.unparse(d), 'doc': d, 'cg': 'default', 'fixed': True}
    n = 2500 if tier == 'quick' else 40000
    for i in range(n // 8):
        d = gen_core(rng)
        cn = rng.choice(['default', 'A'])
        yield {'tol': False, 'ctx': docgen.ctx_of(cn), 's': docgen.unparse(d), 'doc': d, 'cg': cn}
    for i in range(n):
        r = rng.random()
        if r < 0.4:
            cn = 'default'; d = docgen.gen_doc(rng, cn, budget=rng.randint(1, 9)); ctx = 'default'; cgk = 'default'
            yield {'tol': False, 'ctx': ctx, 's': docgen.unparse(d), 'doc': d, 'cg': cgk}
        elif r < 0.65:
            d = docgen.gen_doc(rng, 'A', budget=rng.randint(1, 9))
            yield {'tol': False, 'ctx': docgen.ctx_of('A'), 's': docgen.unparse(d), 'doc': d, 'cg': 'A'}
        else:
            ctx, cg = docgen.gen_random_ctx(rng)
            d = docgen.gen_doc_cg(rng, cg, budget=rng.randint(1, 8))
            yield {'tol': False, 'ctx': ctx, 's': docgen.unparse(d), 'doc': d, 'cg': cg}

def to_line(c):
    if c.get('k') == 'doc':
        return docwire.to_line(c['ctx'], _doc(c['doc']))
    return parsecase.to_line(c)

def _tuplify(x):
    if isinstance(x, list):
        return [_tuplify(y) for y in x]
    if isinstance(x, tuple):
        return tuple(_tuplify(y) for y in x)
    return x

def _doc(d):
    # JSON round trips turn tuples into lists
    if isinstance(d, (list, tuple)):
        return tuple(_doc(x) for x in d) if (len(d) > 0 and isinstance(d[0], str)) else [_doc(x) for x in d]
    return d

def _cg(c):
    cg = c['cg'] if isinstance(c['cg'], dict) else docgen.CTXG[c['cg']]
    if isinstance(cg, dict) and 'envs' in cg:
        cg = dict(cg); cg['envs'] = dict((k, tuple(v)) for k, v in cg['envs'].items())
    if c['cg'] == 'default':
        docgen.sync_default()
    return cg

def run_doc(c):
    """the generator's side of the grammar cross-check: what Pylx.Doc.handleDoc must print for this derivation"""
    cg = _cg(c)
    doc = _doc(c['doc'])
    out = 'u=%s t=[%s] wf=T p=agree' % (show_str(docgen.unparse(doc)), docwire.canon_list(docgen.tree_of(doc, cg)))
    return {'out': out, 'fail': None, 'sig': 'doc'}

def known_match(match, case, fail):
    """F34: a comment line between a call (or an earlier argument) and an optional bracket argument makes the bracket
    unrecognised.  Suppressed only if the same document with a blank in place of each such comment line parses to the
    expected structure, i.e. the comment line is the only cause."""
    if not case.get('s_blank') or fail.get('kind') not in ('structure-differs', 'well-formed-document-rejected'):
        return False
    d = dict(case); d['s'] = case['s_blank']; d.pop('s_blank')
    return run_impl(d)['fail'] is None

def run_impl(c):
    if c.get('k') == 'doc':
        return run_doc(c)
    w, kind, p = parsecase.parse(c)
    out = parsecase.show_result(kind, p)
    fail = None
    cg = c['cg'] if isinstance(c['cg'], dict) else docgen.CTXG[c['cg']]
    if isinstance(cg, dict) and 'envs' in cg:
        cg = dict(cg); cg['envs'] = dict((k, tuple(v)) for k, v in cg['envs'].items())
    if c['cg'] == 'default':
        docgen.sync_default()
    doc = _doc(c['doc'])
    kinds = set()
    def walk(items):
        for it in items:
            kinds.add(it[0])
            for x in it[1:]:
                if isinstance(x, list):
                    for y in x:
                        if isinstance(y, tuple) and y and y[0] in ('br', 'grp', 'del'):
                            kinds.add(y[0]); walk(y[-1])
                        elif isinstance(y, tuple) and y and isinstance(y[0], str) and len(y[0]) <= 2 and y[0].isupper():
                            walk([y])
                        elif isinstance(y, tuple) and y:
                            kinds.add(y[0])
    try:
        walk(doc)
    except Exception:
        pass
    if kind != 'ok':
        fail = {'kind': 'well-formed-document-rejected', 'detail': out[:300]}
    else:
        exp = c['expect'] if c.get('expect') is not None else docgen.tree_of(doc, cg)
        got = docgen.project_list(p)
        if _tuplify(exp) != _tuplify(got):
            fail = {'kind': 'structure-differs', 'detail': 'expected %r ; parsed %r' % (exp, got)}
    return {'out': out, 'fail': fail, 'sig': ','.join(sorted(kinds))}

LEVEL_TEXT = ('proved for the fragment Doc.Core (text, whitespace, paragraph breaks, brace groups, comments, control-word and control-symbol macro calls '
              'and environments with m/o/s/t/r/d slots as brace groups or single tokens, bracket groups, stars, markers, delimited groups or absent, '
              'the four kinds of math, specials without arguments, \\verb; any nesting; every context without a specials string starting with a text '
              'character, *, [ or ]; every sufficient fuel and the fuel parseTop uses); rest of the grammar (verbatim environments, v arguments, '
              'specials with arguments): correspondence + oracle')
LEVEL_NOTE = ('C02_full (all constructs, all contexts) is stated in Lean over the grammar Pylx.Doc but proved only on Doc.Core; outside the '
              'fragment the property rests on the PARSE correspondence, the structure oracle and the DOC cross-check of the grammar')
TECHNIQUE = 'Lean 4 proof (round trip parse ∘ unparse on the core fragment) + PARSE correspondence + structure oracle on grammar documents'
