# C20 — positions map to the right line and column.
import itertools
from common import wire, all_strings

THEOREMS = ['Pylx.C20_pos_line_col', 'Pylx.C20_line_starts', 'Pylx.C20_injective']
RULE = ('LINE: all strings up to the length bound over {a, \\n, \\r, space} x every position 0..len x offset settings '
        '(plus random longer strings); sequences of lookups in arbitrary order on one calculator / walker object; sig = (line index, column) class; oracle: pos == start_of_line + col - offset and '
        'no newline between; also LatexWalker.pos_to_lineno_colno and located strict parse errors')
TRUSTED = ['bisect_right modelled by its specification (number of sorted entries <= pos)']
ASSUMPTIONS = ['offsets are integers']
TRIVIAL_SIGS = ()

OFFS = [(1, 0, 0), (0, 0, 0), (1, 1, 1), (5, 3, 7), (0, 7, 2), (-2, -1, 4)]

def cases(tier, rng):
    maxlen = 5 if tier == 'quick' else 7
    for s in all_strings('a\n\r ', maxlen):
        offs = OFFS if len(s) <= 4 else OFFS[:2]
        for o in offs:
            for p in range(len(s) + 1):
                yield {'k': 'line', 's': s, 'p': p, 'o': list(o)}
    n = 300 if tier == 'quick' else 5000
    for _ in range(n):
        L = rng.randint(8, 60)
        s = ''.join(rng.choice('ab \n\n\r\t{}$\\') for _ in range(L))
        o = rng.choice(OFFS)
        for p in sorted(set([0, L] + [rng.randint(0, L) for _ in range(4)])):
            yield {'k': 'line', 's': s, 'p': p, 'o': list(o)}
    # several lookups on ONE calculator / walker, in arbitrary order (the answer must not depend on earlier lookups)
    m2 = 400 if tier == 'quick' else 8000
    for _ in range(m2):
        L = rng.randint(3, 30)
        s = ''.join(rng.choice('ab\n\n\n \r') for _ in range(L))
        o = rng.choice(OFFS)
        k = rng.randint(2, 8)
        order = rng.choice(['rand', 'desc', 'ends'])
        if order == 'rand': ps = [rng.randint(0, L) for _ in range(k)]
        elif order == 'desc': ps = sorted(set(rng.randint(0, L) for _ in range(k)), reverse=True)
        else: ps = [L, 0, L, rng.randint(0, L), 0]
        yield {'k': 'seq', 's': s, 'ps': ps, 'o': list(o), 'via': rng.choice(['calc', 'walker'])}
    # parse errors: location = pos_to_lineno_colno(pos)
    faulty = ['}', 'a\n}', 'a\n\n{b', '\\begin{x}\n\na', 'ab\n$x\n', '\n\n\\end{y}', 'x\n\\(y\n\\]', '{\n{\n}\n']
    m = 40 if tier == 'quick' else 600
    for _ in range(m):
        L = rng.randint(1, 14)
        faulty.append(''.join(rng.choice(['a', '\n', ' ', '{', '}', '$', '\\(', '\\)', '\\begin{e}', '\\end{e}', '%c\n', '\\x']) for _ in range(L)))
    for s in faulty:
        yield {'k': 'err', 's': s}
    # located errors through every parsing entry point of the walker, under non-default offsets: token-level errors
    # (`\\begin` without name, lone backslash at the end, unclosed group) reach the caller without being re-wrapped there
    tokfaulty = ['ab\n\\begin x', 'ab\n\n  \\begin', 'a\n{b\n\\', '\n\n{a\n\\end', 'x\n[y\n\\begin z', '{a\n\nb', '\n {', 'a\n\\', '\\begin', ' \n[\n\\begin{e}']
    for s in tokfaulty:
        for o in OFFS:
            for via in ('nodes', 'group', 'brgroup', 'expr', 'opt', 'delimited', 'exprparser'):
                for pos in sorted(set([0, s.find('{') if '{' in s else 0, s.find('[') if '[' in s else 0])):
                    yield {'k': 'err2', 's': s, 'o': list(o), 'via': via, 'pos': pos}

def to_line(c):
    if c['k'] == 'seq':
        return None
    if c['k'] != 'line':
        return None
    o = c['o']
    return '\t'.join(['LINE', str(o[0]), str(o[1]), str(o[2]), wire(c['s']), str(c['p'])])

def _oracle(s, p, o, ln, col):
    idx = ln - o[0]
    # the idx-th line start
    starts = [0] + [i + 1 for i, ch in enumerate(s) if ch == '\n']
    if not (0 <= idx < len(starts)):
        return 'line index %r out of range' % idx
    st = starts[idx]
    off = o[1] if idx == 0 else o[2]
    if st > p:
        return 'line start %d after pos %d' % (st, p)
    if p != st + (col - off):
        return 'pos %d != line start %d + col %d - offset %d' % (p, st, col, off)
    if '\n' in s[st:p]:
        return 'newline between line start and pos'
    return None

def run_impl(c):
    from pylatexenc import _util
    if c['k'] == 'seq':
        s, o = c['s'], c['o']
        if c['via'] == 'calc':
            obj = _util.LineNumbersCalculator(s, line_number_offset=o[0], first_line_column_offset=o[1], column_offset=o[2])
        else:
            from pylatexenc import latexwalker
            obj = latexwalker.LatexWalker(s, line_number_offset=o[0], first_line_column_offset=o[1], column_offset=o[2])
        fail = None
        for i, p in enumerate(c['ps']):
            ln, col = obj.pos_to_lineno_colno(p)
            msg = _oracle(s, p, o, ln, col)
            if msg:
                fail = {'kind': 'wrong-line-col', 'detail': 'lookup #%d (pos %d after %r): %s' % (i, p, c['ps'][:i], msg)}
                break
        return {'out': None, 'fail': fail, 'sig': 'seq:%d' % min(len(c['ps']), 6)}
    if c['k'] == 'line':
        s, p, o = c['s'], c['p'], c['o']
        calc = _util.LineNumbersCalculator(s, line_number_offset=o[0], first_line_column_offset=o[1], column_offset=o[2])
        ln, col = calc.pos_to_lineno_colno(p)
        d = calc.pos_to_lineno_colno(p, as_dict=True)
        fail = None
        msg = _oracle(s, p, o, ln, col)
        if msg:
            fail = {'kind': 'wrong-line-col', 'detail': msg}
        elif d != {'lineno': ln, 'colno': col}:
            fail = {'kind': 'as-dict-differs', 'detail': repr(d)}
        return {'out': '%d %d' % (ln, col), 'fail': fail, 'sig': 'L%d,%d' % (min(ln - o[0], 4), min(col - (o[1] if ln - o[0] == 0 else o[2]), 4))}
    elif c['k'] == 'err2':
        import warnings
        from pylatexenc import latexwalker
        from pylatexenc.latexnodes import parsers
        warnings.simplefilter('ignore')
        s, o, pos = c['s'], c['o'], c['pos']
        w = latexwalker.LatexWalker(s, tolerant_parsing=False, line_number_offset=o[0], first_line_column_offset=o[1], column_offset=o[2])
        calls = {'nodes': lambda: w.get_latex_nodes(pos=pos),
                 'group': lambda: w.get_latex_braced_group(pos),
                 'brgroup': lambda: w.get_latex_braced_group(pos, brace_type='['),
                 'expr': lambda: w.get_latex_expression(pos),
                 'opt': lambda: w.get_latex_maybe_optional_arg(pos),
                 'delimited': lambda: w.parse_content(parsers.LatexDelimitedGroupParser(delimiters=('{', '}')), token_reader=w.make_token_reader(pos=pos)),
                 'exprparser': lambda: w.parse_content(parsers.LatexExpressionParser(), token_reader=w.make_token_reader(pos=pos))}
        fail = None
        sig = 'err2:%s:none' % c['via']
        try:
            calls[c['via']]()
        except latexwalker.LatexWalkerParseError as e:
            sig = 'err2:%s:located' % c['via']
            if e.pos is not None and 0 <= e.pos <= len(s):
                line = s.count('\n', 0, e.pos); start = s.rfind('\n', 0, e.pos) + 1
                want = (line + o[0], e.pos - start + (o[1] if line == 0 else o[2]))
                if (e.lineno, e.colno) != want:
                    fail = {'kind': 'error-line-col-mismatch', 'detail': 'walker offsets %r, entry point %s at %d: error at pos %d says %r, that position is %r'
                            % (o, c['via'], pos, e.pos, (e.lineno, e.colno), want)}
            elif e.pos is None:
                fail = {'kind': 'error-without-pos', 'detail': repr(str(e))[:200]}
        except Exception as e:
            sig = 'err2:%s:other' % c['via']
        return {'out': None, 'fail': fail, 'sig': sig}
    else:
        from pylatexenc import latexwalker
        from pylatexenc.latexnodes import parsers
        s = c['s']
        w = latexwalker.LatexWalker(s, tolerant_parsing=False)
        fail = None
        sig = 'err:none'
        try:
            w.parse_content(parsers.LatexGeneralNodesParser())
        except latexwalker.LatexWalkerParseError as e:
            sig = 'err:located'
            if e.pos is None:
                fail = {'kind': 'error-without-pos', 'detail': repr(str(e))[:200]}
            else:
                ln, col = w.pos_to_lineno_colno(e.pos)
                msg = _oracle(s, e.pos, (1, 0, 0), ln, col) if 0 <= e.pos <= len(s) else 'pos out of range'
                if msg:
                    fail = {'kind': 'wrong-line-col', 'detail': msg}
                elif (e.lineno, e.colno) != (ln, col):
                    fail = {'kind': 'error-line-col-mismatch', 'detail': 'error says %r, position %r maps to %r' % ((e.lineno, e.colno), e.pos, (ln, col))}
        return {'out': None, 'fail': fail, 'sig': sig}

def shrink_candidates(c):
    if c.get('k') == 'seq':
        ps = c['ps']
        for i in range(len(ps)):
            d = dict(c); d['ps'] = ps[:i] + ps[i+1:]
            if d['ps']: yield d
        s = c['s']
        for i in range(len(s)):
            d = dict(c); d['s'] = s[:i] + s[i+1:]; d['ps'] = [min(p, len(d['s'])) for p in ps]
            yield d
        return
    s = c['s']
    for i in range(len(s)):
        t = s[:i] + s[i+1:]
        d = dict(c); d['s'] = t
        if 'p' in d:
            for p in {min(d['p'], len(t)), max(0, d['p'] - 1)}:
                e = dict(d); e['p'] = p
                yield e
        else:
            yield d

def known_match(m, case, fail):
    if 'input' in m:
        return case.get('s') == m['input']
    return True

LEVEL_TEXT = ('Theorems C20_pos_line_col / C20_line_starts / C20_injective prove, for every string, every position 0..len and every '
              'offset setting, that the reported (line, column) identify the line start with pos = start + col - offset and no newline '
              'in between, and that the report determines the position. The model (Pylx.posToLineCol) is tied to '
              'LineNumbersCalculator by running both on all strings up to the bound over {a, newline, CR, space} at every position and offset '
              'setting; the oracle also checks that every strict parse error carries the line/column of its own position.')
LEVEL_NOTE = ('bisect_right is modelled by its specification; the tie is differential testing (exhaustive to the length bound, random beyond); '
              'Lean kernel + propext/Classical.choice/Quot.sound')
TECHNIQUE = 'Lean 4 proof (induction over the string / sorted line-start list) + exhaustive model-vs-implementation correspondence'
