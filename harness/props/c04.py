# C04 — encoder output equals the documented rule semantics.
#
# Case descriptor (JSON):
#   {'k': 'enc', 's': str, 'prot': P, 'pol': Q, 'nao': bool, 'rules': [R...], 'partial': None | {'keep': str}}
#   {'k': 'cached', 's': str, 'prot': name, 'pol': name, 'nao': bool, 'warn': bool}     module-level helper vs fresh encoder
#   {'k': 'concat', 'a': str, 'b': str, 's': a+b, ...configuration as for 'enc', dict/built-in rules only}   enc(a+b) = enc(a)+enc(b)
#   P = 'none' | 'braces' | 'braces-all' | 'braces-almost-all' | 'braces-after-macro' | ['wrap', pre, post]
#   Q = 'keep' | 'replace' | 'ignore' | 'fail' | 'unihex' | ['wrap', pre, post]
#   R = {'t': 'B', 'name': 'defaults' | 'unicode-xml'}                       built-in table (passed by name)
#     | {'t': 'D', 'prot': P|None, 'd': [[codepoint, repl], ...]}            RULE_DICT
#     | {'t': 'R', 'prot': P|None, 'call': bool, 'es': [{'rx': [item...], 'repl': [piece...]}]}   RULE_REGEX
#         item  = ['l', text, plus] | ['c', neg, [[lo, hi], ...], plus];  piece = ['t', text] | ['m']
#     | {'t': 'F', 'prot': P|None, 'f': [name, args...], 'u2l': bool}        RULE_CALLABLE from the fixed family
#
# Driver line:  ENC <prot> <policy> <nao> <alpha> <rules> <partial> <NFC input>
#   rules   = rule;rule;...   rule = "D <prot|-> cp=repl ..." | "R <prot|-> item ... > piece ... / ..." | "F <prot|-> name arg ..."
#   partial = "-" | "<keep chars> pos=T:<pre_space>:<tok.pos>:<tok.pos_end> pos=E pos=X ..."  (real tokenizer answers)
#   alpha   = the non-ASCII characters of the line for which str.isalpha() holds
import re, unicodedata, logging, itertools
from common import wire, show_str

logging.disable(logging.WARNING)

PROOF_MODULES = ['C04', 'C04Cache']
THEOREMS = ['Pylx.C04_step', 'Pylx.C04_first_rule', 'Pylx.C04_concat', 'Pylx.C04_concat_str', 'Pylx.C04_exceptions',
            'Pylx.C04_terminates', 'Pylx.C04_ascii_untouched', 'Pylx.C04_partial', 'Pylx.C04_partial_no_keep',
            'Pylx.C04_partial_exceptions', 'Pylx.C04_concrete_noRaise', 'Pylx.C04_asis_partial_raises', 'Pylx.C04_asis_del_not_passed',
            'Pylx.EncCache.C04_cached', 'Pylx.EncCache.C04_cached_last', 'Pylx.EncCache.C04_cached_key_needs_policy']
RULE = ('ENC: encoder configurations (rule lists mixing dict / regex-combinator (incl. patterns anchored with ^ or a look-behind, which depend on what precedes the position) / callable-family rules - including a rule that calls unicode_to_latex re-entrantly on the encoder object it is handed - with overlapping matches and '
        'multi-character consumption, protection scheme global and per rule, unknown-character policy, non_ascii_only, chunk-list and '
        'str result classes, PartialLatexToLatexEncoder with several keep sets) x strings (every character of both built-in tables, '
        'all ASCII, control, combining, astral, unassigned, NFC-unstable, LaTeX token soups, random mixtures); sig = outcome + set of '
        'step branches taken; oracle = the step rule of C04_step re-evaluated in Python against the chunk list, the str result, the '
        'exception class, and the cached module-level helper')
TRUSTED = ['unicodedata.normalize("NFC") (the model receives the normalised string)',
           'built-in tables are not copied into Lean: for a built-in rule the line carries the entries of the real table for the '
           'characters occurring in the input, computed by the harness from get_builtin_conversion_rules()',
           'str.isalpha is sent as a table for the characters on the line',
           're: the combinator regexes are compiled to Python regexes by the harness and interpreted natively by the model',
           'PartialLatexToLatexEncoder: the strict tokenizer\'s answers at keep-character positions are computed by the real tokenizer and sent on the line (oracle peekToken)']
ASSUMPTIONS = ['no lone surrogates', 'rules consume at least one character (Productive); the real loop does not terminate otherwise',
               'callable rules/policies/protections are drawn from the fixed family the model also implements']
TRIVIAL_SIGS = ('ok:', 'ok:copy')
CASE_TIMEOUT = 10.0

PROTS = ['braces', 'braces-all', 'braces-almost-all', 'braces-after-macro', 'none']
POLS = ['keep', 'replace', 'ignore', 'fail', 'unihex']

# ------------------------------------------------------------------ building the real objects

class ChunkList(object):
    def __init__(self):
        self.chunks = []
    def __iadd__(self, s):
        self.chunks.append(s)
        return self

def _prot_arg(p):
    if p is None:
        return None
    if isinstance(p, (list, tuple)):
        pre, post = p[1], p[2]
        return lambda r: pre + r + post
    return p

def _pol_arg(q):
    if isinstance(q, (list, tuple)):
        pre, post = q[1], q[2]
        return lambda ch: pre + ch + post
    return q

def rx_source(items):
    out = []
    for it in items:
        if it[0] == 'l':
            src = '(?:' + re.escape(it[1]) + ')'
            plus = it[2]
        else:
            src = '[' + ('^' if it[1] else '') + ''.join('\\U%08x-\\U%08x' % (lo, hi) for lo, hi in it[2]) + ']'
            plus = it[3]
        out.append(src + ('+' if plus else ''))
    return ''.join(out)

def guard_source(g):
    """zero-width assertion in front of a pattern that looks at what precedes the position: ['A'] = ^ (start of the string:
    the rule pattern is matched with regex.match(s, pos)), ['P', neg, ranges] = one-character look-behind"""
    if not g:
        return ''
    if g[0] == 'A':
        return '^'
    return ('(?<!' if g[1] else '(?<=') + '[' + ''.join('\\U%08x-\\U%08x' % (lo, hi) for lo, hi in g[2]) + '])'

def repl_template(pieces):
    return ''.join(p[1].replace('\\', '\\\\') if p[0] == 't' else '\\g<0>' for p in pieces)

def repl_callable(pieces):
    return lambda m: ''.join(p[1] if p[0] == 't' else m.group() for p in pieces)

def fam_fn(f, u2l=False):
    name = f[0]
    if name == 'upperRun':
        k = f[1]
        def fn(s, pos):
            j = pos
            while j < len(s) and 'A' <= s[j] <= 'Z':
                j += 1
            if j - pos >= k and j > pos:
                return (j - pos, '{' + s[pos:j] + '}')
            return None
    elif name == 'startsWith':
        lit, repl = f[1], f[2]
        def fn(s, pos):
            if s.startswith(lit, pos):
                return (len(lit), repl)
            return None
    elif name == 'range':
        lo, hi = f[1], f[2]
        def fn(s, pos):
            if lo <= ord(s[pos]) <= hi:
                return (1, '\\symbol{%d}' % ord(s[pos]))
            return None
    elif name == 'pairWith':
        lo, hi = f[1], f[2]
        def fn(s, pos):
            if pos + 1 < len(s) and lo <= ord(s[pos + 1]) <= hi:
                return (2, '\\acc{' + s[pos] + '}')
            return None
    elif name == 'overrun':
        c, n, repl = f[1], f[2], f[3]
        def fn(s, pos):
            if s[pos] == c:
                return (n, repl)
            return None
    elif name == 'nested':
        # a rule that encodes the text between two marks by a RE-ENTRANT call on the encoder it is given (documented `u2lobj`
        # argument): `<<inner>>` -> pre + u2lobj.unicode_to_latex(inner) + post
        pre, post = f[1], f[2]
        def fn3(s, pos, u2lobj):
            sp = _nested_span(s, pos)
            if sp is None:
                return None
            r = u2lobj.unicode_to_latex(s[pos+1:sp-1])
            return (sp - pos, pre + (''.join(r.chunks) if isinstance(r, ChunkList) else str(r)) + post)
        return fn3
    else:
        raise ValueError(name)
    if u2l:
        def fn2(s, pos, u2lobj):
            assert u2lobj is not None and hasattr(u2lobj, 'unicode_to_latex')
            return fn(s, pos)
        return fn2
    return fn

NEST_O, NEST_C = '\u00ab', '\u00bb'

def _nested_span(s, pos):
    """end (exclusive) of NEST_O [^NEST_O NEST_C]* NEST_C starting at pos, or None"""
    if pos >= len(s) or s[pos] != NEST_O:
        return None
    j = pos + 1
    while j < len(s) and s[j] not in (NEST_O, NEST_C):
        j += 1
    if j >= len(s) or s[j] != NEST_C:
        return None
    return j + 1

def has_nested(case):
    return any(r['t'] == 'F' and r['f'][0] == 'nested' for r in case['rules'])

def expand_nested(case, sn):
    """the case with every re-entrant rule replaced by literal startsWith rules for the occurrences in sn; the inner text
    is encoded by a FRESH encoder of the same configuration (by the rule semantics a re-entrant call returns just that)"""
    if not has_nested(case):
        return case
    lits = []
    for p in range(len(sn)):
        e = _nested_span(sn, p)
        if e is not None and sn[p:e] not in lits:
            lits.append(sn[p:e])
    inner = {}
    for l in lits:
        try:
            inner[l] = str(build_encoder(case).unicode_to_latex(l[1:-1]))
        except Exception:
            return case          # the inner text cannot be encoded at all: no expansion (to_line gives no model line)
    rules = []
    for r in case['rules']:
        if r['t'] == 'F' and r['f'][0] == 'nested':
            for l in lits:
                rules.append({'t': 'F', 'prot': r.get('prot'), 'f': ['startsWith', l, r['f'][1] + inner[l] + r['f'][2]], 'u2l': True})
        else:
            rules.append(r)
    d = dict(case); d['rules'] = rules
    return d

def build_rules(case):
    from pylatexenc import latexencode as le
    out = []
    for r in case['rules']:
        if r['t'] == 'B':
            out.append(r['name'])
        elif r['t'] == 'D':
            out.append(le.UnicodeToLatexConversionRule(le.RULE_DICT, dict((k, v) for k, v in r['d']),
                                                       replacement_latex_protection=_prot_arg(r.get('prot'))))
        elif r['t'] == 'R':
            es = []
            for e in r['es']:
                rx = re.compile(guard_source(e.get('g')) + rx_source(e['rx']))
                es.append((rx, repl_callable(e['repl']) if r.get('call') else repl_template(e['repl'])))
            out.append(le.UnicodeToLatexConversionRule(le.RULE_REGEX, es, replacement_latex_protection=_prot_arg(r.get('prot'))))
        elif r['t'] == 'F':
            out.append(le.UnicodeToLatexConversionRule(le.RULE_CALLABLE, fam_fn(r['f'], r.get('u2l', False)),
                                                       replacement_latex_protection=_prot_arg(r.get('prot'))))
        else:
            raise ValueError(r['t'])
    return out

def _customise_builtin_lists(which):
    """what another part of the program may do with ITS OWN copy of the built-in rules (the documented way to extend them):
    insert a rule in front, change the scheme of the rule object, use the list.  The meaning of the names 'defaults' /
    'unicode-xml' for every other encoder is not affected by that."""
    from pylatexenc import latexencode as le
    for name in ('defaults', 'unicode-xml'):
        L = le.get_builtin_conversion_rules(name)
        if 'i' in which:
            L.insert(0, le.UnicodeToLatexConversionRule(le.RULE_DICT, {0x2014: '---', ord('a'): '\\A', 0xe9: 'E'}))
        if 'p' in which:
            L[-1].replacement_latex_protection = 'braces-all'
        if 'c' in which:
            del L[:]
        try:
            le.UnicodeToLatexEncoder(conversion_rules=L, unknown_char_warning=False).unicode_to_latex('caf\u00e9 \u2014 a')
        except Exception:
            pass

def build_encoder(case, string_class=None):
    from pylatexenc import latexencode as le
    if case.get('pre_mut'):
        _customise_builtin_lists(case['pre_mut'])
    kw = dict(conversion_rules=build_rules(case), replacement_latex_protection=_prot_arg(case['prot']),
              unknown_char_policy=_pol_arg(case['pol']), non_ascii_only=case['nao'],
              unknown_char_warning=bool(case.get('warn', len(case.get('s', '')) % 3 == 0)))     # default flag on a third of the cases (logged to a NullHandler)
    if string_class is not None:
        kw['latex_string_class'] = string_class
    if case.get('omit_rules') and case['rules'] == [B_DEF]:
        # the documented default of the keyword: the rules of the case are then [B_DEF] (a shrunk case with other rules passes them)
        if case['omit_rules'] == 'none' and case.get('partial') is not None: kw['conversion_rules'] = None    # signature default of the subclass only
        else: del kw['conversion_rules']
    if case.get('partial') is not None:
        return le.PartialLatexToLatexEncoder(keep_latex_chars=case['partial']['keep'], **kw)
    return le.UnicodeToLatexEncoder(**kw)

_TABLES = {}
def builtin_table(name):
    if name not in _TABLES:
        from pylatexenc.latexencode import get_builtin_conversion_rules
        rules = get_builtin_conversion_rules(name)
        assert len(rules) == 1 and rules[0].rule_type == 0 and rules[0].replacement_latex_protection is None
        _TABLES[name] = dict(rules[0].rule)
    return _TABLES[name]

def peek_answer(s, p):
    """the real strict tokenizer's answer at position p: ('T', pre_space, pos, pos_end) | ('E',) | ('X',)"""
    from pylatexenc.latexwalker import _walker
    from pylatexenc.latexnodes import LatexWalkerTokenParseError, LatexWalkerEndOfStream
    lw = _walker.LatexWalker(s, tolerant_parsing=False)
    ps = lw.make_parsing_state()
    try:
        tok = lw.make_token_reader(pos=p).peek_token(parsing_state=ps)
    except LatexWalkerTokenParseError:
        return ('X',)
    except LatexWalkerEndOfStream:
        return ('E',)
    return ('T', tok.pre_space, tok.pos, tok.pos + tok.len)

# ------------------------------------------------------------------ the step rule of C04_step, in Python

def _dangling(repl):
    k = repl.rfind('\\')
    return k >= 0 and repl[k+1:].isalpha()

def spec_protect(p, repl):
    if isinstance(p, (list, tuple)):
        return p[1] + repl + p[2]
    if p == 'none':
        return repl
    if p == 'braces':
        return '{' + repl + '}' if _dangling(repl) else repl
    if p == 'braces-all':
        return '{' + repl + '}'
    if p == 'braces-almost-all':
        return '{' + repl + '}' if repl.startswith('\\') else repl
    if p == 'braces-after-macro':
        return repl + '{}' if _dangling(repl) else repl
    raise ValueError(p)

def spec_unknown(q, ch):
    """-> chunk or None for ValueError"""
    if isinstance(q, (list, tuple)):
        return q[1] + ch + q[2]
    if q == 'keep':
        return ch
    if q == 'replace':
        return '{\\bfseries ?}'
    if q == 'ignore':
        return ''
    if q == 'unihex':
        return '\\ensuremath{\\langle}\\texttt{U+' + ('%X' % ord(ch)).zfill(4) + '}\\ensuremath{\\rangle}'
    if q == 'fail':
        return None
    raise ValueError(q)

def spec_rule_match(r, s, p):
    """-> None | (consumed, repl)   — what the rule, taken alone, says at position p"""
    if r['t'] == 'B':
        d = builtin_table(r['name'])
        return (1, d[ord(s[p])]) if ord(s[p]) in d else None
    if r['t'] == 'D':
        for k, v in r['d']:
            if k == ord(s[p]):
                return (1, v)
        return None
    if r['t'] == 'R':
        for e in r['es']:
            m = re.compile(guard_source(e.get('g')) + rx_source(e['rx'])).match(s, p)
            if m is not None:
                return (m.end() - m.start(), ''.join(x[1] if x[0] == 't' else s[m.start():m.end()] for x in e['repl']))
        return None
    if r['t'] == 'F':
        return fam_fn(r['f'])(s, p)
    raise ValueError(r['t'])

def spec_run(case, s, ascii_limit=128):
    """Expected chunk list and outcome from the step rule; s is NFC-normalised.
    Returns (chunks, exc, branches, steps) with exc None | ('ValueError', ch).
    ascii_limit=127 restates the unrepaired `ord < 127` test; it is used only to *name* a failure."""
    case = expand_nested(case, s)
    chunks = []
    branches = set()
    p = 0
    part = case.get('partial')
    steps = []
    while p < len(s):
        ch = s[p]
        o = ord(ch)
        if case['nao'] and o < ascii_limit:
            chunks.append(ch); steps.append((p, 'skip')); p += 1; branches.add('skip'); continue
        done = False
        if part is not None and ch in part['keep']:
            a = peek_answer(s, p)
            if a[0] == 'T':
                chunks.append(a[1] + s[a[2]:a[3]]); steps.append((p, 'keep-tok')); p = a[3]; branches.add('keep-tok')
            else:
                chunks.append(ch); steps.append((p, 'keep-chr')); p += 1; branches.add('keep-chr')
            continue
        for r in case['rules']:
            m = spec_rule_match(r, s, p)
            if m is not None:
                prot = r.get('prot') if r.get('prot') is not None else case['prot']
                chunks.append(spec_protect(prot, m[1])); steps.append((p, r['t'])); p += m[0]
                branches.add(r['t'] + ('+' if m[0] > 1 else ''))
                done = True
                break
        if done:
            continue
        if 32 <= o <= 127 or ch in '\n\r\t':
            chunks.append(ch); steps.append((p, 'copy')); p += 1; branches.add('copy'); continue
        u = spec_unknown(case['pol'], ch)
        if u is None:
            branches.add('fail')
            return chunks, ('ValueError', ch), branches, steps
        chunks.append(u); steps.append((p, 'unk')); p += 1
        branches.add('unk:' + (case['pol'] if isinstance(case['pol'], str) else 'wrap'))
    return chunks, None, branches, steps

# ------------------------------------------------------------------ run the implementation

def canon(chunks, exc):
    if exc is not None:
        if exc[0] == 'ValueError':
            return 'raise ValueError %x' % ord(exc[1])
        return 'raise ' + exc[0]
    return ' '.join(['ok'] + [show_str(c) for c in chunks])

def _call(enc, s):
    """-> (result, exc)  exc = None | (classname, exception)"""
    try:
        return enc.unicode_to_latex(s), None
    except Exception as e:          # every exception class is an observable here
        return None, (type(e).__name__, e)

def _is_del_defect(c, sn, chunks, exc, named=None):
    """does the observed behaviour coincide with the step rule evaluated with the ASCII test `ord < 127`?"""
    if not c['nao'] or '\x7f' not in sn:
        return False
    ch2, ex2, _, _ = spec_run(c, sn, ascii_limit=127)
    if exc is not None:
        return exc[0] == 'ValueError' and ex2 is not None and (named is None or named == ex2[1])
    return ex2 is None and chunks == ch2

def run_concat(c):
    """C04_concat on the implementation: per-character (dict / built-in) rules only; demanded only when the
    normalised concatenation is the concatenation of the normalised parts"""
    a, b = c['a'], c['b']
    N = lambda x: unicodedata.normalize('NFC', x)
    if N(a + b) != N(a) + N(b):
        return {'out': None, 'fail': None, 'sig': 'concat:nfc-fuses'}
    d = dict(c); d['k'] = 'enc'
    def call(x):
        r, e = _call(build_encoder(d, None), x)
        return ('raise', e[0]) if e is not None else ('ok', r)
    ra, rb, rab = call(a), call(b), call(a + b)
    if ra[0] == 'raise':
        want = ra
    elif rb[0] == 'raise':
        want = rb
    else:
        want = ('ok', ra[1] + rb[1])
    fail = None
    if rab != want:
        fail = {'kind': 'concatenation-not-homomorphic', 'detail': 'enc(a)=%r enc(b)=%r enc(a+b)=%r' % (ra, rb, rab)}
    return {'out': None, 'fail': fail, 'sig': 'concat:' + rab[0]}

def run_impl(c):
    if c['k'] == 'cached':
        return run_cached(c)
    if c['k'] == 'concat':
        return run_concat(c)
    s = c['s']
    sn = unicodedata.normalize('NFC', s)
    exp_chunks, exp_exc, branches, steps = spec_run(c, sn)
    res, exc = _call(build_encoder(c, ChunkList), s)
    sres, sexc = _call(build_encoder(c, None), s)
    fail = None
    if exc is not None:
        name = exc[0]
        ch = None
        if name == 'ValueError':
            # which position raised?  The chunk list is lost, so the only witness is the character the message
            # names (U+XXXX); if the message has another format nothing is demanded of it.
            m = re.search(r'U\+([0-9A-F]{4,6})\b', str(exc[1]))
            named = chr(int(m.group(1), 16)) if m else None
            if c['pol'] != 'fail':
                fail = {'kind': 'valueerror-without-fail-policy', 'detail': repr(str(exc[1]))[:200]}
            elif exp_exc is None:
                kind = 'ascii-del-not-passed-through' if _is_del_defect(c, sn, None, exc, named) else 'valueerror-but-every-position-matched'
                fail = {'kind': kind, 'detail': repr(str(exc[1]))[:200]}
            elif named is not None and named != exp_exc[1]:
                kind = 'ascii-del-not-passed-through' if _is_del_defect(c, sn, None, exc, named) else 'valueerror-at-wrong-position'
                fail = {'kind': kind, 'detail': 'first unmatched, not passed-through character is %r; message: %s'
                        % (exp_exc[1], repr(str(exc[1]))[:160])}
            ch = named if named is not None else (exp_exc[1] if exp_exc else '\0')
            out = canon(None, ('ValueError', ch))
        else:
            fail = {'kind': 'unexpected-exception-' + name,
                    'detail': 'property allows only the ValueError of the fail policy; got %s: %s' % (name, str(exc[1])[:160])}
            out = canon(None, (name, None))
        if fail is None and (sexc is None or sexc[0] != name):
            fail = {'kind': 'str-and-chunk-runs-differ', 'detail': 'chunk run raised %s, str run %r' % (name, sexc and sexc[0])}
    else:
        chunks = list(res.chunks)
        out = canon(chunks, None)
        if exp_exc is not None:
            kind = 'ascii-del-not-passed-through' if _is_del_defect(c, sn, chunks, None) else 'fail-policy-did-not-raise'
            fail = {'kind': kind, 'detail': 'position holding %r is unmatched and not passed through' % exp_exc[1]}
        elif chunks != exp_chunks:
            # locate first differing step
            i = 0
            while i < min(len(chunks), len(exp_chunks)) and chunks[i] == exp_chunks[i]:
                i += 1
            pos, br = steps[i] if i < len(steps) else (None, 'end')
            kind = 'ascii-del-not-passed-through' if _is_del_defect(c, sn, chunks, None) else 'step-mismatch'
            detail = 'chunk %d (input position %r, expected branch %s): expected %r, got %r' % (
                i, pos, br, exp_chunks[i] if i < len(exp_chunks) else None, chunks[i] if i < len(chunks) else None)
            fail = {'kind': kind, 'detail': detail}
        elif sexc is not None:
            fail = {'kind': 'str-and-chunk-runs-differ', 'detail': 'str run raised %s' % sexc[0]}
        elif not isinstance(sres, str) or sres != ''.join(chunks):
            fail = {'kind': 'str-result-is-not-the-concatenation-of-chunks', 'detail': '%r vs %r' % (sres, chunks)}
    outcome = 'ok' if exc is None else ('raise-' + exc[0])
    return {'out': out, 'fail': fail, 'sig': outcome + ':' + ','.join(sorted(branches))}

def _cached_calls(c):
    return [tuple(h) for h in (c.get('hist') or [])] + [(c['prot'], c['pol'], c['nao'], c['warn'], c['s'])]

def run_cached(c):
    """C04_cached: the module-level helper equals a fresh encoder with the same four options, after any history of calls"""
    from pylatexenc import latexencode as le
    outs = []
    for (pr, po, na, wa, hs) in _cached_calls(c)[:-1]:
        try:
            outs.append('ok ' + show_str(le.unicode_to_latex(hs, non_ascii_only=na, replacement_latex_protection=pr, unknown_char_policy=po, unknown_char_warning=wa)))
        except ValueError as e:
            m = re.search(r'U\+([0-9A-F]{4,6})\b', str(e))
            outs.append('raise ValueError %x' % (int(m.group(1), 16) if m else 0))
        except Exception as e:
            return {'out': 'raise ' + type(e).__name__, 'fail': {'kind': 'unexpected-exception-' + type(e).__name__, 'detail': 'module-level unicode_to_latex, history call'}, 'sig': 'cached:exc'}
    r = run_cached_last(c)
    if r['fail'] is None:
        r['out'] = ' ; '.join(outs + [r['out']])
    return r

def run_cached_last(c):
    from pylatexenc import latexencode as le
    s = c['s']
    kw = dict(non_ascii_only=c['nao'], replacement_latex_protection=c['prot'], unknown_char_policy=c['pol'],
              unknown_char_warning=c['warn'])
    def call(f):
        try:
            return ('ok', f())
        except Exception as e:
            return ('raise', type(e).__name__)
    a = call(lambda: le.unicode_to_latex(s, **kw))
    b = call(lambda: le.UnicodeToLatexEncoder(**kw).unicode_to_latex(s))
    a2 = call(lambda: le.unicode_to_latex(s, **kw))
    fail = None
    if a != b or a2 != b:
        fail = {'kind': 'cached-helper-differs', 'detail': '%r vs fresh %r (second call %r)' % (a, b, a2)}
    elif a[0] == 'raise' and not (a[1] == 'ValueError' and c['pol'] == 'fail'):
        fail = {'kind': 'unexpected-exception-' + a[1], 'detail': 'module-level unicode_to_latex'}
    if a[0] == 'ok':
        out = 'ok ' + show_str(a[1])
    else:
        try:
            le.UnicodeToLatexEncoder(**kw).unicode_to_latex(s); ch = 0
        except ValueError as e:
            m = re.search(r'U\+([0-9A-F]{4,6})\b', str(e)); ch = int(m.group(1), 16) if m else 0
        except Exception:
            ch = 0
        out = 'raise ValueError %x' % ch
    return {'out': out, 'fail': fail, 'sig': 'cached:%s:%d' % (a[0], len(c.get('hist') or []))}

# ------------------------------------------------------------------ driver line

def _w(s):
    return wire(s)

def _prot_field(p, none='-'):
    if p is None:
        return none
    if isinstance(p, (list, tuple)):
        return 'wrap:%s:%s' % (_w(p[1]), _w(p[2]))
    return p

def _texts_of_case(c, sn):
    yield sn
    for p in [c['prot'], c['pol']]:
        if isinstance(p, (list, tuple)):
            yield p[1]; yield p[2]
    for r in c['rules']:
        if isinstance(r.get('prot'), (list, tuple)):
            yield r['prot'][1]; yield r['prot'][2]
        if r['t'] == 'B':
            d = builtin_table(r['name'])
            for ch in set(sn):
                if ord(ch) in d:
                    yield d[ord(ch)]
        elif r['t'] == 'D':
            for k, v in r['d']:
                yield v
        elif r['t'] == 'R':
            for e in r['es']:
                for x in e['repl']:
                    if x[0] == 't':
                        yield x[1]
        elif r['t'] == 'F':
            for a in r['f'][1:]:
                if isinstance(a, str):
                    yield a

def rule_field(r, sn):
    pr = _prot_field(r.get('prot'))
    if r['t'] == 'B':
        d = builtin_table(r['name'])
        ents = sorted(set(ord(ch) for ch in sn if ord(ch) in d))
        return ' '.join(['D', '-'] + ['%x=%s' % (k, _w(d[k])) for k in ents])
    if r['t'] == 'D':
        seen = set()
        ents = []
        for k, v in r['d']:
            assert k not in seen
            seen.add(k)
            ents.append('%x=%s' % (k, _w(v)))
        return ' '.join(['D', pr] + ents)
    if r['t'] == 'R':
        guarded = any(e.get('g') for e in r['es'])
        toks = ['RG' if guarded else 'R', pr]
        for e in r['es']:
            if guarded:
                g = e.get('g')
                toks.append('g:-' if not g else ('g:A' if g[0] == 'A' else 'g:P:%s:%s' % ('1' if g[1] else '0', '.'.join('%x-%x' % (lo, hi) for lo, hi in g[2]))))
            for it in e['rx']:
                if it[0] == 'l':
                    toks.append(('L' if it[2] else 'l') + ':' + _w(it[1]))
                else:
                    toks.append(('C' if it[3] else 'c') + ':' + ('1' if it[1] else '0') + ':' + '.'.join('%x-%x' % (lo, hi) for lo, hi in it[2]))
            toks.append('>')
            for x in e['repl']:
                toks.append('t:' + _w(x[1]) if x[0] == 't' else 'm')
            toks.append('/')
        return ' '.join(toks)
    if r['t'] == 'F':
        f = r['f']
        if f[0] == 'upperRun':
            args = [str(f[1])]
        elif f[0] == 'startsWith':
            args = [_w(f[1]), _w(f[2])]
        elif f[0] in ('range', 'pairWith'):
            args = ['%x' % f[1], '%x' % f[2]]
        elif f[0] == 'overrun':
            args = ['%x' % ord(f[1]), str(f[2]), _w(f[3])]
        return ' '.join(['F', pr, f[0]] + args)
    raise ValueError(r['t'])

def to_line(c):
    if c['k'] == 'cached':
        return 'CACHE\t' + ';'.join(' '.join([_prot_field(pr), _prot_field(po), 'T' if na else 'F', 'T' if wa else 'F', _w(unicodedata.normalize('NFC', hs))])
                                    for (pr, po, na, wa, hs) in _cached_calls(c))
    if c['k'] != 'enc':
        return None
    sn = unicodedata.normalize('NFC', c['s'])
    c = expand_nested(c, sn)
    if has_nested(c):
        return None
    alpha = sorted(set(ch for t in _texts_of_case(c, sn) for ch in t if ord(ch) > 127 and ch.isalpha()))
    part = '-'
    if c.get('partial') is not None:
        keep = c['partial']['keep']
        toks = [_w(keep)]
        for p, ch in enumerate(sn):
            if ch in keep:
                a = peek_answer(sn, p)
                toks.append('%d=%s' % (p, 'T:%s:%d:%d' % (_w(a[1]), a[2], a[3]) if a[0] == 'T' else a[0]))
        part = ' '.join(toks)
    return '\t'.join(['ENC', _prot_field(c['prot']), _prot_field(c['pol']), 'T' if c['nao'] else 'F', _w(''.join(alpha)),
                      ';'.join(rule_field(r, sn) for r in c['rules']), part, _w(sn)])

# ------------------------------------------------------------------ generators

def enc(s, rules, prot='braces', pol='keep', nao=False, partial=None):
    return {'k': 'enc', 's': s, 'prot': prot, 'pol': pol, 'nao': nao, 'rules': rules, 'partial': partial}

B_DEF = {'t': 'B', 'name': 'defaults'}
B_XML = {'t': 'B', 'name': 'unicode-xml'}

ODD = ['\x00', '\x01', '\x1f', '\x7f', '\x80', '\x85', '\xa0', '\xad', '\u0300', '\u0301', '\u0308', '\u20d7', '\u0378', '\u0379',
       '\ue000', '\ufffd', '\ufffe', '\uffff', '\U00010000', '\U0001d49c', '\U0001f600', '\U000e0001', '\U000f0000', '\U0010ffff',
       '\u212b', '\u2126', '\u1100\u1161', 'e\u0301', 'a\u0308\u0301', '\u4e7e', '\u2028', '\u200b', '\ufb01', '\u00e9', '\u03b1',
       '\ufe0e', '\ufe0f', '\ufe00', '\u200d', '\u200c', '\u2060', '\ufeff', '\u20e3', '\U0001f3fb', '\u034f', '\x0b', '\x0c', '\x1c', '\x1d', '\x1e']

def rand_prot(rng, allow_none=False):
    x = rng.random()
    if allow_none and x < 0.45:
        return None
    if x > 0.9:
        return ['wrap', rng.choice(['<', '{\\x ', '', '\u00e9']), rng.choice(['>', '}', '', 'z'])]
    return rng.choice(PROTS)

def rand_pol(rng):
    if rng.random() > 0.9:
        return ['wrap', rng.choice(['[', '\\char{', '']), rng.choice([']', '}', ''])]
    return rng.choice(POLS)

ALPH = ['a', 'b', 'A', 'B', 'C', '.', '-', ' ', '\\', '$', '{', '&', '\x7f', '\x01', '\n', '\u00e9', '\u03b1', '\u0301', '\U0001f600', '\u4e7e']
REPLS = ['', 'x', '\\x', '\\xy', '\\x y', '\\^\\i', '\\x{y}', '{\\x}', 'x\\', '\\\\', '\\\u00e9', '\\x\u0301', '\\ldots', '\\%', '\\a1', 'XY', '\\x\\']

def rand_lit(rng, n=None):
    n = n or rng.choice([1, 1, 2, 2, 3])
    return ''.join(rng.choice(ALPH) for _ in range(n))

def rand_class(rng):
    rs = []
    for _ in range(rng.choice([1, 1, 2, 3])):
        x = rng.random()
        if x < 0.5:
            ch = ord(rng.choice(ALPH)); rs.append([ch, ch])
        elif x < 0.7:
            rs.append([0x61, 0x62])
        elif x < 0.8:
            rs.append([0x41, 0x5a])
        elif x < 0.9:
            rs.append([0x80, 0x10ffff])
        else:
            rs.append([0x0, 0x7f])
    return rs

def rand_rx(rng):
    items = []
    for _ in range(rng.choice([1, 1, 2, 2, 3])):
        if rng.random() < 0.5:
            items.append(['l', rand_lit(rng), rng.random() < 0.4])
        else:
            items.append(['c', rng.random() < 0.2, rand_class(rng), rng.random() < 0.5])
    return items

def rand_repl_pieces(rng):
    x = rng.random()
    if x < 0.55:
        return [['t', rng.choice(REPLS)]]
    if x < 0.7:
        return [['m']]
    if x < 0.9:
        return [['t', rng.choice(['{', '\\x{', '<'])], ['m'], ['t', rng.choice(['}', '>', ''])]]
    return [['t', '\\'], ['m']]

def rand_rule(rng):
    x = rng.random()
    pr = rand_prot(rng, allow_none=True)
    if x < 0.3:
        keys = rng.sample(ALPH, rng.randint(1, 5))
        return {'t': 'D', 'prot': pr, 'd': [[ord(k), rng.choice(REPLS)] for k in keys]}
    if x < 0.65:
        es = [{'rx': rand_rx(rng), 'repl': rand_repl_pieces(rng)} for _ in range(rng.choice([1, 1, 2, 3]))]
        if rng.random() < 0.35:
            # patterns that depend on what precedes the position
            for e in es:
                y = rng.random()
                if y < 0.3:
                    e['g'] = ['A']
                elif y < 0.8:
                    e['g'] = ['P', rng.random() < 0.5, rand_class(rng)]
        return {'t': 'R', 'prot': pr, 'call': rng.random() < 0.3, 'es': es}
    if x < 0.72:
        return dict(rng.choice([B_DEF, B_XML]))
    y = rng.random()
    if y < 0.2:
        f = ['upperRun', rng.choice([1, 2, 3])]
    elif y < 0.5:
        f = ['startsWith', rand_lit(rng), rng.choice(REPLS)]
    elif y < 0.7:
        lo = rng.choice([0, 0x41, 0x7f, 0x80, 0x300, 0x1f600]); f = ['range', lo, lo + rng.choice([0, 1, 0x20, 0x100])]
    elif y < 0.85:
        f = ['pairWith', 0x300, 0x36f]
    else:
        f = ['overrun', rng.choice(ALPH), rng.choice([1, 2, 3, 7]), rng.choice(REPLS)]
    return {'t': 'F', 'prot': pr, 'f': f, 'u2l': rng.random() < 0.3}

def rand_string(rng, n, extra=()):
    pool = ALPH + list(extra)
    out = []
    for _ in range(n):
        x = rng.random()
        if x < 0.75:
            out.append(rng.choice(pool))
        elif x < 0.9:
            out.append(rng.choice(ODD))
        else:
            out.append(rng.choice(['...', 'ABC', 'aab', 'abab', 'e\u0301', '-->']))
    return ''.join(out)

# fixed rule lists with deliberately overlapping matches (first in order must win; consumption lengths differ)
def fixed_rule_lists():
    d_a = {'t': 'D', 'prot': None, 'd': [[ord('a'), '\\x'], [ord('.'), '\\dot']]}
    r_ab = {'t': 'R', 'prot': None, 'call': False, 'es': [
        {'rx': [['l', 'a', True], ['l', 'b', False]], 'repl': [['t', '\\ab']]},
        {'rx': [['c', False, [[0x61, 0x62]], True]], 'repl': [['t', '{'], ['m'], ['t', '}']]},
        {'rx': [['l', '...', False]], 'repl': [['t', '\\ldots']]}]}
    r_back = {'t': 'R', 'prot': 'none', 'call': True, 'es': [
        {'rx': [['c', False, [[0x61, 0x62]], True], ['l', 'b', False]], 'repl': [['t', '<'], ['m'], ['t', '>']]},
        {'rx': [['l', 'ab', True], ['l', 'a', False]], 'repl': [['m'], ['t', '\\z']]}]}
    f_up = {'t': 'F', 'prot': 'braces-all', 'f': ['upperRun', 2], 'u2l': False}
    f_sw = {'t': 'F', 'prot': None, 'f': ['startsWith', '..', '\\dd'], 'u2l': True}
    f_ov = {'t': 'F', 'prot': 'braces-after-macro', 'f': ['overrun', 'b', 3, '\\bbb'], 'u2l': False}
    f_pair = {'t': 'F', 'prot': None, 'f': ['pairWith', 0x300, 0x36f], 'u2l': False}
    d_del = {'t': 'D', 'prot': None, 'd': [[0x7f, '\\DEL'], [ord('A'), '\\A'], [0x301, "\\'{}"]]}
    r_g = {'t': 'R', 'prot': None, 'call': False, 'es': [
        {'g': ['A'], 'rx': [['c', False, [[0x61, 0x62]], False]], 'repl': [['t', '\\first{'], ['m'], ['t', '}']]},
        {'g': ['P', False, [[0x61, 0x61], [0x41, 0x42]]], 'rx': [['l', 'b', True]], 'repl': [['t', '\\afterA']]},
        {'g': ['P', True, [[0x2e, 0x2e]]], 'rx': [['l', '...', False]], 'repl': [['t', '\\ldots']]}]}
    return [[r_g, d_a], [r_g], [r_ab, r_g, d_a], [d_a, r_ab], [r_ab, d_a], [r_back, r_ab, d_a], [f_sw, r_ab, d_a], [f_ov, d_a, r_back], [f_up, d_del, B_DEF],
            [f_pair, d_del, B_DEF], [d_del], [B_DEF], [B_XML, B_DEF], []]

LATEX_ATOMS = ['\\', '\\alpha', '\\alpha ', '\\begin{x}', '\\begin', '\\begin x', '\\end', '\\end{y}', '{', '}', '$', '$$', '^', '_',
               ' ', '\n', '\n\n', 'a', 'B', '\u00e9', '%', '&', '~', '#', '\\%', "\\'", '\\(', '\\]', '--', '\x7f', '\u4e7e', '``', '\\\\']
KEEPS = ['\\${}^_', '\\', '\\$ ', '%\\', '', '{}a', '\\${}^_\n ', '&~\u00e9\\']

def all_chars_of_tables():
    return sorted(set(builtin_table('defaults')) | set(builtin_table('unicode-xml')))

def cases(tier, rng):
    quick = (tier == 'quick')
    # 0. the documented defects' triggers, always
    for s in ['a\\', '\\begin x', '\\end', '\\begin', '$x$ \\alpha{} \u00e9\\']:
        yield enc(s, [B_DEF], partial={'keep': '\\${}^_'})
    yield enc('a \\', [B_DEF], partial={'keep': '\\$ '})
    yield enc('x ', [B_DEF], partial={'keep': ' '})
    yield enc('A\x7fB', [{'t': 'D', 'prot': None, 'd': [[0x7f, '\\DEL'], [0x41, '\\A']]}], nao=True)
    yield enc('\x7f', [{'t': 'R', 'prot': None, 'call': False, 'es': [{'rx': [['c', False, [[0x7f, 0x7f]], False]], 'repl': [['t', 'del']]}]}], nao=True)

    # 1. every character with a built-in rule (both tables), grouped; every scheme
    chars = [chr(k) for k in all_chars_of_tables()]
    grp = 3 if quick else 2
    for table in (B_DEF, B_XML):
        for i in range(0, len(chars), grp):
            s = ''.join(chars[i:i+grp])
            schemes = rng.sample(PROTS, 2) if quick else PROTS
            for pr in schemes:
                yield enc(s, [dict(table)], prot=pr, pol=rng.choice(POLS), nao=rng.random() < 0.2)
    if not quick:
        for table in (B_DEF, B_XML):
            for ch in chars:
                yield enc('a' + ch + 'b' + ch, [dict(table)], prot=rng.choice(PROTS), pol='fail')
    # 2. all ASCII, control, odd code points x policies x non_ascii_only x tables
    for nao in (False, True):
        for pol in POLS + [['wrap', '[', ']']]:
            for table in ([B_DEF], [B_XML], []):
                yield enc(''.join(chr(i) for i in range(0, 64)), table, prot=rng.choice(PROTS), pol=pol, nao=nao)
                yield enc(''.join(chr(i) for i in range(64, 160)), table, prot=rng.choice(PROTS), pol=pol, nao=nao)
                if pol != 'fail':
                    yield enc(''.join(ODD), table, prot=rng.choice(PROTS), pol=pol, nao=nao)
    for ch in ODD + [chr(i) for i in range(0, 0xa1)]:
        for pol in POLS:
            yield enc(ch, [B_DEF], pol=pol, nao=rng.random() < 0.3, prot=rng.choice(PROTS))
    # 3. protection schemes on every replacement shape, global and per rule
    for repl in REPLS:
        for pg in PROTS + [['wrap', '<', '>']]:
            for pr in [None] + PROTS + [['wrap', '(', ')']]:
                yield enc('xay', [{'t': 'D', 'prot': pr, 'd': [[ord('a'), repl]]}], prot=pg)
    # 4. fixed overlapping rule lists x all short strings
    alph = 'ab.AB\u0301\x7f'
    maxlen = 3 if quick else 4
    lists = fixed_rule_lists()
    for n in range(0, maxlen + 1):
        for t in itertools.product(alph, repeat=n):
            s = ''.join(t)
            for rl in (lists if n <= 2 or not quick else rng.sample(lists, 3)):
                yield enc(s, rl, prot=rng.choice(PROTS), pol=rng.choice(POLS), nao=(rng.random() < 0.25))
    # 5. random configurations
    n5 = 12000 if quick else 120000
    for _ in range(n5):
        rules = [rand_rule(rng) for _ in range(rng.choice([0, 1, 1, 2, 2, 3, 4]))]
        extra = []
        for r in rules:
            if r['t'] == 'D':
                extra += [chr(k) for k, _ in r['d']]
            elif r['t'] == 'R':
                for e in r['es']:
                    for it in e['rx']:
                        if it[0] == 'l':
                            extra.append(it[1])
            elif r['t'] == 'F' and r['f'][0] == 'startsWith':
                extra.append(r['f'][1])
        cfgp = rand_prot(rng); cfgq = rand_pol(rng); nao = rng.random() < 0.25
        for _ in range(3):
            yield enc(rand_string(rng, rng.randint(0, 12), extra), rules, prot=cfgp, pol=cfgq, nao=nao)
    # 5b. re-entrant rules: a callable rule that calls unicode_to_latex on the encoder object it is handed
    n5b = 600 if quick else 8000
    for _ in range(n5b):
        nest = {'t': 'F', 'prot': rng.choice([None, None, 'none', 'braces-all']), 'f': ['nested', rng.choice(['\\enquote{', '<', '{\\q ', '']), rng.choice(['}', '>', '', '}'])], 'u2l': True}
        others = [rand_rule(rng) for _ in range(rng.choice([0, 1, 2]))] + [rng.choice([B_DEF, B_XML])]
        k = rng.randint(0, len(others))
        rules = others[:k] + [nest] + others[k:]
        pol = rng.choice([q for q in POLS if q != 'fail'])
        for _ in range(2):
            parts = []
            for _ in range(rng.randint(1, 4)):
                parts.append(rand_string(rng, rng.randint(0, 4)))
                parts.append(NEST_O + rand_string(rng, rng.randint(0, 5)).replace(NEST_O, '').replace(NEST_C, '') + NEST_C)
            parts.append(rand_string(rng, rng.randint(0, 3)))
            s = ''.join(parts)
            yield enc(s, rules, prot=rand_prot(rng), pol=pol, nao=rng.random() < 0.2,
                      partial=({'keep': rng.choice(KEEPS)} if rng.random() < 0.2 else None))
    # 6. partial encoder: token soups
    kmax = 2 if quick else 3
    for n in range(1, kmax + 1):
        for t in itertools.product(LATEX_ATOMS, repeat=n):
            s = ''.join(t)
            keeps = KEEPS if n == 1 else ([KEEPS[0], rng.choice(KEEPS[1:])] if n == 2 else [KEEPS[0]])
            for keep in keeps:
                yield enc(s, [B_DEF], prot=rng.choice(PROTS), pol=rng.choice(POLS), nao=(rng.random() < 0.15), partial={'keep': keep})
    n6 = 4000 if quick else 40000
    for _ in range(n6):
        s = ''.join(rng.choice(LATEX_ATOMS) for _ in range(rng.randint(1, 8)))
        rules = [rand_rule(rng) for _ in range(rng.choice([0, 1, 2]))] + [rng.choice([B_DEF, B_XML])]
        yield enc(s, rules, prot=rand_prot(rng), pol=rand_pol(rng), nao=(rng.random() < 0.15), partial={'keep': rng.choice(KEEPS)})
    # 6b. degenerate rule lists through both classes: empty list (legitimate: only ASCII copying and the unknown-character policy
    #     remain), a list without any built-in table, the keyword omitted / None (documented: ['defaults'])
    for s in ['caf\u00e9 & th\u00e9 --> 100% ... \u4e7e', '\u00fc', 'a\\b{c}$x$', '', ' ', '\x01\u00e9']:
        for pol in POLS:
            for nao in (False, True):
                for part in (None, {'keep': KEEPS[0]}, {'keep': ''}):
                    yield enc(s, [], prot=rng.choice(PROTS), pol=pol, nao=nao, partial=part)
                    for om in ('omit', 'none'):
                        d = enc(s, [B_DEF], prot=rng.choice(PROTS), pol=pol, nao=nao, partial=part); d['omit_rules'] = om
                        yield d
    for _ in range(600 if quick else 6000):
        s = ''.join(rng.choice(LATEX_ATOMS) for _ in range(rng.randint(1, 6)))
        rules = [rand_rule(rng) for _ in range(rng.choice([0, 0, 1, 2]))]
        yield enc(s, rules, prot=rand_prot(rng), pol=rand_pol(rng), nao=(rng.random() < 0.15),
                  partial=({'keep': rng.choice(KEEPS)} if rng.random() < 0.7 else None))
    # 6c. after another part of the program customised ITS copy of the built-in rule lists
    for _ in range(300 if quick else 4000):
        s = ''.join(rng.choice(['caf\u00e9', ' ', '\u2014', 'a', '\u03b1', '&', '\u4e7e', '%']) for _ in range(rng.randint(1, 5)))
        d = enc(s, [rng.choice([B_DEF, B_XML])], prot=rng.choice(PROTS), pol=rng.choice(POLS), nao=rng.random() < 0.15,
                partial=({'keep': rng.choice(KEEPS)} if rng.random() < 0.2 else None))
        d['pre_mut'] = rng.choice(['i', 'p', 'ip', 'c'])
        if d['rules'] == [B_DEF] and rng.random() < 0.3:
            d['omit_rules'] = 'omit'
        yield d
    # 7. homomorphism under per-character rules, on the implementation
    n7 = 1500 if quick else 15000
    for _ in range(n7):
        pool = chars if rng.random() < 0.7 else ODD + list('ab{}\\$ \n~&')
        s = ''.join(rng.choice(pool) if rng.random() < 0.6 else rng.choice(list('abz \\{}%&') + ODD) for _ in range(rng.randint(2, 10)))
        k = rng.randint(0, len(s))
        rules = rng.choice([[B_DEF], [B_XML], [B_XML, B_DEF], [{'t': 'D', 'prot': rand_prot(rng, True), 'd': [[ord('a'), '\\x'], [0xe9, "\\'e"], [0x301, '']]}, B_DEF]])
        yield {'k': 'concat', 's': s, 'a': s[:k], 'b': s[k:], 'rules': rules, 'prot': rand_prot(rng), 'pol': rand_pol(rng),
               'nao': rng.random() < 0.2, 'partial': None}
    # 8. the cached module-level helper
    for pr in PROTS:
        for pol in POLS:
            for nao in (False, True):
                yield {'k': 'cached', 's': rng.choice(['\u00e9 & \u03b1\u4e7e', 'a\x01b', '\u00c0 votre sant\u00e9', rand_string(rng, 8)]),
                       'prot': pr, 'pol': pol, 'nao': nao, 'warn': rng.random() < 0.5}
    # 8b. the same after a history of calls with other option values (process-wide cache keyed by all four options)
    for _ in range(400 if quick else 6000):
        def one():
            return [rng.choice(PROTS), rng.choice(POLS), rng.random() < 0.3, rng.random() < 0.3,
                    rng.choice(['\u00e9 & \u03b1\u4e7e', 'a\x01b%', '\u4e7e', rand_string(rng, rng.randint(0, 6))])]
        h = [one() for _ in range(rng.randint(1, 3))]
        last = one()
        if rng.random() < 0.6:
            # differ from an earlier call in exactly one option
            last = list(rng.choice(h)); i = rng.randrange(4)
            last[i] = [rng.choice(PROTS), rng.choice(POLS), not last[2], not last[3]][i]
        yield {'k': 'cached', 'hist': h, 'prot': last[0], 'pol': last[1], 'nao': last[2], 'warn': last[3], 's': last[4]}

# ------------------------------------------------------------------ shrinking

def shrink_candidates(c):
    if c['k'] == 'concat':
        for part in ('a', 'b'):
            x = c[part]
            for i in range(len(x)):
                d = dict(c); d[part] = x[:i] + x[i+1:]; d['s'] = d['a'] + d['b']
                yield d
        return
    s = c['s']
    for i in range(len(s)):
        d = dict(c); d['s'] = s[:i] + s[i+1:]
        yield d
    if c['k'] != 'enc':
        return
    for i in range(len(c['rules'])):
        d = dict(c); d['rules'] = c['rules'][:i] + c['rules'][i+1:]
        yield d
    for i, r in enumerate(c['rules']):
        if r['t'] == 'D' and len(r['d']) > 1:
            for j in range(len(r['d'])):
                r2 = dict(r); r2['d'] = r['d'][:j] + r['d'][j+1:]
                d = dict(c); d['rules'] = c['rules'][:i] + [r2] + c['rules'][i+1:]
                yield d
        if r['t'] == 'R' and len(r['es']) > 1:
            for j in range(len(r['es'])):
                r2 = dict(r); r2['es'] = r['es'][:j] + r['es'][j+1:]
                d = dict(c); d['rules'] = c['rules'][:i] + [r2] + c['rules'][i+1:]
                yield d
        if r.get('prot') is not None:
            r2 = dict(r); r2['prot'] = None
            d = dict(c); d['rules'] = c['rules'][:i] + [r2] + c['rules'][i+1:]
            yield d
    if c['prot'] != 'braces':
        d = dict(c); d['prot'] = 'braces'; yield d
    if c['pol'] != 'keep':
        d = dict(c); d['pol'] = 'keep'; yield d
    if c['nao']:
        d = dict(c); d['nao'] = False; yield d
    if c.get('partial') is not None:
        d = dict(c); d['partial'] = None; yield d
        k = c['partial']['keep']
        for i in range(len(k)):
            d = dict(c); d['partial'] = {'keep': k[:i] + k[i+1:]}; yield d

def known_match(m, case, fail):
    if 'input' in m:
        return case.get('s') == m['input']
    return True

LEVEL_TEXT = ('Theorems C04_step / C04_first_rule characterise one iteration of the encoder loop (ASCII skip, first rule in order that '
              'matches with its consumed length, protection with the rule\'s own setting first, printable-ASCII copy, unknown-character '
              'policy) for every configuration, string and position; C04_concat proves encode(a+b) = encode(a)+encode(b) for all strings '
              'under per-character rules; C04_exceptions proves that the only exception is the fail policy\'s ValueError and that it '
              'occurs exactly when a reached position is unmatched and not passed through; C04_terminates proves termination when every '
              'rule consumes at least one character; C04_partial proves that the partial encoder performs the base encoder\'s step '
              'except at keep characters, where it copies pre_space + token text. The model (Pylx.encodeChunks) is tied to '
              'UnicodeToLatexEncoder / PartialLatexToLatexEncoder by running both on generated configurations and strings and '
              'comparing the chunk lists; the oracle re-evaluates the step rule in Python against the implementation.')
LEVEL_NOTE = ('NFC, re, str.isalpha and the tokenizer behind the partial encoder are trusted inputs of the model; user callables are '
              'restricted to a fixed family; the tie is differential testing; Lean kernel + propext/Classical.choice/Quot.sound')
TECHNIQUE = 'Lean 4 proof (characterisation of the loop, induction on fuel/string, reachability) + model-vs-implementation correspondence'
