# C07 — latex2text is total: LatexNodes2Text(**options).latex_to_text(s) returns a string, raises nothing,
# terminates, for every input and every combination of the documented options (default tolerant parsing).
import os, re, itertools, unicodedata, traceback
import gen
from common import wire, show_str
import logging
logging.getLogger('pylatexenc').setLevel(logging.CRITICAL)   # the library's own warnings are not part of the property

THEOREMS = ['Pylx.L2T.C07', 'Pylx.L2T.C07_parsed_args_length', 'Pylx.L2T.C07P.C07_parsed_args_length_generic', 'Pylx.L2T.C07P.C07_ctx_ok', 'Pylx.L2T.C07_partial', 'Pylx.L2T.C07_render_total', 'Pylx.L2T.C07_cross_db', 'Pylx.L2T.C07_fmt_in_range',
            'Pylx.L2T.renderNode_total', 'Pylx.L2T.applySpec_total', 'Pylx.L2T.applyCallable_total',
            'Pylx.L2T.C07_F7_href', 'Pylx.L2T.C07_F7_uebung', 'Pylx.L2T.C07_F7_input', 'Pylx.L2T.C07_F8_matrix', 'Pylx.L2T.C07_F9_bare']
PROOF_MODULES = ['C07P', 'C07']
RULE = ('L2T: LatexNodes2Text(math_mode, strict_latex_spaces, keep_comments, keep_braced_groups(+minlen), fill_text).latex_to_text(s) on '
        'every string of <= k atoms over the LaTeX-significant alphabet, soups placing EVERY macro and environment name of the default '
        'walker and text databases in every argument position (bare, with empty / too few / too many arguments, as single-token argument '
        'of another macro, inside groups, math and environments, at end of input, before a stray closing brace), generated well-formed '
        'documents, accents and sectioning over Unicode letters; each crossed with values of all options; model (repaired switch on) vs '
        'implementation: exact output text (fill_text=None; fill_text cases are oracle-only); oracle on the implementation: the call '
        'returns a str, raises nothing, within the watchdog; sig = outcome x math_mode x output size class')
TRUSTED = ['parser model (C01/C05/C06 correspondence) with the default walker database (Gen/WalkerDb)',
           'translate/textdb.py: recognition of the replacement callables of latex2text/_defaultspecs.py (lambdas by ast, closures by code '
           'identity + cells, named functions by identity + pinned ast hash); anything else becomes unknownCallable -> crash in the model',
           'a node\'s `spec` / `nodeargd.arguments_spec_list` are the walker database entry of its name (translator checks the canonical '
           'spelling of argument specifications and that spec-less recovery nodes have no %-format replacement)',
           'library oracles supplied per call by the harness: unicodedata.normalize("NFC", ch+combining), str.upper() per character '
           '(CPython str.upper is context-free), today\'s date; str.strip/isspace as in C11',
           'textwrap (fill_text) is not modelled: fill_text cases are checked by the oracle only',
           'no \\input directory configured (set_tex_input_directory not called): \\input renders its argument and yields the empty string']
ASSUMPTIONS = ['construct nesting below the interpreter recursion limit; wall-clock watchdog of 10 s per case stands for "in bounded time"',
               'a fresh LatexNodes2Text object per call (\\title/\\author/\\date state starts empty)']
TRIVIAL_SIGS = ()
CASE_TIMEOUT = 10.0

MATH_MODES = ['text', 'with-delimiters', 'verbatim', 'remove']
MM_WIRE = {'text': 'T', 'with-delimiters': 'D', 'verbatim': 'V', 'remove': 'R'}
SLS_VALUES = [False, None, True, 'macros', 'based-on-source', 'except-in-equations', 'on', 'off', 'default',     # documented aliases: on = True, off = False, default (deprecated) = based-on-source
              {'between-macro-and-chars': True}, {'between-latex-constructs': True, 'in-equations': True},
              {'after-comment': True, 'in-equations': False},
              {'between-macro-and-chars': True, 'between-latex-constructs': True, 'after-comment': True, 'in-equations': 'macros'},
              {'in-equations': {'between-macro-and-chars': True, 'after-comment': True, 'in-equations': {'between-latex-constructs': True}}},
              {'between-latex-constructs': True, 'in-equations': 'except-in-equations'}]
FILL_VALUES = [None, None, None, True, 20]
DEFAULT_OPTS = {'mm': 'text', 'sls': False, 'kc': False, 'kb': False, 'ml': 2, 'fill': None}

# ---------------------------------------------------------------- options -> wire / kwargs

def sls_wire(v):
    if v is None: return 'N'
    if v is False or v == 'off': return 'B0'
    if v is True or v == 'on': return 'B1'
    if v == 'based-on-source' or v == 'default': return 'S'
    if v == 'macros': return 'M'
    if v == 'except-in-equations': return 'E'
    if isinstance(v, dict):
        b = lambda k: '1' if v.get(k, False) else '0'
        return 'D' + b('between-macro-and-chars') + b('between-latex-constructs') + b('after-comment') + sls_wire(v.get('in-equations', None))
    raise ValueError(v)

def opts_wire(o):
    return ';'.join([MM_WIRE[o['mm']], sls_wire(o['sls']), '1' if o['kc'] else '0', '1' if o['kb'] else '0', str(o['ml']), '0' if os.environ.get('VERIF_L2T_ASIS') else '1'])

def opts_kwargs(o):
    kw = {'math_mode': o['mm'], 'strict_latex_spaces': o['sls'], 'keep_comments': o['kc'], 'keep_braced_groups': o['kb'],
          'keep_braced_groups_minlen': o['ml']}
    if o.get('fill') is not None:
        kw['fill_text'] = o['fill']
    return kw

# ---------------------------------------------------------------- the databases (names, characters)

_DB = None

def dbinfo():
    global _DB
    if _DB is None:
        from pylatexenc import latexwalker, latex2text
        from pylatexenc.latex2text import _defaultspecs
        w = latexwalker.get_default_latex_context_db()
        t = latex2text.get_default_latex_context_db()
        def names(db, k):
            out = []
            for cat in db.category_list:
                for n in db.d[cat][k]:
                    if n not in out:
                        out.append(n)
            return out
        macros = names(w, 'macros') + [n for n in names(t, 'macros') if n not in set(names(w, 'macros'))]
        envs = names(w, 'environments') + [n for n in names(t, 'environments') if n not in set(names(w, 'environments'))]
        # characters a replacement can contribute, per macro name
        chars = {}
        for n in names(t, 'macros'):
            sp = t.get_macro_spec(n)
            r = sp.simplify_repl
            cs = set()
            if isinstance(r, str):
                cs |= set(r)
            elif callable(r):
                for d in (r.__defaults__ or ()):
                    if isinstance(d, str): cs |= set(d)
                for c in r.__code__.co_consts:
                    if isinstance(c, str): cs |= set(c)
                cs |= set('< >[]*=\n')
            chars[n] = cs
        always = set(' \n')
        for cat in t.category_list:
            for kind in ('environments', 'specials'):
                for n, sp in t.d[cat][kind].items():
                    if isinstance(sp.simplify_repl, str):
                        always |= set(sp.simplify_repl)
        always |= set('[ ;]<>')
        combs = sorted(set(c for _, c in _defaultspecs.unicode_accents_list))
        styles = []
        for n in names(t, 'macros'):
            r = t.get_macro_spec(n).simplify_repl
            if callable(r) and r.__code__.co_name == 'formatter' and r.__defaults__:
                styles.append((n, r.__defaults__[0]))
        accents, uppers = set(), set()
        for n in names(t, 'macros'):
            r = t.get_macro_spec(n).simplify_repl
            if callable(r):
                if 'make_accented_char' in r.__code__.co_names:
                    accents.add(n)
                if 'upper' in r.__code__.co_names:
                    uppers.add(n)
        _DB = {'accents': accents, 'uppers': uppers, 'macros': macros, 'envs': envs, 'chars': chars, 'always': always, 'combs': combs, 'styles': dict(styles),
               'l2t': latex2text, 'ds': _defaultspecs, 'walker_macros': set(names(w, 'macros'))}
    return _DB

_NAME_RX = re.compile(r'\\([A-Za-z]+|.)', re.S)

def lib_wire(s):
    """today | upper table | NFC table: the oracle answers the model may need for this input (closure over the
    characters that can reach an accent / upper() call)"""
    D = dbinfo()
    chars = set(s) | D['always']
    names = set(_NAME_RX.findall(s))
    for n in names:
        chars |= D['chars'].get(n, set())
    for n in names:
        st = D['styles'].get(n)
        if st is not None:
            for c in set(s):
                if c.isascii() and c.isalpha():
                    chars.add(D['l2t']._fmt_math_style_char(c, st))
    chars |= set(D['ds']._latex_today())
    up, nfc = {}, {}
    need_nfc = bool(names & D['accents'])
    need_up = bool(names & D['uppers'])
    if not need_nfc and not need_up:
        return '|'.join([wire(D['ds']._latex_today()), '', ''])
    todo = set(chars)
    seen = set()
    rounds = 0
    while todo and rounds < 6:
        rounds += 1
        new = set()
        for c in todo:
            seen.add(c)
            u = c.upper() if need_up else c
            if u != c:
                up[c] = u
                new |= set(u)
            c2 = 'i' if c == 'ı' else ('j' if c == 'ȷ' else c)
            for comb in (D['combs'] if need_nfc else ()):
                r = unicodedata.normalize('NFC', c2 + comb)
                if r != c2 + comb:
                    nfc[(c2, comb)] = r
                new |= set(r)
        todo = new - seen
    t_up = ';'.join('%x=%s' % (ord(c), wire(u)) for c, u in sorted(up.items()))
    t_nfc = ';'.join('%x.%x=%s' % (ord(c), ord(d), wire(r)) for (c, d), r in sorted(nfc.items()))
    return '|'.join([wire(D['ds']._latex_today()), t_up, t_nfc])

USERDB_DOCS = ['Some \\emph{important} text.', '\\emph', '\\textbf\\emph{x}', '$a~\\emph{b}$ \\begin{quote}q\\end{quote}',
               '\\begin{center}c \\textit{i}\\end{center}~\\alpha\\beta x', '\\textbf', '\\begin{center}', '~~', '\\emph{\\textbf{\\textit{}}}',
               'See \\cite{key}. \\gamma\\delta\\epsilon', '\\begin{figure}f\\end{figure} a & b \'\' c---d', '\\begin{table}[h]t\\end{table}\\begin{verse}v\\end{verse}',
               '\\begin{figure}', '\\textbf\\cite', '$\\gamma & \\begin{figure}\\end{figure}$']

def to_line(c):
    if c.get('deep') or c.get('userdb') or c.get('legacy') or c.get('subclass') or c.get('inputdir') is not None:
        return None
    if c['o'].get('fill') is not None:
        return None
    if any(0xD800 <= ord(ch) <= 0xDFFF for ch in c['s']):
        return None
    return '\t'.join(['L2T', opts_wire(c['o']), lib_wire(c['s']), wire(c['s'])])

# ---------------------------------------------------------------- implementation + oracle

_INPUT_DIR = {}
import os as _os, atexit as _atexit
_SESSION_PID = _os.getpid()
def _sweep_input_dirs():
    # pool workers are forked from the session process and do not run exit handlers: the session process removes
    # every directory that carries its pid
    if _os.getpid() == _SESSION_PID:
        import glob, shutil, tempfile
        for d in glob.glob(_os.path.join(tempfile.gettempdir(), 'pylxc07-%d-*' % _SESSION_PID)):
            shutil.rmtree(d, ignore_errors=True)
_atexit.register(_sweep_input_dirs)

def _input_dir():
    """a directory with a few input files, one per process (outside /repo and /verif; removed by the session process at exit)"""
    import os, tempfile, atexit, shutil
    if _INPUT_DIR.get('pid') != os.getpid():
        d = tempfile.mkdtemp(prefix='pylxc07-%d-' % _SESSION_PID)
        for name, text in [('chapter.tex', 'Included \\emph{text} $x$ %c\nmore'), ('empty.tex', ''), ('nested.tex', 'N \\input{chapter} N'),
                           ('b.latex', '\\begin{center}z\\end{center}'), ('bad.tex', 'unclosed {group \\emph')]:
            with open(os.path.join(d, name), 'w') as f:
                f.write(text)
        with open(os.path.join(d, 'latin1.tex'), 'wb') as f:
            f.write(b'caf\xe9 \\emph{na\xefve}')          # an input file that is not valid UTF-8
        os.mkdir(os.path.join(d, 'adir.tex'))
        _INPUT_DIR.update(pid=os.getpid(), dir=d)
    return _INPUT_DIR['dir']

class _CallableRepl(object):
    """a replacement given as an object with __call__ (no __code__, no __name__)"""
    def __init__(self, tag): self.tag = tag
    def __call__(self, node, l2tobj):
        return '<%s:%s>' % (self.tag, l2tobj.nodelist_to_text(getattr(node, 'nodelist', None) or []))

def _repl_fn(tag, node):
    return '(%s)' % tag

def _repl_fn2(tag, n, l2tobj):
    return '[%s %s]' % (tag, l2tobj.nodelist_to_text([a for a in (n.nodeargd.argnlist if n.nodeargd else []) if a is not None]))

def _repl_generic(node, l2tobj, macroname=None, environmentname=None, specials_chars=None):
    """one formatter shared by macro, environment and specials specs: its signature names all three documented keywords,
    each of which is passed only for its own kind of node"""
    return '<%s|%s|%s>' % (macroname, environmentname, specials_chars)

def _repl_own_m(node, macroname): return 'm:' + macroname
def _repl_own_e(node, environmentname, l2tobj): return 'e:' + environmentname
def _repl_own_s(node, specials_chars): return 's:' + specials_chars
def _repl_kw(node, **kwargs): return 'kw:' + ','.join(sorted(kwargs))

_USERDB = []
def user_textdb():
    """the default text database extended the documented way with replacement callables of every kind Python offers:
    plain function, lambda, functools.partial (with and without the l2tobj parameter), callable instance, bound method"""
    if not _USERDB:
        import functools
        from pylatexenc import latex2text
        db = latex2text.get_default_latex_context_db()
        inst = _CallableRepl('obj')
        db.add_context_category('user-callables', prepend=True,
            macros=[latex2text.MacroTextSpec('emph', simplify_repl=functools.partial(_repl_fn2, 'emph')),
                    latex2text.MacroTextSpec('textbf', simplify_repl=functools.partial(_repl_fn, 'bf')),
                    latex2text.MacroTextSpec('alpha', simplify_repl=lambda n: 'A'),
                    latex2text.MacroTextSpec('beta', simplify_repl=functools.partial(lambda n: 'B')),
                    latex2text.MacroTextSpec('textit', simplify_repl=inst.__call__),
                    latex2text.MacroTextSpec('gamma', simplify_repl=_repl_generic), latex2text.MacroTextSpec('cite', simplify_repl=_repl_generic),
                    latex2text.MacroTextSpec('delta', simplify_repl=_repl_own_m), latex2text.MacroTextSpec('epsilon', simplify_repl=_repl_kw)],
            environments=[latex2text.EnvironmentTextSpec('center', simplify_repl=inst),
                          latex2text.EnvironmentTextSpec('quote', simplify_repl=functools.partial(_repl_fn, 'quote')),
                          latex2text.EnvironmentTextSpec('figure', simplify_repl=_repl_generic), latex2text.EnvironmentTextSpec('table', simplify_repl=_repl_own_e),
                          latex2text.EnvironmentTextSpec('verse', simplify_repl=_repl_kw)],
            specials=[latex2text.SpecialsTextSpec('~', simplify_repl=functools.partial(_repl_fn, 'tilde')),
                      latex2text.SpecialsTextSpec('&', simplify_repl=_repl_generic), latex2text.SpecialsTextSpec("''", simplify_repl=_repl_own_s),
                      latex2text.SpecialsTextSpec('---', simplify_repl=_repl_kw),
                      latex2text.SpecialsTextSpec('--'), latex2text.SpecialsTextSpec('``', simplify_repl='')])    # constructor default: no replacement
        _USERDB.append(db)
    return _USERDB[0]

def run_impl(c):
    from pylatexenc.latex2text import LatexNodes2Text
    o = c['o']
    fail = None
    try:
        kw = opts_kwargs(o)
        if c.get('userdb'):
            kw['latex_context'] = user_textdb()
        if c.get('inputdir') is not None:
            # real files: set_tex_input_directory(dir, latex_walker_init_args=<documented dictionary of LatexWalker arguments>)
            from pylatexenc import latexwalker as _lw
            iargs = {'none': None, 'empty': {}, 'strict': {'tolerant_parsing': False}, 'tol': {'tolerant_parsing': True},
                     'ctx': {'latex_context': _lw.get_default_latex_context_db()},
                     'ctxtol': {'latex_context': _lw.get_default_latex_context_db(), 'tolerant_parsing': True}}[c['inputdir']]
            l2t = LatexNodes2Text(**kw)
            if iargs is None:
                l2t.set_tex_input_directory(_input_dir())
            else:
                l2t.set_tex_input_directory(_input_dir(), latex_walker_init_args=iargs)
            r = l2t.latex_to_text(c['s'])
            if not isinstance(r, str):
                raise TypeError('not a str')
            return {'out': 'ok ' + show_str(r), 'fail': None, 'sig': 'ok-inputdir-%s|%s|nofill' % (c['inputdir'], o['mm'])}
        if c.get('subclass'):
            # the documented hook: read_input_file() "may be overridden to implement a custom lookup mechanism"
            class _L2T(LatexNodes2Text):
                def read_input_file(self, fn):
                    return 'IN<\\emph{%s}>' % fn if len(fn) < 40 else ''
            r = _L2T(**kw).latex_to_text(c['s'])
            if not isinstance(r, str):
                raise TypeError('not a str')
            return {'out': 'ok ' + show_str(r), 'fail': None, 'sig': 'ok-subclass|%s|nofill' % o['mm']}
        if c.get('legacy'):
            # the obsolete (still documented) dictionary options, given alone or together
            from pylatexenc import latex2text
            import warnings
            warnings.simplefilter('ignore')
            if c['legacy'] in ('macro', 'both'):
                kw['macro_dict'] = {'emph': latex2text.MacroTextSpec('emph', discard=False)}
            if c['legacy'] in ('env', 'both'):
                kw['env_dict'] = {'center': latex2text.EnvironmentTextSpec('center', discard=False)}
        l2t = LatexNodes2Text(**kw)
        r = l2t.latex_to_text(c['s'])
        if not isinstance(r, str):
            out = 'NOT-STR ' + type(r).__name__
            fail = {'kind': 'result-not-str', 'detail': repr(r)[:200]}
            status = 'notstr'
        else:
            out = 'ok ' + show_str(r)
            status = 'ok%d' % min(len(r) // 8, 4)
    except RecursionError:
        raise
    except Exception as e:
        tb = traceback.extract_tb(e.__traceback__)
        where = tb[-1].name if tb else '?'
        # innermost frame inside pylatexenc.latex2text (the renderer) if there is one
        for fr in reversed(tb):
            if 'latex2text' in fr.filename:
                where = fr.name
                break
        out = 'CRASH ' + type(e).__name__
        fail = {'kind': 'raised:%s@%s' % (type(e).__name__, where),
                'detail': '%s: %s (line %s)' % (type(e).__name__, e, tb[-1].lineno if tb else '?')}
        status = 'crash'
    return {'out': out, 'fail': fail, 'sig': '%s|%s|%s' % (status, o['mm'], 'fill' if o.get('fill') is not None else 'nofill')}

# ---------------------------------------------------------------- generators

def rand_opts(rng):
    return {'mm': rng.choice(MATH_MODES), 'sls': rng.choice(SLS_VALUES), 'kc': rng.random() < 0.5,
            'kb': rng.random() < 0.5, 'ml': rng.choice([2, 2, 0, 1, 5, -1]), 'fill': rng.choice(FILL_VALUES)}

def option_sweep():
    """every value of every option, one at a time on the default and pairwise for (math_mode x strict_latex_spaces)"""
    out = [dict(DEFAULT_OPTS)]
    for mm in MATH_MODES:
        for sls in SLS_VALUES:
            out.append(dict(DEFAULT_OPTS, mm=mm, sls=sls))
    for kc in (False, True):
        for kb, ml in ((False, 2), (True, 2), (True, 0), (True, 5)):
            for fill in (None, True, 20):
                out.append(dict(DEFAULT_OPTS, kc=kc, kb=kb, ml=ml, fill=fill, sls=True if kc else False))
    return out

ARG_TAKERS = ['emph', 'frac', 'sqrt', 'section', "'", 'mathbf', 'textbf', 'href', 'title', 'item', 'uebung', 'footnote',
              'textcolor', '\\', 'input', 'texorpdfstring', 'hat', 'text', 'ensuremath', 'verb', 'includegraphics', 'url', 'hint']

def macro_templates(A, B, B2):
    a = '\\' + A
    sep = ' ' if A[-1:].isalpha() else ''
    b = '\\' + B
    return [a, a + '{}', a + '[]{}', a + '{}{}', a + '{x}{y}{z}', a + '*[o]{p}{q}', a + ' x', a + '}', '{' + a, a + '$',
            '$' + a + '$', a + a, b + a, b + '{' + a + '}', b + a + '{}', b + a + a, b + '[' + a + ']{' + a + sep + 'x}',
            a + b, a + '{' + b + '}', a + '\n\nx', a + '%c\n{x}', a + sep + '~' + a + sep + '&',
            '\\begin{pmatrix}' + a + '&' + a + sep + 'x\\\\' + a + '\\end{pmatrix}', '\\[' + a + '{a}\\]', a + '[', a + '{',
            '\\' + B2 + b + a, 'x' + a + '\\title{T}\\maketitle']

def env_templates(E, A, B):
    be, en = '\\begin{%s}' % E, '\\end{%s}' % E
    a = '\\' + A
    return [be + en, be + 'x' + en, be, be + 'x', be + '{c}a&b\\\\c&d' + en, be + '[o]{a}x' + en, be + ' ' + en, be + '&' + en,
            be + '\\\\' + en, '\\' + B + be + 'x' + en, '$' + be + en + '$', be + a + en, be + a + '&' + a + '\\\\' + en, be + en + '}',
            '{' + be + en, be + be + en + en, be + '%c\n' + en, be + '$x$' + en, be + '{' + en, en, a + be + 'x' + en, be + '\n\n' + en]

UNI = ['a', 'e', 'i', 'A', 'O', 'ı', 'ȷ', 'é', 'ß', 'ŉ', 'α', 'Ω', '́', 'Å', 'ẞ',
       'ǆ', 'ﬁ', '\U0001d400', '가', 'ᄀ', ' ', ' ', '1', 'İ', 'ς', 'ṡ', 'q̣̇']

def cases(tier, rng):
    # deep nesting: the interpreter's recursion limit is a runtime effect outside the model (known finding F18)
    for s in ['{' * 200 + '}' * 200, '\\emph{' * 150 + '}' * 150]:
        yield {'s': s, 'o': dict(DEFAULT_OPTS), 'deep': True}
    D = dbinfo()
    quick = tier == 'quick'
    sweep = option_sweep()
    # moderately deep nesting (well below the recursion limit) under every option set: the time is bounded — linear, not
    # doubling with each level (watchdog)
    for s in ['{' * 28 + 'ab' + '}' * 28, '\\emph{' * 24 + 'x' + '}' * 24, '$' + '{' * 26 + 'y' + '}' * 26 + '$', '\\textbf{\\emph{' * 13 + 'z' + '}}' * 13,
              '\\begin{center}' * 20 + 'c' + '\\end{center}' * 20, '{\\frac{' * 12 + 'a' + '}{b}}' * 12, '\\sqrt[' * 10 + 'n' + ']{x}' * 10]:
        for o in sweep[::4]:
            yield {'s': s, 'o': o}
    # (0) a user database with replacement callables of every kind (oracle only)
    for s in USERDB_DOCS:
        for o in sweep[::3]:
            yield {'s': s, 'o': o, 'userdb': True}
    for s in ['\\input{a}', 'x \\input{a.tex} y', '\\include{b}$\\input{c}$', '\\input', '\\input{}', '{\\input{a}\\input{a}}']:
        for o in sweep[::5]:
            yield {'s': s, 'o': o, 'subclass': True}
    for s in ['Before. \\input{chapter} After.', '\\include{chapter.tex}', '$a$ \\input{nested}', '\\input{b}', '\\input{empty}x', '\\input{bad}', '\\input{missing}', '\\input{../x}',
              '\\input{a\x00b}', '\\input{latin1}', '\\include{latin1.tex} x', '\\input{adir}', '\\input{' + 'n' * 300 + '}', '\\input{\ud800}']:
        for how in ('none', 'empty', 'strict', 'tol', 'ctx', 'ctxtol'):
            if how == 'strict' and 'bad' in s:
                continue        # strict parsing of the input file was asked for: its parse error is the caller's choice
            for o in sweep[::7]:
                yield {'s': s, 'o': o, 'inputdir': how}
    for s in USERDB_DOCS + ['a--b``c', '``', '--']:
        for leg in ('macro', 'env', 'both'):
            yield {'s': s, 'o': dict(DEFAULT_OPTS), 'legacy': leg}
        yield {'s': s, 'o': dict(DEFAULT_OPTS), 'userdb': True}
    for _ in range(300 if quick else 6000):
        s = gen.soup(rng, gen.ATOMS_DEFAULT + ['--', '``', '\\emph', '\\textbf', '\\textit', '\\alpha', '\\beta', '\\begin{center}', '\\end{center}', '\\begin{quote}', '\\end{quote}', '~',
                                                 '\\gamma', '\\cite', '\\delta', '\\epsilon', '\\begin{figure}', '\\end{figure}', '\\begin{table}', '\\end{table}', '&', "''", '---'], 7)
        yield {'s': s, 'o': rand_opts(rng), 'userdb': True}
    # (a) bounded-exhaustive atom strings
    k_core = 3 if quick else 4
    for s in gen.exhaustive(gen.CORE_ATOMS, k_core):
        yield {'s': s, 'o': dict(DEFAULT_OPTS)}
        yield {'s': s, 'o': rand_opts(rng)}
    for s in gen.exhaustive(gen.ATOMS_DEFAULT, 2 if quick else 3):
        yield {'s': s, 'o': dict(DEFAULT_OPTS)}
        yield {'s': s, 'o': rand_opts(rng)}
    # (b) every name of both databases in every argument position
    macros, envs = D['macros'], D['envs']
    for A in macros:
        B = rng.choice(ARG_TAKERS); B2 = rng.choice(ARG_TAKERS)
        ts = macro_templates(A, B, B2)
        if quick and A not in D['walker_macros'] and A not in ARG_TAKERS:
            ts = ts[:6] + rng.sample(ts[6:], 6)
        for s in ts:
            yield {'s': s, 'o': dict(DEFAULT_OPTS) if rng.random() < 0.5 else rand_opts(rng)}
        if not quick:
            for B in ARG_TAKERS:
                for s in ('\\' + B + '\\' + A, '\\' + B + '{\\' + A + '}', '\\' + B + '\\' + A + '{x}{y}'):
                    yield {'s': s, 'o': rand_opts(rng)}
    for E in envs:
        for rep in range(1 if quick else 4):
            A = rng.choice(macros); B = rng.choice(ARG_TAKERS)
            for s in env_templates(E, A, B):
                yield {'s': s, 'o': dict(DEFAULT_OPTS) if rng.random() < 0.3 else rand_opts(rng)}
        for mm in MATH_MODES:
            for s in env_templates(E, 'alpha', 'emph')[:6]:
                yield {'s': s, 'o': dict(DEFAULT_OPTS, mm=mm)}
    # one name met as environment AND as macro by the same converter object (the two namespaces are separate): every environment
    # name in its low-level macro form (\equation ... \endequation, \def\balign{\align}), every macro name as an environment
    for E in D['envs']:
        for s in ('\\begin{%s}a\\end{%s} b \\%s c' % (E, E, E), '\\%s c \\begin{%s}a\\end{%s} b' % (E, E, E)):
            for mm in (MATH_MODES if quick else MATH_MODES):
                yield {'s': s, 'o': dict(DEFAULT_OPTS, mm=mm)}
    for M in [m for m in D['macros'] if m.isalpha()][::(6 if quick else 1)] + ['item', 'href', 'input', 'uebung', 'textbf', 'frac', 'maketitle', 'verb', 'footnote', 'sqrt']:
        yield {'s': '\\%s{x} \\begin{%s}a\\end{%s} b' % (M, M, M), 'o': dict(DEFAULT_OPTS)}
        yield {'s': '\\begin{%s}a\\end{%s} b \\%s{x}' % (M, M, M), 'o': dict(DEFAULT_OPTS, mm='with-delimiters')}
    # the recognised callables and constructs, each under the full option sweep
    probes = ['\\href', '\\href{u}{t}', '\\emph\\uebung', '\\uebung{a}[b]', '\\emph\\input', '\\input{f}', '\\begin{pmatrix}\\end{pmatrix}',
              '\\begin{pmatrix} a & b \\\\ c & d\\end{pmatrix}', '\\verb{', '\\verb|x| y', '\\title{T}\\author{A}\\date{D}\\maketitle',
              '\\maketitle', '\\item[a] b \\item c', '\\section*[s]{Ti tle} x', "\\'e \\'{\\i} \\c c", '\\mathbb{R}\\mathcal{He}',
              'a %c\n b', 'a %c\n\n b', '{a}{bc} {d}', '$a \\alpha b$ \\[ x \\] $$y$$ \\(z\\)', '\\begin{equation} a \\alpha b\\end{equation}',
              '\\alpha b \\alpha{} c\\alpha\\beta', '\\texorpdfstring{a}{b}', '\\frac 1 2 \\sqrt[3]{x}', '\\textcolor{red}{x}\\footnote[1]{f}',
              '\\begin{center}c\\end{center}\\begin{itemize}\\item a\\end{itemize}', "a~b ``c'' -- --- !` ?` & x", '\\includegraphics[w]{f}',
              '$\\text{a $b$ c} \\alpha d$', '\\begin{verbatim}a\\b\\end{verbatim}', '\\begin{lstlisting}[l]a\\end{lstlisting}', '\\today',
              '\\% \\{ \\} \\& \\$ \\# \\_ \\~n \\\\ x', 'a\n\nb \\begin{array}{cc} 1&2\\\\3&4\\end{array}']
    for s in probes:
        for o in sweep:
            yield {'s': s, 'o': o}
    # (c) generated well-formed documents
    import docgen
    n = 400 if quick else 6000
    for i in range(n):
        d = docgen.gen_doc(rng, 'default', budget=rng.randint(1, 9))
        s = docgen.unparse(d)
        yield {'s': s, 'o': dict(DEFAULT_OPTS)}
        yield {'s': s, 'o': rand_opts(rng)}
        if i % 4 == 0:
            yield {'s': s + rng.choice(['}', '\\end{x}', '$', '\\', '\\verb', '{', '\\begin{pmatrix}', '\\href']), 'o': rand_opts(rng)}
    # (d) random soups over all names
    n = 3000 if quick else 60000
    atoms = gen.ATOMS_DEFAULT
    for i in range(n):
        parts = []
        for _ in range(rng.randint(1, 8)):
            r = rng.random()
            if r < 0.35:
                parts.append('\\' + rng.choice(macros))
            elif r < 0.45:
                E = rng.choice(envs)
                parts.append(rng.choice(['\\begin{%s}' % E, '\\end{%s}' % E, '\\begin{%s}x\\end{%s}' % (E, E)]))
            elif r < 0.55:
                parts.append(rng.choice(['{}', '[]', '{x}', '[y]', '{', '}', ' ', '*']))
            else:
                parts.append(rng.choice(atoms))
        yield {'s': ''.join(parts), 'o': rand_opts(rng)}
    # (e) accents / upper-casing over Unicode letters (library oracles)
    accs = [a for a, _ in D['ds'].unicode_accents_list]
    for u in UNI:
        for a in (accs if not quick else rng.sample(accs, 8)):
            sep = ' ' if a[-1:].isalpha() else ''
            yield {'s': '\\%s{%s}' % (a, u), 'o': dict(DEFAULT_OPTS)}
            yield {'s': '\\%s%s%s \\%s{\\%s{%s}}' % (a, sep, u, rng.choice(accs), a, u), 'o': rand_opts(rng)}
        for sec in ('section', 'part', 'chapter', 'subsection'):
            yield {'s': '\\%s{%s x%s}' % (sec, u, u), 'o': dict(DEFAULT_OPTS)}
        yield {'s': "\\'{\\section{%s}}\\mathbf{%sAz}\\mathfrak{%sCz}" % (u, u, u), 'o': rand_opts(rng)}

def shrink_candidates(c):
    s = c['s']
    n = len(s)
    for L in (20, 12, 8, 5, 3, 2, 1):
        if L > n:
            continue
        for i in range(0, n - L + 1):
            yield {'s': s[:i] + s[i+L:], 'o': c['o']}
    for k, v in DEFAULT_OPTS.items():
        if c['o'].get(k) != v:
            yield {'s': s, 'o': dict(c['o'], **{k: v})}

LEVEL_TEXT = ('Theorems about the renderer model Pylx.L2T (repaired switch on) with the generated default databases: C07 — for every option '
              'set, every library oracle and every input string, latexToText returns ok (parse totality from C06_total_list; the parser invariant '
              '"the parser only produces trees satisfying the argument-list invariant" is C07_parsed_args_length, proved from the parser model by '
              'a contract over every task for every context with only node-valued argument kinds, instantiated for the default context by a '
              'kernel-checked C07_ctx_ok); C07_render_total: '
              'on every such tree, for every option set, the renderer returns a string — structural induction over the tree with the '
              'kernel-checked cross-database fact C07_cross_db (every argument index a replacement callable reads is guarded or inside the '
              'walker signature of the same name, no unrecognised callable, no falsy specials replacement)); C07_fmt_in_range — every %-format '
              'replacement string only names arguments inside the walker signature, so the TypeError/KeyError fallback never fires on parsed '
              'input; C07_F7_*/F8/F9 — negation witnesses: with the switch off (code as found) concrete inputs crash. The model is tied to the '
              'renderer by comparing exact output text on atom strings, soups over every name of both databases, generated documents and a '
              'sweep of all options; the oracle checks "returns str, raises nothing, in time" on the implementation, fill_text included.')
LEVEL_NOTE = ('fill_text (textwrap) is outside the model: oracle only; NFC / upper / today are oracle parameters of the model; termination of the '
              'real code observed with a watchdog; interpreter recursion limit outside the model; closed world of replacement callables '
              '(translator fails closed); Lean kernel + propext/Classical.choice/Quot.sound')
TECHNIQUE = 'Lean 4 proof (structural induction on the node tree + kernel-checked database facts + C06 totality) + L2T correspondence + totality oracle'
