# C16 — the pylatexenc-2 compatible API agrees with the pylatexenc-3 parser objects.
#
# Every case is one legacy call (get_token / get_latex_nodes / get_latex_expression / get_latex_braced_group /
# get_latex_environment / get_latex_maybe_optional_arg, the arguments parser of a macro specification spelled in one
# of the legacy or new ways, or a whole document parsed under such a specification) at one start position of one
# string.  run_impl performs the legacy call AND the equivalent pylatexenc-3 parser object run directly (written here
# as the docstrings / deprecation messages name them), prints both, and the oracle demands
#     legacy result == (node, node.pos, node.len / reader position) of the new parser, failure <-> failure.
# The model (Pylx.Legacy, op LEG) prints the same two halves; SWITCH selects the repaired behaviour.
import itertools, warnings
import gen, parsecase, ctxdesc, psdesc, dump, docgen
from common import wire, show_str, show_opt

THEOREMS = ['Pylx.Legacy.C16P.C16_legacy_args', 'Pylx.Legacy.C16P.C16_legacy_args_iff', 'Pylx.Legacy.C16P.C16_legacy_args_tolerant', 'Pylx.Legacy.C16P.C16_legacy_args_tolerant_iff',
            'Pylx.Legacy.C16P.C16_legacy_args_full_false', 'Pylx.Legacy.C16P.C16_side_conditions_needed',
            'Pylx.Legacy.C16_get_token', 'Pylx.Legacy.C16_get_latex_nodes', 'Pylx.Legacy.C16_get_latex_nodes_plain',
            'Pylx.Legacy.C16_get_latex_nodes_brace', 'Pylx.Legacy.C16_get_latex_nodes_end_environment',
            'Pylx.Legacy.C16_get_latex_nodes_mathmode', 'Pylx.Legacy.C16_collector_conservative',
            'Pylx.Legacy.C16_expression', 'Pylx.Legacy.C16_braced_group', 'Pylx.Legacy.C16_environment',
            'Pylx.Legacy.C16_maybe_optional_arg', 'Pylx.Legacy.C16_std_macro', 'Pylx.Legacy.C16_args_parser_string',
            'Pylx.Legacy.C16_legacy_args_partial', 'Pylx.Legacy.C16_F22_as_is', 'Pylx.Legacy.C16_F23_as_is',
            'Pylx.Legacy.C16_strict_brace_as_is', 'Pylx.Legacy.C16_opt_pre_space_as_is', 'Pylx.Legacy.C16_stop_at_end_as_is']
PROOF_MODULES = ['C16P', 'C16']
RULE = ('LEG: every legacy entry point and call variant (get_token with include_brace_chars / environments / brackets_are_chars; '
        'get_latex_nodes with stop_upon_closing_brace / stop_upon_end_environment / stop_upon_closing_mathmode / read_max_nodes and '
        'combinations; get_latex_expression with strict_braces None/True/False; get_latex_braced_group with every brace type incl. '
        '2-tuples, 2-character strings and invalid ones; get_latex_environment with no / right / wrong name; '
        'get_latex_maybe_optional_arg) at EVERY start position of short exhaustive atom strings, random token soups (four contexts) and '
        'generated well-formed documents, strict and tolerant; every argument string over {*,[,{} up to length 4 through '
        'std_macro(name, argspec), std_macro(name, None, argspec), std_macro(name, optarg, numargs), MacroSpec(name, args_parser=str), '
        'MacroSpec(name, args_parser=MacroStandardArgsParser(..)), MacroSpec(name, MacroStandardArgsParser(..)) against MacroSpec(name, argspec), '
        'both as the arguments parser run at the position after the macro and as a whole-document parse; optional_arg_no_space / '
        'args_math_mode variants; oracle on the implementation: legacy tuple == (node, node.pos, node.len / reader position) of the '
        'pylatexenc-3 parser object run directly, failure <-> failure or the documented empty result, no internal exception; '
        'histories: 1-3 earlier legacy calls with other parsing states / stop conditions on the SAME walker before the compared call; '
        'correspondence: both halves against the model')
TRUSTED = ['parser model Pylx.Parse (C01/C05/C06 correspondence) and tokenizer model (C11)',
           'closed world of argument parsers; parsing-state deltas returned by parsers are identity for these specifications',
           'fresh lookup tables for derived parsing states (C17)']
ASSUMPTIONS = ['construct nesting below the interpreter recursion limit',
               'stop_upon_closing_brace is one of } ] ) > or a 2-tuple (other single characters give an opening delimiter None; not modelled)']
TRIVIAL_SIGS = ()
CASE_TIMEOUT = 10.0
LEVEL_TEXT = ('Theorems about the model Pylx.Legacy of the pylatexenc-2 shims, for every context of the closed world, every string, every start '
              'position, every parsing state and every amount of fuel: each wrapper (get_token, get_latex_nodes with each stop condition and '
              'read_max_nodes, get_latex_expression, get_latex_braced_group, get_latex_environment, get_latex_maybe_optional_arg) equals the '
              'projection (node, node.pos, node.len / reader position) of the pylatexenc-3 parser it names, success <-> success, failure <-> '
              'failure or the documented empty result; the extended nodes collector (stop_nodelist_condition) is conservative over the '
              'collector of Pylx.Parse; std_macro(name, optarg, numargs) = std_macro(name, argspec) = MacroSpec(name, argspec) and, repaired, '
              '= MacroSpec(name, args_parser=argspec); C16_legacy_args: for every argument string over {*,[,{} (induction on the string) the '
              'legacy MacroStandardArgsParser.parse_args algorithm and LatexArgumentsParser return the same argument nodes and final position '
              'and fail together (C16P.C16_legacy_args: strict mode, C16_legacy_args_tolerant: tolerant mode; no hypothesis on the input or the '
              'parser is left — only decidable side conditions on the parsing state that the walker default satisfies, each shown necessary '
              'by a kernel-checked counterexample; the error KIND may differ for `\\begin x`, kernel-checked). The as-is code is refuted on concrete witnesses (F22, F23, closing brace '
              'accepted as empty argument, whitespace before an optional argument, ReachedStoppingCondition escaping at end of input).')
LEVEL_NOTE = ('tolerant mode of C16_legacy_args by correspondence/oracle only; args_math_mode / optional_arg_no_space variants by '
              'correspondence/oracle only; Lean kernel + propext/Classical.choice/Quot.sound')
TECHNIQUE = 'Lean 4 proof (refinement of shims to parser objects; induction on the argument string) + LEG correspondence + agreement oracle'

# model switches: F22, F23, collector stop at end of input, strict closing brace, optional-argument pre-space (1 = repaired)
import os as _os
SWITCH = _os.environ.get('C16_SWITCH', '11111')

ARG_ATOMS = ['{a}', '[b]', '*', ' ', 'c', '}', '\n', '%c\n', '\\x', '$', '\n\n', '{', ']', '\\q', '~', '\\begin{e}', '\\end{e}', '\\']

# ---------------------------------------------------------------- call variants

TOK_VARIANTS = [['tok', [], None, True], ['tok', [], None, False], ['tok', [], None, None], ['tok', [], False, True],
                ['tok', [], True, True], ['tok', [['<', '>']], None, True], ['tok', [['<', '>'], ['(', ')']], False, False]]
NODES_VARIANTS = [['nodes', None, None, None, None], ['nodes', ['c', '}'], None, None, None], ['nodes', ['c', ']'], None, None, None],
                  ['nodes', ['c', ')'], None, None, None], ['nodes', ['p', '<', '>'], None, None, None], ['nodes', ['p', '{', '}'], None, None, None],
                  ['nodes', None, 'e', None, None], ['nodes', None, 'equation', None, None], ['nodes', None, None, '$', None],
                  ['nodes', None, None, '$$', None], ['nodes', None, None, '\\)', None], ['nodes', None, None, '\\]', None],
                  ['nodes', None, None, None, 1], ['nodes', None, None, None, 2], ['nodes', None, None, None, 0],
                  ['nodes', None, None, None, 3], ['nodes', ['c', '}'], None, None, 1], ['nodes', None, 'e', None, 2],
                  ['nodes', None, None, '$', 1], ['nodes', ['c', '}'], 'e', '$', None]]
EXPR_VARIANTS = [['expr', None], ['expr', True], ['expr', False]]
GROUP_VARIANTS = [['group', ['c', '{']], ['group', ['c', '[']], ['group', ['c', '(']], ['group', ['c', '<']],
                  ['group', ['p', '<', '>']], ['group', ['p', '[', ']']], ['group', ['c', '()']], ['group', ['c', 'x']], ['group', ['p', '|', '|']]]
ENV_VARIANTS = [['env', None], ['env', 'e'], ['env', 'x'], ['env', 'equation']]
OPT_VARIANTS = [['opt']]
ALL_VARIANTS = TOK_VARIANTS + NODES_VARIANTS + EXPR_VARIANTS + GROUP_VARIANTS + ENV_VARIANTS + OPT_VARIANTS

def spellings_for(a):
    """all spellings of the argument string a (besides the reference MacroSpec(name, a))"""
    out = [['S', a, False, None], ['Z', a, False, None], ['P', a, False, None], ['L', a, False, None], ['Q', a, False, None]]
    if all(c == '{' for c in a):
        out.append(['O', [False, len(a)], False, None])
    if a[:1] == '[' and all(c == '{' for c in a[1:]):
        out.append(['O', [True, len(a) - 1], False, None])
    return out

def argstrings(maxlen):
    for n in range(0, maxlen + 1):
        for t in itertools.product('*[{', repeat=n):
            yield ''.join(t)

# ---------------------------------------------------------------- wire

def _optb(x):
    return '-' if x is None else ('T' if x else 'F')

def _opteq(x):
    return '-' if x is None else '=' + wire(x)

def _brace(b):
    if b is None:
        return '-'
    if b[0] == 'c':
        return 'c' + wire(b[1])
    return 'p' + wire(b[1]) + ':' + wire(b[2])

def call_fields(call):
    k = call[0]
    if k == 'tok':
        return ['tok', '|'.join(wire(a) + ':' + wire(b) for a, b in call[1]), _optb(call[2]), _optb(call[3])]
    if k == 'nodes':
        return ['nodes', _brace(call[1]), _opteq(call[2]), _opteq(call[3]), '-' if call[4] is None else str(call[4])]
    if k == 'expr':
        return ['expr', _optb(call[1])]
    if k == 'group':
        return ['group', _brace(call[1])]
    if k == 'env':
        return ['env', _opteq(call[1])]
    if k == 'opt':
        return ['opt']
    if k == 'args':
        code, a, ns, mm = call[1:5]
        af = ('%s:%d' % ('T' if a[0] else 'F', a[1])) if code == 'O' else wire(a)
        mmf = '-' if mm is None else 'm' + ''.join('N' if x is None else ('T' if x else 'F') for x in mm)
        return ['args', code, af, ('T' if ns else 'F') + '/' + mmf]
    raise ValueError(call)

def ctx_json(c):
    ctx = c['ctx']
    return gen.CONTEXTS[ctx] if isinstance(ctx, str) and ctx != 'default' else ctx

def to_line(c):
    call = c['call']
    ctx = ctx_json(c)
    if call[0] == 'envdoc':
        return None
    if call[0] == 'doc':
        # whole-document parse under a pylatexenc-3 spelling: the existing PARSE operation with the macro added
        sp = call[1]
        if sp[0] in ('L', 'Q') or ctx == 'default':
            return None
        a = sp[1]
        a = ('[' if a[0] else '') + '{' * a[1] if sp[0] == 'O' else a
        specs = [[{'{': 'm', '[': 'o1', '*': 's'}[ch], ''] for ch in a]
        ctx2 = dict(ctx, macros=[['q', ['S', specs]]] + ctx['macros'])
        return '\t'.join(['PARSE', 'T' if c['tol'] else 'F', ctxdesc.enc_ctx(ctx2), psdesc.enc_desc({}), wire(c['s'])])
    return '\t'.join(['LEG', SWITCH, 'T' if c['tol'] else 'F', ctxdesc.enc_ctx(ctx), psdesc.enc_desc(c.get('ps', {})),
                      wire(c['s']), str(c['pos'])] + call_fields(call))

# ---------------------------------------------------------------- implementation side

def _is_empty_args(nd):
    return nd is None or not getattr(nd, 'argnlist', None)

def dump_bare(n):
    """dump of an expression result: a bare macro / specials node with an empty argument container reads like nodeargd=None"""
    from pylatexenc.latexnodes import nodes as N
    if isinstance(n, (N.LatexMacroNode, N.LatexSpecialsNode, N.LatexEnvironmentNode)) and n.nodeargd is not None \
       and not n.nodeargd.argnlist:
        import copy
        n = copy.copy(n)
        n.nodeargd = None
    return dump.dump_node(n)

def dump_any(x):
    from pylatexenc.latexnodes import nodes as N
    from pylatexenc.latexnodes import ParsedArguments
    if x is None:
        return 'None'
    if isinstance(x, N.LatexNodeList):
        return dump.dump_result(x)
    if isinstance(x, N.LatexNode):
        return dump.dump_node(x)
    if hasattr(x, 'argnlist'):
        return dump.dump_args(x)
    return '?' + type(x).__name__

def show_exc(e):
    from pylatexenc import latexwalker
    from pylatexenc.latexnodes import LatexWalkerEndOfStream
    if isinstance(e, LatexWalkerEndOfStream):
        return 'EOS'
    if isinstance(e, latexwalker.LatexWalkerParseError):
        w = parsecase.err_what(e)
        if w == 'None':
            m = getattr(e, 'msg', '') or ''
            if m.startswith('Expected environment {'):
                return 'SHIMERR environment-name'
            if m.startswith('Expected environment'):
                return 'SHIMERR expected-environment'
        return 'ERR %s %s' % (w, show_opt(e.pos))
    if isinstance(e, ValueError):
        return 'VALUEERR'
    if isinstance(e, TypeError) and 'argspec' in str(e):
        return 'TYPEERR'
    return 'CRASH ' + type(e).__name__

def attempt(fn):
    """('ok', value) | ('exc', exception)"""
    try:
        return 'ok', fn()
    except RecursionError:
        raise
    except Exception as e:
        return 'exc', e

def show_tuple(t, bare=False):
    if t is None:
        return 'NONE'
    n, p, l = t
    d = 'None' if n is None else (dump_bare(n) if bare and not _is_list(n) else dump_any(n))
    return 'TUP %s %s %s' % (d, show_opt(p), show_opt(l))

def _is_list(x):
    from pylatexenc.latexnodes import nodes as N
    return isinstance(x, N.LatexNodeList)

def show_new(kind, val, pos_after, bare=False):
    if kind == 'exc':
        return show_exc(val)
    return '%s @%d' % (dump_any(val), pos_after)

def brace_pair(b):
    if b[0] == 'p':
        return (b[1], b[2])
    return None

def make_spec(code, a, ns, mm, cls=None, name='q'):
    from pylatexenc import macrospec
    from pylatexenc.macrospec import MacroSpec, std_macro, MacroStandardArgsParser
    if code == 'N': return MacroSpec(name, a)
    if code == 'S': return std_macro(name, a)
    if code == 'Z': return std_macro(name, None, a)
    if code == 'O': return std_macro(name, a[0], a[1])
    if code == 'P': return MacroSpec(name, args_parser=a)
    if code == 'L': return MacroSpec(name, args_parser=MacroStandardArgsParser(a, optional_arg_no_space=ns, args_math_mode=mm))
    if code == 'Q': return MacroSpec(name, MacroStandardArgsParser(a))
    raise ValueError(code)

def ref_spec(code, a, ns, mm, name='q'):
    """the same specification written for pylatexenc 3"""
    from pylatexenc.macrospec import MacroSpec
    from pylatexenc.latexnodes import LatexArgumentSpec, ParsingStateDeltaEnterMathMode, ParsingStateDeltaLeaveMathMode
    from pylatexenc.latexnodes.parsers import LatexStandardArgumentParser
    if code == 'O':
        a = ('[' if a[0] else '') + '{' * a[1]
    if not ns and mm is None:
        return MacroSpec(name, a)
    l = []
    for j, ch in enumerate(a):
        d = None
        if mm is not None and mm[j] is not None:
            d = ParsingStateDeltaEnterMathMode() if mm[j] else ParsingStateDeltaLeaveMathMode()
        p = ch
        if ch == '[' and ns:
            p = LatexStandardArgumentParser('[', allow_pre_space=False)
        l.append(LatexArgumentSpec(p, parsing_state_delta=d))
    return MacroSpec(name, arguments_spec_list=l)

def norm_bare(d):
    """identify nodeargd=None with an empty argument container (a literal space never occurs inside a dumped string)"""
    return d.replace(' <>)', ' None)')

def first_closing_brace(w, ps, pos):
    """position of the closing delimiter if that is the first token at or after pos once whitespace and comments are
    skipped (tokens read the way an expression is read: environments disabled), else None"""
    from pylatexenc.latexnodes import LatexWalkerError
    eps = ps.sub_context(enable_environments=False)
    tr = w.make_token_reader(pos=pos)
    try:
        while True:
            t = tr.next_token(parsing_state=eps)
            if t.tok == 'comment':
                continue
            return t.pos if t.tok == 'brace_close' else None
    except LatexWalkerError:
        return None

def legacy_call(w, ps, pos, call):
    """one legacy call on the walker, result ignored (used for the earlier life of a shared walker)"""
    k = call[0]
    if k == 'tok':
        inc, bac, envs = [tuple(p) for p in call[1]], call[2], call[3]
        kw = {'include_brace_chars': inc or None, 'environments': envs, 'parsing_state': ps}
        if bac is not None:
            kw['brackets_are_chars'] = bac
        return attempt(lambda: w.get_token(pos, **kw))
    if k == 'nodes':
        br, ee, mm, mx = call[1:5]
        kw = {'pos': pos, 'parsing_state': ps}
        if br is not None:
            kw['stop_upon_closing_brace'] = br[1] if br[0] == 'c' else (br[1], br[2])
        if ee is not None: kw['stop_upon_end_environment'] = ee
        if mm is not None: kw['stop_upon_closing_mathmode'] = mm
        if mx is not None: kw['read_max_nodes'] = mx
        return attempt(lambda: w.get_latex_nodes(**kw))
    if k == 'expr':
        return attempt(lambda: w.get_latex_expression(pos, strict_braces=call[1], parsing_state=ps))
    if k == 'group':
        b = call[1]
        return attempt(lambda: w.get_latex_braced_group(pos, brace_type=(b[1] if b[0] == 'c' else (b[1], b[2])), parsing_state=ps))
    if k == 'env':
        return attempt(lambda: w.get_latex_environment(pos, environmentname=call[1], parsing_state=ps))
    if k == 'opt':
        return attempt(lambda: w.get_latex_maybe_optional_arg(pos, parsing_state=ps))
    return None

def module_level_call(c):
    """the pylatexenc-1 module-level function of the same name (deprecated, still exported): LatexWalker(s, **flags).<method>(...)
    with the default context; returns the printed result or None when the case has no module-level spelling"""
    from pylatexenc import latexwalker
    call = c['call']; k = call[0]; s = c['s']; pos = c['pos']
    if c['ctx'] != 'default' or c.get('ps') or c.get('pre'):
        return None
    fl = {'tolerant_parsing': c['tol']}
    if k == 'nodes':
        br, ee, mm, mx = call[1:5]
        if mx is not None:
            return None
        kw = {}
        if br is not None: kw['stop_upon_closing_brace'] = br[1] if br[0] == 'c' else (br[1], br[2])
        if ee is not None: kw['stop_upon_end_environment'] = ee
        if mm is not None: kw['stop_upon_closing_mathmode'] = mm
        r = attempt(lambda: latexwalker.get_latex_nodes(s, pos, **dict(kw, **fl)))
    elif k == 'expr':
        if call[1] is not None:
            return None
        r = attempt(lambda: latexwalker.get_latex_expression(s, pos, **fl))
        return show_tuple(r[1], bare=True) if r[0] == 'ok' else show_exc(r[1])
    elif k == 'group':
        b = call[1]
        r = attempt(lambda: latexwalker.get_latex_braced_group(s, pos, brace_type=(b[1] if b[0] == 'c' else (b[1], b[2])), **fl))
    elif k == 'env':
        r = attempt(lambda: latexwalker.get_latex_environment(s, pos, environmentname=call[1], **fl))
    elif k == 'opt':
        r = attempt(lambda: latexwalker.get_latex_maybe_optional_arg(s, pos, **fl))
    else:
        return None
    return show_tuple(r[1]) if r[0] == 'ok' else show_exc(r[1])

def run_impl(c):
    r = run_impl0(c)
    if r.get('fail') is None and r.get('out') and ' || ' in r['out']:
        try:
            warnings.simplefilter('ignore')
            ml = module_level_call(c)
        except Exception as e:
            ml = 'HARNESS ' + repr(e)
        legacy = r['out'].split(' || ')[0]
        if ml is not None and ml != legacy:
            r = dict(r)
            r['fail'] = {'kind': 'module-level-differs:' + c['call'][0],
                         'detail': 'pylatexenc.latexwalker.<function>(s, pos=%d, ...) gives %s, LatexWalker(s).<method>(pos=%d, ...) gives %s' % (c['pos'], ml[:300], c['pos'], legacy[:300])}
    return r

def run_impl0(c):
    from pylatexenc import latexwalker
    from pylatexenc.latexnodes import parsers, nodes as N
    from pylatexenc.latexnodes import LatexWalkerEndOfStream
    warnings.simplefilter('ignore')
    call = c['call']
    k = call[0]
    cc = dict(c, ctx=ctx_json(c))
    if k == 'doc':
        return run_doc(cc)
    if k == 'envdoc':
        return run_envdoc(cc)
    w = parsecase.make_walker(cc)
    for pr in c.get('pre') or []:
        # earlier legacy calls on the SAME walker (other parsing states, other stop conditions): a walker carries no state
        # from one call to the next, so the compared call below must come out as on a fresh walker (which is what the model computes)
        pps = w.make_parsing_state(**psdesc.to_kwargs(pr['ps'])) if pr.get('ps') else w.make_parsing_state()
        legacy_call(w, pps, min(pr['pos'], len(c['s'])), pr['call'])
    ps = w.make_parsing_state(**psdesc.to_kwargs(c['ps'])) if c.get('ps') else w.make_parsing_state()
    pos = c['pos']
    fail = None
    PE = latexwalker.LatexWalkerParseError

    def mismatch(exp, got, what):
        return {'kind': 'legacy-differs:' + k, 'detail': '%s: legacy call gives %s, the pylatexenc-3 parser implies %s' % (what, got[:300], exp[:300])}

    if k == 'tok':
        inc, bac, envs = [tuple(p) for p in call[1]], call[2], call[3]
        kw = {'include_brace_chars': inc or None, 'environments': envs, 'parsing_state': ps}
        if bac is not None:
            kw['brackets_are_chars'] = bac
        lk, lv = attempt(lambda: w.get_token(pos, **kw))
        def new():
            d = list(inc) + ([('[', ']')] if bac is False else [])
            sa = {}
            if d:
                sa['latex_group_delimiters'] = list(ps.latex_group_delimiters) + d
            if envs is not None:
                sa['enable_environments'] = envs
            ps2 = ps.sub_context(**sa) if sa else ps
            return w.make_token_reader(pos=pos).peek_token(parsing_state=ps2)
        nk, nv = attempt(new)
        ls = 'TOK ' + psdesc.show_tok(lv) if lk == 'ok' else show_exc(lv)
        ns_ = 'TOK ' + psdesc.show_tok(nv) if nk == 'ok' else show_exc(nv)
        if ls != ns_:
            fail = mismatch(ns_, ls, 'get_token')
        sig = 'tok:' + (lv.tok if lk == 'ok' else ls.split(' ')[0])
        return fin(ls, ns_, fail, sig, lk, lv)

    if k == 'nodes':
        br, ee, mm, mx = call[1:5]
        kw = {'pos': pos, 'parsing_state': ps}
        if br is not None:
            kw['stop_upon_closing_brace'] = br[1] if br[0] == 'c' else (br[1], br[2])
        if ee is not None: kw['stop_upon_end_environment'] = ee
        if mm is not None: kw['stop_upon_closing_mathmode'] = mm
        if mx is not None: kw['read_max_nodes'] = mx
        lk, lv = attempt(lambda: w.get_latex_nodes(**kw))
        tr = w.make_token_reader(pos=pos)
        def new():
            ps2 = ps
            clbr = None
            if br is not None:
                if br[0] == 'c':
                    clbr = br[1]; opbr = {'}': '{', ']': '[', ')': '(', '>': '<'}[clbr]
                else:
                    opbr, clbr = br[1], br[2]
                if (opbr, clbr) not in ps.latex_group_delimiters:
                    ps2 = ps.sub_context(latex_group_delimiters=list(ps.latex_group_delimiters) + [(opbr, clbr)])
            anystop = br is not None or ee is not None or mm is not None
            pk = {}
            if anystop:
                def stop_tok(t):
                    return bool((clbr is not None and t.tok == 'brace_close' and t.arg == clbr)
                                or (ee is not None and t.tok == 'end_environment' and t.arg == ee)
                                or (mm is not None and t.tok in ('mathmode_inline', 'mathmode_display') and t.arg == mm))
                pk['stop_token_condition'] = stop_tok
                pk['handle_stop_condition_token'] = lambda t, latex_walker, token_reader, parsing_state: token_reader.move_past_token(t)
            if mx is not None:
                pk['stop_nodelist_condition'] = lambda nl: len(nl) >= mx
            pk['require_stop_condition_met'] = anystop
            parser = parsers.LatexGeneralNodesParser(**pk)
            return w.parse_content(parser, token_reader=tr, parsing_state=ps2)[0]
        nk, nv = attempt(new)
        after = tr.cur_pos()
        if nk == 'ok':
            exp = (None, None, None) if nv is None else (nv, nv.pos, after - nv.pos)
            es = show_tuple(exp)
        else:
            es = show_exc(nv)
        ls = show_tuple(lv) if lk == 'ok' else show_exc(lv)
        if ls != es:
            fail = mismatch(es, ls, 'get_latex_nodes')
        sig = 'nodes:%s%s%s%s:%s' % ('b' if br else '', 'e' if ee else '', 'm' if mm else '', 'n' if mx is not None else '', ls.split(' ')[0] + (ls.split(' ')[1] if ls.startswith('ERR') else ''))
        return fin(ls, show_new(nk, nv, after), fail, sig, lk, lv)

    if k == 'expr':
        sb = call[1]
        lk, lv = attempt(lambda: w.get_latex_expression(pos, strict_braces=sb, parsing_state=ps))
        tr = w.make_token_reader(pos=pos)
        nk, nv = attempt(lambda: w.parse_content(parsers.LatexExpressionParser(return_full_node_list=False), token_reader=tr, parsing_state=ps)[0])
        after = tr.cur_pos()
        ls = show_tuple(lv, bare=True) if lk == 'ok' else show_exc(lv)
        def dummy():
            return 'TUP (C %d %d %s "") %d 0' % (pos, pos, dump.show_ps(ps), pos)
        if nk == 'ok':
            if nv is None:
                es = dummy() if (c['tol'] or sb is False) else 'TUP None %d 0' % pos
            else:
                es = 'TUP %s %s %s' % (dump_bare(nv), show_opt(nv.pos), show_opt(nv.len))
        else:
            # the special case concerns a closing brace met where THIS expression starts (after whitespace and comments);
            # the same kind of error coming from a nested expression (the argument of a macro inside the group being
            # read) is an ordinary parse error and is raised
            closing = isinstance(nv, PE) and parsecase.err_what(nv) == 'expression_required_got_unexpected:closing_latex_group' \
                and nv.pos == first_closing_brace(w, ps, pos)
            if closing and not sb:
                # the documented empty result
                es = dummy() if sb is False else 'TUP None %d 0' % pos
            else:
                es = show_exc(nv)
        if ls != es:
            fail = mismatch(es, ls, 'get_latex_expression')
        sig = 'expr:%s:%s' % (_optb(sb), ls.split(' ')[1][:2] if ls.startswith('TUP') else ' '.join(ls.split(' ')[:2]))
        # the model's "new" half prints the node as the parser returns it
        return fin(ls, show_new(nk, nv, after), fail, sig, lk, lv)

    if k == 'group':
        b = call[1]
        bt = b[1] if b[0] == 'c' else (b[1], b[2])
        lk, lv = attempt(lambda: w.get_latex_braced_group(pos, brace_type=bt, parsing_state=ps))
        pair = None
        if b[0] == 'p':
            pair = (b[1], b[2])
        elif b[1] in ('{', '[', '(', '<'):
            pair = (b[1], {'{': '}', '[': ']', '(': ')', '<': '>'}[b[1]])
        elif len(b[1]) == 2:
            pair = (b[1][0], b[1][1])
        tr = w.make_token_reader(pos=pos)
        if pair is None:
            nk, nv = 'exc', ValueError('invalid brace type')
        else:
            nk, nv = attempt(lambda: w.parse_content(parsers.LatexDelimitedGroupParser(delimiters=pair, allow_pre_space=True),
                                                     token_reader=tr, parsing_state=ps)[0])
        after = tr.cur_pos()
        if nk == 'ok':
            es = show_tuple((None, pos, 0) if nv is None else (nv, nv.pos, nv.len))
        else:
            es = show_exc(nv)
        ls = show_tuple(lv) if lk == 'ok' else show_exc(lv)
        if ls != es:
            fail = mismatch(es, ls, 'get_latex_braced_group')
        sig = 'group:%s' % (ls.split(' ')[1][:2] if ls.startswith('TUP') else ' '.join(ls.split(' ')[:2]))
        return fin(ls, show_new(nk, nv, after), fail, sig, lk, lv)

    if k == 'env':
        name = call[1]
        lk, lv = attempt(lambda: w.get_latex_environment(pos, environmentname=name, parsing_state=ps))
        tr = w.make_token_reader(pos=pos)
        nk, nv = attempt(lambda: w.parse_content(parsers.LatexSingleNodeParser(), token_reader=tr, parsing_state=ps)[0])
        after = tr.cur_pos()
        if nk == 'ok':
            if nv is not None and len(nv) == 1 and isinstance(nv[0], N.LatexEnvironmentNode):
                if name is not None and nv[0].environmentname != name:
                    es = 'SHIMERR environment-name'
                else:
                    es = show_tuple((nv[0], nv[0].pos, nv[0].len))
            else:
                es = 'SHIMERR expected-environment'
        else:
            es = show_exc(nv)
        ls = show_tuple(lv) if lk == 'ok' else show_exc(lv)
        if ls != es:
            fail = mismatch(es, ls, 'get_latex_environment')
        sig = 'env:%s' % (ls.split(' ')[1][:2] if ls.startswith('TUP') else ' '.join(ls.split(' ')[:2]))
        return fin(ls, show_new(nk, nv, after), fail, sig, lk, lv)

    if k == 'opt':
        lk, lv = attempt(lambda: w.get_latex_maybe_optional_arg(pos, parsing_state=ps))
        tr = w.make_token_reader(pos=pos)
        nk, nv = attempt(lambda: w.parse_content(parsers.LatexOptionalSquareBracketsParser(allow_pre_space=SWITCH[4] == '1'),
                                                 token_reader=tr, parsing_state=ps)[0])
        after = tr.cur_pos()
        if nk == 'ok':
            es = show_tuple(None if nv is None else (nv, nv.pos, nv.len))
        else:
            es = show_exc(nv)
        ls = show_tuple(lv) if lk == 'ok' else show_exc(lv)
        if ls != es:
            fail = mismatch(es, ls, 'get_latex_maybe_optional_arg')
        sig = 'opt:%s' % (ls.split(' ')[0] if not ls.startswith('ERR') else ' '.join(ls.split(' ')[:2]))
        return fin(ls, show_new(nk, nv, after), fail, sig, lk, lv)

    if k == 'args':
        code, a, ns, mm = call[1:5]
        sk, sv = attempt(lambda: make_spec(code, a, ns, mm))
        rspec = ref_spec(code, a, ns, mm)
        tr2 = w.make_token_reader(pos=pos)
        nk, nv = attempt(lambda: w.parse_content(rspec.arguments_parser, token_reader=tr2, parsing_state=ps)[0])
        ns_ = show_new(nk, nv, tr2.cur_pos())
        if sk == 'exc':
            ls = show_exc(sv)
            lk, lv = sk, sv
        else:
            tr = w.make_token_reader(pos=pos)
            lk, lv = attempt(lambda: w.parse_content(sv.arguments_parser, token_reader=tr, parsing_state=ps)[0])
            ls = show_new(lk, lv, tr.cur_pos())
        # success <-> success with the same argument nodes and final position; failure <-> failure
        lfail = lk == 'exc' and isinstance(lv, PE)
        nfail = nk == 'exc' and isinstance(nv, PE)
        if lfail != nfail or (not lfail and norm_bare(ls) != norm_bare(ns_)):
            fail = {'kind': 'legacy-differs:args:' + code,
                    'detail': 'arguments %r via spelling %s: %s; MacroSpec(name, %r) gives %s' % (a, code, ls[:300], a, ns_[:300])}
        sig = 'args:%s:%s:%s' % (code, 'ns' if ns else ('mm' if mm else ''), 'err' if lfail else ls.split(' ')[0][:4])
        return fin(ls, ns_, fail, sig, lk, lv)
    raise ValueError(call)

def fin(ls, ns_, fail, sig, lk, lv):
    from pylatexenc.latexnodes import LatexWalkerError
    if fail is None and lk == 'exc' and not isinstance(lv, (LatexWalkerError, ValueError)):
        fail = {'kind': 'legacy-internal-exception', 'detail': 'the legacy call lets %s escape (neither a parse error nor the documented empty result)' % type(lv).__name__}
    return {'out': ls + ' || ' + ns_, 'fail': fail, 'sig': sig}

def run_doc(c):
    """whole document under a macro \\q whose arguments are spelled in the given way, against MacroSpec('q', argspec)"""
    from pylatexenc import latexwalker, macrospec
    from pylatexenc.latexnodes import parsers
    code, a, ns, mm = c['call'][1]
    def parse_with(spec):
        db = ctxdesc.make_db(c['ctx'])
        db.add_context_category('q', prepend=True, macros=[spec], environments=[], specials=[])
        w = latexwalker.LatexWalker(c['s'], latex_context=db, tolerant_parsing=c['tol'])
        try:
            nl, _ = w.parse_content(parsers.LatexGeneralNodesParser())
            return w, 'ok', nl
        except latexwalker.LatexWalkerParseError as e:
            return w, 'err', e
        except RecursionError:
            raise
        except Exception as e:
            return w, 'crash', e
    sk, sv = attempt(lambda: make_spec(code, a, ns, mm))
    _, rk, rv = parse_with(ref_spec(code, a, ns, mm))
    rs = parsecase.show_result(rk, rv)
    if sk == 'exc':
        ls, lk = show_exc(sv), 'crash'
    else:
        _, lk, lv = parse_with(sv)
        ls = parsecase.show_result(lk, lv)
    fail = None
    if (lk == 'err') != (rk == 'err') or (lk != 'err' and norm_bare(ls) != norm_bare(rs)):
        fail = {'kind': 'legacy-differs:doc:' + code,
                'detail': 'document %r, arguments %r via spelling %s: %s; with MacroSpec(name, %r): %s' % (c['s'], a, code, ls[:300], a, rs[:300])}
    return {'out': ls if code not in ('L', 'Q') else None, 'fail': fail, 'sig': 'doc:%s:%s' % (code, lk)}

def run_envdoc(c):
    """whole document under an environment `qe` whose arguments are given through a legacy spelling, with or without
    is_math_mode=True, against EnvironmentSpec('qe', argspec, is_math_mode=...) (same trees incl. the math/text mode of
    every body node)"""
    from pylatexenc import latexwalker, macrospec
    from pylatexenc.macrospec import EnvironmentSpec, std_environment, MacroStandardArgsParser
    from pylatexenc.latexnodes import parsers
    code, a, imm = c['call'][1]
    def mk():
        if code == 'S': return std_environment('qe', a, is_math_mode=imm)
        if code == 'P': return EnvironmentSpec('qe', args_parser=a, is_math_mode=imm)
        if code == 'L': return EnvironmentSpec('qe', args_parser=MacroStandardArgsParser(a), is_math_mode=imm)
        if code == 'Q': return EnvironmentSpec('qe', MacroStandardArgsParser(a), is_math_mode=imm)
        raise ValueError(code)
    def parse_with(spec):
        db = ctxdesc.make_db(c['ctx'])
        db.add_context_category('q', prepend=True, macros=[], environments=[spec], specials=[])
        w = latexwalker.LatexWalker(c['s'], latex_context=db, tolerant_parsing=c['tol'])
        try:
            nl, _ = w.parse_content(parsers.LatexGeneralNodesParser())
            return 'ok', nl
        except latexwalker.LatexWalkerParseError as e:
            return 'err', e
        except RecursionError:
            raise
        except Exception as e:
            return 'crash', e
    sk, sv = attempt(mk)
    rk, rv = parse_with(EnvironmentSpec('qe', a, is_math_mode=imm))
    rs = parsecase.show_result(rk, rv)
    if sk == 'exc':
        ls, lk = show_exc(sv), 'crash'
    else:
        lk, lv = parse_with(sv)
        ls = parsecase.show_result(lk, lv)
    fail = None
    if (lk == 'err') != (rk == 'err') or (lk != 'err' and norm_bare(ls) != norm_bare(rs)):
        fail = {'kind': 'legacy-differs:envdoc:' + code,
                'detail': 'document %r, environment arguments %r via spelling %s, is_math_mode=%r: %s; with EnvironmentSpec(name, %r, is_math_mode=%r): %s'
                          % (c['s'], a, code, imm, ls[:300], a, imm, rs[:300])}
    return {'out': None, 'fail': fail, 'sig': 'envdoc:%s:%s:%s' % (code, 'mm' if imm else 'tm', lk)}

# ---------------------------------------------------------------- generators

def positions(s):
    return range(0, len(s) + 1)

def sweep(s, ctx, variants, tols=(False, True)):
    for pos in positions(s):
        for tol in tols:
            for v in variants:
                yield {'tol': tol, 'ctx': ctx, 's': s, 'pos': pos, 'call': v}

SMALL_ATOMS = ['a', ' ', '{', '}', '[', ']', '$', '%', '\\x', '\\begin{e}', '\\end{e}', '\\', '*', '\n', '$$', '\\(', '\\)', '~']

def arg_inputs(rng, a, n):
    """inputs for an argument string: the well-formed ones, truncations, and soups of argument-shaped atoms"""
    full = ''.join({'{': '{a}', '[': '[b]', '*': '*'}[ch] for ch in a)
    base = ['', full, full + 'c', ' ' + full, full.replace('[b]', ' [b]').replace('{a}', ' {a}'), full.replace('*', ''), full.replace('[b]', ''),
            full.replace('{a}', 'a'), full[:-1], '}', ' }', '*', '**', '[', '{']
    seen = set()
    for t in base:
        if t not in seen:
            seen.add(t); yield t
    for _ in range(n):
        t = gen.soup(rng, ARG_ATOMS, 5)
        if t not in seen:
            seen.add(t); yield t

# fixed regression inputs (each once found by a run of this check)
REGRESSIONS = [
    # closing-brace error from a NESTED expression parser: no marker attribute, get_latex_expression re-raises
    {'tol': False, 'ctx': 'A', 's': '{\\m}', 'pos': 0, 'call': ['expr', None]},
    {'tol': False, 'ctx': 'A', 's': '{\\m}', 'pos': 0, 'call': ['expr', False]},
    {'tol': False, 'ctx': 'A', 's': '{\\m}', 'pos': 0, 'call': ['expr', True]},
    {'tol': True, 'ctx': 'A', 's': '{\\m}', 'pos': 0, 'call': ['expr', None]},
]

# a closing delimiter where a NESTED expression is expected (contexts A and default)
NESTED_CLOSE = {
    'A': ['{\\m}', '\\mm{a}}', '{\\mm{a}}', '[\\m]', '\\o[\\m]{a}', '\\o[a\\m]{a}', '{\\m }', '{\\m%c\n}', '{{\\m}}', '\\m{\\m}',
          '{\\mm{a} }', '$\\m$', '${\\m}$', '\\({\\m}\\)', '\\begin{e}{\\m}\\end{e}', '\\begin{eq}{\\m}\\end{eq}', '\\begin{ea}[\\m]{a}\\end{ea}',
          '\\begin{ea}{\\m}\\end{ea}', '{\\d<\\m>a}', '\\r(\\m)', '{\\om[\\m]{a}}', '{\\tx}', '{a\\mt}', '![\\m]', '{\\so*[\\m]{a}}', '{\\m\\m}', '{\\m{\\m}}'],
    'default': ['{\\emph}', '{\\frac{a}}', '\\sqrt[\\emph]{a}', '{\\sqrt[\\emph]{a}}', '\\emph{\\emph}', '$\\emph$', '${\\frac{a}}$', '\\begin{equation}{\\frac{a}}\\end{equation}',
                '\\begin{itemize}\\item[\\emph]\\end{itemize}', '{\\textbf }', '{\\ensuremath}', '\\[{\\text}\\]', '{\\emph%c\n}', '{{\\emph}}'],
}
NESTED_CALLS = EXPR_VARIANTS + GROUP_VARIANTS[:5] + OPT_VARIANTS + [NODES_VARIANTS[0], NODES_VARIANTS[1], NODES_VARIANTS[2], NODES_VARIANTS[12]] + \
    [['args', 'L', '{', False, None], ['args', 'Q', '{{', False, None], ['args', 'L', '[{', False, None], ['args', 'S', '{', False, None]]

def cases(tier, rng):
    quick = tier == 'quick'
    for c in REGRESSIONS:
        yield dict(c)
    # 0. a closing delimiter where a nested expression is expected: every position, strict and tolerant
    for name, strs in NESTED_CLOSE.items():
        for s in strs:
            for c in sweep(s, name, NESTED_CALLS):
                yield c
            for t in (' ', 'x', '}'):
                for c in sweep(s + t, name, EXPR_VARIANTS):
                    yield c
    # 1. exhaustive short strings, every position, every variant
    for s in gen.exhaustive(SMALL_ATOMS, 1):
        for name in ('default', 'A'):
            for c in sweep(s, name, ALL_VARIANTS):
                yield c
    k2 = list(gen.exhaustive(SMALL_ATOMS, 2))[len(SMALL_ATOMS) + 1:]
    if quick:
        k2 = rng.sample(k2, 90)
    for s in k2:
        for c in sweep(s, 'default', ALL_VARIANTS):
            yield c
    # 2. random soups, four contexts
    for _ in range(110 if quick else 2500):
        name = rng.choice(['A', 'B', 'C', 'default', 'default'])
        s = gen.soup(rng, gen.atoms_for(name), 7)
        vs = ALL_VARIANTS if not quick else rng.sample(ALL_VARIANTS, 22)
        for c in sweep(s, name, vs):
            yield c
    # 3. generated well-formed documents
    for _ in range(40 if quick else 800):
        name = rng.choice(['default', 'A'])
        s = docgen.unparse(docgen.gen_doc(rng, name, budget=rng.randint(2, 6)))
        vs = rng.sample(ALL_VARIANTS, 10 if quick else 20)
        for c in sweep(s, name, vs):
            yield c
    # 4. a non-default parsing state (math mode, extra delimiters)
    for _ in range(20 if quick else 300):
        s = gen.soup(rng, gen.ATOMS_DEFAULT, 6)
        psd = rng.choice([{'im': True}, {'im': True, 'md': '$'}, {'gd': [['{', '}'], ['<', '>']]}, {'en': False}, {'co': False}])
        for c in sweep(s, 'default', rng.sample(ALL_VARIANTS, 8)):
            c['ps'] = psd
            yield c
    # 4b. histories on one shared walker
    for c in history_cases(tier, rng):
        yield c
    # 5. every argument string up to length 4 through every spelling
    for a in list(argstrings(4)) + ['{{{{{', '[{{{{', '[{{{{{', '{{{{{{', '[{{{{{{']:
        sps = spellings_for(a)
        if len(a) > 4:
            sps = [sp for sp in sps if sp[0] in ('O', 'S')]      # longer signatures: the (optarg, numargs) spelling
        for t in arg_inputs(rng, a, 6 if quick else 40):
            for wrap in (False, True):
                s = ('{\\q' + t + '}x') if wrap else ('\\q' + t)
                pos = 3 if wrap else 2
                for tol in (False, True):
                    for sp in sps:
                        yield {'tol': tol, 'ctx': 'A', 's': s, 'pos': pos, 'call': ['args'] + sp}
                        if not wrap or sp[0] in ('L', 'P'):
                            yield {'tol': tol, 'ctx': 'A', 's': s, 'pos': 0, 'call': ['doc', sp]}
    # 5b. environments whose arguments are given through the legacy spellings, text-mode and math-mode bodies
    for a in ['', '{', '[', '[{', '{{', '*{']:
        full = ''.join({'{': '{a}', '[': '[b]', '*': '*'}[ch] for ch in a)
        for body in ['x', ' x $y$ \\x{z} ', 'a\\(b\\)', '{g}$$h$$', '\\begin{e}i\\end{e}']:
            for argsrc in (full, full.replace('[b]', ''), ''):
                s = '\\begin{qe}' + argsrc + body + '\\end{qe}t'
                for imm in (False, True):
                    for code in ('S', 'P', 'L', 'Q'):
                        for tol in (False, True):
                            yield {'tol': tol, 'ctx': 'A', 's': s, 'pos': 0, 'call': ['envdoc', [code, a, imm]]}
    # 6. optional_arg_no_space / args_math_mode
    for a in argstrings(2):
        if not a:
            continue
        opts = [(True, None)] + [(False, list(mm)) for mm in itertools.product([None, True, False], repeat=len(a))][1:]
        for ns, mm in opts:
            for t in arg_inputs(rng, a, 3 if quick else 20):
                if mm is not None and '$' in t:
                    continue
                # args_math_mode=True inside $...$ keeps the current delimiter while ParsingStateDeltaEnterMathMode clears it;
                # pylatexenc 3 documents no equivalent for that sub-case, so math-mode variants start in text mode
                for pre in (('\\q', '$\\q') if (mm is None or not any(x is True for x in mm)) else ('\\q',)):     # False entries (leave math mode) are well defined inside $...$
                    s = pre + t + ('$' if pre[0] == '$' else '')
                    for tol in (False, True):
                        yield {'tol': tol, 'ctx': 'A', 's': s, 'pos': len(pre), 'call': ['args', 'L', a, ns, mm]}
                        yield {'tol': tol, 'ctx': 'A', 's': s, 'pos': 0, 'call': ['doc', ['L', a, ns, mm]]}

PS_POOL = [None, {'im': True}, {'im': True, 'md': '$'}, {'gd': [['{', '}'], ['<', '>']]}, {'en': False}, {'co': False}, {'ma': False},
           {'gd': [['{', '}'], ['[', ']']]}, {'mm': False}]

def history_cases(tier, rng):
    """several legacy calls on one shared walker, with different parsing states and stop conditions"""
    quick = tier == 'quick'
    fixed = ['a [b $c$ 100% d] e <x \\x{y} z> (p) q', 'x[a $b$]y[c]', '[\\emph{a}] <b> {c}', 'a]b]c>d)e', '$a [b] c$ [d]']
    brace_calls = [v for v in NODES_VARIANTS if v[1] is not None] + GROUP_VARIANTS[:6] + TOK_VARIANTS[3:]
    strs = list(fixed)
    for _ in range(80 if quick else 1500):
        strs.append(gen.soup(rng, gen.ATOMS_DEFAULT + ['[', ']', '<', '>', '(', ')', '[', ']'], 8))
    for s in strs:
        for _ in range(40 if quick else 60):
            name = rng.choice(['default', 'default', 'A'])
            pre = []
            for _ in range(rng.randint(1, 3)):
                pre.append({'ps': rng.choice(PS_POOL), 'pos': rng.randint(0, len(s)),
                            'call': rng.choice(brace_calls if rng.random() < 0.7 else ALL_VARIANTS)})
            final = rng.choice(brace_calls if rng.random() < 0.7 else ALL_VARIANTS)
            if rng.random() < 0.5:
                # the same call again under another parsing state (what a per-walker memo would get wrong)
                final = pre[-1]['call']
            c = {'tol': rng.random() < 0.4, 'ctx': name, 's': s, 'pos': rng.randint(0, len(s)), 'call': final, 'pre': pre}
            psd = rng.choice(PS_POOL)
            if psd is not None:
                c['ps'] = psd
            yield c

def shrink_candidates(c):
    pre = c.get('pre') or []
    for i in range(len(pre)):
        d = dict(c); d['pre'] = pre[:i] + pre[i+1:]
        yield d
    if pre:
        return
    s = c['s']
    n = len(s)
    for L in (12, 8, 5, 3, 2, 1):
        if L > n:
            continue
        for i in range(0, n - L + 1):
            d = dict(c); d['s'] = s[:i] + s[i+L:]
            if c['pos'] > i:
                d['pos'] = max(i, c['pos'] - L)
            if d['pos'] <= len(d['s']):
                yield d
    if c['pos'] > 0:
        d = dict(c); d['s'] = s[c['pos']:]; d['pos'] = 0
        yield d
    if c.get('ps'):
        d = dict(c); d.pop('ps'); yield d
    if c['ctx'] != 'default':
        d = dict(c); d['ctx'] = 'default'; yield d
