# C14 — context database lookups follow category order under every build history.
#
# A case is a whole history of LatexContextDb operations starting from one fresh
# database (index 0; every filtered_context / extended_with that succeeds creates
# the next index).  After every operation *every* database that exists is queried
# for every name of the universe (get_*_spec, test_for_specials at every position
# of the probe strings, iter_*_specs, categories(), frozen).  The canonical line of
# these answers is compared with the Lean model (`DB` operation, repaired variant
# by default; VERIF_C14_VARIANT=A compares with the model of the code as found),
# and the property's own predicate is evaluated on the implementation's answers.
import os, itertools
from common import wire, show_str

THEOREMS = ['Pylx.CtxDb.C14_inv', 'Pylx.CtxDb.C14_lookup', 'Pylx.CtxDb.C14_specials',
            'Pylx.CtxDb.C14_isolation', 'Pylx.CtxDb.C14_isolation_answers', 'Pylx.CtxDb.C14_frozen', 'Pylx.CtxDb.C14_closure',
            'Pylx.CtxDb.C14_filtered_succeeds', 'Pylx.CtxDb.C14_extended_succeeds', 'Pylx.CtxDb.C14_extended_named',
            'Pylx.CtxDb.C14_extension_answers',
            'Pylx.CtxDb.C14_asIs_order_violated', 'Pylx.CtxDb.C14_asIs_lookup_false',
            'Pylx.CtxDb.C14_asIs_filtered_raises', 'Pylx.CtxDb.C14_asIs_filtered_false']
RULE = ('DB: histories of add_context_category (append / prepend / insert_before / insert_after, named and automatic '
        'categories), set_unknown_*_spec, freeze, filtered_context, extended_with over 4 category names x 3 names x 3 kinds: '
        'all placement sequences up to the length bound followed by derivation suffixes, error-path histories, random '
        'histories; after every operation every database is queried for every name; sig = sequence of (operation, outcome); '
        'oracle: lookup = first defining category in categories() order else configured unknown spec, test_for_specials = '
        'longest match (first in order on ties), a new category lands where its placement mode says, untouched databases keep all answers, frozen databases refuse mutation, '
        'filtered_context never raises, extended_with on a frozen database succeeds and its new definitions win')
TRUSTED = ['collections.ChainMap modelled as: maps list, lookup = first map with the key, new_child prepends, ChainMap() = [{}]',
           'per-category dicts are never mutated in place by the file, so they are modelled by value',
           'a spec object is identified by (kind, name, id); its name attribute never changes']
ASSUMPTIONS = ['category names and spec names are str; positions are >= 0',
               'create_class is not used (databases are plain LatexContextDb)']
TRIVIAL_SIGS = ('',)

VARIANT = os.environ.get('VERIF_C14_VARIANT', 'R')
CATS = ['A', 'B', 'C']
NAMES = ['x', 'y', 'z']
SPCH = ['~', '~~', '!', '~!']
QN = NAMES + SPCH
QS = ['~~!', '!~~', '~!~']
AUTOPFX = '__lctxdb_cat_'

# ------------------------------------------------------------------ case construction

class Ids(object):
    def __init__(self, start=1):
        self.n = start
    def new(self):
        self.n += 1
        return self.n - 1

def op_add(i, cat, m=(), e=(), s=(), p=False, b=None, a=None):
    return {'o': 'A', 'i': i, 'cat': cat, 'm': [list(x) for x in m], 'e': [list(x) for x in e], 's': [list(x) for x in s],
            'p': bool(p), 'b': b, 'a': a}

def op_unk(i, k, s):
    return {'o': 'U', 'i': i, 'k': k, 's': s}

def op_freeze(i):
    return {'o': 'F', 'i': i}

def op_filt(i, keep=(), excl=(), w=''):
    return {'o': 'X', 'i': i, 'keep': list(keep), 'excl': list(excl), 'w': w}

def op_ext(i, cat, m=(), e=(), s=(), um='.', ue='.', us='.'):
    return {'o': 'E', 'i': i, 'cat': cat, 'm': [list(x) for x in m], 'e': [list(x) for x in e], 's': [list(x) for x in s],
            'um': um, 'ue': ue, 'us': us}

def mk(ops, qn=QN, qs=QS):
    return {'qn': list(qn), 'qs': list(qs), 'ops': ops}

PLACEMENTS = [('app', None), ('pre', None)] + [('bef', c) for c in CATS + ['Z']] + [('aft', c) for c in CATS + ['Z']]

def place_kwargs(pl):
    k, c = pl
    if k == 'pre':
        return {'p': True}
    if k == 'bef':
        return {'b': c}
    if k == 'aft':
        return {'a': c}
    return {}

def std_defs(ids, extra):
    """every category defines x (macro, environment) and '~' so that the order is visible in every kind"""
    m = [('x', ids.new())]
    e = [('x', ids.new())]
    s = [('~', ids.new())]
    if extra % 2 == 0:
        m.append(('y', ids.new())); s.append(('~~', ids.new()))
    if extra % 3 == 0:
        e.append(('y', ids.new())); s.append(('~!', ids.new()))
    if extra % 3 == 1:
        s.append(('!', ids.new()))
    return m, e, s

def suffixes(ids, k):
    """derivation suffixes applied to database 0 after the placement prefix"""
    yield []
    if k == 0:
        yield [op_freeze(0), op_ext(0, None, m=[('x', ids.new())], s=[('~~', ids.new())]),
               op_filt(1), op_ext(1, None, m=[('z', ids.new())]), op_filt(2, keep=['A', 'C'])]
    elif k == 1:
        yield [op_filt(0, excl=['B']), op_add(1, 'D', m=[('x', ids.new())], b='C'), op_freeze(1),
               op_ext(1, 'N', e=[('x', ids.new())], um=ids.new()), op_filt(2, w='me')]
    elif k == 2:
        yield [op_unk(0, 'm', ids.new()), op_freeze(0), op_ext(0, None, s=[('!', ids.new())]),
               op_ext(1, None, s=[('~~', ids.new())], us=None), op_add(0, 'D'), op_unk(1, 'e', ids.new())]
    else:
        yield [op_freeze(0), op_ext(0, 'N', m=[('y', ids.new())]), op_ext(1, None, m=[('y', ids.new())]),
               op_ext(2, None, m=[('x', ids.new())]), op_filt(3, excl=['A'], w='ms')]

def gen_placements(maxk, with_auto, sparse=0):
    """sparse=1,2: categories that define only some of the three kinds (so that several categories hold EQUAL — empty —
    dictionaries of a kind; the placement of a category is by rank in categories(), never by comparing dictionaries)"""
    cats = CATS + ([None] if with_auto else [])
    n = 0
    for k in range(1, maxk + 1):
        for pls in itertools.product(PLACEMENTS, repeat=k):
            # a reference to a category that is added later or never is still interesting (fallback index), keep all
            ids = Ids()
            ops = []
            for j, pl in enumerate(pls):
                cat = cats[j % len(cats)]
                m, e, s = std_defs(ids, j + n)
                if sparse:
                    keep = [('m',), ('m', 'e'), ('m', 'e', 's'), ('s',), ('m', 's'), ('e',)][(j * sparse + (0 if j < k - 1 else 2)) % 6]
                    if j == k - 1: keep = ('m', 'e', 's')      # the category placed last defines every kind
                    m, e, s = (m if 'm' in keep else []), (e if 'e' in keep else []), (s if 's' in keep else [])
                ops.append(op_add(0, cat, m, e, s, **place_kwargs(pl)))
            for suf in suffixes(ids, n % 4):
                yield mk(ops + suf)
            n += 1

def gen_errors():
    ids = Ids()
    a = lambda cat, **kw: op_add(0, cat, [('x', ids.new())], [('y', ids.new())], [('~', ids.new())], **kw)
    yield mk([a('A'), a('A'), a('B'), a('B', p=True)])
    yield mk([a(AUTOPFX + '0'), a(AUTOPFX), a(None), a(None), a(None, p=True), a(AUTOPFX + '5')])
    yield mk([a('A'), a('B', p=True, b='A'), a('B', b='A', a='A'), a('B', p=True, a='A'), a(None, p=True, b='A'), a(None), a('B', b='', a='A')])
    yield mk([a('A'), op_freeze(0), a('B'), op_unk(0, 'm', 7), op_unk(0, 'e', 7), op_unk(0, 's', 7), op_freeze(0), a(None), a('A')])
    yield mk([a('A'), op_ext(0, None), op_ext(0, 'A'), op_freeze(0), op_ext(0, 'A'), op_ext(0, 'B'), op_ext(1, 'A'), op_ext(1, 'B'), op_ext(1, 'C')])
    yield mk([a(None), a('A', p=True), a(None, p=True), op_freeze(0), op_ext(0, None, m=[('x', ids.new())]), op_ext(1, None, m=[('x', ids.new())]), op_filt(1), op_filt(2)])
    yield mk([a(None), op_filt(0), a(None), op_filt(0), op_freeze(0), op_ext(0, None, s=[('~~', ids.new())]), op_filt(2), op_add(3, None)])
    yield mk([a(''), a('A', b=''), a('B', a=''), op_filt(0, keep=['']), op_filt(0, excl=[''])])
    yield mk([op_add(0, 'A', m=[('x', 1), ('y', 2), ('x', 3)], s=[('~', 4), ('~~', 5), ('~', 6)]), op_freeze(0),
              op_ext(0, None, m=[('y', 7), ('y', 8)]), op_ext(1, None, m=[('x', 9)]), op_filt(2)])
    yield mk([op_add(0, 'A', s=[('~', 1)]), op_add(0, 'B', s=[('~~', 2), ('~', 3)]), op_add(0, 'C', s=[('~~', 4), ('', 5)], p=True)])
    yield mk([op_unk(0, 'm', 1), op_unk(0, 'e', 2), op_unk(0, 's', 3), op_filt(0), op_unk(0, 'm', None), op_unk(1, 'e', 4), op_freeze(0),
              op_ext(0, None, um=None, us=9), op_ext(0, 'K', ue=5)])
    # same spec object in two categories
    yield mk([op_add(0, 'A', m=[('x', 1)]), op_add(0, 'B', m=[('x', 1), ('y', 2)], p=True), op_filt(0, keep=['A'])])

def gen_sparse(rng, reps):
    """three categories A, B, C of which any subset defines each kind (so that several categories hold EQUAL — empty —
    dictionaries of a kind), then a fourth one defining every kind, placed in each of the ten ways; the rank of a category
    is its rank in categories(), never a matter of comparing dictionaries"""
    for _ in range(reps):
        for mm in range(8):
            for me in range(8):
                for ms in range(8):
                    for pl in PLACEMENTS:
                        ids = Ids()
                        ops = []
                        order = list(CATS)
                        if reps > 1: rng.shuffle(order)
                        for j, cat in enumerate(order):
                            m, e, s = std_defs(ids, j + mm)
                            ops.append(op_add(0, cat, m if mm >> j & 1 else [], e if me >> j & 1 else [], s if ms >> j & 1 else []))
                        m, e, s = std_defs(ids, 3)
                        ops.append(op_add(0, 'D', m, e, s, **place_kwargs(pl)))
                        if (mm + me + ms) % 5 == 0:
                            ops += [op_freeze(0), op_ext(0, None, m=[('y', ids.new())])]
                        yield mk(ops)

def rand_defs(rng, ids, kind):
    out = []
    names = SPCH if kind == 's' else NAMES
    if rng.random() < 0.3:
        return out          # a category that defines nothing of this kind
    for nm in names:
        if rng.random() < 0.45:
            out.append((nm, ids.new()))
    if out and rng.random() < 0.1:
        out.append((out[0][0], ids.new()))
    rng.shuffle(out)
    return out

def gen_random(rng, n, maxlen):
    allcats = CATS + ['D', None, None, AUTOPFX + '0', AUTOPFX + '1']
    for _ in range(n):
        ids = Ids()
        ops = []
        ndb = 1
        frozen = set()
        L = rng.randint(2, maxlen)
        for _j in range(L):
            i = ndb - 1 if rng.random() < 0.5 else rng.randrange(ndb)
            r = rng.random()
            if r < 0.45:
                cat = rng.choice(allcats)
                kw = {}
                t = rng.random()
                if t < 0.2:
                    kw['p'] = True
                elif t < 0.45:
                    kw['b'] = rng.choice(CATS + ['D', 'Z', AUTOPFX + '0'])
                elif t < 0.7:
                    kw['a'] = rng.choice(CATS + ['D', 'Z', AUTOPFX + '0'])
                if rng.random() < 0.04:
                    kw['p'] = True; kw['a'] = 'A'
                ops.append(op_add(i, cat, rand_defs(rng, ids, 'm'), rand_defs(rng, ids, 'e'), rand_defs(rng, ids, 's'), **kw))
            elif r < 0.53:
                ops.append(op_unk(i, rng.choice('mes'), rng.choice([None, ids.new()])))
            elif r < 0.68:
                ops.append(op_freeze(i)); frozen.add(i)
            elif r < 0.82:
                keep = [c for c in CATS + ['D', AUTOPFX + '0'] if rng.random() < 0.4] if rng.random() < 0.4 else []
                excl = [c for c in CATS + ['D', AUTOPFX + '0'] if rng.random() < 0.3] if rng.random() < 0.4 else []
                w = ''.join(k for k in 'mes' if rng.random() < 0.6) if rng.random() < 0.4 else ''
                ops.append(op_filt(i, keep, excl, w)); ndb += 1
            else:
                if i not in frozen and rng.random() < 0.8:
                    ops.append(op_freeze(i)); frozen.add(i)
                cat = rng.choice([None, None, None, 'N', 'A', AUTOPFX + '7'])
                ov = lambda: rng.choice(['.', '.', '.', None, ids.new()])
                ops.append(op_ext(i, cat, rand_defs(rng, ids, 'm'), rand_defs(rng, ids, 'e'), rand_defs(rng, ids, 's'), ov(), ov(), ov()))
                ndb += 1; frozen.add(ndb - 1)
        yield mk(ops)

def cases(tier, rng):
    for c in gen_errors():
        yield c
    if tier == 'quick':
        for c in gen_placements(3, False):
            yield c
        for c in gen_placements(3, True):
            yield c
        for c in gen_sparse(rng, 1):
            yield c
        for c in gen_random(rng, 8000, 10):
            yield c
    else:
        for c in gen_placements(4, False):
            yield c
        for c in gen_placements(4, True):
            yield c
        for c in gen_sparse(rng, 3):
            yield c
        for c in gen_random(rng, 150000, 16):
            yield c

# ------------------------------------------------------------------ wire format

def w_optstr(s):
    return '-' if s is None else '=' + wire(s)

def w_names(l):
    return 'K' + ';'.join('=' + wire(s) for s in l)

def w_specs(l):
    return 'L' + ';'.join('%s:%d' % (wire(n), i) for n, i in l)

def w_optspec(s):
    return '-' if s is None else str(s)

def w_ovr(s):
    return '.' if s == '.' else w_optspec(s)

def w_op(op):
    o = op['o']
    if o == 'A':
        return ' '.join(['A', str(op['i']), w_optstr(op['cat']), w_specs(op['m']), w_specs(op['e']), w_specs(op['s']),
                         'T' if op['p'] else 'F', w_optstr(op['b']), w_optstr(op['a'])])
    if o == 'U':
        return ' '.join(['U', str(op['i']), op['k'], w_optspec(op['s'])])
    if o == 'F':
        return 'F %d' % op['i']
    if o == 'X':
        return ' '.join(['X', str(op['i']), w_names(op['keep']), w_names(op['excl']), 'W' + op['w']])
    if o == 'E':
        return ' '.join(['E', str(op['i']), w_optstr(op['cat']), w_specs(op['m']), w_specs(op['e']), w_specs(op['s']),
                         w_ovr(op['um']), w_ovr(op['ue']), w_ovr(op['us'])])
    raise ValueError(o)

def to_line(case):
    return '\t'.join(['DB', VARIANT, w_names(case['qn']), w_names(case['qs'])] + [w_op(op) for op in case['ops']])

# ------------------------------------------------------------------ running the implementation

KINDS = ('m', 'e', 's')
KWHICH = {'m': 'macros', 'e': 'environments', 's': 'specials'}
EXC = (RuntimeError, ValueError, TypeError, KeyError)

class World(object):
    def __init__(self):
        from pylatexenc import macrospec
        self.ms = macrospec
        self.objs = {}
        self.ids = {}
        self.keep = []
        self.dbs = [macrospec.LatexContextDb()]
        self.unk = [{'m': None, 'e': None, 's': None}]      # configured unknown specs (shadow)
        self.froze = [False]                                 # freeze() called, or created by extended_with

    def spec(self, kind, name, n):
        key = (kind, name, n)
        o = self.objs.get(key)
        if o is None:
            if kind == 'm':
                o = self.ms.MacroSpec(name)
            elif kind == 'e':
                o = self.ms.EnvironmentSpec(name)
            else:
                o = self.ms.SpecialsSpec(name)
            self.objs[key] = o
            self.ids[id(o)] = n
        return o

    def unkspec(self, kind, n):
        if n is None:
            return None
        return self.spec(kind, '?unknown', n)

    def show(self, o):
        if o is None:
            return 'N'
        n = self.ids.get(id(o))
        return '?' if n is None else str(n)

def spec_name(kind, o):
    return o.macroname if kind == 'm' else (o.environmentname if kind == 'e' else o.specials_chars)

def get_spec(db, kind, name, **kw):
    if kind == 'm':
        return db.get_macro_spec(name, **kw)
    if kind == 'e':
        return db.get_environment_spec(name, **kw)
    return db.get_specials_spec(name, **kw)

def iter_specs(db, kind, categories=None):
    if kind == 'm':
        return list(db.iter_macro_specs(categories))
    if kind == 'e':
        return list(db.iter_environment_specs(categories))
    return list(db.iter_specials_specs(categories))

def guarded(f):
    try:
        return f(), None
    except EXC as e:
        return None, type(e).__name__

def dump_db(w, db, qn, qs):
    parts = ['T' if db.frozen else 'F', 'c[' + ','.join(show_str(c) for c in db.categories()) + ']']
    for k in KINDS:
        parts.append(k + '[' + ','.join(w.show(get_spec(db, k, n)) for n in qn) + ']')
    t = []
    for s in qs:
        for p in range(len(s) + 1):
            r, err = guarded(lambda: db.test_for_specials(s, p))
            t.append('!' + err if err else w.show(r))
    parts.append('t[' + ','.join(t) + ']')
    for k in KINDS:
        r, err = guarded(lambda: iter_specs(db, k))
        parts.append('i' + k + '[' + ('!' + err if err else ','.join(w.show(o) for o in r)) + ']')
    return ' '.join(parts)

def dump_all(w, qn, qs):
    ds = [dump_db(w, db, qn, qs) for db in w.dbs]
    return ds, ' '.join('#%d %s' % (i, d) for i, d in enumerate(ds))

def oracle_db(w, i, qn, qs):
    """lookup order and longest specials on database i; returns fail or None"""
    db = w.dbs[i]
    cats = db.categories()
    percat = {}
    for k in KINDS:
        for c in cats:
            r, err = guarded(lambda: iter_specs(db, k, [c]))
            if err:
                return {'kind': 'query-raises', 'detail': 'db %d: iter_%s_specs([%r]) raised %s although %r is in categories() %r'
                        % (i, KWHICH[k], c, err, c, cats)}
            percat[(k, c)] = r
    for k in KINDS:
        for n in qn:
            exp = w.unk[i][k]
            src = 'the configured unknown spec'
            for c in cats:
                hit = [o for o in percat[(k, c)] if spec_name(k, o) == n]
                if hit:
                    exp = hit[-1]; src = 'category %r' % c
                    break
            # documented keyword: with raise_if_not_found=True the same definition, and KeyError exactly when no category has one
            try:
                g2 = get_spec(db, k, n, raise_if_not_found=True); e2 = None
            except KeyError:
                g2 = None; e2 = 'KeyError'
            except Exception as e:
                g2 = None; e2 = type(e).__name__
            found = src != 'the configured unknown spec'
            if (found and (e2 is not None or g2 is not exp)) or (not found and e2 != 'KeyError'):
                return {'kind': 'lookup-order', 'detail': 'db %d, categories() = %r: get_%s_spec(%r, raise_if_not_found=True) gave %s / %s; the first defining category: %s'
                        % (i, cats, KWHICH[k], n, w.show(g2) if g2 is not None else None, e2, src)}
            got = get_spec(db, k, n)
            if got is not exp:
                return {'kind': 'lookup-order', 'detail': 'db %d, categories() = %r: get_%s_spec(%r) returned spec %s, but the first '
                        'category in that order defining it gives spec %s (from %s)' % (i, cats, KWHICH[k], n, w.show(got), w.show(exp), src)}
    cands = [o for c in cats for o in percat[('s', c)]]
    for s in qs:
        for p in range(len(s) + 1):
            m = [o for o in cands if o.specials_chars and s.startswith(o.specials_chars, p)]
            exp = None
            if m:
                L = max(len(o.specials_chars) for o in m)
                exp = [o for o in m if len(o.specials_chars) == L][0]
            got, err = guarded(lambda: db.test_for_specials(s, p))
            if err:
                return {'kind': 'query-raises', 'detail': 'db %d: test_for_specials(%r, %d) raised %s' % (i, s, p, err)}
            if got is not exp:
                return {'kind': 'specials-longest', 'detail': 'db %d, categories() = %r: test_for_specials(%r, %d) returned spec %s, '
                        'the longest match (first in category order) is spec %s' % (i, cats, s, p, w.show(got), w.show(exp))}
    return None

def apply_op(w, op):
    """returns (result tag, created index or None, unexpected exception or None)"""
    i = op['i']
    if not (0 <= i < len(w.dbs)):
        return 'badref', None, None
    db = w.dbs[i]
    o = op['o']
    try:
        if o == 'A':
            # the three arguments are documented as iterables: every other registration hands them over as one-shot iterators
            # (generator expression, iter(), map) instead of lists
            n_ids = sum(j for _, j in op['m'] + op['e'] + op['s'])
            it = (lambda l: l) if n_ids % 2 == 0 else [(lambda l: iter(l)), (lambda l: (x for x in l)), (lambda l: map(lambda x: x, l))][n_ids % 3]
            db.add_context_category(op['cat'],
                                    macros=it([w.spec('m', n, j) for n, j in op['m']]),
                                    environments=it([w.spec('e', n, j) for n, j in op['e']]),
                                    specials=it([w.spec('s', n, j) for n, j in op['s']]),
                                    prepend=op['p'], insert_before=op['b'], insert_after=op['a'])
            return 'ok', None, None
        if o == 'U':
            sp = w.unkspec(op['k'], op['s'])
            if op['k'] == 'm':
                db.set_unknown_macro_spec(sp)
            elif op['k'] == 'e':
                db.set_unknown_environment_spec(sp)
            else:
                db.set_unknown_specials_spec(sp)
            w.unk[i][op['k']] = sp
            return 'ok', None, None
        if o == 'F':
            db.freeze()
            w.froze[i] = True
            return 'ok', None, None
        if o == 'X':
            new = db.filtered_context(keep_categories=op['keep'], exclude_categories=op['excl'],
                                      keep_which=[KWHICH[k] for k in op['w']])
            w.dbs.append(new)
            w.unk.append(dict(w.unk[i]))
            w.froze.append(False)
            return 'new%d' % (len(w.dbs) - 1), len(w.dbs) - 1, None
        if o == 'E':
            kw = {}
            nu = dict(w.unk[i])
            for k, key in (('m', 'unknown_macro_spec'), ('e', 'unknown_environment_spec'), ('s', 'unknown_specials_spec')):
                v = op['u' + k]
                if v != '.':
                    kw[key] = w.unkspec(k, v)
                    nu[k] = kw[key]
            new = db.extended_with(category=op['cat'],
                                   macros=[w.spec('m', n, j) for n, j in op['m']],
                                   environments=[w.spec('e', n, j) for n, j in op['e']],
                                   specials=[w.spec('s', n, j) for n, j in op['s']], **kw)
            w.dbs.append(new)
            w.unk.append(nu)
            w.froze.append(True)
            return 'new%d' % (len(w.dbs) - 1), len(w.dbs) - 1, None
    except EXC as e:
        return type(e).__name__, None, None
    except Exception as e:
        return 'Exc:' + type(e).__name__, None, repr(e)
    raise ValueError(o)

def run_history(case, with_oracle=True):
    qn, qs = case['qn'], case['qs']
    w = World()
    fail = None
    def setfail(f):
        nonlocal fail
        if fail is None and f is not None:
            fail = f
    dumps, line = dump_all(w, qn, qs)
    outs = ['init ' + line]
    sig = []
    created = []
    if with_oracle:
        setfail(oracle_db(w, 0, qn, qs))
    for step, op in enumerate(case['ops']):
        i = op['i']
        o = op['o']
        valid = 0 <= i < len(w.dbs)
        was_frozen = valid and (w.froze[i] or bool(w.dbs[i].frozen))
        pre_cats = w.dbs[i].categories() if valid else []
        res, new, unexpected = apply_op(w, op)
        created.append(new)
        ndumps, line = dump_all(w, qn, qs)
        outs.append(res + ' ' + line)
        sig.append(o + ('+' if res == 'ok' or res.startswith('new') else '!' + res[:1]))
        if with_oracle and fail is None:
            where = 'step %d (%s on db %d -> %s)' % (step, o, i, res)
            if unexpected:
                setfail({'kind': 'unexpected-exception', 'detail': '%s: %s' % (where, unexpected)})
            # frozen databases refuse modification
            if o in 'AU' and was_frozen and res != 'RuntimeError':
                setfail({'kind': 'frozen-accepts', 'detail': '%s: database is frozen, the mutator must raise RuntimeError' % where})
            # placement of a successful add_context_category (documented meaning of the four modes)
            if o == 'A' and res == 'ok':
                post = w.dbs[i].categories()
                new_names = [c for c in post if c not in pre_cats]
                exp = None
                if len(new_names) == 1 and len(post) == len(pre_cats) + 1:
                    nm = new_names[0]
                    if op['p']:
                        exp = [nm] + pre_cats
                    elif op['b']:
                        k = pre_cats.index(op['b']) if op['b'] in pre_cats else 0
                        exp = pre_cats[:k] + [nm] + pre_cats[k:]
                    elif op['a']:
                        k = pre_cats.index(op['a']) + 1 if op['a'] in pre_cats else len(pre_cats)
                        exp = pre_cats[:k] + [nm] + pre_cats[k:]
                    else:
                        exp = pre_cats + [nm]
                if post != exp:
                    setfail({'kind': 'placement', 'detail': '%s: categories() was %r, add_context_category(%r, prepend=%r, insert_before=%r, '
                             'insert_after=%r) gave %r, expected %r' % (where, pre_cats, op['cat'], op['p'], op['b'], op['a'], post, exp)})
                elif len(new_names) == 1:
                    # the category holds the definitions it was given (last one wins for a repeated name), whatever kind of
                    # iterable they came in
                    for k in KINDS:
                        given = {}
                        for n_, j_ in op[k]:
                            given[n_] = w.spec(k, n_, j_)
                        r_, err_ = guarded(lambda: iter_specs(w.dbs[i], k, [new_names[0]]))
                        held = None if err_ else sorted(id(o_) for o_ in r_)
                        if held != sorted(id(o_) for o_ in given.values()):
                            setfail({'kind': 'lookup-order', 'detail': '%s: category %r was given %s %r but holds %s'
                                     % (where, new_names[0], KWHICH[k], sorted(given), err_ or [spec_name(k, o_) for o_ in r_])})
                            break
            # derivation always possible
            if o == 'X' and valid and new is None:
                setfail({'kind': 'filtered-raises', 'detail': '%s: filtered_context(keep=%r, exclude=%r, which=%r) raised; categories() = %r'
                         % (where, op['keep'], op['excl'], op['w'], pre_cats)})
            if o == 'E' and valid and was_frozen and new is None and (op['cat'] is None or op['cat'] not in pre_cats):
                setfail({'kind': 'extended-raises', 'detail': '%s: extended_with(category=%r) on a frozen database raised; categories() = %r'
                         % (where, op['cat'], pre_cats)})
            # isolation: only the target of a successful mutator may change its answers
            for j, old in enumerate(dumps):
                if ndumps[j] != old and not (j == i and o in 'AUF' and res == 'ok'):
                    setfail({'kind': 'isolation', 'detail': '%s changed the answers of database %d: before %s / after %s'
                             % (where, j, old, ndumps[j])})
                    break
            # the new definitions of an extension win
            if o == 'E' and new is not None:
                for k in KINDS:
                    last = {}
                    for n, sid in op[k]:
                        last[n] = sid
                    for n, sid in last.items():
                        got = get_spec(w.dbs[new], k, n)
                        if got is not w.spec(k, n, sid):
                            setfail({'kind': 'extended-precedence', 'detail': '%s: the extension defines %s %r as spec %d but get returns spec %s'
                                     % (where, KWHICH[k], n, sid, w.show(got))})
            # lookup order / specials on every database
            for j in range(len(w.dbs)):
                if fail is None:
                    f = oracle_db(w, j, qn, qs)
                    if f:
                        f['detail'] = 'after ' + where + ': ' + f['detail']
                        setfail(f)
        dumps = ndumps
    return {'out': ' ;; '.join(outs), 'fail': fail, 'sig': ' '.join(sig), 'created': created}

def run_impl(case):
    r = run_history(case)
    return {'out': r['out'], 'fail': r['fail'], 'sig': r['sig']}

# ------------------------------------------------------------------ shrinking

def _remove_op(case, k, created):
    ops = case['ops']
    j = created[k]
    out = []
    for t, op in enumerate(ops):
        if t == k:
            continue
        op = dict(op)
        if j is not None and t > k:
            if op['i'] == j:
                continue
            if op['i'] > j:
                op['i'] -= 1
        out.append(op)
    d = dict(case); d['ops'] = out
    return d

def shrink_candidates(case):
    try:
        created = run_history(case, with_oracle=False)['created']
    except Exception:
        created = [None] * len(case['ops'])
    n = len(case['ops'])
    for k in range(n - 1, -1, -1):
        yield _remove_op(case, k, created)
    for k, op in enumerate(case['ops']):
        for f in ('m', 'e', 's'):
            if op['o'] in 'AE' and op.get(f):
                for t in range(len(op[f])):
                    o2 = dict(op); o2[f] = op[f][:t] + op[f][t+1:]
                    d = dict(case); d['ops'] = case['ops'][:k] + [o2] + case['ops'][k+1:]
                    yield d
        for f in ('keep', 'excl'):
            if op.get(f):
                o2 = dict(op); o2[f] = op[f][1:]
                d = dict(case); d['ops'] = case['ops'][:k] + [o2] + case['ops'][k+1:]
                yield d
        for f, dflt in (('um', '.'), ('ue', '.'), ('us', '.'), ('w', '')):
            if f in op and op[f] != dflt:
                o2 = dict(op); o2[f] = dflt
                d = dict(case); d['ops'] = case['ops'][:k] + [o2] + case['ops'][k+1:]
                yield d
    for f in ('qn', 'qs'):
        for t in range(len(case[f])):
            d = dict(case); d[f] = case[f][:t] + case[f][t+1:]
            yield d

def known_match(m, case, fail):
    return True

LEVEL_TEXT = ('Theorems C14_inv / C14_lookup / C14_specials / C14_isolation / C14_frozen / C14_closure / C14_filtered_succeeds prove, for '
              'every history of add_context_category (all four placements, named and automatic categories), set_unknown_*_spec, freeze, '
              'filtered_context and extended_with of any length, on the heap model of the repaired LatexContextDb: the chain maps mirror '
              'the category list item for item in every database that exists, every lookup returns the definition of the first category '
              'in reported order else the unknown spec, test_for_specials returns the longest match (first on ties), operations never '
              'change the answers of another database, frozen databases refuse mutation, and filtering always succeeds. '
              'C14_asIs_order_violated / C14_asIs_filtered_raises are kernel-checked witnesses that the code as found '
              '(stray first ChainMap map; filtered_context through the reserved-name check) violates the property. '
              'The model is tied to the code by running whole histories on both and comparing every answer of every database after every step.')
LEVEL_NOTE = ('heap model with the category list as a shared cell; per-category dicts by value (never mutated in place); '
              'the tie is differential testing (all placement sequences to the bound + random histories); '
              'Lean kernel + propext/Classical.choice/Quot.sound')
TECHNIQUE = 'Lean 4 proof (heap invariant by induction over histories, refinement to first-defining-category) + history correspondence'
