# C15 — \input never reads outside the configured directory in strict mode.
#
# A case = (directory layout, input directory, strict flag, requested name).
# The layout is built for real under a fresh tempfile.mkdtemp() (outside /repo
# and /verif) and removed afterwards.  run_impl calls the real
# LatexNodes2Text.read_input_file / latex_to_text('\input{name}') on it;
# to_line records the real os.path answers (join / realpath / exists / isfile /
# file contents) for every path the model can ask about and sends them, with
# the random temporary prefix relabelled to /T, as the FS tables of the
# driver operation INPUT.
import os, sys, json, shutil, tempfile, logging, itertools, atexit, builtins
from common import wire, show_str

THEOREMS = ['Pylx.C15_guard', 'Pylx.C15_guard_inside', 'Pylx.C15_guard_py', 'Pylx.C15_outside_denied', 'Pylx.C15_noncanonical_denied',
            'Pylx.C15_inside', 'Pylx.C15_inside_exact', 'Pylx.C15_inside_tex', 'Pylx.C15_inside_latex',
            'Pylx.C15_nodir', 'Pylx.C15_nonstrict_unchanged', 'Pylx.C15_fix_agrees_inside',
            'Pylx.readLatexFile_strict',
            'Pylx.C15_asis_violates_guard_prefix', 'Pylx.C15_asis_violates_guard_completion', 'Pylx.C15_asis_violates_guard',
            'Pylx.C15_nocanon_guard_idem', 'Pylx.C15_nocanon_violates_guard',
            'Pylx.C15_session', 'Pylx.C15_session_guard']
RULE = ('INPUT: histories on one converter object (1-3 earlier set_tex_input_directory + read calls on other directories / non-strict / the same name, then the compared read); real directory layouts (inside files, outside files, sibling directories whose name extends the base name, a sibling '
        'file base.tex, file and directory symlinks inside->outside and outside->inside, absolute and chained and dangling and looping links, '
        'a directory named like a file, names with .tex / .latex / .tex.latex) x input directory given plainly / with trailing slash / '
        'through a symlink / with ".." / as a subdirectory x strict on/off x every requested name of up to `depth` components over the '
        'layout\'s own names plus "..", ".", absolute prefixes, with and without extension; then random layouts with targeted names. '
        'Each case also goes through latex_to_text(\'\\input{name}\') / \\include. sig = outcome class x strict x where the name really '
        'resolves (inside / outside / nowhere) x completion used x features of the name')
TRUSTED = ['the operating system and os.path.join/realpath/exists/isfile/open as the semantics of the file system: the model receives their '
           'recorded answers as oracle tables (FS) and contains only the decision logic',
           'the temporary prefix of the layout is relabelled to /T on the driver line (the code only compares and extends path strings)']
ASSUMPTIONS = ['no law is assumed of os.path.realpath: CPython 3.12\'s non-strict realpath is NOT idempotent on layouts with symlink loops, the repaired code '
               'checks realpath(f) == f at run time and C15_guard holds for every oracle; that a path which is a fixed point of realpath and can be opened '
               'contains no symbolic link is an argument about the operating system, not part of the model',
               'the file system does not change between the containment check and open() (no concurrent modification)',
               'file contents are decodable text; an undecodable file makes open().read() raise UnicodeDecodeError, which read_latex_file does not catch (not modelled)',
               'requested names contain no NUL character / lone surrogate (os.path.realpath raises ValueError on them; since repair F45 the library answers with no content; not modelled)']
TRIVIAL_SIGS = ()
CASE_TIMEOUT = 20.0

LOGGER_NAME = 'pylatexenc.latex2text._inputlatexfile'
SUB = ('t', 'r')          # the layout root is <mkdtemp>/t/r so that '../../..' stays inside the temporary tree

# ---------------------------------------------------------------- layouts

def _mk(entries):
    return [list(e) for e in entries]

def kitchen():
    """one layout with every feature the property names"""
    E = []
    for d in ['base', 'base/sub', 'base/x.tex', 'base2', 'out', 'out/deep', 'out/base', 'Base', 'BASE/sub']:     # siblings that differ from the directory in letter case only
        E.append(('d', d))
    files = ['base/a.tex', 'base/b.latex', 'base/c', 'base/c.tex', 'base/e.tex', 'base/e.latex', 'base/sub/d.tex',
             'base/q.tex.latex', 'base2/s.tex', 'base2/a.tex', 'base2/t', 'base.tex', 'base.latex', 'out/s.tex',
             'out/t.latex', 'out/deep/u.tex', 'out/base/a.tex', 'Base/s.tex', 'Base/a.tex', 'BASE/sub/d.tex']
    for i, f in enumerate(files):
        E.append(('f', f, 'M%dZ' % i))
    E.append(('f', 'base/empty.tex', ''))
    # files that themselves contain \input (nested lookups are made against the configured directory as well)
    E.append(('f', 'base/n1.tex', 'N1\\input{s}N1'))
    E.append(('f', 'base/n2.tex', 'N2\\input{t.latex}\\input{../out/s}N2'))
    E.append(('f', 'base/sub/n3.tex', 'N3\\input{s}\\input{a}N3'))
    links = [('base/li.tex', 'a.tex'), ('base/lo.tex', '../out/s.tex'), ('base/lo2', '../out/s.tex'),
             ('base/la.tex', '{R}/out/s.tex'), ('base/sub/up', '..'), ('base/dout', '../out'), ('base/dsib', '../base2'),
             ('base/dang.tex', 'nowhere'), ('base/loop', 'loop'), ('base/lolat.latex', '../base2/s.tex'),
             ('base/lchain.tex', 'li.tex'), ('base/lchain2.tex', 'lo.tex'), ('base/lt', '../out/t'),
             ('out/in', '../base'), ('out/ia.tex', '../base/a.tex'), ('blink', 'base'), ('base2/in', '../base'),
             ('base/sub/ls.tex', '../../base2/s.tex'),
             ('base/lcase.tex', '../Base/s.tex'), ('base/dcase', '../Base'),
             ('out/back.tex', '../base/n1.tex'), ('out/back2.tex', '../base/n2.tex'), ('base2/back3.tex', '../base/sub/n3.tex'),
             # targets that pass through a link loop and '..': realpath() gives up and abspath() cancels 'loop/..'
             ('base/lx.tex', 'loop/../ly'), ('base/ly', '../out/s.tex'),
             ('base/lx2.tex', 'loop/../ly2'), ('base/ly2', 'loop/../lz'), ('base/lz', '../out/s.tex'),
             ('base/lxi.tex', 'loop/../li.tex'), ('base/lxa', 'loop/../a')]
    for l, t in links:
        E.append(('l', l, t))
    return _mk(E)

K_COMPONENTS = ['..', '.', 'sub', 'a', 'a.tex', 'b', 'c', 'e', 'q', 'q.tex', 's', 's.tex', 't', 'base', 'base2', 'base.tex',
                'out', 'lo', 'lo.tex', 'lo2', 'la', 'li', 'up', 'dout', 'dsib', 'in', 'ia', 'dang', 'loop', 'x', 'x.tex',
                'lolat', 'lchain', 'lchain2', 'lt', 'deep', 'u', 'd', 'd.tex', 'empty', 'blink', 'ls', 'nonex',
                'lx', 'lx.tex', 'lx2', 'ly', 'ly2', 'lz', 'lxi', 'lxa', 'n1', 'n2', 'n3', 'back', 'back2', 'back3', 'Base', 'BASE', 'lcase', 'dcase']
K_SMALL = ['Base', 'lcase', 'dcase', 'n1', 'back', 'back2', 'back3', '..', '.', 'sub', 'a', 's', 's.tex', 'base', 'base2', 'out', 'lo', 'up', 'dout', 'dsib', 'in', 'blink', 'lt', 't', 'ls', 'loop', 'ly', 'lx2']
K_DIRS = ['base', 'base/', 'blink', 'base/sub/..', 'base/sub', 'out/in', 'base2', 'out/base', 'out',
          # a directory symlink followed by '..': the directory meant is the parent of the link's TARGET (what the operating system
          # resolves), not the lexically collapsed path ('out/in/../base' is base, not out/base; 'base/dsib/../out' is out)
          'out/in/../base', 'base/dsib/../out']
ABS_NAMES = ['{R}/base/a.tex', '{R}/base/a', '{R}/base2/s.tex', '{R}/base2/s', '{R}/out/s', '{R}/base/lo', '{R}/base.tex',
             '{R}/base', '{R}/blink/a', '{R}/out/in/a', '{R}/base/../base2/s.tex', '{R}/base/./a', '/', '',
             '/nonexistent-pylx-c15/x.tex', '//', '{R}//base//a.tex', '{R}/base/a.tex/', 'a.tex/', 'sub/', './/a', 'a.tex/.', 'a.tex/..',
             'loop/../ly', 'loop/../lz', 'loop/../ly2', 'loop/../lo.tex', 'loop/../lo', 'loop/../dout/s.tex', 'loop/../a', 'loop/../a.tex',
             'loop/../../base2/s.tex', 'loop/../li', 'sub/up/loop/../ly', 'loop/../lx2', 'loop/../lx',
             '..', '../..', '../../..', '../../../..', '../base', '../base.tex', '../base.latex', '../base2', '../base/a',
             '../Base/s', '../Base/s.tex', '../Base/a', '../BASE/sub/d', '{R}/Base/s.tex', 'sub/../../Base/a.tex']

def minimal_defect_layouts():
    """the two layouts of the preliminary findings, smallest form (run first)"""
    A = _mk([('d', 'base'), ('d', 'base2'), ('f', 'base/a.tex', 'M0Z'), ('f', 'base2/s.tex', 'M1Z')])
    B = _mk([('d', 'base'), ('d', 'out'), ('f', 'base/a.tex', 'M0Z'), ('f', 'out/s.tex', 'M1Z'), ('l', 'base/lnk.tex', '../out/s.tex')])
    C = _mk([('d', 'base'), ('d', 'out'), ('f', 'base/a.tex', 'M0Z'), ('f', 'out/s.tex', 'M1Z'), ('l', 'base/loop', 'loop'),
             ('l', 'base/x.tex', 'loop/../y'), ('l', 'base/y', 'loop/../z'), ('l', 'base/z', '../out/s.tex'), ('l', 'base/i.tex', 'loop/../a.tex')])
    return [(A, ['../base2/s.tex', '../base2/s', 'a', 'a.tex', '../base/a', '../base2/../base/a.tex']),
            (B, ['lnk', 'lnk.tex', 'a', '../out/s.tex', '../out/s']),
            (C, ['x', 'x.tex', 'y', 'z', 'loop/../z', 'loop/../y', 'i', 'i.tex', 'loop/../a', 'a'])]

STEMS = ['a', 's', 't']
EXTS = ['', '.tex', '.latex', '.tex.latex']
DIRNAMES = ['base', 'base2', 'basex', 'bas', 'out', 'o', 'Base', 'OUT']

def rand_layout(rng):
    tops = rng.sample(DIRNAMES, rng.randint(2, 4))
    dirs = list(tops)
    for d in tops:
        if rng.random() < 0.5:
            dirs.append(d + '/' + rng.choice(['sub', 'base', 'base2']))
    E = [('d', d) for d in dirs]
    files = []
    k = 0
    for d in dirs + ['']:
        for _ in range(rng.randint(0 if d == '' else 1, 3)):
            name = (rng.choice(STEMS) if d else rng.choice(tops)) + rng.choice(EXTS if d else EXTS[1:])
            f = (d + '/' if d else '') + name
            if f not in files and f not in dirs:
                files.append(f)
                E.append(('f', f, 'M%dZ' % k)); k += 1
    taken = set(dirs) | set(files)
    links = []
    for _ in range(rng.randint(2, 6)):
        d = rng.choice(dirs + [''])
        nm = rng.choice(['l', 'k', 'a', 's', 'base', 'lnk']) + rng.choice(EXTS[:3])
        l = (d + '/' if d else '') + nm
        if l in taken:
            continue
        tgt = rng.choice(sorted(taken) + ['nowhere', l])
        if rng.random() < 0.25:
            t = '{R}/' + tgt
        else:
            t = os.path.relpath('/' + tgt, '/' + d if d else '/')
        if rng.random() < 0.2 and t.endswith(('.tex', '.latex')):
            t = t.rsplit('.', 1)[0]          # link to a name that itself needs completion
        lp = (d + '/' if d else '') + 'loop'
        if rng.random() < 0.2 and not t.startswith('{R}'):
            if lp not in taken:
                taken.add(lp); links.append((lp, 'loop')); E.append(('l', lp, 'loop'))
            t = 'loop/../' + t               # realpath() gives up on the loop, abspath() cancels 'loop/..'
        taken.add(l)
        links.append((l, t))
        E.append(('l', l, t))
    return _mk(E), dirs, files, links

def rand_names(rng, lay, dirs, files, links, D, n):
    out = []
    everything = dirs + files + [l for l, _ in links]
    dirlinks = [(l, t) for l, t in links]
    for _ in range(n):
        r = rng.random()
        tgt = rng.choice(everything + ['nonex'])
        if r < 0.55:
            nm = os.path.relpath('/' + tgt, '/' + D)
        elif r < 0.7:
            nm = '{R}/' + tgt
        elif r < 0.85 and dirlinks:
            l, t = rng.choice(dirlinks)
            nm = os.path.relpath('/' + l, '/' + D) + '/' + rng.choice(STEMS + ['..', 'sub', 'base', '../' + rng.choice(DIRNAMES)]) + rng.choice(EXTS[:3])
        else:
            nm = '/'.join(rng.choice(['..', '.', 'sub'] + DIRNAMES + STEMS + ['l', 'k', 'lnk']) for _ in range(rng.randint(1, 4)))
        if rng.random() < 0.45:
            for ext in ('.latex', '.tex'):
                if nm.endswith(ext):
                    nm = nm[:-len(ext)]
                    break
        if rng.random() < 0.08 and not nm.startswith('{R}'):
            nm = 'loop/../' + nm
        if rng.random() < 0.12:
            nm = rng.choice(['./', 'sub/../', '../' + D.split('/')[-1] + '/', '.././' + D.split('/')[-1] + '/']) + nm
        out.append(nm)
    return out

def cases(tier, rng):
    quick = tier != 'thorough'
    # 1. the two known-defect layouts
    for lay, names in minimal_defect_layouts():
        for nm in names:
            for strict in (True, False):
                yield {'lay': lay, 'dir': 'base', 'strict': strict, 'name': nm, 'mac': 'input'}
    # 2. no directory set
    K = kitchen()
    for nm in ['a.tex', 'a', '{R}/base/a.tex', '../base2/s.tex', '']:
        for strict in (True, False):
            for how in ('unset', 'none'):
                yield {'lay': K, 'dir': None, 'strict': strict, 'name': nm, 'mac': 'input', 'nodir': how}
    # 3. kitchen-sink layout, bounded-exhaustive names
    for di, D in enumerate(K_DIRS):
        if quick:
            comps, depth = (K_COMPONENTS, 2) if di in (0, 2) else (K_SMALL, 2)
        else:
            comps, depth = (K_COMPONENTS, 2) if di >= 4 else (K_SMALL, 3)
        names = list(ABS_NAMES)
        for n in range(1, depth + 1):
            for t in itertools.product(comps, repeat=n):
                names.append('/'.join(t))
        if not quick and di < 4:
            for t in itertools.product(K_COMPONENTS, repeat=2):
                names.append('/'.join(t))
        seen = set()
        for j, nm in enumerate(names):
            if nm in seen:
                continue
            seen.add(nm)
            yield {'lay': K, 'dir': D, 'strict': True, 'name': nm, 'mac': 'include' if j % 5 == 0 else 'input'}
            if j % (7 if quick else 3) == 0 or len(nm) < 9:
                yield {'lay': K, 'dir': D, 'strict': False, 'name': nm, 'mac': 'input'}
    # 3a. the same directory string after the link it goes through was re-pointed (blink: base -> base2, out/in: ../base -> ../base2)
    for link, t1, t2 in (('blink', 'base', 'base2'), ('out/in', '../base', '../base2'), ('blink', 'base', 'out')):
        for nm in ['a', 'a.tex', 's', 's.tex', 't', '../base/a', '../base/a.tex', '{R}/base/a.tex', 'sub/d', 'lo', 'n1', '../base2/s', 'nonex', 'deep/u']:
            for strict in (True, True, False):
                yield {'lay': K, 'dir': link, 'strict': strict, 'name': nm, 'mac': 'input', 'repoint': [link, t1, t2]}
    # 3b. kitchen-sink layout, targeted names (paths to real entries, by several routes, with/without extension)
    kd = [e[1] for e in K if e[0] == 'd']
    kf = [e[1] for e in K if e[0] == 'f']
    kl = [(e[1], e[2]) for e in K if e[0] == 'l']
    for D in K_DIRS:
        Dn = os.path.normpath(D)
        Dn = {'blink': 'base', 'out/in': 'base', 'out/in/../base': 'base', 'base/dsib/../out': 'out'}.get(D, Dn)
        Dn = {'blink': 'base', 'out/in': 'base'}.get(Dn, Dn)
        for nm in rand_names(rng, K, kd, kf, kl, Dn, 150 if quick else 2500):
            yield {'lay': K, 'dir': D, 'strict': rng.random() < 0.85, 'name': nm, 'mac': rng.choice(['input', 'include'])}
    # 4. random layouts, targeted names
    nl = 120 if quick else 2500
    for _ in range(nl):
        lay, dirs, files, links = rand_layout(rng)
        D = rng.choice(dirs)
        dspec = [D, D, D + '/', D + '/.']
        for l, t in links:
            if t.startswith('loop/'):
                continue
            if not t.startswith('{R}') and os.path.normpath('/' + os.path.dirname(l) + '/' + t) == '/' + D:
                dspec += [l, l]
            elif t == '{R}/' + D:
                dspec += [l, l]
        sub = [d for d in dirs if d.startswith(D + '/')]
        if sub:
            dspec.append(sub[0] + '/..')
        dsp = rng.choice(dspec)
        for nm in rand_names(rng, lay, dirs, files, links, D, 14 if quick else 20):
            yield {'lay': lay, 'dir': dsp, 'strict': rng.random() < 0.85, 'name': nm,
                   'mac': rng.choice(['input', 'input', 'include'])}
    # 5. histories on one converter object
    for c in session_cases(tier, rng):
        yield c

def session_cases(tier, rng):
    """histories on ONE converter object: earlier set_tex_input_directory / read calls (other directories, non-strict
    mode, successful reads of the very name asked for later) must not influence the last read (C15_session)"""
    quick = tier != 'thorough'
    K = kitchen()
    kd = [e[1] for e in K if e[0] == 'd']
    kf = [e[1] for e in K if e[0] == 'f']
    kl = [(e[1], e[2]) for e in K if e[0] == 'l']
    # same name present in several directories of the kitchen layout
    fixed = [(['base2', True, 's'], 'base', 's'), (['base2', True, 'a.tex'], 'base', 'a.tex'), (['base2', True, 's.tex'], 'base', 's.tex'),
             (['out', True, 's'], 'base', 's'), (['out', False, '../base2/s'], 'base', '../base2/s'), (['base', False, '../out/s.tex'], 'base', '../out/s.tex'),
             (['out/base', True, 'a'], 'base', 'a'), (['out/base', True, 'a'], 'base2', 'a'), (['base', True, 'a'], 'base2', 'a'),
             (['out', True, 't'], 'base2', 't'), (['base', True, 'sub/d'], 'base2', 'sub/d'), (['base2', True, 's'], None, 's')]
    fixed = fixed + [([pd, False, pn], D, nm) for ([pd, _ps, pn], D, nm) in fixed if _ps]      # the earlier life also in non-strict mode
    for pre, D, nm in fixed:
        for via in ('read', 'l2t'):
            for mac in ('input', 'include'):
                c = {'lay': K, 'dir': D, 'strict': True, 'name': nm, 'mac': mac, 'pre': [pre + [via]], 'omit_strict': (mac == 'include')}
                if D is None:
                    c['nodir'] = 'none'
                yield c
    for nm in ['../base2/s', '../out/s.tex', '{R}/out/s.tex', 'lo', 'dout/s', '../Base/s', 'a', 'sub/d']:
        for pd in ('base2', 'out', 'base'):
            for mac in ('input', 'include'):
                yield {'lay': K, 'dir': 'base', 'strict': True, 'name': nm, 'mac': mac, 'pre': [[pd, False, nm, 'read']], 'omit_strict': True}
    n = 250 if quick else 6000
    for _ in range(n):
        if rng.random() < 0.5:
            lay, dirs, files, links = K, kd, kf, kl
        else:
            lay, dirs, files, links = rand_layout(rng)
        D = rng.choice(dirs)
        nm = rand_names(rng, lay, dirs, files, links, D, 1)[0]
        if rng.random() < 0.6 and files:
            # a name that certainly exists somewhere else
            f = rng.choice(files)
            nm = os.path.basename(f)
            if rng.random() < 0.5:
                for ext in ('.latex', '.tex'):
                    if nm.endswith(ext):
                        nm = nm[:-len(ext)]; break
            pre_dirs = [os.path.dirname(f) or '.']
        else:
            pre_dirs = []
        pre = []
        for _ in range(rng.randint(1, 3)):
            pd = rng.choice(pre_dirs) if (pre_dirs and rng.random() < 0.7) else rng.choice(dirs)
            pn = nm if rng.random() < 0.75 else rand_names(rng, lay, dirs, files, links, pd, 1)[0]
            pre.append([pd, rng.random() < 0.6, pn, rng.choice(['read', 'read', 'l2t'])])
        c = {'lay': lay, 'dir': D, 'strict': rng.random() < 0.85, 'name': nm, 'mac': rng.choice(['input', 'include']), 'pre': pre}
        if c['strict'] and rng.random() < 0.5:
            c['omit_strict'] = True       # the last call leaves the keyword out: strict by default, whatever was set before
        yield c

# ---------------------------------------------------------------- building real layouts

def build(lay):
    """returns (top, root): top = fresh mkdtemp (real path), root = top/t/r"""
    top = os.path.realpath(tempfile.mkdtemp(prefix=_PREFIX))
    root = os.path.join(top, *SUB)
    os.makedirs(root)
    for e in lay:
        p = os.path.join(root, e[1])
        if os.path.dirname(p):
            os.makedirs(os.path.dirname(p), exist_ok=True)
        if e[0] == 'd':
            os.makedirs(p, exist_ok=True)
        elif e[0] == 'f':
            with open(p, 'w') as f:
                f.write(e[2])
        elif e[0] == 'l':
            if not os.path.lexists(p):
                os.symlink(e[2].replace('{R}', root), p)
    return top, root

def destroy(top):
    shutil.rmtree(top, ignore_errors=True)

def parts(p):
    return [x for x in p.split('/') if x]

def comp_inside(real_f, real_d):
    """component-wise strict containment of real paths (deliberately not a string-prefix test)"""
    a, b = parts(real_f), parts(real_d)
    return len(a) > len(b) and a[:len(b)] == b

def true_real(p):
    """the canonical path as the operating system resolves it; None where resolution fails (loop, missing)"""
    try:
        return os.path.realpath(p, strict=True)
    except OSError:
        return None

def dir_slash(d):
    return d if (d == '' or d.endswith('/')) else d + '/'

# ---------------------------------------------------------------- driver line (FS tables)

# One layout is kept per process and reused while consecutive cases share it (building the
# 45-entry layout costs ~10 ms, a case ~1 ms).  Every layout directory carries the pid of the
# session process (the one that imported this module; pool workers are forked from it) in its
# name; a process drops its layout when the next one differs, and the session process sweeps
# whatever its workers left when it exits.
_SESSION_PID = os.getpid()
_PREFIX = 'pylxc15-%d-' % _SESSION_PID
_CACHE = {'key': None, 'top': None, 'root': None, 'pid': None}

def _cache_drop():
    if _CACHE['top'] and _CACHE['pid'] == os.getpid():
        destroy(_CACHE['top'])
    _CACHE.update(key=None, top=None, root=None, pid=None)

def _sweep():
    _cache_drop()
    if os.getpid() == _SESSION_PID:
        import glob
        for d in glob.glob(os.path.join(tempfile.gettempdir(), _PREFIX + '*')):
            destroy(d)

atexit.register(_sweep)

def _cached_layout(lay):
    key = json.dumps(lay)
    if _CACHE['key'] != key or _CACHE['pid'] != os.getpid() or not os.path.isdir(_CACHE['root'] or '/nonexistent'):
        _cache_drop()
        top, root = build(lay)
        _CACHE.update(key=key, top=top, root=root, pid=os.getpid())
    return _CACHE['top'], _CACHE['root']

def record_fs(top, dirpath, name):
    """every question the model can ask, answered by the real os.path"""
    J = [(dirpath, name, os.path.join(dirpath, name))]
    R, E, I, D = {}, {}, {}, {}
    def rp(p):
        if p not in R:
            R[p] = os.path.realpath(p)
        return R[p]
    rp(rp(dirpath))
    f0 = rp(J[0][2])
    cands = [f0, f0 + '.tex', f0 + '.latex', f0 + '.tex.latex']
    cands += [rp(c) for c in cands]
    for c in cands:
        rp(rp(c))
        E[c] = os.path.exists(c)
        I[c] = os.path.isfile(c)
        if I[c] and comp_inside(os.path.realpath(c), top):
            try:
                with open(c) as f:
                    D[c] = f.read()
            except IOError:
                D[c] = None
        else:
            D[c] = None
    return J, R, E, I, D

def to_line(c):
    if c.get('repoint'):
        return None         # the file-system tables would be recorded before the link is re-pointed (oracle only)
    top, root = _cached_layout(c['lay'])
    name = c['name'].replace('{R}', root)
    if c['dir'] is None:
        return '\t'.join(['INPUT', '-', 'T' if c['strict'] else 'F', wire(_rel(name, top)), '', '', '', '', ''])
    dirpath = root + '/' + c['dir']
    J, R, E, I, D = record_fs(top, dirpath, name)
    w = lambda s: wire(_rel(s, top))
    fj = ';'.join('%s=%s=%s' % (w(a), w(b), w(v)) for a, b, v in J)
    fr = ';'.join('%s=%s' % (w(k), w(v)) for k, v in sorted(R.items()))
    fe = ';'.join('%s=%s' % (w(k), 'T' if v else 'F') for k, v in sorted(E.items()))
    fi = ';'.join('%s=%s' % (w(k), 'T' if v else 'F') for k, v in sorted(I.items()))
    fd = ';'.join('%s=%s' % (w(k), 'n' if v is None else 's' + wire(v)) for k, v in sorted(D.items()))
    return '\t'.join(['INPUT', 'd' + w(dirpath), 'T' if c['strict'] else 'F', w(name), fj, fr, fe, fi, fd])

def _rel(s, top):
    """relabel the random temporary prefix"""
    if s == top or s.startswith(top + '/'):
        return '/T' + s[len(top):]
    return s

# ---------------------------------------------------------------- implementation + oracle

_PLAIN = {}

class _Collect(logging.Handler):
    def __init__(self):
        logging.Handler.__init__(self)
        self.msgs = []
    def emit(self, record):
        self.msgs.append(str(record.msg))

def _classify(msgs, nodir):
    if not msgs:
        return 'nodir' if nodir else 'content'
    m = msgs[0]
    if m.startswith("Can't access path"):
        return 'denied'
    if m.startswith("Error, file doesn't exist"):
        return 'missing'
    if m.startswith("Error, can't access"):
        return 'ioerr'
    return 'log:' + m[:20]

class _CountFS(object):
    """counts os.path / open calls (used for the no-directory cases: nothing may be looked up)"""
    NAMES = ['realpath', 'exists', 'isfile', 'join', 'lexists', 'isdir', 'abspath']
    def __enter__(self):
        self.n = 0
        self.saved = {k: getattr(os.path, k) for k in self.NAMES}
        self.open = builtins.open
        def wrap(f):
            def g(*a, **k):
                self.n += 1
                return f(*a, **k)
            return g
        for k, f in self.saved.items():
            setattr(os.path, k, wrap(f))
        builtins.open = wrap(self.open)
        return self
    def __exit__(self, *a):
        for k, f in self.saved.items():
            setattr(os.path, k, f)
        builtins.open = self.open
        return False

def run_impl(c):
    from pylatexenc.latex2text import LatexNodes2Text
    top, root = _cached_layout(c['lay'])
    lg = logging.getLogger(LOGGER_NAME)
    h = _Collect()
    old_prop = lg.propagate
    lg.addHandler(h)
    lg.propagate = False
    rp = c.get('repoint')
    try:
        if rp:
            # the configured directory STRING is the same as in an earlier lookup (by another converter object), but it
            # designates another directory now: a symbolic link that was re-pointed in between
            link = os.path.join(root, rp[0])
            first = LatexNodes2Text()
            first.set_tex_input_directory(link)
            first.read_input_file('a'); first.latex_to_text('\\input{s}')
            os.remove(link); os.symlink(rp[2], link)
        return _run(c, top, root, h, LatexNodes2Text)
    finally:
        if rp:
            link = os.path.join(root, rp[0])
            if os.path.lexists(link): os.remove(link)
            os.symlink(rp[1], link)
        lg.removeHandler(h)
        lg.propagate = old_prop

def _run(c, top, root, h, LatexNodes2Text):
    name = c['name'].replace('{R}', root)
    strict = c['strict']
    nodir = c['dir'] is None
    fail = None
    l2t = LatexNodes2Text()
    for pd, pstrict, pname, via in c.get('pre') or []:
        # earlier life of the same object (its answers are irrelevant here; each is a case of its own elsewhere)
        l2t.set_tex_input_directory(root + '/' + pd, strict_input=pstrict)
        pn = pname.replace('{R}', root)
        if via == 'l2t':
            l2t.latex_to_text('\\input{%s}' % pn)
        else:
            l2t.read_input_file(pn)
    del h.msgs[:]
    if nodir:
        if c.get('nodir') == 'none':
            l2t.set_tex_input_directory(None, strict_input=strict)
        with _CountFS() as cnt:
            ret = l2t.read_input_file(name)
        cls = _classify(h.msgs, True)
        if ret != '':
            fail = {'kind': 'nodir-content-returned', 'detail': 'no input directory set, read_input_file(%r) returned %r' % (c['name'], ret[:60])}
        elif cnt.n:
            fail = {'kind': 'nodir-touches-fs', 'detail': 'no input directory set, but %d os.path/open calls were made' % cnt.n}
        else:
            text = l2t.latex_to_text('\\%s{%s}' % (c['mac'], name))
            if text.strip() != '':
                fail = {'kind': 'nodir-content-returned', 'detail': 'latex_to_text returned %r' % text[:60]}
        return {'out': '%s %s' % (cls, show_str(ret)), 'fail': fail, 'sig': 'nodir'}

    dirpath = root + '/' + c['dir']
    if strict and c.get('omit_strict'):
        l2t.set_tex_input_directory(dirpath)          # strict mode is the documented default of every call
    else:
        l2t.set_tex_input_directory(dirpath, strict_input=strict)
    ret = l2t.read_input_file(name)
    cls = _classify(h.msgs, False)
    out = '%s %s' % (cls, show_str(ret))

    # ---- what is really there (the operating system is the judge: strict realpath fails where the OS fails)
    d = true_real(dirpath)
    if d is None or not os.path.isdir(d):
        # the configured directory itself cannot be resolved by the operating system (it is chosen by the
        # trusted caller, not by the document): the property says nothing; correspondence is still compared
        return {'out': out, 'fail': None, 'sig': '%s:dir-unresolvable' % cls}
    inside, outside = {}, {}
    for e in c['lay']:
        if e[0] == 'f':
            rf = true_real(os.path.join(root, e[1]))
            (inside if (d and rf and comp_inside(rf, d)) else outside)[e[2]] = e[1]
    f0 = os.path.realpath(os.path.join(dirpath, name))
    final = None
    for cand in (f0, f0 + '.tex', f0 + '.latex'):
        if os.path.exists(cand):
            final = cand
            break
    expected = None
    where = 'nowhere'
    if final is not None and os.path.isfile(final) and d:
        tr = true_real(final)
        fin_in = bool(tr) and comp_inside(tr, d)
        where = 'in' if fin_in else 'out'
        if fin_in or not strict:
            with open(final) as f:
                expected = f.read()
    noncanon = any(os.path.realpath(os.path.realpath(p)) != os.path.realpath(p)
                   for p in (os.path.join(dirpath, name), f0, f0 + '.tex', f0 + '.latex'))
    # the model's rendering of os.path.join(d, '')
    dd = os.path.realpath(dirpath)
    if os.path.join(dd, '') != dir_slash(dd):
        fail = {'kind': 'assumed-law-broken', 'detail': 'os.path.join(%r, "") is not the directory plus one separator' % dd}

    # ---- the property
    if fail is None and strict and ret != '' and ret not in inside:
        kind = ('outside-read-realpath-not-canonical' if noncanon else
                'outside-read-after-completion' if comp_inside(f0, dd) else 'outside-read-name-resolves-outside')
        fail = {'kind': kind,
                'detail': 'strict mode, directory %r, name %r: returned %r = content of %r, whose real path is not under the directory'
                          % (c['dir'], c['name'], ret[:40], outside.get(ret, '?'))}
    if fail is None and expected is not None and ret != expected:
        fail = {'kind': 'inside-not-read' if strict else 'nonstrict-not-read',
                'detail': 'directory %r, name %r resolves to %r (%s) with content %r, but %r [%s] was returned'
                          % (c['dir'], c['name'], _rel(final, top), 'inside' if strict else 'non-strict mode', expected[:40], ret[:40], cls)}

    # ---- the same through latex_to_text('\input{name}')
    via = 'l2t-skip'
    plain = _PLAIN.get('o') or _PLAIN.setdefault('o', LatexNodes2Text())
    if fail is None and plain.latex_to_text('{' + name + '}').strip() == name and '{' not in name and '}' not in name:
        via = 'l2t'
        text = l2t.latex_to_text('\\%s{%s}' % (c['mac'], name))
        if strict:
            for m, path in outside.items():
                if m and m in text:
                    fail = {'kind': 'l2t-outside-read',
                            'detail': 'strict mode, directory %r: latex_to_text(\\%s{%s}) = %r contains the content of %r'
                                      % (c['dir'], c['mac'], c['name'], text[:40], path)}
                    break
        if fail is None and expected is not None and '\\input' not in expected and expected not in text:
            fail = {'kind': 'l2t-inside-not-read',
                    'detail': 'directory %r: latex_to_text(\\%s{%s}) = %r lacks %r' % (c['dir'], c['mac'], c['name'], text[:40], expected[:40])}

    feats = ''
    if final is not None and final != f0:
        feats += 'C'                      # completion used
    if '..' in c['name'].split('/'):
        feats += 'U'
    if c['name'].startswith(('/', '{R}')):
        feats += 'A'
    if os.path.normpath(os.path.join(dirpath, name)) != f0:
        feats += 'L'                      # a symlink was crossed
    if noncanon:
        feats += 'X'                      # realpath() answer is not a fixed point (link loop)
    if c.get('pre'):
        feats += 'H%d' % len(c['pre'])   # history on the same object
    sig = '%s:%s:%s:%s' % (cls, 'S' if strict else 'N', where, feats)
    return {'out': out, 'fail': fail, 'sig': sig}

# ---------------------------------------------------------------- shrinking

def shrink_candidates(c):
    lay = c['lay']
    for i in range(len(lay)):
        d = dict(c); d['lay'] = lay[:i] + lay[i+1:]
        yield d
    if c['dir'] is not None:
        comps = c['name'].split('/')
        for i in range(len(comps)):
            if len(comps) > 1:
                d = dict(c); d['name'] = '/'.join(comps[:i] + comps[i+1:])
                yield d
        nd = os.path.normpath(c['dir'])
        if nd != c['dir']:
            d = dict(c); d['dir'] = nd
            yield d
    if c.get('mac') != 'input':
        d = dict(c); d['mac'] = 'input'
        yield d
    pre = c.get('pre') or []
    for i in range(len(pre)):
        d = dict(c); d['pre'] = pre[:i] + pre[i+1:]
        yield d

def known_match(m, case, fail):
    if 'name' in m:
        return case.get('name') == m['name']
    return True

LEVEL_TEXT = ('Theorems C15_guard / C15_guard_inside / C15_guard_py prove, for every file system oracle (no law assumed), every directory and every '
              'requested name, that the repaired read_latex_file in strict mode returns only the content of a file that is its own real path and whose real path starts with the '
              'real path of the directory plus a separator; C15_inside(_exact/_tex/_latex) that a name whose completed form lies inside and is a '
              'readable file is read; C15_nodir that without a directory the answer is empty for every file system; C15_asis_violates_guard_prefix / '
              '_completion that the unrepaired code violates the guard even for idempotent realpath, C15_nocanon_violates_guard that the repair without the '
              'run-time canonicity check does on the answers CPython gives for link loops (concrete file systems). The model is tied to the code on real directory '
              'layouts: the real os.path answers are recorded and given to the model as its oracle, outcome class (from the logged warning) and '
              'returned text are compared, and the oracle checks on the implementation that no outside marker content is returned and inside files are read, '
              'also through latex_to_text. C15_session / C15_session_guard: over every history of set/read calls on one converter object the answer is that of a fresh object with the current configuration (histories are run on the implementation before the compared read).')
LEVEL_NOTE = ('decision logic proved; the operating system (os.path, open) is trusted and enters as recorded oracle answers; time-of-check/time-of-use races, '
              'undecodable files and NUL in names are outside the model; Lean kernel + propext/Classical.choice/Quot.sound')
TECHNIQUE = 'Lean 4 proof over an abstract file-system oracle + correspondence and marker oracle on real temporary directory layouts'
