# C10 — each node's math/text mode is the one implied by the enclosing structure.
import itertools
import parseprops, parsecase, ctxdesc, gen, docgen, dump
from common import show_str

THEOREMS = ['Pylx.C10_modes', 'Pylx.C10_modes_any', 'Pylx.C10_modes_parseTop', 'Pylx.C10_math_strict', 'Pylx.C10_math_partial', 'Pylx.C10_math_pairs',
            'Pylx.C10_math_counterexample', 'Pylx.C10_dollar_closing_wins', 'Pylx.C10_dollar_display_opens', 'Pylx.C10_dollar_inline_opens',
            'Pylx.C10_dollars_inline', 'Pylx.C10_dollars_display']
RULE = ('PARSE (mode projection is part of the tree dump): all strings up to length 7 (quick 6) over {$, a, {, }, space, \\(, \\), \\[, \\]}, '
        'grammar documents with nested math / text-in-math / math-in-text-in-math / groups / environments under the default and custom '
        'contexts, random soups; oracle on the implementation: every node\'s (in_math_mode, math_mode_delimiter) equals what the '
        'enclosing constructs imply (math node body: math with the opening delimiter; argument with enter/leave delta; math environment body; '
        'otherwise inherited), math nodes record display/inline and delimiters as configured, and $a$$b$ is two inline formulas, $$a$$ one '
        'display formula; sig = set of (construct, mode) transitions seen')
TRUSTED = ['tokenizer model (C11)', 'closed world of argument parsers']
ASSUMPTIONS = ['delimiter lists in which no string is both an inline and a display delimiter (default configuration)']
TRIVIAL_SIGS = ('none',)
CASE_TIMEOUT = 10.0

DOLLAR_ATOMS = ['$', 'a', '{', '}', ' ', '\\(', '\\)', '\\[', '\\]']

CLOSE = {'$': '$', '$$': '$$', '\\(': '\\)', '\\[': '\\]'}

# what LaTeX itself says (independent of the library's database): these macros typeset their argument in text mode, these
# environments typeset their body in math mode, \ensuremath typesets its argument in math mode
TEXT_MACROS = ['text', 'text', 'mbox', 'textrm', 'textit', 'textbf', 'textsl', 'texttt', 'textsf', 'textsc', 'textup', 'textmd']
MATH_ENVS = ['equation', 'equation*', 'align', 'align*', 'gather', 'gather*', 'multline', 'eqnarray', 'flalign', 'split']

def gen_math_items(rng, depth, in_math, budget, cur=None):
    """nested formulas with known structure: items are ('T', letters) | ('G', items) | ('F', delim, items) | ('X', items) (\\text{..})"""
    n = rng.randint(1, 3)
    items = []
    for _ in range(n):
        r = rng.random()
        if depth >= 4 or budget <= 0 or r < 0.3:
            items.append(('T', ''.join(rng.choice('abxy') for _ in range(rng.randint(1, 2)))))
        elif r < 0.5:
            items.append(('G', gen_math_items(rng, depth + 1, in_math, budget - 1, cur)))
        elif r < 0.62 and in_math:
            items.append(('X', gen_math_items(rng, depth + 1, False, budget - 1, None), rng.choice(TEXT_MACROS)))
        elif r < 0.68 and not in_math:
            items.append(('E', gen_math_items(rng, depth + 1, True, budget - 1, None), rng.choice(MATH_ENVS)))
        elif r < 0.72:
            items.append(('Y', gen_math_items(rng, depth + 1, True, budget - 1, None)))
        else:
            # inside math opened by `$` a dollar closes it (also `$$`, which reads as `$` `$`); inside `$$` a `$$` closes it
            allowed = ['$', '$', '$', '$$', '\\(', '\\[']
            if in_math and cur == '$': allowed = ['\\(', '\\[']
            elif in_math and cur == '$$': allowed = ['$', '$', '\\(', '\\[']
            d = rng.choice(allowed)
            items.append(('F', d, gen_math_items(rng, depth + 1, True, budget - 1, d)))
    # keep the source unambiguous under the documented rule: a formula is not the first or last item of a formula body,
    # and a formula that is a direct item of a math-mode list is separated by text on both sides
    out = []
    for i, it in enumerate(items):
        if it[0] == 'F' and in_math:
            if not out or out[-1][0] != 'T':
                out.append(('T', 'u'))
            out.append(it)
            out.append(('T', 'v'))
        else:
            out.append(it)
    return out

def fix_body(items):
    if not items or items[0][0] == 'F':
        items = [('T', 'p')] + items
    if items[-1][0] == 'F':
        items = items + [('T', 'q')]
    return items

def unparse_math(items):
    s = ''
    for it in items:
        if it[0] == 'T': s += it[1]
        elif it[0] == 'G': s += '{' + unparse_math(it[1]) + '}'
        elif it[0] == 'X': s += '\\' + (it[2] if len(it) > 2 else 'text') + '{' + unparse_math(it[1]) + '}'
        elif it[0] == 'E': s += '\\begin{' + it[2] + '}' + unparse_math(fix_body(it[1])) + '\\end{' + it[2] + '}'
        elif it[0] == 'Y': s += '\\ensuremath{' + unparse_math(it[1]) + '}'
        else: s += it[1] + unparse_math(fix_body(it[2])) + CLOSE[it[1]]
    return s

def expected_math(items, mode, out):
    """document-order list of ('c', text, mode) / ('f', display, open, close, mode)"""
    for it in items:
        if it[0] == 'T': out.append(('c', it[1], mode))
        elif it[0] == 'G': expected_math(it[1], mode, out)
        elif it[0] == 'X': expected_math(it[1], (False, None), out)
        elif it[0] == 'E': expected_math(fix_body(it[1]), (True, None), out)
        elif it[0] == 'Y': expected_math(it[1], (True, None), out)      # entering math mode through an argument: no delimiter is expected
        else:
            out.append(('f', it[1] in ('$$', '\\['), it[1], CLOSE[it[1]], mode))
            expected_math(fix_body(it[2]), (True, it[1]), out)
    return out

def observed_math(nodes, out):
    from pylatexenc.latexnodes import nodes as N
    for n in nodes:
        if n is None: continue
        m = mode_of(n.parsing_state)
        if isinstance(n, N.LatexCharsNode):
            if out and out[-1][0] == 'c' and out[-1][2] == m: out[-1] = ('c', out[-1][1] + n.chars, m)
            else: out.append(('c', n.chars, m))
        elif isinstance(n, N.LatexMathNode):
            out.append(('f', n.displaytype == 'display', n.delimiters[0], n.delimiters[1], m))
            observed_math(n.nodelist or [], out)
        else:
            a, b = parseprops.children_of(n)
            observed_math(a + b, out)
    return out

def merge_c(l):
    out = []
    for x in l:
        if x[0] == 'c' and out and out[-1][0] == 'c' and out[-1][2] == x[2]: out[-1] = ('c', out[-1][1] + x[1], x[2])
        else: out.append(x)
    return out

def cases(tier, rng):
    for _ in range(1200 if tier == 'quick' else 40000):
        items = gen_math_items(rng, 0, False, 4)
        yield {'tol': False, 'ctx': 'default', 's': unparse_math(items), 'mathdoc': items}
    k = 5 if tier == 'quick' else 7
    for s in gen.exhaustive(DOLLAR_ATOMS, k):
        yield {'tol': False, 'ctx': 'default', 's': s}
        if len(s) <= 4 * 2:
            pass
    for s in gen.exhaustive(DOLLAR_ATOMS, 4):
        yield {'tol': True, 'ctx': 'default', 's': s}
    n = 1500 if tier == 'quick' else 30000
    for i in range(n):
        cn = rng.choice(['default', 'A'])
        d = docgen.gen_doc(rng, cn, budget=rng.randint(2, 9))
        yield {'tol': rng.random() < 0.3, 'ctx': cn if cn == 'default' else docgen.ctx_of(cn), 's': docgen.unparse(d)}
    for c in parseprops.base_cases(tier, rng, n_random=2000 if tier == 'quick' else 40000):
        yield c
    for a in ['a', 'ab', 'abc', 'xyzzy']:
        for b in ['b', 'cd']:
            yield {'tol': False, 'ctx': 'default', 's': '$' + a + '$$' + b + '$', 'dollars': 'inline2'}
        yield {'tol': False, 'ctx': 'default', 's': '$$' + a + '$$', 'dollars': 'display1'}

    # legacy (pylatexenc-2) entry points called with an explicit parsing state, as a pylatexenc-2 style argument parser does
    # inside a formula: the nodes record the mode of the state they were asked to parse in (oracle only)
    LEG_ATOMS = ['a', ' ', '{b}', '[c]', '(d)', '<e>', ')', ']', '>', '}', '\\x', '\\text{t $u$}', '$', '\\(v\\)', '\\begin{e}w\\end{e}', '\\end{e}', '\\ensuremath{m}', '%k\n']
    LEG_CALLS = [['nodes', None], ['nodes', ')'], ['nodes', ']'], ['nodes', '>'], ['nodes', '}'], ['nodes', ['<', '>']], ['nodes_mm', '$'],
                 ['nodes_env', 'e'], ['nodes_max', 2], ['expr', None], ['group', '{'], ['group', '['], ['group', '('], ['opt', None], ['env', None]]
    for _ in range(2500 if tier == 'quick' else 60000):
        s = ''.join(rng.choice(LEG_ATOMS) for _ in range(rng.randint(1, 7)))
        call = rng.choice(LEG_CALLS)
        if call[0] == 'group':
            s = call[1] + s
        elif call[0] == 'env':
            s = '\\begin{e}' + s
        yield {'tol': rng.random() < 0.5, 'ctx': 'default', 's': s, 'legcall': call, 'lps': rng.choice(['text', 'math', 'math$', 'math\\[', 'none']),
               'pos': 0 if rng.random() < 0.7 else rng.randint(0, len(s))}
    # the same through a pylatexenc-2 style arguments parser object (reads a parenthesised argument with get_latex_nodes)
    for _ in range(800 if tier == 'quick' else 20000):
        s = ''.join(rng.choice(['a', ' ', '\\pt(c)', '\\pt(a \\text{b $c$ d} e)', '\\pt', '\\pt({x})', '$', '\\[', '\\]', '\\ensuremath{\\pt(y)}',
                                '\\begin{align}', '\\end{align}', '\\text{\\pt(z)}', '{', '}', '\\pt(\\pt(n))']) for _ in range(rng.randint(1, 6)))
        yield {'tol': rng.random() < 0.5, 'ctx': 'default', 's': s, 'legparser': True}

    # macros that change the parsing state for what follows them (documented make_after_parsing_state_delta: switch comments off,
    # declare a new macro): such a change never alters the mode of what follows, inside or after a formula (oracle only)
    AFT = ['a', ' ', '\\nocomm', '\\provide', '\\greet{g}', '$', '$', '\\(', '\\)', '\\[', '\\]', '$$', '{', '}', '\\text{', '\\ensuremath{', '%k\n',
           '\\begin{align}', '\\end{align}', '\\begin{center}', '\\end{center}', '\\textbf{', '\\nocomm ']
    for s in ['a $b \\nocomm c$ d', 'a \\(b \\nocomm c\\) d $e$ f', '$$\\provide$$ \\greet{x} $y$', '\\[\\nocomm\\] x', '$\\text{\\nocomm}$ z',
              '\\begin{align}\\nocomm\\end{align} t', '\\ensuremath{\\nocomm} u', '{\\nocomm} v', '$\\nocomm$$w$']:
        for tol in (False, True):
            yield {'tol': tol, 'ctx': 'default', 's': s, 'afterdb': True}
    for _ in range(1500 if tier == 'quick' else 40000):
        s = ''.join(rng.choice(AFT) for _ in range(rng.randint(2, 8)))
        yield {'tol': rng.random() < 0.6, 'ctx': 'default', 's': s, 'afterdb': True}

    # one walker object, several parse_content() calls at different positions, earlier ones failing (strict mode) or stopping
    # inside a formula: a later call without an explicit state starts in the walker's default (text) state (oracle only)
    FIRST = ['$a } b$', '\\[ x \\end{y} \\]', '{$ \\)', '\\begin{equation} a }', '$a$', '$$ \\text{ $ } $$', '\\(a', '\\ensuremath{ } }', 'ok {x}']
    SECOND = [' Then \\textbf{bold} and $c$ hold.', 'x $y$ z', '\\emph{q}', '$$w$$', 'a']
    for a in FIRST:
        for b in SECOND:
            for tol in (False, True):
                yield {'tol': tol, 'ctx': 'default', 's': a + b, 'rewalk': [0, len(a)]}
                yield {'tol': tol, 'ctx': 'default', 's': a + b + a + b, 'rewalk': [0, len(a), len(a + b), len(a + b + a)]}

    # math environments declared in every documented spelling (pylatexenc-2: is_math_mode=True with an argument string, an
    # arguments-parser object, std_environment; pylatexenc-3: body_parsing_state_delta): the body is math whatever the spelling
    for name in ['mathA', 'mathB', 'mathC', 'mathD', 'mathE', 'mathF']:
        arg = '{2}' if name in ('mathA', 'mathC', 'mathE', 'mathF') else ''
        for body in [' a \\text{b $c$} d', 'x', '\\alpha {y} $z$', '', ' \\textbf{q} ']:
            for wrapo, wrapc in [('', ''), ('\\textbf{', '}'), ('$z$ {', '}'), ('\\text{', '}')]:
                for tol in (False, True):
                    yield {'tol': tol, 'ctx': 'default', 's': 'x ' + wrapo + '\\begin{%s}%s%s\\end{%s}' % (name, arg, body, name) + wrapc + ' y', 'mathenvdb': True}

def to_line(c):
    if c.get('legcall') is not None or c.get('legparser') or c.get('afterdb') or c.get('rewalk') or c.get('mathenvdb'):
        return None
    return parsecase.to_line(c)

_LEGDB = []
def legacy_parser_db():
    if not _LEGDB:
        from pylatexenc import latexwalker, macrospec
        class ParenArgs(macrospec.MacroStandardArgsParser):
            """pylatexenc-2 style: one argument in parentheses, read with the walker's legacy method in the caller's state"""
            def __init__(self):
                super(ParenArgs, self).__init__(argspec='{')
            def parse_args(self, w, pos, parsing_state=None):
                if parsing_state is None:
                    parsing_state = w.make_parsing_state()
                if pos < len(w.s) and w.s[pos] == '(':
                    nl, np, nlen = w.get_latex_nodes(pos + 1, stop_upon_closing_brace=')', parsing_state=parsing_state)
                    return (macrospec.ParsedMacroArgs(argspec='{', argnlist=[nl]), pos, (np + nlen - pos) if np is not None else 2)
                return (macrospec.ParsedMacroArgs(argspec='{', argnlist=[None]), pos, 0)
        db = latexwalker.get_default_latex_context_db()
        db.add_context_category('legacy-paren', prepend=True, macros=[macrospec.MacroSpec('pt', args_parser=ParenArgs())])
        _LEGDB.append(db)
    return _LEGDB[0]

_MENVDB = []
def math_env_db():
    if not _MENVDB:
        from pylatexenc import latexwalker, macrospec
        from pylatexenc.latexnodes import ParsingStateDeltaEnterMathMode
        S = macrospec.MacroStandardArgsParser
        db = latexwalker.get_default_latex_context_db()
        db.add_context_category('math-envs', prepend=True, environments=[
            macrospec.EnvironmentSpec('mathA', '{', is_math_mode=True),
            macrospec.EnvironmentSpec('mathB', args_parser=S(''), body_parsing_state_delta=ParsingStateDeltaEnterMathMode()),
            macrospec.EnvironmentSpec('mathC', args_parser=S('{'), is_math_mode=True),
            macrospec.EnvironmentSpec('mathD', S(''), is_math_mode=True),
            macrospec.std_environment('mathE', '{', is_math_mode=True),
            macrospec.EnvironmentSpec('mathF', args_parser='{', is_math_mode=True)])
        cj = dict(ctx_json('default'))
        cj['e'] = dict(cj['e'])
        for n in ('mathA', 'mathB', 'mathC', 'mathD', 'mathE', 'mathF'):
            cj['e'][n] = (None, True)
        _MENVDB.append((db, cj))
    return _MENVDB[0]

_AFTDB = []
def after_delta_db():
    if not _AFTDB:
        from pylatexenc import latexwalker, macrospec
        from pylatexenc.latexnodes import ParsingStateDelta
        def nocomm(parsed_node, latex_walker, **kw):
            return ParsingStateDelta(set_attributes=dict(enable_comments=False))
        def provide(parsed_node, latex_walker, **kw):
            return macrospec.ParsingStateDeltaExtendLatexContextDb(extend_latex_context=dict(macros=[macrospec.MacroSpec('greet', '{')]))
        db = latexwalker.get_default_latex_context_db()
        db.add_context_category('after-deltas', prepend=True, macros=[macrospec.MacroSpec('nocomm', '', make_after_parsing_state_delta=nocomm),
                                                                      macrospec.MacroSpec('provide', '', make_after_parsing_state_delta=provide)])
        _AFTDB.append(db)
    return _AFTDB[0]

def run_legacy(c):
    """legacy calls with an explicit state: every returned node records that state's mode, and so on downwards"""
    from pylatexenc import latexwalker
    if c.get('mathenvdb'):
        from pylatexenc.latexnodes import parsers
        db, cj = math_env_db()
        w = latexwalker.LatexWalker(c['s'], latex_context=db, tolerant_parsing=c['tol'])
        try:
            nl, _ = w.parse_content(parsers.LatexGeneralNodesParser())
        except latexwalker.LatexWalkerParseError:
            return {'out': 'ERR', 'fail': None, 'sig': 'mathenvdb:err'}
        seen = set()
        r = check_modes(list(nl or []), (False, None), cj, seen)
        return {'out': dump.dump_result(nl), 'fail': {'kind': 'mode-differs-from-implied', 'detail': 'math environments declared in the documented spellings, %r: %s' % (c['s'], r)} if r else None,
                'sig': 'mathenvdb:' + ','.join(sorted(seen))}
    if c.get('rewalk'):
        from pylatexenc.latexnodes import parsers
        w = latexwalker.LatexWalker(c['s'], tolerant_parsing=c['tol'])
        seen = set(); outs = []
        for k, pos in enumerate(c['rewalk']):
            try:
                nl, _ = w.parse_content(parsers.LatexGeneralNodesParser(), token_reader=w.make_token_reader(pos=pos))
            except latexwalker.LatexWalkerParseError:
                outs.append('ERR'); continue
            outs.append('ok')
            # whatever came before on this walker: the call was given no state, so its top-level nodes are in text mode
            r = check_modes(list(nl or []), (False, None), ctx_json('default'), seen)
            if r:
                return {'out': ' '.join(outs), 'sig': 'rewalk', 'fail': {'kind': 'mode-differs-from-implied',
                        'detail': 'call %d of %r on one walker (parse_content at positions %r, no state given) on %r: %s' % (k + 1, len(c['rewalk']), c['rewalk'], c['s'], r)}}
        return {'out': ' '.join(outs), 'fail': None, 'sig': 'rewalk:' + ''.join(o[0] for o in outs)}
    if c.get('afterdb'):
        from pylatexenc.latexnodes import parsers
        w = latexwalker.LatexWalker(c['s'], latex_context=after_delta_db(), tolerant_parsing=c['tol'])
        try:
            nl, _ = w.parse_content(parsers.LatexGeneralNodesParser())
        except latexwalker.LatexWalkerParseError as e:
            return {'out': 'ERR', 'fail': None, 'sig': 'afterdb:err'}
        seen = set()
        r = check_modes(list(nl or []), (False, None), ctx_json('default'), seen)
        return {'out': dump.dump_result(nl), 'fail': {'kind': 'mode-differs-from-implied', 'detail': 'context with \\nocomm / \\provide (state changes after the macro), %r: %s' % (c['s'], r)} if r else None,
                'sig': 'afterdb:' + ','.join(sorted(seen))}
    if c.get('legparser'):
        w = latexwalker.LatexWalker(c['s'], latex_context=legacy_parser_db(), tolerant_parsing=c['tol'])
        try:
            nl, _, _ = w.get_latex_nodes()
        except latexwalker.LatexWalkerParseError as e:
            return {'out': 'ERR', 'fail': None, 'sig': 'legparser:err'}
        seen = set()
        r = check_modes(list(nl or []), (False, None), ctx_json('default'), seen)
        return {'out': dump.dump_result(nl), 'fail': {'kind': 'mode-differs-from-implied', 'detail': 'legacy parenthesis-argument parser for \\pt: ' + r} if r else None,
                'sig': 'legparser:' + ','.join(sorted(seen))}
    w = latexwalker.LatexWalker(c['s'], tolerant_parsing=c['tol'])
    base = w.make_parsing_state()
    ps = {'none': None, 'text': base, 'math': base.sub_context(in_math_mode=True), 'math$': base.sub_context(in_math_mode=True, math_mode_delimiter='$'),
          'math\\[': base.sub_context(in_math_mode=True, math_mode_delimiter='\\[')}[c['lps']]
    cur = mode_of(ps) if ps is not None else (False, None)
    k, a = c['legcall']
    pos = c['pos']
    try:
        if k == 'nodes': r = w.get_latex_nodes(pos, stop_upon_closing_brace=(tuple(a) if isinstance(a, list) else a), parsing_state=ps)
        elif k == 'nodes_mm': r = w.get_latex_nodes(pos, stop_upon_closing_mathmode=a, parsing_state=ps)
        elif k == 'nodes_env': r = w.get_latex_nodes(pos, stop_upon_end_environment=a, parsing_state=ps)
        elif k == 'nodes_max': r = w.get_latex_nodes(pos, read_max_nodes=a, parsing_state=ps)
        elif k == 'expr': r = w.get_latex_expression(pos, parsing_state=ps)
        elif k == 'group': r = w.get_latex_braced_group(pos, brace_type=a, parsing_state=ps)
        elif k == 'opt': r = w.get_latex_maybe_optional_arg(pos, parsing_state=ps)
        elif k == 'env': r = w.get_latex_environment(pos, parsing_state=ps)
        else: raise ValueError(k)
    except (latexwalker.LatexWalkerParseError, latexwalker.LatexWalkerEndOfStream) as e:
        return {'out': 'ERR', 'fail': None, 'sig': 'legcall:%s:err' % k}
    if r is None or r[0] is None:
        return {'out': 'NONE', 'fail': None, 'sig': 'legcall:%s:none' % k}
    from pylatexenc.latexnodes import nodes as N
    top = list(r[0]) if isinstance(r[0], (N.LatexNodeList, list, tuple)) else [r[0]]
    seen = set()
    f = check_modes(top, cur, ctx_json('default'), seen)
    return {'out': dump.dump_result(top), 'fail': {'kind': 'mode-differs-from-implied', 'detail': 'legacy call %s(%r, %r, parsing_state=<%s>) on %r: %s'
                                                 % (k, pos, a, c['lps'], c['s'], f)} if f else None,
            'sig': 'legcall:%s:%s:%s' % (k, c['lps'], ','.join(sorted(seen)))}

def mode_of(ps):
    if ps is None:
        return None
    return (bool(ps.in_math_mode), ps.math_mode_delimiter)

def check_modes(nodes, cur, ctxj, seen):
    """returns failure text or None.  cur = (in_math, delimiter) handed down by the parent"""
    from pylatexenc.latexnodes import nodes as N
    for n in nodes:
        if n is None:
            continue
        m = mode_of(n.parsing_state)
        if m != cur:
            return '%s at %r records mode %r but the enclosing structure implies %r' % (type(n).__name__, n.pos, m, cur)
        if isinstance(n, N.LatexGroupNode):
            r = check_modes(n.nodelist or [], cur, ctxj, seen)
            if r: return r
        elif isinstance(n, N.LatexMathNode):
            d = n.delimiters
            seen.add('math:' + str(d[0]))
            r = check_modes(n.nodelist or [], (True, d[0]), ctxj, seen)
            if r: return r
            exp_disp = {'$': 'inline', '\\(': 'inline', '$$': 'display', '\\[': 'display'}.get(d[0])
            exp_close = {'$': '$', '\\(': '\\)', '$$': '$$', '\\[': '\\]'}.get(d[0])
            if exp_disp is not None and (n.displaytype != exp_disp or d[1] != exp_close):
                return 'math node at %r records %r %r for opening delimiter %r' % (n.pos, n.displaytype, d, d[0])
        elif isinstance(n, (N.LatexMacroNode, N.LatexEnvironmentNode, N.LatexSpecialsNode)):
            if isinstance(n, N.LatexMacroNode):
                sp = ctxj['m'].get(n.macroname, ctxj['um'])
            elif isinstance(n, N.LatexEnvironmentNode):
                e = ctxj['e'].get(n.environmentname, ctxj['ue'])
                sp = e[0] if e else None
            else:
                sp = ctxj['s'].get(n.specials_chars)
            nd = n.nodeargd
            if nd is not None and nd.argnlist:
                specs = sp[1] if (sp and sp[0] == 'S') else None
                for i, a in enumerate(nd.argnlist):
                    if a is None:
                        continue
                    sub = cur
                    if specs is not None and len(specs) == len(nd.argnlist):
                        dl = specs[i][1]
                        if dl in ('+', '+c'): sub = (True, None); seen.add('arg:enter')
                        elif dl in ('-', '-c'): sub = (False, None); seen.add('arg:leave')
                    items = list(a) if isinstance(a, (N.LatexNodeList, list, tuple)) else [a]
                    r = check_modes(items, sub, ctxj, seen)
                    if r: return r
            if isinstance(n, N.LatexEnvironmentNode):
                e = ctxj['e'].get(n.environmentname, ctxj['ue'])
                bm = bool(e[1]) if e else False
                if bm: seen.add('env:math')
                r = check_modes(n.nodelist or [], (True, None) if bm else cur, ctxj, seen)
                if r: return r
    return None

_CTXJ = {}
def ctx_json(ctx):
    import json
    k = json.dumps(ctx, sort_keys=True)
    if k not in _CTXJ:
        j = ctxdesc.introspect_db(ctxdesc.make_db('default')) if ctx == 'default' else ctx
        _CTXJ[k] = {'m': dict((n, a) for n, a in j['macros']), 'e': dict((n, (a, bm)) for n, a, bm in j['envs']),
                    's': dict((n, a) for n, a in j['specials']), 'um': j.get('um'), 'ue': j.get('ue')}
    return _CTXJ[k]

def run_impl(c):
    from pylatexenc.latexnodes import nodes as N
    if c.get('legcall') is not None or c.get('legparser') or c.get('afterdb') or c.get('rewalk') or c.get('mathenvdb'):
        return run_legacy(c)
    w, kind, p = parsecase.parse(c)
    out = parsecase.show_result(kind, p)
    fail = None
    seen = set()
    if kind == 'ok' and p is not None:
        r = check_modes(list(p), (False, None), ctx_json(c['ctx']), seen)
        if r:
            fail = {'kind': 'mode-differs-from-implied', 'detail': r}
        if not fail and c.get('mathdoc') is not None:
            def tup(x): return tuple(tup(y) for y in x) if isinstance(x, (list, tuple)) else x
            exp = merge_c(expected_math(tup(c['mathdoc']), (False, None), []))
            got = merge_c(observed_math(list(p), []))
            if [tup(x) for x in exp] != [tup(x) for x in got]:
                fail = {'kind': 'formula-structure-or-mode', 'detail': 'written %r ; parsed %r' % (exp, got)}
        if not fail and c.get('dollars') == 'inline2':
            ms = [n for n in p if isinstance(n, N.LatexMathNode)]
            if not (len(p) == 2 and len(ms) == 2 and all(m.displaytype == 'inline' for m in ms)):
                fail = {'kind': 'dollar-run-split', 'detail': '%r parsed as %s' % (c['s'], out[:200])}
        if not fail and c.get('dollars') == 'display1':
            if not (len(p) == 1 and isinstance(p[0], N.LatexMathNode) and p[0].displaytype == 'display'):
                fail = {'kind': 'dollar-run-split', 'detail': '%r parsed as %s' % (c['s'], out[:200])}
    elif c.get('mathdoc') is not None:
        fail = {'kind': 'formula-structure-or-mode', 'detail': 'well-formed nested formulas did not parse: %s' % out[:200]}
    elif c.get('dollars'):
        fail = {'kind': 'dollar-run-split', 'detail': '%r did not parse: %s' % (c['s'], out[:200])}
    return {'out': out, 'fail': fail, 'sig': ('T:' if c['tol'] else 'S:') + ','.join(sorted(seen)) if kind == 'ok' else 'err'}

def shrink_candidates(c):
    if c.get('mathdoc') is not None or c.get('dollars'):
        return
    for d in parseprops.shrink_parse_case(c):
        yield d

LEVEL_TEXT = ('Theorems about the parser model, both modes, every context/input/start state/fuel: C10_modes — the returned tree is mode-consistent: '
              'every node records the mode handed down by its parent, where a math node hands {math, its opening delimiter} to its body, an argument '
              'slot declared with enter/leave-math hands math/text, a math environment hands math to its body, and everything else inherits; '
              'C10_math_strict / C10_math_pairs — every math node records display/inline and (open, close) as configured (tolerant mode: under '
              'the hypothesis that no string is both an inline and a display delimiter, whose necessity is a kernel-checked counterexample); '
              'C10_dollar_* — in math opened by `$` a following `$$` reads as the closing `$`, in text `$$` opens display math; '
              'C10_dollars_inline/display — for all letter strings a, b: `$a$$b$` parses to two inline formulas and `$$a$$` to one display '
              'formula (exact trees). Tied to the parser by comparing tree dumps including each node\'s mode; the oracle recomputes the implied '
              'modes on the implementation\'s trees.')
LEVEL_NOTE = ('closed world of argument parsers; dollar-run theorems for letter bodies (spaces by correspondence only); Lean kernel + standard axioms')
TECHNIQUE = 'Lean 4 proof (mode-consistency contract by induction on fuel; token-level lemmas for dollar runs) + PARSE correspondence + implied-mode oracle'
