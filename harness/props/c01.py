# C01 — the node tree is a lossless, exactly positioned cover of the source.
import parseprops, parsecase, dump
from common import show_str

THEOREMS = ['Pylx.C01_strict', 'Pylx.C01_strict_of_delims', 'Pylx.C01_verbatim', 'Pylx.C01_top', 'Pylx.C01_contract',
            'Pylx.C01_tolerant', 'Pylx.C01_tolerant_of_delims', 'Pylx.C01_tolerant_top', 'Pylx.C01_nested', 'Pylx.C01_tolerant_contract']
PROOF_MODULES = ['C01', 'C01T']
RULE = ('PARSE: every string of <= k atoms over the LaTeX-significant atom alphabets (default context and three custom contexts '
        'declaring macros/environments/specials with every standard argument type), random token soups; strict and tolerant; '
        'model vs implementation: full tree dump with positions; oracle on the implementation: top-level nodes tile the input, '
        'children inside the parent in document order without overlap (arguments before body), chars/comment text = source slice, '
        'joined latex_verbatim() = input; for tolerant results: every node in range and nested; sig = outcome + node kinds')
TRUSTED = ['tokenizer model (C11)', 'closed world of argument parsers: the standard argument types and the legacy verbatim parsers of the default context',
           'parsing-state deltas returned by parsers are None/identity for these specifications and are not modelled']
ASSUMPTIONS = ['construct nesting below the interpreter recursion limit (about 140 levels)']
TRIVIAL_SIGS = ('none',)
CASE_TIMEOUT = 10.0

def cases(tier, rng):
    for c in parseprops.base_cases(tier, rng):
        yield c
    # the input read PIECEWISE through the public parser classes on one shared token reader: the nodes up to a stop token
    # (LatexGeneralNodesParser with a stop_token_condition, the blanks before the stop token included in the content or left in
    # the stream — both documented settings), then the next node (LatexSingleNodeParser), and so on: the nodes obtained are
    # the top-level nodes of the input and tile it (oracle only)
    PW = ['a', 'b ', ' ', '  ', '\n', '&', '&', ';', '{y}', '\\textbf{t}', '$x$', '%c\n', '\\alpha', '~', '\\\\']
    for _ in range(1500 if tier == 'quick' else 30000):
        s = ''.join(rng.choice(PW) for _ in range(rng.randint(1, 8)))
        yield {'tol': False, 'ctx': 'default', 's': s, 'piecewise': [rng.choice(['&', ';', '~']), rng.random() < 0.5]}

def to_line(c):
    if c.get('piecewise'):
        return None
    return parsecase.to_line(c)

def run_piecewise(c):
    from pylatexenc.latexwalker import LatexWalker, LatexWalkerParseError
    from pylatexenc.latexnodes.parsers import LatexGeneralNodesParser, LatexSingleNodeParser
    s = c['s']
    stop, incl = c['piecewise']
    def is_stop(tok):
        if tok.tok == 'specials':
            return tok.arg.specials_chars == stop
        return tok.tok == 'char' and tok.arg == stop
    lw = LatexWalker(s, tolerant_parsing=False)
    tr = lw.make_token_reader()
    upto = LatexGeneralNodesParser(stop_token_condition=is_stop, include_stop_token_pre_space_chars=incl, require_stop_condition_met=False)
    single = LatexSingleNodeParser()
    nodes = []
    try:
        for _ in range(len(s) + 2):
            cell, _ = lw.parse_content(upto, token_reader=tr)
            cell = [] if cell is None else list(cell)
            nxt, _ = lw.parse_content(single, token_reader=tr)
            nxt = [] if nxt is None else list(nxt)
            nodes += cell + nxt
            if not cell and not nxt:
                break
    except LatexWalkerParseError:
        return {'out': 'ERR', 'fail': None, 'sig': 'piecewise:err'}
    fail = None
    pos = 0
    for n in nodes:
        if n is None or n.pos != pos:
            fail = {'kind': 'gap-or-overlap', 'detail': 'read piecewise (stop token %r, include_stop_token_pre_space_chars=%r) %r: node %s starts at %r, previous ended at %d'
                                                   % (stop, incl, s, type(n).__name__, getattr(n, 'pos', None), pos)}
            break
        pos = n.pos_end
    if not fail and pos != len(s):
        fail = {'kind': 'gap-or-overlap', 'detail': 'read piecewise (stop token %r, include_stop_token_pre_space_chars=%r) %r: nodes end at %d, input has %d characters' % (stop, incl, s, pos, len(s))}
    if not fail:
        r = check_cover(s, nodes, 0, len(s), True, '')
        if r:
            fail = {'kind': 'cover', 'detail': 'read piecewise: ' + r}
    return {'out': dump.dump_result(nodes) if hasattr(dump, 'dump_result') else None, 'fail': fail, 'sig': 'piecewise:%s:%d' % (stop, incl)}

def check_cover(s, nodes, lo, hi, strict, path):
    """children tile-or-nest check; returns failure text or None"""
    from pylatexenc.latexnodes import nodes as N
    prev = lo
    for n in nodes:
        if n.pos is None or n.pos_end is None:
            return '%s: node %s without position' % (path, type(n).__name__)
        if not (lo <= n.pos <= n.pos_end <= hi):
            return '%s: node %s [%d,%d) outside its parent [%d,%d)' % (path, type(n).__name__, n.pos, n.pos_end, lo, hi)
        if n.pos < prev:
            return '%s: node %s at %d overlaps its predecessor ending at %d' % (path, type(n).__name__, n.pos, prev)
        prev = n.pos_end
        if strict and isinstance(n, N.LatexCharsNode) and n.chars != s[n.pos:n.pos_end]:
            return '%s: chars node text %r != source slice %r' % (path, n.chars, s[n.pos:n.pos_end])
        if strict and isinstance(n, N.LatexCommentNode):
            cs = n.parsing_state.comment_start if n.parsing_state is not None else '%'
            if cs + n.comment + n.comment_post_space != s[n.pos:n.pos_end]:
                return '%s: comment node text does not match the source slice %r' % (path, s[n.pos:n.pos_end])
        if strict and n.latex_verbatim() != s[n.pos:n.pos_end]:
            return '%s: latex_verbatim() of %s differs from its source slice' % (path, type(n).__name__)
        a, b = parseprops.children_of(n)
        r = check_cover(s, a + b, n.pos, n.pos_end, strict, path + '/' + type(n).__name__[5:-4])
        if r:
            return r
    return None

def run_impl(c):
    if c.get('piecewise'):
        return run_piecewise(c)
    w, kind, p = parsecase.parse(c)
    out = parsecase.show_result(kind, p)
    fail = None
    s = c['s']
    if kind == 'ok' and p is not None:
        nodes = [n for n in p]
        if None in nodes:
            fail = {'kind': 'none-in-top-level-list', 'detail': out[:200]}
        elif not c['tol']:
            # tiling of the whole input
            pos = 0
            for n in nodes:
                if n.pos != pos:
                    fail = {'kind': 'gap-or-overlap', 'detail': 'top-level node %s starts at %r, previous ended at %d' % (type(n).__name__, n.pos, pos)}
                    break
                pos = n.pos_end
            if not fail and pos != len(s):
                fail = {'kind': 'gap-or-overlap', 'detail': 'top-level nodes end at %d, input has %d characters' % (pos, len(s))}
            if not fail and ''.join(n.latex_verbatim() for n in nodes) != s:
                fail = {'kind': 'verbatim-not-lossless', 'detail': 'joined latex_verbatim() != input'}
            if not fail and (p.pos != 0 or p.pos_end != len(s)) and len(nodes) > 0:
                fail = {'kind': 'list-span', 'detail': 'node list spans %r..%r' % (p.pos, p.pos_end)}
        if not fail:
            r = check_cover(s, nodes, 0, len(s), not c['tol'], '')
            if r:
                fail = {'kind': 'cover' if not c['tol'] else 'tolerant-range-nesting', 'detail': r}
    return {'out': out, 'fail': fail, 'sig': ('T:' if c['tol'] else 'S:') + parseprops.sig_of(kind, p)}

shrink_candidates = parseprops.shrink_parse_case

LEVEL_TEXT = ('Theorems about the parser model Pylx.run / Pylx.parseTop (strict mode), for every context of the closed world, every input '
              'string, every starting state with non-empty math delimiters and every amount of fuel: C01_strict — if the parse succeeds the '
              'top-level nodes tile [0, len] exactly, the reader ends at len, and every node of the tree lies inside the input, has its '
              'children (arguments before body) chained inside its span in document order without overlap, and chars/comment nodes carry '
              'exactly the source slice at their position; C01_verbatim — concatenated source slices of the top-level nodes equal the input; '
              'C01_contract — the same contract for every parse_content sub-call; C01_tolerant — for whatever the tolerant parser returns on an '
              'arbitrary string, every node lies inside the input and its children are chained inside its span (all recovery paths). The model is tied to the parser by '
              'comparing full tree dumps with positions on bounded-exhaustive atom strings and random soups under four contexts.')
LEVEL_NOTE = ('closed world: standard argument types + legacy verbatim parsers; parser deltas not modelled (identity for these specs); tokenizer '
              'model trusted via C11 correspondence; Lean kernel + propext/Classical.choice/Quot.sound')
TECHNIQUE = 'Lean 4 proof (invariants over the fuel-indexed parser model) + PARSE correspondence + tiling oracle'
