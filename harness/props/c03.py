# C03 — latex2text renders the core sublanguage by its documented rules; conversions of self-contained blocks compose.
import itertools, traceback
import docgen, docwire, spectext
from spectext import as_tuples
from common import show_str
import props.c07 as c07
import logging
logging.getLogger('pylatexenc').setLevel(logging.CRITICAL)

THEOREMS = ['Pylx.L2T.C03.C03_append_state', 'Pylx.L2T.C03.C03_append', 'Pylx.L2T.C03.C03_append_run', 'Pylx.L2T.C03.C03_append_false',
            'Pylx.L2T.C03.C03_chars', 'Pylx.L2T.C03.C03_chars_copied', 'Pylx.L2T.C03.C03_group_transparent', 'Pylx.L2T.C03.C03_group_braced',
            'Pylx.L2T.C03.C03_format_transparent', 'Pylx.L2T.C03.C03_format_one_group', 'Pylx.L2T.C03.C03_format_names', 'Pylx.L2T.C03.C03_symbol_macro',
            'Pylx.L2T.C03.C03_symbol_specials', 'Pylx.L2T.C03.C03_specials_unknown', 'Pylx.L2T.C03.C03_macro_unknown', 'Pylx.L2T.C03.C03_symbol',
            'Pylx.L2T.C03.C03_table_specials', 'Pylx.L2T.C03.C03_table_symbols', 'Pylx.L2T.C03.C03_comment', 'Pylx.L2T.C03.C03_math_inline',
            'Pylx.L2T.C03.C03_math_display', 'Pylx.L2T.C03.C03_math_modes', 'Pylx.L2T.C03.C03_presets', 'Pylx.L2T.C03.C03_bare_macro_space',
            'Pylx.L2T.C03.C03_bare_macro_chars', 'Pylx.L2T.C03.C03_plain_boundary', 'Pylx.L2T.C03.C03_compose_tree', 'Pylx.L2T.C03.C03_instances',
            'Pylx.L2T.C03.postSpaceInCall_of_WF',
            # string level (PylxProofs/C03S*.lean): exact round trip, tolerant = strict, position independence, rules = rendering
            'Pylx.L2T.C03S.C02x_core_exact', 'Pylx.L2T.C03S.C03_exact_roundtrip', 'Pylx.L2T.C03S.C03_render_erase_congr',
            'Pylx.L2T.C03S.C03_render_positions_matter',
            'Pylx.L2T.C03S.latexToText_exact', 'Pylx.L2T.C03S.renderX_spec', 'Pylx.L2T.C03S.default_dbOk',
            'Pylx.L2T.C03S.C03_string_level', 'Pylx.L2T.C03S.C03_full_partial', 'Pylx.L2T.C03S.default_tableOk',
            'Pylx.L2T.C03S.C03_full_core']
PROOF_MODULES = ['C03', 'C03SX', 'C03SRound', 'C03SRender', 'C03SSpec', 'C03SFull', 'C03SCore']
RULE = ('SPEC: the Lean statement of the rules (Pylx.L2T.C03.specText, CoreText) vs the harness statement (spectext.spec_text) on every generated derivation; L2T: LatexNodes2Text(math_mode, strict_latex_spaces, keep_comments, keep_braced_groups).latex_to_text(unparse(d)) for derivations d '
        'of the core sublanguage (text, whitespace, paragraph breaks, groups, formatting / symbol / accent macros, \\frac, \\sqrt, \\item, '
        'unknown macros, list and unknown environments, specials, comments, the four kinds of formula; arbitrary nesting): hand-written '
        'probes under every combination of policy x math_mode x keep_braced_groups x keep_comments, all sequences of <= k atoms (one atom '
        'per construct and per policy-sensitive neighbour) at top level and inside a group / formula / argument / environment, random '
        'derivations of unbounded depth; model vs implementation: exact output text; oracle 1: output == spec_text(opts, d) computed from '
        'the derivation by the documented rules (harness/spectext.py); oracle 2 (composition law): for self-contained blocks a, b and a '
        'separator (space or paragraph break) latex_to_text(a+sep+b) == latex_to_text(a) + sep_text(opts, sep) + latex_to_text(b); '
        'sig = kind | constructs in the document')
TRUSTED = ['harness/spectext.py: the documented rules as a function of the derivation (its symbol, specials and accent characters and the '
           '\\frac / \\sqrt replacement strings are read from the real text database at run time; its strict_latex_spaces presets are a copy '
           'of the documented ones)',
           'the document generator and its separation discipline (docgen.fixup); a derivation is used only as the source text it unparses to',
           'parser model (C01/C05/C06 correspondence) and renderer model (C07 correspondence) with the generated default databases',
           'library oracle unicodedata.normalize("NFC", base + combining) supplied per call to the model']
ASSUMPTIONS = ['documents respect LaTeX\'s own adjacency rules (WF of notes/doc-grammar.md)',
               'accent arguments are a single base character (a letter, \\i or \\j); keep_braced_groups_minlen in {2, 5}',
               'a fresh LatexNodes2Text object per call; fill_text not set']
TRIVIAL_SIGS = ()
CASE_TIMEOUT = 10.0

POLICIES = [False, 'macros', 'based-on-source', 'except-in-equations', True]
MATH_MODES = ['text', 'with-delimiters', 'verbatim', 'remove']
EXTRA_POLICIES = [None, {'between-macro-and-chars': True}, {'between-latex-constructs': True, 'in-equations': True},
                  {'after-comment': True, 'in-equations': False},
                  {'between-latex-constructs': True, 'in-equations': {'between-macro-and-chars': True, 'after-comment': True}}]

def mk_opts(sls=False, mm='text', kb=False, kc=False, ml=2):
    return {'mm': mm, 'sls': sls, 'kc': kc, 'kb': kb, 'ml': ml, 'fill': None}

def all_opts():
    out = []
    for sls in POLICIES:
        for mm in MATH_MODES:
            for kb in (False, True):
                for kc in (False, True):
                    out.append(mk_opts(sls, mm, kb, kc))
    return out

def rand_opts(rng):
    sls = rng.choice(POLICIES) if rng.random() < 0.8 else rng.choice(EXTRA_POLICIES)
    return mk_opts(sls, rng.choice(MATH_MODES + ['text']), rng.random() < 0.4, rng.random() < 0.4, 5 if rng.random() < 0.1 else 2)

# ---------------------------------------------------------------- implementation + oracles

PRE_DOCS = ['\\begin{equation} a \\alpha b', '$x', '\\[ y', '\\begin{itemize}\\item[q] z', 'a %c', '\\textbf{', '\\begin{align} x &= y \\end{align}',
            '\\emph{a} \\alpha b', '{\\alpha', '\\begin{equation}x\\end{equation} \\equation', '$$ \\text{ $', 'a\n\n\\item b', '\\begin{enumerate}[i]\\item']

def convert(o, s, pre=None):
    """pre: documents converted with the SAME converter object before (unterminated formulas / environments, comments,
    lists …; their outcome is irrelevant): a converter that has been used gives the documented text like a new one"""
    from pylatexenc.latex2text import LatexNodes2Text
    l2t = LatexNodes2Text(**c07.opts_kwargs(o))
    for p in pre or []:
        try:
            l2t.latex_to_text(p)
        except RecursionError:
            raise
        except Exception:
            pass
    return l2t.latex_to_text(s)

def case_source(c):
    if c['k'] == 'comp':
        return docgen.unparse(as_tuples(c['a'])) + c['sep'] + docgen.unparse(as_tuples(c['b']))
    return docgen.unparse(as_tuples(c['d']))

def to_line(c):
    if c['k'] == 'spec':
        s = case_source(c)
        return '\t'.join(['SPEC', c07.opts_wire(c['o']), c07.lib_wire(s), docwire.enc_doc(as_tuples(c['d']))])
    return c07.to_line({'s': case_source(c), 'o': c['o']})

def kinds_of(items, acc):
    for it in items:
        k = it[0]
        if k == 'M':
            acc.add('M:' + spectext.core_cg()['classes'].get(it[1], '?') + ('' if any(a[0] != 'absent' for a in it[3]) else '0'))
            for a in it[3]:
                if a[0] in ('grp', 'br'): kinds_of(a[1], acc)
        else:
            acc.add(k + (it[1] if k == 'F' else ''))
            if k == 'G': kinds_of(it[1], acc)
            if k == 'F': kinds_of(it[2], acc)
            if k == 'E':
                kinds_of(it[3], acc)
    return acc

def run_impl(c):
    o = c['o']
    if c['k'] == 'spec':
        # the harness's side of the cross-check of the two statements of the rules: what Pylx.L2T.C03.specText must give
        return {'out': 'ok ' + show_str(spectext.spec_text(o, as_tuples(c['d']))) + ' core=T', 'fail': None, 'sig': 'spec'}
    s = case_source(c)
    fail = None
    try:
        got = convert(o, s, c.get('pre'))
    except RecursionError:
        raise
    except Exception as e:
        tb = traceback.extract_tb(e.__traceback__)
        return {'out': 'CRASH ' + type(e).__name__,
                'fail': {'kind': 'raised:' + type(e).__name__, 'detail': '%s: %s (line %s) on %r' % (type(e).__name__, e, tb[-1].lineno if tb else '?', s)},
                'sig': 'crash'}
    out = 'ok ' + show_str(got)
    if c['k'] == 'doc':
        d = as_tuples(c['d'])
        exp = spectext.spec_text(o, d)
        if got != exp:
            fail = {'kind': 'text-differs-from-documented-rules',
                    'detail': 'source %r options %r: latex_to_text returned %r, the documented rules give %r' % (s, c07.opts_kwargs(o), got, exp)}
        sig = 'doc|' + ','.join(sorted(kinds_of(d, set())))
    else:
        a, b = as_tuples(c['a']), as_tuples(c['b'])
        sa, sb = docgen.unparse(a), docgen.unparse(b)
        ta, tb_ = convert(o, sa), convert(o, sb)
        st = spectext.sep_text(o, c['sep'], a, b)
        if got != ta + st + tb_:
            fail = {'kind': 'composition-law',
                    'detail': 'options %r: latex_to_text(%r) = %r but latex_to_text(%r) + %r + latex_to_text(%r) = %r'
                              % (c07.opts_kwargs(o), s, got, sa, st, sb, ta + st + tb_)}
        sig = 'comp|%s|%s|%s' % ('par' if c['sep'].count('\n') >= 2 else 'space', a[-1][0], b[0][0])
    return {'out': out, 'fail': fail, 'sig': sig}

# ---------------------------------------------------------------- generators

def T(s): return ('T', s)
def W(s): return ('W', s)
def G(*b): return ('G', list(b))
def M(n, *args, post=''): return ('M', n, post, list(args))
def grp(*b): return ('grp', list(b))
def br(*b): return ('br', list(b))
ABS = ('absent',)
def F(k, *b): return ('F', k, list(b))
def C(t, tail='\n'): return ('C', t, tail)
def S(n): return ('S', n, [])
def E(n, args, *b): return ('E', n, list(args), list(b))
P = ('P', '\n\n')

def probes():
    """one document per documented rule and per adjacency that the whitespace policy decides (whitespace written after a
    bare control word becomes its post-space when the document is fixed up)"""
    al, be = M('alpha'), M('beta')
    return [
        [T('ab'), W(' '), T('cd.')],
        [G(T('a')), W(' '), G(T('bc'))],                                           # whitespace-only segment between constructs
        [W(' '), G(T('a')), W('\n'), F('$', T('x')), W(' ')],
        [G(T('a'), W(' ')), T('b'), G(), G(G(T('long')))],                        # keep_braced_groups and minlen
        [M('emph', grp(T('a'), W(' '), M('textbf', grp(T('b'))))), M('textit', ('tok', 'c')), M('mathrm', grp())],
        [al, W(' '), T('b'), W(' '), al, G(T('c')), be, W('\n'), T('d'), al, W('  '), T('e')],       # bare macro + chars
        [al, W(' '), G(T('b')), al, W(' '), F('$', T('x')), M('ldots'), W(' '), C('c'), T('d')],
        [M('&'), W(' '), T('x'), M('%'), T('y'), M(','), M('quad'), W(' '), T('z'), M('{'), M('}'), M('$'), M('#'), M('_')],
        [M('unknownmacro'), W(' '), T('a'), M('zzz'), G()],
        [T('a'), S('~'), T('b'), W(' '), S('--'), W(' '), S('---'), S('``'), T('q'), S("''"), W(' '), S('&'), S('!`'), T('x'), S('?`')],
        [M("'", ('tok', 'e')), M('`', grp(T('a'))), M('c', ('tok', 'c')), M('hat', grp(T('o'))), M('"', grp(M('i'))), M('~', ('tok', 'n')),
         M('vec', grp(T('y'))), M('=', ('tok', 'a')), M('.', grp(T('e')))],
        [M('frac', grp(T('a')), grp(T('b'), W(' '), al)), M('frac', ('tok', '1'), ('tok', '2')), M('sqrt', ABS, grp(T('x'))),
         M('sqrt', br(T('3')), grp(G(T('yz'))))],
        [T('a'), W(' '), C('c', '\n'), T('b')],
        [T('a'), C('c', '\n  '), W(' '), T('b'), C('', '\n'), G(T('d'))],          # indentation after a comment
        [T('a'), C('c', '\n'), ('P', '\n\n'), T('b')],                             # comment newline opening a paragraph break
        [T('a'), P, T('b'), ('P', '\n \n'), G(T('c')), ('P', '\n\n\n'), al, P, T('d')],
        [E('itemize', [ABS], W('\n'), M('item', ABS), W(' '), T('a'), W('\n'), M('item', br(T('lb'))), W(' '), T('b'), W('\n'))],
        [E('enumerate', [br(T('o'))], M('item', ABS), G(T('x'))), E('unknownenv', [], W(' '), T('u'), W(' '), al, W(' '), T('v'))],
        [F('$', T('a'), W(' '), al, W(' '), T('b')), W(' '), al, W(' '), T('b')],        # equation policy, restored afterwards
        [F('\\(', W(' '), T('x'), W(' ')), F('$', S('~'), T('x'), M(',')), F('$', G(T('a')), W(' '), G(T('b'))), G(T('a')), W(' '), G(T('b'))],
        [T('a'), F('\\[', W(' '), T('x'), W('\n'), T('y'), W(' ')), T('b'), F('$$', T('z')), G(T('a')), W(' '), G(T('b'))],
        [F('$', M('text', grp(T('a'), W(' '), F('$', al, W(' '), T('b')), C('c'), T('d'))), be, W(' '), T('e')), C('k', '\n '), T('f')],
        [F('$$', M('frac', grp(al, W(' '), T('x')), grp(T('y'))), W(' '), C('c', '\n'), T('z')), al, W(' '), T('w')],
        [G(al, W(' ')), T('x'), M('emph', grp(al, W(' '))), T('y'), G(C('c', '\n')), T('z')],
        [M('item', ABS), W(' '), T('x'), M('item', ABS), P, T('y'), M('item', br(T('ab'))), G(T('z'))],
        [C('only', '\n')], [W(' ')], [G()], [F('$', T('x'))], [al],
    ]

def blocks():
    """self-contained blocks, one per way a block can begin or end"""
    al = M('alpha')
    return [
        [T('a')], [T('ab'), W(' '), T('cd')], [G(T('a'))], [G()], [M('emph', grp(T('x')))], [al, G()], [M('&')], [M('%')],
        [F('$', T('x'))], [F('\\(', T('x'), W(' '), al, W(' '), T('y'))], [F('\\[', T('z'))], [F('$$', W(' '), T('w'), W(' '))],
        [S('~')], [S('--')], [T('a'), C('c', '\n '), W(' '), T('b')], [C('c', '\n'), T('b')],
        [E('itemize', [ABS], M('item', ABS), W(' '), T('a'))], [E('unknownenv', [], T('u'))],
        [M("'", ('tok', 'e'))], [M('frac', grp(T('a')), grp(T('b')))], [M('sqrt', ABS, grp(T('x')))], [M('item', br(T('l')))],
        [M('emph', ('tok', 'x'))], [T('a'), P, T('b')], [G(al)], [al, W(' '), T('x')], [T('x'), al, G()],
        [M('unknownmacro'), G(T('y'))],
    ]

SEPS = [' ', '\n\n', '\n \n', '\n\n\n']

def wrap_variants(rng, pair):
    """the same items inside each kind of container"""
    yield [G(*pair)]
    yield [F('$', T('v'), *pair)]
    yield [T('a'), F('\\[', T('v'), *pair), T('b')]
    yield [M('emph', grp(*pair))]
    yield [E('itemize', [ABS], *pair)]

def cases(tier, rng):
    quick = tier == 'quick'
    cg = spectext.core_cg()
    opts = all_opts()
    seen = set()
    def doc_cases(d, os, fix=True):
        if fix:
            d = spectext.refix(rng, d)
        s = docgen.unparse(d)
        for o in os:
            key = (s, c07.opts_wire(o))
            if key in seen:
                continue
            seen.add(key)
            yield {'k': 'doc', 'd': d, 'o': o}
            yield {'k': 'spec', 'd': d, 'o': o}
    per_policy = [mk_opts(p) for p in POLICIES]
    # (a) probes under every combination of the options
    for d in probes():
        for c in doc_cases(d, opts + [mk_opts(p) for p in EXTRA_POLICIES] + [mk_opts(kb=True, ml=5)]):
            yield c
    # (a') blanks between a control word and its bracket argument: the call has an argument, so it is not a bare macro
    #      and the blanks are never output (hand-written, not re-fixed: refix would recompute the post-space)
    for post in (' ', '\n  ', '  '):
        for tail in ([('T', 'b')], [('W', ' '), ('T', 'one')], [('F', '$', [('T', 'x')])], []):
            item = ('M', 'item', post, [('br', [('T', 'x')])])
            for d in ([item] + tail, [('E', 'itemize', [('absent',)], [item] + tail + [('W', '\n')])], [('T', 'a'), ('W', ' '), item] + tail):
                for c in doc_cases(d, per_policy + [mk_opts(p) for p in EXTRA_POLICIES], fix=False):
                    yield c
    # (a'') square brackets INSIDE a child construct of an optional bracket argument (a macro's braced argument, a formula):
    #       they are text there — only the bracket that closes the argument itself is structural
    for lab in ([M('textbf', grp(T('[a]')))], [M('emph', grp(T('see'), W(' '), T('[1]')))], [F('$', T('f[x]'))], [M('textit', grp(T('a'))), T(':'), W(' '), F('$', T('[0,1]'))],
                [G(T('[a]'))], [F('\\(', T('g[y]'))], [M('emph', grp(M('textbf', grp(T('[n]')))))]):
        for d in ([E('itemize', [ABS], M('item', br(*lab)), W(' '), T('body'))], [E('enumerate', [ABS], W('\n'), M('item', br(*lab)), W(' '), T('b'), W('\n'))],
                  [M('sqrt', br(*lab), grp(T('x'))), W(' '), T('t')]):
            for o in per_policy + [mk_opts(kb=True, ml=5)]:
                yield {'k': 'doc', 'd': d, 'o': o}
    # (b) bounded-exhaustive sequences of atoms
    atoms = spectext._atoms()
    k = 2 if quick else 3
    i = 0
    per_policy = [mk_opts(p) for p in POLICIES]
    for n in range(1, k + 1):
        for seq in itertools.product(atoms, repeat=n):
            i += 1
            os = per_policy + [opts[i % len(opts)], opts[(7 * i + 3) % len(opts)]] if n <= 2 else [per_policy[i % 5], opts[(7 * i + 3) % len(opts)]]
            for c in doc_cases(list(seq), os):
                yield c
            if n == 2:
                for d in wrap_variants(rng, list(seq)):
                    for c in doc_cases(d, [per_policy[i % 5], opts[(11 * i + 5) % len(opts)]] if quick else per_policy + [opts[(11 * i + 5) % len(opts)]]):
                        yield c
    # (c) random derivations
    n = 900 if quick else 12000
    for i in range(n):
        d = spectext.gen_core_doc(rng, rng.randint(1, 8))
        os = [mk_opts(rng.choice(POLICIES)), rand_opts(rng), rand_opts(rng)]
        if not quick:
            os += [rand_opts(rng), rand_opts(rng)]
        for c in doc_cases(d, os, fix=False):
            if c['k'] == 'doc' and rng.random() < 0.2:
                c = dict(c, pre=[rng.choice(PRE_DOCS) for _ in range(rng.randint(1, 2))])
            yield c
    # (d) composition law: every pair of hand-written blocks, random blocks
    B = [spectext.refix(rng, b) for b in blocks()]
    B = [b for b in B if spectext.self_contained(b)]
    j = 0
    for a in B:
        for b in B:
            for sep in SEPS[:2]:
                for p in POLICIES:
                    j += 1
                    yield {'k': 'comp', 'a': a, 'b': b, 'sep': sep, 'o': mk_opts(p, MATH_MODES[j % 4], j % 3 == 0, j % 5 == 0)}
    if not quick:
        for a in B:
            for b in B:
                for sep in SEPS:
                    for mm in MATH_MODES:
                        j += 1
                        yield {'k': 'comp', 'a': a, 'b': b, 'sep': sep, 'o': mk_opts(POLICIES[j % 5], mm, j % 2 == 0, j % 3 == 0)}
    n = 500 if quick else 8000
    for i in range(n):
        a = spectext.gen_block(rng, rng.randint(1, 5)); b = spectext.gen_block(rng, rng.randint(1, 5))
        for sep in (' ', rng.choice(SEPS[1:])):
            yield {'k': 'comp', 'a': a, 'b': b, 'sep': sep, 'o': mk_opts(rng.choice(POLICIES), rng.choice(MATH_MODES), rng.random() < 0.4, rng.random() < 0.3)}
            yield {'k': 'comp', 'a': a, 'b': b, 'sep': sep, 'o': rand_opts(rng)}

# ---------------------------------------------------------------- shrinking

def _smaller_lists(items):
    """lists obtained by one local reduction at any depth"""
    n = len(items)
    for i in range(n):
        yield items[:i] + items[i + 1:]
    for i, it in enumerate(items):
        k = it[0]
        pre, suf = items[:i], items[i + 1:]
        subs = []
        if k == 'G':
            yield pre + list(it[1]) + suf
            subs = [(it[1], lambda b, it=it: ('G', b))]
        elif k == 'F':
            yield pre + list(it[2]) + suf
            subs = [(it[2], lambda b, it=it: ('F', it[1], b))]
        elif k == 'E':
            yield pre + list(it[3]) + suf
            subs = [(it[3], lambda b, it=it: ('E', it[1], it[2], b))]
            for ai, a in enumerate(it[2]):
                if a[0] == 'br':
                    yield pre + [('E', it[1], it[2][:ai] + [('absent',)] + it[2][ai + 1:], it[3])] + suf
        elif k == 'M':
            for ai, a in enumerate(it[3]):
                if a[0] in ('grp', 'br'):
                    yield pre + list(a[1]) + suf
                    subs.append((a[1], lambda b, it=it, ai=ai, a=a: ('M', it[1], it[2], it[3][:ai] + [(a[0], b)] + it[3][ai + 1:])))
            if it[2]:
                yield pre + [('M', it[1], ' ' if it[2] != ' ' else '', it[3])] + suf
        elif k in ('T', 'C') and len(it[1]) > 1:
            yield pre + [(k, it[1][:1]) + tuple(it[2:])] + suf
        elif k in ('W', 'P') and it[1] not in (' ', '\n\n'):
            yield pre + [(k, ' ' if k == 'W' else '\n\n')] + suf
        for body, rebuild in subs:
            for b in _smaller_lists(list(body)):
                yield pre + [rebuild(b)] + suf

def shrink_candidates(c):
    o = c['o']
    dflt = mk_opts()
    if c['k'] in ('doc', 'spec'):
        d = as_tuples(c['d'])
        for cand in _smaller_lists(list(d)):
            if spectext.valid(cand):
                yield {'k': c['k'], 'd': cand, 'o': o}
    else:
        a, b = as_tuples(c['a']), as_tuples(c['b'])
        for cand in _smaller_lists(list(a)):
            if spectext.valid(cand) and spectext.self_contained(cand):
                yield dict(c, a=cand)
        for cand in _smaller_lists(list(b)):
            if spectext.valid(cand) and spectext.self_contained(cand):
                yield dict(c, b=cand)
        if c['sep'] not in (' ', '\n\n'):
            yield dict(c, sep='\n\n')
    for key in ('kc', 'kb', 'ml', 'mm'):
        if o.get(key) != dflt[key]:
            yield dict(c, o=dict(o, **{key: dflt[key]}))
    if isinstance(o['sls'], dict) or o['sls'] is None:
        for p in POLICIES:
            yield dict(c, o=dict(o, sls=p))

LEVEL_TEXT = ('Tree-level laws of the renderer model Pylx.L2T, each proved for all trees, option sets, databases and converter states: '
              'C03_append_state / C03_append / C03_append_run — rendering a concatenation is rendering the parts (second part from the state the first '
              'left) with exactly the boundary text of nodelist_to_text in between (the post-space of a bare macro node in front of a chars node '
              'unless between-macro-and-chars; C03_append_false: the plain law fails without that side condition); one law per documented rule: '
              'C03_chars (text copied, whitespace-only segments only under between-latex-constructs), C03_group_transparent / _braced, '
              'C03_format_transparent (+ C03_format_names: the eight transparent macros of the generated database), C03_symbol_macro / '
              '_specials / C03_symbol (+ kernel-checked table facts C03_table_specials, C03_table_symbols: ~ is U+00A0, -- is U+2013, --- is U+2014, '
              'quotes, & is three spaces; all 900-odd plain-string replacements are covered), C03_comment (four cases), C03_math_inline / _display / '
              '_modes, C03_presets, C03_bare_macro_space; C03_compose_tree — two blocks joined by a paragraph break or a whitespace-only segment. '
              'String level (PylxProofs/C03S*.lean): C03_full_core — for EVERY option set (all math modes, every strict_latex_spaces policy incl. '
              'arbitrary dictionaries, keep_comments, keep_braced_groups with any minimum length), all library oracles and every document d of the '
              'core sublanguage (CoreText) inside the decidable fragment Doc.Core (2128 of the 2203 distinct WF documents of a quick run, 96.6 %): latexToText(unparse d) = '
              'specText d.  Proved in four steps, each a theorem: C02x_core_exact (the strict parse of unparse d is EXACTLY the tree d was written '
              'with: every chars node incl. whitespace-only ones, macro post-spaces, comments and their post-spaces, delimiters, argument lists '
              'with absent slots, source slices of formulas / environments; only positions and parsing states forgotten; no two adjacent chars '
              'nodes), C03_exact_roundtrip (the tolerant parse latex_to_text runs returns the same tree, via C06_agree), C03_render_erase_congr '
              '(the renderer depends on a node tree only through that position-free tree, for all trees / options / databases), renderX_spec + '
              'C03_string_level (rule by rule, by induction over the derivation, the rendering of the exact tree is specText — for any text '
              'database and walker context satisfying the decidable facts dbOk / specOk), default_dbOk + default_tableOk (those facts for the two '
              'generated default databases, decide +kernel).  C03_full (every WF core document) is a proposition; postSpaceInCall_of_WF shows '
              'its earlier helper hypothesis is implied by the repaired Doc.WF (dropped).  C03_instances still checks two documents by kernel '
              'evaluation.  The Lean specText is tied to the harness spec_text (SPEC), the model to the implementation (L2T), and the '
              'implementation is tested against spec_text and against the composition law for self-contained blocks.')
LEVEL_NOTE = ('C03_full is proved on Doc.Core (C03_full_core); outside it (an absent optional argument directly in front of a paragraph break, '
              '\\begin or \\end, where the round trip C02 is not proved) it rests on the SPEC / L2T correspondences and the specification oracle; '
              'the composition law at string level rests on the oracle (hand-written block pairs x separators x policies x math modes, random '
              'blocks); accents: NFC is a library oracle; fill_text outside; Lean kernel + propext/Classical.choice/Quot.sound')
TECHNIQUE = 'Lean 4 proof (algebraic laws of the renderer model) + L2T correspondence + specification oracle + composition-law oracle'
