# C09 — parsing is a pure function of input, context and flags.
#
# A case is a *history*: a list of parse calls made one after the other in ONE process, sharing one context
# database object per context and the process-wide cache of standard-argument parsers.
#
#   case = {'ctxs': [<'A'|'B'|'C'|'default'| inline ctx JSON>...],      databases of the history, built lazily at first use
#           'calls': [[db index, tolerant, input]...],
#           'via_cache': bool,      the `[` argument without pre-space of the custom contexts is obtained through
#                                   get_standard_argument_parser('[', allow_pre_space=False) instead of a private instance
#           'fresh': 0 | seed}      != 0: every call is additionally evaluated in a brand-new interpreter
#                                   (/venv/bin/python, PYTHONHASHSEED=seed)
#
# How a history is executed (run_impl).  The process that evaluates cases (a pool worker of harness/check.py) never
# parses anything itself and never builds a database; it only imports pylatexenc.  For each case it forks a
# *history process* H.  H first checks that it is pristine (parser cache empty), then
#   (b) for every distinct call of the history forks a child that builds the call's database and makes exactly
#       that one call: the reference result "same call in a fresh process" (a forked copy of a process in which
#       nothing has been parsed and no database exists is such a process; that this is the same thing as a new
#       interpreter is itself checked on the sampled cases with 'fresh' set);
#   then runs the history, and around every call takes a deep canonical dump of the database object graph
#   (categories, per-category names, identity and attributes of every spec / arguments parser / argument spec /
#   parser object reachable from it, unknown specs, chain maps, `frozen`), of the parser cache (keys, identity of
#   the instances) and of every LatexStandardArgumentParser instance in sight (constructor attributes, inner parser).
# Oracle (the property, stated on the implementation):
#   result-depends-on-history      the dump of a call differs from the dump of the same call in a fresh process
#   result-depends-on-process      ... differs from the same call in a brand-new interpreter
#   context-modified               the database dump after a call differs from the dump before it
#                                  (only `frozen` may change, and only from False to True)
#   cache-grew-unexpectedly        a cache key appeared that is not an argument type declared by the call's database
#   cache-entry-removed / -replaced
#   cached-parser-not-function-of-key   a cached instance differs from LatexStandardArgumentParser(<its key>)
#   parser-state-changed           an argument parser instance changed otherwise than by creating its inner parser,
#                                  or the inner parser is not the one a new instance would create, or it changed later
# Correspondence: the same history through the model (`HIST`, Pylx.World.runHist): results of all calls, the set of
# argument types declared by the databases used (re-introspected from the live objects after the history), `frozen`.
import os, sys, json, itertools, subprocess
_H = os.path.dirname(os.path.dirname(os.path.abspath(__file__)))
if _H not in sys.path:
    sys.path.insert(0, _H)
import gen, ctxdesc, parsecase
from common import wire

THEOREMS = ['Pylx.World.C09_noninterference', 'Pylx.World.C09_history', 'Pylx.World.C09_order_irrelevant',
            'Pylx.World.C09_ctx_unchanged', 'Pylx.World.C09_cache_monotone', 'Pylx.World.C09_inventory_accounted',
            'Pylx.World.C09_asIs_interference']
RULE = ('HIST: histories of parse calls (strict and tolerant mixed) in one process sharing one database object per context and the '
        'global argument-parser cache: [d1, d2, d1] for all ordered pairs of a document pool per context (every standard argument type '
        'm o s t r d v, nested verbatim, legacy \\verb, verbatim/math environments, math, faults), all orderings of 3- and 4-document sets, '
        'random interleavings over the contexts A, B, C and default with pool documents and token soups; each call compared with the '
        'model, with the same call in a fresh (forked, never-parsed) process, on a sample with a brand-new interpreter under another '
        'hash seed; deep dumps of database, parser cache and parser instances before/after every call; '
        'sig = contexts x outcome classes of the history')
TRUSTED = ['parser model Pylx.parseTop (tied by the PARSE correspondences of C01/C05/C06)',
           'translate/stateinventory.py (ast scan; class table explicit, unknown classes and names fail closed)',
           'closed world: standard argument types; user-defined parser classes and callables with their own state are outside',
           'the over-approximation of which parser instances a call creates (any subset of the declared ones: Reachable quantifies over all)']
ASSUMPTIONS = ['one LatexWalker per call (the walker caches line numbers of its own input)',
               'a forked copy of a process that has imported pylatexenc but never parsed is a fresh process (validated on the sampled cases against new interpreters)']
TRIVIAL_SIGS = ()
CASE_TIMEOUT = 60.0
MODE = os.environ.get('VERIF_C09_MODE', 'rep')     # 'asis': compare with the model of the tree before the repair

# ---------------------------------------------------------------- documents

POOL_CUSTOM = [
    '\\m{a}', '\\mm{a}b', '\\m a', '\\o[x]{y}', '\\o {y}', '\\o [x]{y}', '\\s*', '\\s', '\\so*[x]{y}', '\\t+', '\\t', '\\r(a)', '\\r a',
    '\\d<x>{y}', '\\d{y}', '\\v{a{b}c}d', '\\v|a|', '\\v{a}', '\\v[a[b]c]e', '\\v{a{b}c', '\\v{a{b', '\\vd(a(b)c)d', '\\vd x', '\\vd(a',
    '\\verb|x{|', '\\verb', '\\\\*[x]', '\\\\ [x]', '\\\\[x]', '\\begin{e}a\\end{e}', '\\begin{ea}[x]{y}z\\end{ea}',
    '\\begin{eq}x\\m{a}\\end{eq}', '\\begin{es}*\\tx{a}\\end{es}', '\\begin{verbatim}a{\\end{verbatim}', '\\begin{lst}[o]x\\end{lst}',
    '$a$', '\\(a\\)', '$$a$$', '\\[a\\]', '{a}', '}', '{', '\\om[a]{b}', '\\tx{$a$}', '\\mt{a}', '%c\na', '~', '``', '!', '![x]', '\\unk',
    '\\begin{u}\\end{u}', '\\v{a{b}c}\\v{d{e}f}g', '\\oo[a][b]', '\\z', 'a\n\nb', '\\m', '\\v',
]
POOL_C = ['\\m{a}', '\\d<a>', '\\d', '\\r[a]', '\\r', '\\v{a{b}c}d', '\\v|a|', '\\v{a{b', '\\begin{e}{x}y\\end{e}', '\\unk[x]', '\\unk [x]', '\\unk',
          '\\begin{u}*x\\end{u}', '$a$', '}', '\\v{a{b}c}\\v{d{e}f}']
POOL_DEFAULT = [
    '\\textbf{a}', '\\\\ [x]', '\\\\[x]', '\\\\*', '\\verb|a{|', '\\verb', '\\begin{verbatim}x{\\end{verbatim}', '\\begin{equation}a\\end{equation}',
    '\\frac{a}{b}', '\\frac a', '\\sqrt[3]{x}', '\\item[a] b', '$a$', '\\[a\\]', '\\begin{itemize}\\item a\\end{itemize}', '\\section*{x}',
    '\\section [x]{y}', '\\x', '\\begin{lstlisting}[a]x\\end{lstlisting}', '\\newcommand*{\\a}[1][x]{y}', '}', '{a', '\\begin{u}a\\end{u}',
    '%c\n', '~', '``a\'\'', '\\text{a $b$}', '\\begin{array}{c}a\\end{array}', '\\includegraphics[w]{f}', '\\mbox{$a$}', 'a\n\nb',
]
def pool(name):
    return POOL_DEFAULT if name == 'default' else (POOL_C if name == 'C' else POOL_CUSTOM)

CTX_NAMES = ['A', 'B', 'C', 'default']

def ctx_of(x):
    return gen.CONTEXTS[x] if isinstance(x, str) and x in gen.CONTEXTS else x

def ctx_letter(x):
    return x[0] if isinstance(x, str) else 'i'

# ---------------------------------------------------------------- generators

def mk(ctxs, calls, rng, via=None, fresh=0):
    return {'ctxs': ctxs, 'calls': [[i, bool(t), s] for i, t, s in calls],
            'via_cache': bool(rng.randint(0, 1)) if via is None else via, 'fresh': fresh}

def cases(tier, rng):
    # targeted histories first; the rest in a seeded random order so that the expensive histories (default database,
    # new-interpreter samples) are spread evenly over the worker processes
    cs = list(_cases(tier, rng))
    head, rest = cs[:4], cs[4:]
    rng.shuffle(rest)
    return head + rest

def extending_ctx(how):
    S = lambda *k: ['S', [[x, ''] for x in k]]
    return {'macros': [['emph', S('m')], ['o', S('o1', 'm')]], 'envs': [], 'specials': [['~', S()]], 'um': S(), 'ue': None,
            'provide': ['greet', S('m')], 'how': how}

def _extending_cases(rng):
    """a \\newcommand-like macro extends the context for the rest of ONE parse; the caller's database and later parses
    must not see the definition (oracle only: the Lean context type has no such spec)"""
    docs = ['\\provide \\greet{you}', '\\greet{world} and \\emph{x}', 'a\\provide{b}\\greet{c}~\\greet', '\\emph{\\provide\\greet{x}}\\greet{y}', '\\greet{z}']
    for how in ('add_none', 'extended', 'named'):
        ctx = extending_ctx(how)
        for a in docs:
            for b in docs:
                yield mk([ctx], [(0, 0, a), (0, 0, b), (0, 1, a)], rng, via=False)
        yield mk([ctx, ctx], [(0, 0, docs[0]), (1, 0, docs[1]), (0, 0, docs[1]), (1, 1, docs[2])], rng, via=False)
    # an environment with a long-lived body delta (definitions + fallback spec), used several times in one document and over parses
    bctx = dict(extending_ctx('named'), bodydelta=True)
    bdocs = ['\\foo{x} \\begin{defs}\\item \\baz{w}{v}\\end{defs} \\foo{x}', '\\begin{defs}\\item[a] \\foo{x} and \\bar{y}z\\end{defs}',
             'A \\begin{defs}\\begin{defs}\\qux{1}\\end{defs}\\qux{2}\\end{defs}', '\\begin{defs}\\a{1}\\end{defs}\\begin{defs}\\b{2}\\end{defs}', '\\emph{q}']
    for a in bdocs:
        for b in bdocs:
            for t1 in (0, 1):
                yield mk([bctx], [(0, t1, a), (0, 0, b), (0, t1, a)], rng, via=False)

def _cases(tier, rng):
    for c in _extending_cases(rng):
        yield c
    quick = tier == 'quick'
    # 0. the historical defect and its relatives (second parse with a shared cached verbatim parser)
    vv = {'macros': [['vv', ['S', [['v', '']]]]], 'envs': [], 'specials': [], 'um': None, 'ue': None}
    yield mk([vv], [(0, False, '\\vv{a{b}c}d'), (0, False, '\\vv{a{b}c}d')], rng, via=False, fresh=7)
    yield mk([vv, 'C'], [(0, False, '\\vv{a{b'), (1, False, '\\v{a{b}c}d'), (0, True, '\\vv{a}{')], rng, via=False)
    yield mk(['C', 'A'], [(0, False, '\\unk [x]'), (1, False, '\\\\ [x]'), (1, False, '\\o [x]{y}')], rng, via=True, fresh=11)
    yield mk(['A', 'C'], [(0, False, '\\\\ [x]'), (1, False, '\\unk [x]'), (0, False, '\\o [x]{y}')], rng, via=True)
    # 0b. histories of FAILING parses: strict-mode errors raised deep inside nested groups / formulas / environments / arguments
    #     (the caller catches them), many times over, then ordinary documents — nothing a failed parse touched on its way out
    #     may be left behind in the process
    deep = lambda n, inner: '{[$' * 0 + ''.join(['{', '\\textbf{', '$', '\\begin{center}', '[', '\\emph{'][k % 6] for k in range(n)) + inner
    bads = [deep(24, '\\end{zz}'), deep(18, '}}]'), deep(30, '\\)'), deep(12, '\\begin'), '{' * 30 + '\\end{q}' + '}' * 30, deep(20, '\\verb')]
    goods = ['Hello {\\textbf{world} and $x^{2}$}, see \\begin{center}{a} [b]\\end{center}.', '\\section[short]{A {nested} title} text \\emph{more {text}}',
             '{a}', '$x$', '\\textbf{b}', '\\begin{center}c\\end{center}', '\\sqrt[3]{x}']
    for rep in (3, 12):
        for b in bads:
            yield mk(['default'], [(0, 0, goods[0])] + [(0, 0, b)] * rep + [(0, rng.randint(0, 1), g) for g in goods], rng, via=False)
    yield mk(['default'], [(0, 0, b) for b in bads] * 3 + [(0, 0, g) for g in goods] + [(0, 1, g) for g in goods], rng, via=False, fresh=13)
    yield mk(['A', 'default'], [(rng.randint(0, 1), 0, '{' * 20 + '\\end{e}') for _ in range(8)] + [(0, 0, '\\m{a}{b}'), (1, 0, goods[1]), (0, 1, '{x}\\o[y]{z}')], rng, via=True)
    # 1. [d1, d2, d1] for ordered pairs of pool documents, per context
    for name in CTX_NAMES:
        P = pool(name)
        pairs = list(itertools.product(range(len(P)), repeat=2))
        if quick:
            rng.shuffle(pairs)
            pairs = pairs[:500 if name in ('A', 'default') else 250]
        for a, b in pairs:
            t1, t2 = rng.randint(0, 1), rng.randint(0, 1)
            yield mk([name], [(0, t1, P[a]), (0, t2, P[b]), (0, t1, P[a])], rng)
    # 2. all orderings of small document sets (3 and 4 documents), modes fixed per document
    nsets3 = 60 if quick else 400
    nsets4 = 8 if quick else 60
    for k, nsets in ((3, nsets3), (4, nsets4)):
        for _ in range(nsets):
            name = rng.choice(CTX_NAMES)
            docs = [(rng.randint(0, 1), d) for d in rng.sample(pool(name), k)]
            # always one verbatim-argument document in the custom contexts
            if name != 'default' and not any('\\v' in d for _, d in docs):
                docs[0] = (docs[0][0], rng.choice(['\\v{a{b}c}d', '\\v[a[b]c]e', '\\v{a{b']))
            via = bool(rng.randint(0, 1))
            for perm in itertools.permutations(docs):
                yield mk([name], [(0, t, d) for t, d in perm], rng, via=via)
    # 3. random interleavings over all contexts (shared cache), pool documents and soups
    n = 500 if quick else 6000
    for j in range(n):
        ctxs = list(CTX_NAMES)
        rng.shuffle(ctxs)
        ctxs = ctxs[:rng.randint(2, 4)]
        L = rng.randint(3, 10) if quick else rng.randint(3, 40)
        calls = []
        for _ in range(L):
            i = rng.randrange(len(ctxs))
            if calls and rng.random() < 0.25:
                calls.append(rng.choice(calls))          # repeat an earlier call verbatim
                continue
            if rng.random() < 0.7:
                s = rng.choice(pool(ctxs[i]))
            else:
                s = gen.soup(rng, gen.atoms_for(ctxs[i] if ctxs[i] == 'default' else 'A'), 8)
            calls.append((i, rng.randint(0, 1), s))
        yield mk(ctxs, calls, rng, fresh=(rng.randint(1, 10**6) if j % (25 if quick else 150) == 0 else 0))

def to_line(c):
    if any(ctxdesc.has_unmodelled(ctx_of(x)) for x in c['ctxs']):
        return None
    f = ['HIST', MODE, str(len(c['ctxs']))] + [ctxdesc.enc_ctx(ctx_of(x)) for x in c['ctxs']]
    for i, tol, s in c['calls']:
        f += [str(i), 'T' if tol else 'F', '', wire(s)]
    return '\t'.join(f)

# ---------------------------------------------------------------- inside the history process

def _make_argspec_list_via_cache(specs):
    from pylatexenc.latexnodes import LatexArgumentSpec, ParsingStateDeltaEnterMathMode, ParsingStateDeltaLeaveMathMode
    from pylatexenc.latexnodes.parsers import get_standard_argument_parser
    out = []
    for kind, delta in specs:
        d = None
        if delta == '+':
            d = ParsingStateDeltaEnterMathMode()
        elif delta == '-':
            d = ParsingStateDeltaLeaveMathMode()
        if kind == 'o1':
            p = '['
        elif kind == 'o0':
            p = get_standard_argument_parser('[', allow_pre_space=False)
        elif kind[0] == 'V':
            p = 'v' + kind[1:]
        else:
            p = kind
        out.append(LatexArgumentSpec(p, parsing_state_delta=d))
    return out

def build_db(ctx, via_cache):
    if via_cache and ctx != 'default':
        ctxdesc.make_argspec_list = _make_argspec_list_via_cache
    return ctxdesc.make_db(ctx)

def one_call(db, tol, s):
    from pylatexenc import latexwalker
    from pylatexenc.latexnodes import parsers
    w = latexwalker.LatexWalker(s, latex_context=db, tolerant_parsing=tol)
    try:
        nl, delta = w.parse_content(parsers.LatexGeneralNodesParser())
        return parsecase.show_result('ok', nl)
    except latexwalker.LatexWalkerParseError as e:
        return parsecase.show_result('err', e)
    except RecursionError:
        return 'RECURSION'
    except Exception as e:
        return parsecase.show_result('crash', e)

class Canon(object):
    """deep canonical (JSON-able) dump of an object graph; identity of every object with attributes is part of the dump"""
    def __init__(self, with_ids, mask_inner=True):
        self.with_ids = with_ids
        self.mask_inner = mask_inner
        self.stdarg = {}        # id -> instance, every LatexStandardArgumentParser met
    def dump(self, o, stack=()):
        from pylatexenc.latexnodes.parsers import LatexStandardArgumentParser
        if o is None or isinstance(o, (bool, int, float, str)):
            return o
        if isinstance(o, (list, tuple)):
            return [type(o).__name__] + [self.dump(x, stack) for x in o]
        if isinstance(o, dict):
            return {'__dict__': [[self.dump(k, stack), self.dump(v, stack)] for k, v in o.items()]}      # order is part of the state
        if isinstance(o, (set, frozenset)):
            return {'__set__': sorted(repr(x) for x in o)}
        if isinstance(o, type) or callable(o) and not hasattr(o, '__dict__'):
            return '<%s>' % getattr(o, '__qualname__', repr(type(o)))
        if id(o) in stack:
            return '<cycle %s>' % type(o).__name__
        if type(o).__name__ == 'ChainMap' or hasattr(o, 'maps') and isinstance(getattr(o, 'maps'), list):
            return {'__chainmap__': [self.dump(m, stack + (id(o),)) for m in o.maps]}
        d = getattr(o, '__dict__', None)
        if d is None:
            return '<%s %r>' % (type(o).__name__, o)
        if callable(o) and not isinstance(o, LatexStandardArgumentParser) and type(o).__name__ in ('function', 'method'):
            return '<function %s>' % getattr(o, '__qualname__', '?')
        out = {'__class__': type(o).__module__ + '.' + type(o).__qualname__}
        if self.with_ids:
            out['__id__'] = id(o)
        is_std = isinstance(o, LatexStandardArgumentParser)
        if is_std:
            self.stdarg[id(o)] = o
        for k in d:
            if is_std and k == '_arg_parser' and self.mask_inner:
                continue
            out[k] = self.dump(d[k], stack + (id(o),))
        return out

def dump_db(db):
    c = Canon(True)
    return c.dump(db), c.stdarg

def stdarg_state(inst):
    """(constructor attributes, inner parser dump or None) of a LatexStandardArgumentParser, without identities"""
    c = Canon(False, mask_inner=True)
    attrs = c.dump(inst)
    inner = None if inst._arg_parser is None else Canon(False, mask_inner=False).dump(inst._arg_parser)
    return attrs, inner

def expected_inner(inst):
    """the inner parser a new instance with the same constructor arguments creates"""
    try:
        return Canon(False, mask_inner=False).dump(type(inst).get_arg_parser_instance(inst, inst.arg_spec))
    except Exception as e:
        return '<raises %s>' % type(e).__name__

def key_kind(k):
    """cache key -> the context descriptor's name of the argument type (None: not a standard type)"""
    kw = {}
    if isinstance(k, tuple):
        try:
            kw = dict(k)
        except Exception:
            return None
        k = kw.pop('arg_spec', None)
    if not isinstance(k, str):
        return None
    aps = kw.pop('allow_pre_space', True)
    if kw:
        return None
    if k in ('m', '{'): return 'm' if aps else None
    if k in ('o', '['): return 'o1' if aps else 'o0'
    if not aps: return None
    if k in ('s', '*'): return 's'
    if len(k) == 2 and k[0] == 't': return k
    if len(k) == 3 and k[0] in 'rd': return k
    if k == 'v': return 'v'
    if len(k) == 3 and k[0] == 'v': return 'V' + k[1:]
    return None

def expected_for_key(k):
    from pylatexenc.latexnodes.parsers import LatexStandardArgumentParser
    if isinstance(k, tuple):
        kw = dict(k)
        return LatexStandardArgumentParser(**kw)
    return LatexStandardArgumentParser(k)

def declared_kinds(ctxj):
    out = []
    def add(a):
        if a and a[0] == 'S':
            for kind, delta in a[1]:
                if kind not in out:
                    out.append(kind)
    for n, a in ctxj['macros']: add(a)
    for n, a, bm in ctxj['envs']: add(a)
    for n, a in ctxj['specials']: add(a)
    add(ctxj.get('um'))
    if ctxj.get('ue'): add(ctxj['ue'][0])
    return out

def fork_eval(fn):
    """run fn() in a forked child, return its JSON result"""
    r, w = os.pipe()
    pid = os.fork()
    if pid == 0:
        try:
            os.close(r)
            try:
                res = {'ok': fn()}
            except BaseException as e:
                import traceback
                res = {'exc': '%s: %s @ %s' % (type(e).__name__, e, traceback.format_exc()[-800:])}
            with os.fdopen(w, 'w') as f:
                json.dump(res, f)
        finally:
            os._exit(0)
    os.close(w)
    with os.fdopen(r) as f:
        data = f.read()
    os.waitpid(pid, 0)
    if not data:
        return {'exc': 'child died without a result'}
    return json.loads(data)

def history_process(c):
    """runs inside the forked history process; returns a JSON-able record"""
    import logging
    logging.getLogger('pylatexenc').addHandler(logging.NullHandler())
    sys.setrecursionlimit(1000)
    from pylatexenc.latexnodes.parsers import _stdarg
    cache = _stdarg._std_arg_parser_instances
    if len(cache):
        return {'not_pristine': 'parser cache holds %r before the history starts' % (list(cache.keys()),)}
    ctxs = [ctx_of(x) for x in c['ctxs']]
    via = c.get('via_cache', False)
    # (b) reference results: each distinct call alone in a fresh (forked, pristine) process
    ref = {}
    for i, tol, s in c['calls']:
        k = json.dumps([i, tol, s])
        if k not in ref:
            def alone(i=i, tol=tol, s=s):
                return one_call(build_db(ctxs[i], via), tol, s)
            ref[k] = fork_eval(alone)
    # the history
    dbs = [None] * len(ctxs)
    steps = []
    problems = []
    insts = {}     # id -> (instance, attrs, inner) of every LatexStandardArgumentParser seen so far
    for n, (i, tol, s) in enumerate(c['calls']):
        if dbs[i] is None:
            dbs[i] = build_db(ctxs[i], via)
        db = dbs[i]
        before, std_b = dump_db(db)
        keys_b = [(k, id(v)) for k, v in cache.items()]
        for o in list(std_b.values()) + list(cache.values()):
            if id(o) not in insts:
                insts[id(o)] = (o,) + stdarg_state(o)
        out = one_call(db, tol, s)
        after, std_a = dump_db(db)
        keys_a = [(k, id(v)) for k, v in cache.items()]
        # -- context
        fb, fa = before.get('frozen'), after.get('frozen')
        b2 = dict(before); a2 = dict(after)
        b2.pop('frozen', None); a2.pop('frozen', None)
        if b2 != a2:
            problems.append({'kind': 'context-modified', 'call': n, 'detail': first_diff(b2, a2)})
        if fa is not True:
            problems.append({'kind': 'context-modified', 'call': n, 'detail': 'frozen is %r after the call (was %r)' % (fa, fb)})
        # -- cache
        kb = dict((repr(k), v) for k, v in keys_b)
        ka = dict((repr(k), v) for k, v in keys_a)
        for k in kb:
            if k not in ka:
                problems.append({'kind': 'cache-entry-removed', 'call': n, 'detail': k})
            elif ka[k] != kb[k]:
                problems.append({'kind': 'cache-entry-replaced', 'call': n, 'detail': k})
        decl = set(declared_kinds(ctxs[i] if ctxs[i] != 'default' else DEFAULT_JSON()))
        for k, v in keys_a:
            if repr(k) not in kb:
                kk = key_kind(k)
                if kk is None or kk not in decl:
                    problems.append({'kind': 'cache-grew-unexpectedly', 'call': n,
                                     'detail': 'key %r (argument type %r) is not declared by the database of the call' % (k, kk)})
        for k, v in cache.items():
            try:
                exp = stdarg_state(expected_for_key(k))[0]
            except Exception as e:
                exp = '<raises %s>' % type(e).__name__
            got = stdarg_state(v)[0]
            if exp != got:
                problems.append({'kind': 'cached-parser-not-function-of-key', 'call': n,
                                 'detail': 'key %r: %s' % (k, first_diff(exp, got))})
        # -- parser instances
        for o in list(std_a.values()) + list(cache.values()):
            if id(o) not in insts:
                insts[id(o)] = (o,) + stdarg_state(o)
        for oid, (o, attrs, inner) in list(insts.items()):
            attrs2, inner2 = stdarg_state(o)
            if attrs2 != attrs:
                problems.append({'kind': 'parser-state-changed', 'call': n,
                                 'detail': '%s(%r): %s' % (type(o).__name__, o.arg_spec, first_diff(attrs, attrs2))})
            if inner is not None and inner2 != inner:
                problems.append({'kind': 'parser-state-changed', 'call': n,
                                 'detail': 'inner parser of %r: %s' % (o.arg_spec, first_diff(inner, inner2))})
            if inner is None and inner2 is not None:
                exp = expected_inner(o)
                if exp != inner2:
                    problems.append({'kind': 'parser-state-changed', 'call': n,
                                     'detail': 'inner parser of %r right after its creation: %s' % (o.arg_spec, first_diff(exp, inner2))})
            insts[oid] = (o, attrs2, inner2)
        steps.append(out)
    # final summary for the correspondence: declared argument types re-introspected from the live objects, frozen flags
    keys = []
    for i, tol, s in c['calls']:
        for kind in declared_kinds(ctxdesc.introspect_db(dbs[i])):
            if kind not in keys:
                keys.append(kind)
    frozen = ''.join('F' if d is None else ('T' if d.frozen is True else 'F') for d in dbs)
    return {'steps': steps, 'ref': ref, 'problems': problems,
            'keys': [ctxdesc.enc_spec([k, '']) for k in keys], 'frozen': frozen,
            'cache_keys': [repr(k) for k in cache.keys()]}

_DEFAULT_JSON = None
def DEFAULT_JSON():
    global _DEFAULT_JSON
    if _DEFAULT_JSON is None:
        _DEFAULT_JSON = ctxdesc.introspect_db(ctxdesc.make_db('default'))
    return _DEFAULT_JSON

def first_diff(a, b, path=''):
    if type(a) != type(b):
        return '%s: %s -> %s' % (path or '.', short(a), short(b))
    if isinstance(a, dict):
        for k in a:
            if k not in b:
                return '%s: attribute %r disappeared' % (path or '.', k)
        for k in b:
            if k not in a:
                return '%s: new attribute %r = %s' % (path or '.', k, short(b[k]))
        for k in a:
            if a[k] != b[k]:
                return first_diff(a[k], b[k], path + '.' + str(k))
        return '%s: differs' % path
    if isinstance(a, list):
        if len(a) != len(b):
            return '%s: length %d -> %d (%s -> %s)' % (path or '.', len(a), len(b), short(a), short(b))
        for j, (x, y) in enumerate(zip(a, b)):
            if x != y:
                return first_diff(x, y, path + '[%d]' % j)
        return '%s: differs' % path
    return '%s: %s -> %s' % (path or '.', short(a), short(b))

def short(x):
    s = json.dumps(x, default=str)
    return s if len(s) <= 160 else s[:157] + '...'

# ---------------------------------------------------------------- brand-new interpreter (sampled cases)

def really_fresh(c):
    """every distinct call of the history in its own new interpreter; returns {key: dump}"""
    out = {}
    env = dict(os.environ)
    env['PYTHONHASHSEED'] = str(c['fresh'] % 4294967295)
    here = os.path.abspath(__file__)
    for i, tol, s in c['calls']:
        k = json.dumps([i, tol, s])
        if k in out:
            continue
        req = json.dumps({'ctx': ctx_of(c['ctxs'][i]), 'via_cache': c.get('via_cache', False), 'tol': tol, 's': s})
        p = subprocess.run([sys.executable, here, '--fresh-call'], input=req, stdout=subprocess.PIPE, stderr=subprocess.PIPE,
                           text=True, env=env, timeout=120)
        out[k] = p.stdout.strip() if p.returncode == 0 else 'SUBPROCESS-FAILED rc=%d %s' % (p.returncode, p.stderr[-300:])
    return out

def _fresh_call_main():
    req = json.load(sys.stdin)
    import logging
    logging.getLogger('pylatexenc').addHandler(logging.NullHandler())
    sys.setrecursionlimit(1000)
    sys.stdout.write(one_call(build_db(req['ctx'], req['via_cache']), req['tol'], req['s']) + '\n')

# ---------------------------------------------------------------- the check

def outcome_class(d):
    return 'ok' if d.startswith('ok') else ('none' if d == 'None' else ('err' if d.startswith('ERR') else 'crash'))

def run_impl(c):
    import pylatexenc.latexwalker, pylatexenc.macrospec, pylatexenc.latexnodes.parsers      # import only: nothing is parsed in this process
    r = fork_eval(lambda: history_process(c))
    if 'exc' in r:
        return {'out': 'HARNESS-EXC', 'fail': {'kind': 'harness-exception', 'detail': r['exc']}, 'sig': 'harness-exc'}
    r = r['ok']
    if 'not_pristine' in r:
        return {'out': 'HARNESS-EXC', 'fail': {'kind': 'harness-not-pristine', 'detail': r['not_pristine']}, 'sig': 'harness-exc'}
    steps = r['steps']
    out = ' ;; '.join(steps) + ' || keys=[' + ' '.join(r['keys']) + '] frozen=[' + r['frozen'] + ']'
    fail = None
    for n, (i, tol, s) in enumerate(c['calls']):
        ref = r['ref'][json.dumps([i, tol, s])]
        if 'exc' in ref:
            fail = {'kind': 'harness-exception', 'detail': 'fresh evaluation failed: ' + ref['exc']}
            break
        if ref['ok'] != steps[n]:
            fail = {'kind': 'result-depends-on-history', 'call': n,
                    'detail': 'call %d (%s, %r): in this history %s ; alone in a fresh process %s' % (
                        n, 'tolerant' if tol else 'strict', s, steps[n][:300], ref['ok'][:300])}
            break
    if fail is None and r['problems']:
        p = r['problems'][0]
        fail = {'kind': p['kind'], 'call': p['call'], 'detail': 'call %d %r: %s' % (p['call'], c['calls'][p['call']][2], p['detail'])}
    if fail is None and c.get('fresh'):
        rf = really_fresh(c)
        for n, (i, tol, s) in enumerate(c['calls']):
            d = rf[json.dumps([i, tol, s])]
            if d != steps[n]:
                fail = {'kind': 'result-depends-on-process', 'call': n,
                        'detail': 'call %d (%r): in this history %s ; in a new interpreter (PYTHONHASHSEED=%s) %s' % (
                            n, s, steps[n][:300], c['fresh'], d[:300])}
                break
    sig = ','.join(sorted(set(ctx_letter(c['ctxs'][i]) + (':T:' if tol else ':S:') + outcome_class(steps[n])
                              for n, (i, tol, s) in enumerate(c['calls']))))
    return {'out': out, 'fail': fail, 'sig': sig}

def shrink_candidates(c):
    calls = c['calls']
    # drop calls
    if len(calls) > 1:
        for j in range(len(calls)):
            d = dict(c); d['calls'] = calls[:j] + calls[j+1:]
            yield d
    # drop unused contexts
    used = sorted(set(i for i, _, _ in calls))
    if len(used) < len(c['ctxs']):
        ren = dict((o, n) for n, o in enumerate(used))
        d = dict(c); d['ctxs'] = [c['ctxs'][o] for o in used]; d['calls'] = [[ren[i], t, s] for i, t, s in calls]
        yield d
    if c.get('fresh'):
        d = dict(c); d['fresh'] = 0
        yield d
    # shorten inputs
    for j, (i, t, s) in enumerate(calls):
        for L in (8, 4, 2, 1):
            if L > len(s):
                continue
            for a in range(0, len(s) - L + 1):
                d = dict(c); d['calls'] = calls[:j] + [[i, t, s[:a] + s[a+L:]]] + calls[j+1:]
                yield d
    # smaller contexts
    for x, name in enumerate(c['ctxs']):
        ctx = ctx_of(name)
        if ctx == 'default':
            continue
        for key in ('macros', 'envs', 'specials'):
            for k in range(len(ctx[key])):
                d = dict(c); cs = list(c['ctxs']); cc = dict(ctx); cc[key] = ctx[key][:k] + ctx[key][k+1:]
                cs[x] = cc; d['ctxs'] = cs
                yield d

def extra_evidence():
    sys.path.insert(0, os.path.join(os.path.dirname(os.path.dirname(os.path.dirname(os.path.abspath(__file__)))), 'translate'))
    import stateinventory, common
    r = stateinventory.scan_repo(common.REPO)
    return {'state_inventory': {'module_state': r['module_state'], 'shared_stores': r['shared'], 'walker_stores': r['walker'],
                                'call_sites_of_state_changing_methods': r['call_sites'], 'constructor_helpers': r['ctor_helpers'],
                                'per_parse_stores': len(r['perparse']), 'value_stores': len(r['value'])}}

LEVEL_TEXT = ('Theorems about Pylx.World, the model of exactly the state that outlives a parse (process-wide cache of standard-argument parsers, '
              'each instance\'s lazily created inner parser, the databases and their frozen flags): C09_noninterference — in every world reachable by '
              'any sequence of calls (each having created any subset of the parsers its database declares) a call returns what it returns in a fresh '
              'process; C09_history / C09_order_irrelevant — the same for whole histories and for any two prefixes; C09_ctx_unchanged — a call leaves '
              'the content of every database unchanged, frozen only goes false to true for the call\'s database; C09_cache_monotone — entries are never '
              'removed or replaced and stay a function of their key; C09_inventory_accounted — the inventory of module-level containers, attribute '
              'stores outside construction on long-lived objects and call sites of database builder methods, regenerated from the source by an ast '
              'scan on every run, is contained in the model\'s allow-list (kernel-evaluated), so a new store breaks the proof; '
              'C09_asIs_interference — kernel-checked witness that the tree before the repair violated the property.')
LEVEL_NOTE = ('the model reads the world (argument specifications are resolved through the world\'s instances), purity is a theorem about well-formed '
              'worlds; closed world of standard argument types; which instances a call creates is over-approximated (all subsets quantified); '
              'tie: inventory translator + HIST correspondence + fresh-process oracle; Lean kernel + propext/Classical.choice/Quot.sound')
TECHNIQUE = 'Lean 4 proof (non-interference over reachable worlds) + regenerated state inventory + HIST correspondence + fresh-process oracle'

if __name__ == '__main__':
    if '--fresh-call' in sys.argv:
        _fresh_call_main()
