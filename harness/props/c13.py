# C13 — encoded text is inert, strictly parseable, ASCII-only when asked.
#
# Case descriptor (JSON):
#   {'k': 'encp', 's': str, 'table': 'defaults' | 'unicode-xml', 'prot': P, 'pol': Q}
#   P = 'none' | 'braces' | 'braces-all' | 'braces-almost-all' | 'braces-after-macro' | 'default' (keyword not passed)
#   Q = 'keep' | 'replace' | 'ignore' | 'fail' | 'unihex' | 'default' (keyword not passed)
#
# Driver line:  ENCP <table> <prot> <policy> F <NFC input>
#   answer:     ok "<chunk>" ... | <strict parse of the joined chunks with the default context, as for PARSE>
#               raise ValueError <hex code point>
# The model side encodes with the *generated* tables (lean/Pylx/Gen/Uni2Latex*.lean), so the line carries no table data:
# the correspondence also validates the translator.
import re, unicodedata, logging, itertools
from common import wire, show_str
import parsecase

logging.disable(logging.WARNING)

PROOF_MODULES = ['C13', 'C13Parse', 'C13Full']
THEOREMS = ['Pylx.C13.C13_table', 'Pylx.C13.C13_table_ascii', 'Pylx.C13.C13_active_neutralised', 'Pylx.C13.C13_inert',
            'Pylx.C13.C13_inert_fail', 'Pylx.C13.C13_total', 'Pylx.C13.C13_ascii', 'Pylx.C13.C13_fail_iff',
            'Pylx.C13.C13_fail_iff_encode', 'Pylx.C13.C13_keep_not_ascii',
            'Pylx.C13.C13_shapes', 'Pylx.C13.C13_parses_partial', 'Pylx.C13.C13_xml_accent_without_argument',
            'Pylx.C13.C13_parses_xml_false', 'Pylx.C13.C13_parses_none_false',
            'Pylx.C13.C13_parses_all', 'Pylx.C13.C13_parses_full_proved', 'Pylx.C13.C13_parses_xml_full_proved',
            'Pylx.C13.C13_output_doc', 'Pylx.C13.Full.doc_parses', 'Pylx.C13.Full.reach_all', 'Pylx.C13.Full.cwfI_app']
RULE = ('ENCP: UnicodeToLatexEncoder(conversion_rules=[table]) x strict parse of its output with the default context, on '
        '(every ordering of the LaTeX-active ASCII characters \\ { } $ % & # _ ^ ~ with a letter, space and newline up to the length '
        'bound; every character that has a rule in either built-in table in the contexts cX, Xc, acb; control, combining, astral, '
        'unassigned and NFC-unstable code points; random mixtures) x five protection schemes (and the default) x both tables x '
        'five policies (and the default); sig = outcome + parse outcome + node kinds present; oracle = strict parse succeeds, no '
        'comment / environment node, no math node beyond the `$` pairs contained in table replacements, lexical inertness of the '
        'text, isascii under replace/ignore/unihex, ValueError exactly when a character has no rule and is outside the pass-through range')
TRUSTED = ['unicodedata.normalize("NFC") (the model receives the normalised string)',
           'str.isalpha on replacement texts = ASCII letters (replacement texts are ASCII: theorem C13_table_ascii)',
           'translate/uni2latex.py copies the two tables into Lean; every ENCP comparison re-validates the copied entries it touches']
ASSUMPTIONS = ['no lone surrogates', 'inertness and strict parse are claimed for non_ascii_only=False (with True the ASCII characters are copied and nothing is neutralised); the ASCII-only and fail-iff clauses are checked under both settings',
               'strict parsing uses the default latex context database',
               'scheme none: strict parsing is demanded only when no control word fuses with a following letter']
TRIVIAL_SIGS = ('ok:P:C', 'ok:P:')
CASE_TIMEOUT = 10.0

TABLES = ['defaults', 'unicode-xml']
PROTS = ['braces', 'braces-all', 'braces-almost-all', 'braces-after-macro', 'none']
POLS = ['keep', 'replace', 'ignore', 'fail', 'unihex']
ACTIVE = '\\{}$%&#_^~'

NFC = lambda x: unicodedata.normalize('NFC', x)

# ------------------------------------------------------------------ the real objects

class ChunkList(object):
    def __init__(self):
        self.chunks = []
    def __iadd__(self, s):
        self.chunks.append(s)
        return self

_TABLES = {}
def builtin_table(name):
    if name not in _TABLES:
        from pylatexenc.latexencode import get_builtin_conversion_rules
        rules = get_builtin_conversion_rules(name)
        d = {}
        for r in rules:
            if r.rule_type == 0:
                for k, v in dict(r.rule).items():
                    d.setdefault(k, v)
        _TABLES[name] = d
    return _TABLES[name]

_ENC = {}
def get_encoder(table, prot, pol, warn=False, nao=False):
    """warn=True: the warning flag left at its default (the warning is logged to a NullHandler; building its text is
    part of the call and must not make the call fail)"""
    key = (table, prot, pol, warn, nao)
    if key not in _ENC:
        from pylatexenc import latexencode as le
        kw = dict(conversion_rules=[table], latex_string_class=ChunkList)
        if nao:
            kw['non_ascii_only'] = True
        if not warn:
            kw['unknown_char_warning'] = False
        if prot != 'default':
            kw['replacement_latex_protection'] = prot
        if pol != 'default':
            kw['unknown_char_policy'] = pol
        _ENC[key] = le.UnicodeToLatexEncoder(**kw)
    return _ENC[key]

def get_encoder_ruleobjs(c, warn, nao):
    """the built-in table given as the rule objects of get_builtin_conversion_rules(); the list object was first used by
    other parts of the program (another encoder, a partial encoder) — none of which may change what it means"""
    from pylatexenc import latexencode as le
    rules = le.get_builtin_conversion_rules(c['table'])
    for h in c.get('hist') or []:
        try:
            if h == 'partial':
                le.PartialLatexToLatexEncoder(conversion_rules=rules)
            elif h == 'partial-use':
                le.PartialLatexToLatexEncoder(conversion_rules=rules, unknown_char_warning=False).unicode_to_latex('a\\x{b}$c$ \u00e9')
            elif h == 'plain-none':
                le.UnicodeToLatexEncoder(conversion_rules=rules, replacement_latex_protection='none', unknown_char_warning=False).unicode_to_latex('\u00e9%{')
            elif h == 'plain-nao':
                le.UnicodeToLatexEncoder(conversion_rules=rules, non_ascii_only=True, unknown_char_policy='ignore', unknown_char_warning=False).unicode_to_latex('\u4e7e%')
        except Exception:
            pass
    kw = dict(conversion_rules=rules, latex_string_class=ChunkList)
    if nao: kw['non_ascii_only'] = True
    if not warn: kw['unknown_char_warning'] = False
    if c['prot'] != 'default': kw['replacement_latex_protection'] = c['prot']
    if c['pol'] != 'default': kw['unknown_char_policy'] = c['pol']
    return le.UnicodeToLatexEncoder(**kw)

def passes_through(ch):
    o = ord(ch)
    return (32 <= o <= 127) or ch in '\n\r\t'

# ------------------------------------------------------------------ the property's predicates, in Python

def inert_defect(t):
    """mirror of Pylx.C13.Inert: None when inert, else what is wrong"""
    esc = False; depth = 0; math = False
    for i, ch in enumerate(t):
        if esc:
            esc = False
        elif ch == '\\':
            esc = True
        elif ch == '{':
            depth += 1
        elif ch == '}':
            if depth == 0:
                return 'unescaped } without partner at %d' % i
            depth -= 1
        elif ch == '%':
            return 'unescaped %% at %d' % i
        elif ch == '$':
            math = not math
    if esc:
        return 'ends with a lone backslash'
    if depth:
        return '%d unclosed {' % depth
    if math:
        return 'odd number of unescaped $'
    if '\\begin' in t or '\\end' in t:
        return 'contains \\begin or \\end'
    return None

def raw_dollar_pairs(t):
    esc = False; n = 0
    for ch in t:
        if esc:
            esc = False
        elif ch == '\\':
            esc = True
        elif ch == '$':
            n += 1
    return n // 2

def dangling(repl):
    k = repl.rfind('\\')
    return k >= 0 and repl[k+1:].isalpha()

def fuses(chunks):
    """does a chunk ending in a control word meet a following letter (only possible without brace protection)?"""
    for i, c in enumerate(chunks):
        if c and dangling(c):
            rest = ''.join(chunks[i+1:])
            if rest[:1].isalpha():
                return True
    return False

def count_kinds(nl, acc=None):
    """numbers of comment / environment / math nodes and the set of node kinds in a node tree"""
    from pylatexenc.latexnodes import nodes as N
    if acc is None:
        acc = {'comment': 0, 'env': 0, 'math': 0, 'kinds': set()}
    if nl is None:
        return acc
    for n in nl:
        if n is None:
            continue
        if isinstance(n, N.LatexCharsNode):
            acc['kinds'].add('C')
        elif isinstance(n, N.LatexCommentNode):
            acc['kinds'].add('%'); acc['comment'] += 1
        elif isinstance(n, N.LatexGroupNode):
            acc['kinds'].add('G'); count_kinds(n.nodelist, acc)
        elif isinstance(n, N.LatexMacroNode):
            acc['kinds'].add('M'); _count_args(n, acc)
        elif isinstance(n, N.LatexEnvironmentNode):
            acc['kinds'].add('E'); acc['env'] += 1; _count_args(n, acc); count_kinds(n.nodelist, acc)
        elif isinstance(n, N.LatexSpecialsNode):
            acc['kinds'].add('S'); _count_args(n, acc)
        elif isinstance(n, N.LatexMathNode):
            acc['kinds'].add('F'); acc['math'] += 1; count_kinds(n.nodelist, acc)
        else:
            acc['kinds'].add('?')
    return acc

def _count_args(n, acc):
    from pylatexenc.latexnodes import nodes as N
    nd = getattr(n, 'nodeargd', None)
    al = getattr(nd, 'argnlist', None) if nd is not None else None
    for a in al or []:
        if a is None:
            continue
        if isinstance(a, (N.LatexNodeList, list, tuple)):
            count_kinds(a, acc)
        else:
            count_kinds([a], acc)

# ------------------------------------------------------------------ run the implementation

def _shorthand(c, s):
    """the module-level unicode_to_latex() (process-wide cache of encoder objects) after calls with other option values;
    it must return / raise what an encoder object built with the same options returns / raises"""
    from pylatexenc import latexencode as le
    kw = {}
    if c['prot'] != 'default': kw['replacement_latex_protection'] = c['prot']
    for pre in c.get('pre') or []:
        try:
            le.unicode_to_latex('a%b \u4e7e \u00e9', unknown_char_warning=False, **dict(kw, **pre))
        except Exception:
            pass
    if c['pol'] != 'default': kw['unknown_char_policy'] = c['pol']
    try:
        return ('ok', le.unicode_to_latex(s, unknown_char_warning=False, **kw))
    except Exception as e:
        return (type(e).__name__, str(e)[:60])


_MISSING = object()
def run_impl(c):
    if not c.get('legacydict'):
        return _run_impl(c)
    # another part of the program customises the pylatexenc-1 module-level dictionary `utf82latex` (documented: it alters
    # utf8tolatex() only; the built-in rule sets of the new API are not affected)
    from pylatexenc import latexencode as le
    edits = {ord('$'): '$', 0x20AC: '\u20ac', 0x0E18: '\u0e18', ord('{'): '{', 0xE9: '\u00e9', ord('%'): '%'}
    saved = dict((k, le.utf82latex.get(k, _MISSING)) for k in edits)
    for k, v in edits.items():
        le.utf82latex[k] = v
    try:
        return _run_impl(c)
    finally:
        for k, v in saved.items():
            if v is _MISSING:
                le.utf82latex.pop(k, None)
            else:
                le.utf82latex[k] = v

def _run_impl(c):
    s = c['s']
    sn = NFC(s)
    table = builtin_table(c['table'])
    eprot = 'braces' if c['prot'] == 'default' else c['prot']
    epol = 'keep' if c['pol'] == 'default' else c['pol']
    nao = bool(c.get('nao'))
    if nao:
        # non_ascii_only=True: every ASCII character (also control characters) is copied; the rules and the policy
        # apply to the non-ASCII characters only.  The claims that remain: ASCII-only output, 'fail' raises exactly
        # for a non-ASCII character without rule (nothing is neutralised, so inertness / parse are not claimed)
        unmatched = [ch for ch in sn if ord(ch) >= 128 and ord(ch) not in table]
    else:
        unmatched = [ch for ch in sn if ord(ch) not in table and not passes_through(ch)]
    if c.get('via') == 'ruleobjs':
        enc = get_encoder_ruleobjs(c, (sum(map(ord, c['s'])) % 2 == 1), nao)
    else:
        enc = get_encoder(c['table'], c['prot'], c['pol'], warn=(sum(map(ord, c['s'])) % 2 == 1), nao=nao)
    try:
        res = enc.unicode_to_latex(s); exc = None
    except Exception as e:          # every exception class is an observable here
        res = None; exc = e
    if exc is not None:
        name = type(exc).__name__
        fail = None
        if name != 'ValueError':
            fail = {'kind': 'unexpected-exception-' + name, 'detail': str(exc)[:200]}
            return {'out': 'raise ' + name, 'fail': fail, 'sig': 'raise-' + name}
        m = re.search(r'U\+([0-9A-F]{4,6})\b', str(exc))
        named = chr(int(m.group(1), 16)) if m else None
        if epol != 'fail':
            fail = {'kind': 'valueerror-without-fail-policy', 'detail': repr(str(exc))[:200]}
        elif not unmatched:
            fail = {'kind': 'valueerror-but-every-character-has-a-rule-or-passes-through', 'detail': repr(str(exc))[:200]}
        elif named is not None and named != unmatched[0]:
            fail = {'kind': 'valueerror-names-wrong-character', 'detail': 'first unmatched character is %r; message: %s'
                    % (unmatched[0], repr(str(exc))[:160])}
        ch = named if named is not None else (unmatched[0] if unmatched else '\0')
        if fail is None and c.get('via') == 'shorthand' and c['table'] == 'defaults':
            sh = _shorthand(c, s)
            if sh[0] != 'ValueError':
                fail = {'kind': 'shorthand-differs', 'detail': 'the encoder object raises ValueError, latexencode.unicode_to_latex(%r, policy=%r) after calls %r gives %r'
                        % (s[:60], c['pol'], c.get('pre'), sh)}
        return {'out': 'raise ValueError %x' % ord(ch), 'fail': fail, 'sig': 'raise-ValueError'}

    chunks = list(res.chunks)
    text = ''.join(chunks)
    if c.get('via') == 'shorthand' and c['table'] == 'defaults':
        sh = _shorthand(c, s)
        if sh != ('ok', text):
            return {'out': 'ok ' + show_str(text) + ' | shorthand ' + repr(sh)[:80],
                    'fail': {'kind': 'shorthand-differs', 'detail': 'latexencode.unicode_to_latex(%r, protection=%r, policy=%r) after calls %r gives %r, an encoder object gives %r'
                             % (s[:60], c['prot'], c['pol'], c.get('pre'), sh, text[:120])}, 'sig': 'shorthand'}
    w, kind, payload = parsecase.parse({'tol': False, 'ctx': 'default', 'ps': {}, 's': text})
    out = ' '.join(['ok'] + [show_str(x) for x in chunks]) + ' | ' + parsecase.show_result(kind, payload)
    # the exemption is for an *explicitly requested* scheme 'none' only: with the keyword left out the scheme is 'braces'
    fused = (c['prot'] == 'none') and fuses(chunks)
    fail = None
    kinds = ''
    if epol == 'fail' and unmatched:
        fail = {'kind': 'fail-policy-did-not-raise', 'detail': 'character %r has no rule and is not passed through' % unmatched[0]}
    if fail is None and epol in ('replace', 'ignore', 'unihex') and not text.isascii():
        bad = [ch for ch in text if ord(ch) > 127]
        fail = {'kind': 'non-ascii-output', 'detail': 'policy %s, output contains %r' % (epol, bad[:5])}
    if nao:
        return {'out': out, 'fail': fail, 'sig': 'nao:' + ('P' if kind == 'ok' else 'E')}
    if fail is None:
        d = inert_defect(text)
        if d is not None:
            fail = {'kind': 'output-not-inert', 'detail': '%s in %r' % (d, text[:200])}
    if kind == 'ok':
        k = count_kinds(payload)
        kinds = ''.join(sorted(k['kinds']))
        if fail is None:
            # math shifts that table replacements legitimately contain (one per character, PerChar)
            allowed = 0
            if len(chunks) == len(sn):
                for ch, ck in zip(sn, chunks):
                    if ord(ch) in table:
                        allowed += raw_dollar_pairs(ck)
            else:
                allowed = raw_dollar_pairs(text)
            if k['comment'] or k['env'] or k['math'] > allowed:
                fail = {'kind': 'comment-environment-or-math-node-from-input',
                        'detail': '%d comment, %d environment, %d math nodes (%d math shifts are part of table replacements) in the parse of %r'
                        % (k['comment'], k['env'], k['math'], allowed, text[:200])}
    elif fail is None and not fused:
        if kind == 'err':
            e = payload
            detail = 'strict parse of %r fails: %s at %r' % (text[:200], parsecase.err_what(e), e.pos)
        else:
            detail = 'strict parse of %r crashed: %s' % (text[:200], type(payload).__name__)
        fail = {'kind': 'output-does-not-parse-strictly', 'detail': detail}
    sig = 'ok:' + ('P' if kind == 'ok' else ('E' if kind == 'err' else 'X')) + ':' + kinds + (':fused' if fused else '')
    return {'out': out, 'fail': fail, 'sig': sig}

# ------------------------------------------------------------------ driver line

def to_line(c):
    if c['k'] != 'encp':
        return None
    eprot = 'braces' if c['prot'] == 'default' else c['prot']
    epol = 'keep' if c['pol'] == 'default' else c['pol']
    return '\t'.join(['ENCP', c['table'], eprot, epol, 'T' if c.get('nao') else 'F', wire(NFC(c['s']))])

# ------------------------------------------------------------------ generators

def encp(s, table, prot, pol):
    return {'k': 'encp', 's': s, 'table': table, 'prot': prot, 'pol': pol}

COMBOS = [(t, p, q) for t in TABLES for p in PROTS for q in POLS]
SYMS = list(ACTIVE) + ['a', ' ', '\n']

ODD = ['\x00', '\x01', '\x0b', '\x1f', '\x7f', '\x80', '\x85', '\xa0', '\xad', '\u0300', '\u0301', '\u0308', '\u0327',
       '\u0328', '\u20d7', '\u0378', '\u0379', '\ue000', '\ufffd', '\ufffe', '\uffff', '\U00010000', '\U0001d49c',
       '\U0001f600', '\U000e0001', '\U000f0000', '\U0010ffff', '\u212b', '\u2126', '\u1100\u1161', '\x65\u0301',
       '\x61\u0308\u0301', '\x71\u0301', '\u4e7e', '\u2028', '\u200b', '\ufb01', '\xe9', '\u03b1', '\u03ac', '\u0131',
       '\u2003', '\u3000', '\ufe0e', '\ufe0f', '\ufe00', '\u200d', '\u200c', '\u2060', '\ufeff', '\u20e3', '\U0001f3fb', '\u034f', '\U000e0100']

# the isolated combining diacritics that `unicode-xml` maps to an accent macro without argument (finding F19)
F19 = [0x300, 0x301, 0x302, 0x303, 0x304, 0x306, 0x307, 0x308, 0x30a, 0x30b, 0x30c, 0x327, 0x328]

def all_rule_chars():
    return sorted(set(builtin_table('defaults')) | set(builtin_table('unicode-xml')))

def cases(tier, rng):
    quick = (tier == 'quick')
    # 0. fixed triggers: the F19 code points alone and in context, the defaults of the keyword arguments
    for cp in F19:
        for s in (chr(cp), chr(cp) + 'a', 'q' + chr(cp) + ' b', '{' + chr(cp) + '}'):
            for pr in PROTS:
                yield encp(s, 'unicode-xml', pr, 'keep')
                yield encp(s, 'defaults', pr, 'keep')
    for s in ['\u0131nput', 'a\u0131nput b', '\u00e6mph', '\\b', '\u0131t \u00e9\u03b1\\a', '~\u2014x', '\x01\u4e7e', 'a%b\\c{d}$e$', '\u00c5ngstr\u00f6m', '\u0142a\u00f8b\u00dfc']:
        for tb in TABLES:
            yield encp(s, tb, 'default', 'default')
            for pr in PROTS:
                yield encp(s, tb, pr, 'default')
            for q in POLS:
                yield encp(s, tb, 'default', q)
    # 0b. non_ascii_only=True: ASCII-only output and the fail-iff clause (non-ASCII blanks, controls, unnamed code points)
    NB = ['\xa0', '\x85', '\u1680', '\u2003', '\u2028', '\u2029', '\u202f', '\u205f', '\u3000', '\x00', '\x7f', '\x80', '\ue000', '\u4e7e', '\xe9', 'a', ' ', '%', '\n']
    for _ in range(900 if quick else 15000):
        s = ''.join(rng.choice(NB) if rng.random() < 0.6 else rng.choice(ODD) for _ in range(rng.randint(1, 6)))
        t_, p_, q_ = rng.choice(COMBOS)
        c = encp(s, t_, p_, rng.choice(['replace', 'ignore', 'unihex', 'fail', q_]))
        c['nao'] = True
        yield c
    # 0c. through the module-level shorthand after calls with other policies / flags (process-wide encoder cache)
    PRE = [{'unknown_char_policy': 'keep'}, {'unknown_char_policy': 'replace'}, {'unknown_char_policy': 'fail'}, {'unknown_char_policy': 'unihex'},
           {'non_ascii_only': True}, {'unknown_char_policy': 'ignore', 'non_ascii_only': True}]
    for _ in range(500 if quick else 8000):
        s = ''.join(rng.choice(ODD) if rng.random() < 0.5 else rng.choice(SYMS + ['\xe9', '\u4e7e']) for _ in range(rng.randint(1, 6)))
        c = encp(s, 'defaults', rng.choice(PROTS), rng.choice(POLS))
        c['via'] = 'shorthand'
        c['pre'] = [dict(rng.choice(PRE)) for _ in range(rng.randint(1, 2))]
        yield c
    # 0e. what FOLLOWS (or precedes) a character with a rule: format characters, variation selectors, joiners, combining marks,
    #     emoji modifiers — each is a character of its own for the encoder (policy / fail-iff clause apply to it)
    FOLLOW = ['\ufe0e', '\ufe0f', '\ufe00', '\u200d', '\u200c', '\u2060', '\ufeff', '\u20e3', '\U0001f3fb', '\u034f', '\U000e0100', '\u0301', '\u200b', '\x0b', '\x1c', '\xad']
    HEADS = ['\u2122', '\xa9', '\u2192', '\xe9', '#', '%', '{', '\\', 'x', ' ', '\u03b1', '\u4e7e']
    for a in HEADS:
        for b in FOLLOW:
            for s in (a + b, b + a, a + b + a, a + b + b):
                t_, p_, q_ = rng.choice(COMBOS)
                yield encp(s, t_, p_, 'fail')
                yield encp(s, t_, p_, q_)
    # 0f. while the legacy dictionary utf82latex is customised by someone else
    for _ in range(400 if quick else 6000):
        s = ''.join(rng.choice(['$', '\u20ac', '\u0e18', '{', '}', '\xe9', '%', 'a', ' ', '5']) for _ in range(rng.randint(1, 6)))
        t_, p_, q_ = rng.choice(COMBOS)
        c = encp(s, t_, p_, q_)
        c['legacydict'] = True
        if rng.random() < 0.3:
            c['via'] = 'ruleobjs'; c['hist'] = []
        yield c
    # 0d. the table given as rule objects, the list object shared with encoders built before
    HIST = ['partial', 'partial-use', 'plain-none', 'plain-nao']
    for _ in range(700 if quick else 10000):
        s = ''.join(rng.choice(ODD) if rng.random() < 0.3 else rng.choice(SYMS + ['\xe9', '\u4e7e', '\\begin{x}', '\\x', 'a']) for _ in range(rng.randint(1, 6)))
        t_, p_, q_ = rng.choice(COMBOS)
        c = encp(s, t_, p_, q_)
        c['via'] = 'ruleobjs'
        c['hist'] = [rng.choice(HIST) for _ in range(rng.randint(0, 2))]
        yield c
    # 1. every ordering of the active characters with a letter, space, newline
    maxlen = 4 if quick else 5
    k = rng.randrange(len(COMBOS))
    for n in range(0, maxlen + 1):
        for tup in itertools.product(SYMS, repeat=n):
            s = ''.join(tup)
            if n <= 2:
                for (t, p, q) in COMBOS:
                    yield encp(s, t, p, q)
            else:
                k += 1
                t, p, q = COMBOS[k % len(COMBOS)]
                yield encp(s, t, p, q)
                if n == 3:
                    t, p, q = COMBOS[(k * 7 + 3) % len(COMBOS)]
                    yield encp(s, t, p, q)
    # 2. every character with a rule, three neighbour contexts, both tables
    chars = [chr(x) for x in all_rule_chars()]
    for ch in chars:
        for tb in TABLES:
            schemes = rng.sample(PROTS, 2) if quick else PROTS
            for pr in schemes:
                q = rng.choice(POLS)
                yield encp(ch + 'X', tb, pr, q)
                yield encp('X' + ch, tb, pr, q)
                yield encp('a' + ch + 'b', tb, pr, q)
    # 3. control, combining, astral, unassigned, NFC-unstable code points
    for o in ODD:
        for (t, p, q) in COMBOS:
            yield encp(o, t, p, q)
        for tb in TABLES:
            yield encp('a' + o + 'b', tb, rng.choice(PROTS), rng.choice(POLS))
            yield encp(o + o, tb, rng.choice(PROTS), rng.choice(POLS))
    for lo in (0, 0x80):
        for (t, p, q) in COMBOS:
            if q != 'fail':
                yield encp(''.join(chr(i) for i in range(lo, lo + 0x80)), t, p, q)
    # 4. random mixtures
    n4 = 6000 if quick else 80000
    pools = [chars, list(ACTIVE), list('abzXY019.,;:!?-()[]<>|"\'`@*+=/'), [' ', ' ', '\n', '\t', '\n\n', '\r'], ODD]
    weights = [0.35, 0.25, 0.2, 0.1, 0.1]
    for _ in range(n4):
        L = rng.randint(1, 12)
        s = ''.join(rng.choice(rng.choices(pools, weights)[0]) for _ in range(L))
        t, p, q = rng.choice(COMBOS)
        yield encp(s, t, p, q)

# ------------------------------------------------------------------ shrinking, known findings

def shrink_candidates(c):
    s = c['s']
    for i in range(len(s)):
        d = dict(c); d['s'] = s[:i] + s[i+1:]
        yield d
    if c['pol'] not in ('keep', 'default'):
        d = dict(c); d['pol'] = 'keep'; yield d
    if c['prot'] not in ('braces', 'default'):
        d = dict(c); d['prot'] = 'braces'; yield d
    if c['table'] != 'defaults':
        d = dict(c); d['table'] = 'defaults'; yield d

def known_match(m, case, fail):
    """F19: the failure disappears when the listed code points are taken out of a `unicode-xml` input, and only then"""
    cps = set(m.get('codepoints') or [])
    if not cps or case.get('table') != m.get('table', 'unicode-xml'):
        return False
    sn = NFC(case.get('s', ''))
    if not any(ord(ch) in cps for ch in sn):
        return False
    d = dict(case)
    d['s'] = ''.join(ch for ch in sn if ord(ch) not in cps)
    r = run_impl(d)
    return not r['fail']

LEVEL_TEXT = ('Theorems C13_table / C13_table_ascii check, in the Lean kernel, every entry of both generated built-in tables under all five '
              'protection schemes (balanced unescaped braces, no unescaped %, paired $, no incomplete escape, no \\begin/\\end, ASCII); '
              'C13_inert proves for every string, scheme, table and policy that the encoder output is lexically inert; C13_ascii that it is '
              'ASCII under replace/ignore/unihex; C13_fail_iff that fail raises exactly when a character has no rule and is outside the '
              'pass-through range. The link to the parser model is proved for EVERY input string: C13_parses_full_proved (table defaults) and '
              'C13_parses_xml_full_proved (table unicode-xml, strings without the 13 code points of finding F19), from C13_parses_all: for each '
              'of the four brace protection schemes and every named policy, whenever the encoder returns a text the strict parser model with the '
              'default context returns a node list without comment and environment nodes. Proof: every replacement text of both generated tables '
              '(kernel evaluation, C13FullA-J) and every other chunk the encoder emits is the source of a document of a small grammar '
              '(characters, brace groups, macro calls with arguments per the default context signatures, inline math) that is well formed '
              'whatever follows (cwfI); concatenations of such documents are well formed (cwfI_app); the nodes collector parses every well-formed '
              'document (reach_all: prefix lemma by induction on the document, following the tokenizer through whitespace runs, paragraph '
              'breaks and specials such as -- and two single quotes, built on the parser lemmas of C02). Scheme none is refuted on a concrete witness '
              '(C13_parses_none_false), the F19 entries on C13_parses_xml_false. The model (generated tables + Pylx.encodeChunks + '
              'Pylx.parseTop) is tied to UnicodeToLatexEncoder and LatexWalker by running both on generated strings and comparing chunk lists '
              'and parse trees; the oracle evaluates the property (strict parse, node kinds, isascii, ValueError prediction) on the implementation.')
LEVEL_NOTE = ('NFC and str.isalpha are trusted; the parse link (no comment / environment node) is proved for all strings and both tables '
              '(F19 code points excluded for unicode-xml); the finer claim about math nodes is proved per character (C13_parses_partial) and '
              'otherwise rests on the oracle; the tie is differential testing; Lean kernel + propext/Classical.choice/Quot.sound')
TECHNIQUE = ('Lean 4 proof (kernel-checked classifier over generated tables, structural induction over the string through C04_concat\'s '
             'per-character decomposition) + model-vs-implementation correspondence + oracle on the implementation')
