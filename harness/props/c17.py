# C17 — a derived parsing state behaves exactly like a freshly built one.
import itertools
from common import wire, show_str
import psdesc

THEOREMS = ['Pylx.C17_tables', 'Pylx.C17_derived_eq_fresh', 'Pylx.C17_fields', 'Pylx.C17_same_peek', 'Pylx.C17_as_is_counterexample']
RULE = ('PS (steps may also hand over a NEW latex_context object in the same call): chains of sub_context() calls (length <= 3 exhaustive over a pool of change sets in the quick tier for the math '
        'fields, random chains over all fields otherwise) from several root states; model: final fields and cached tables; '
        'oracle on the implementation: derived state vs ParsingState(**same fields): equal cached tables and equal token '
        'sequences on every probe string over an alphabet containing every configured delimiter, and the parent state is unchanged; '
        'sig = which table groups were recomputed/inherited + mode')
TRUSTED = ['set iteration order in _math_all_delims_by_len (hash dependent) is canonicalised; it cannot influence which delimiter matches']
ASSUMPTIONS = ['keyword arguments of sub_context are drawn from the documented fields', 'latex_context is shared by reference (not modelled beyond the specials keys)']
TRIVIAL_SIGS = ()
CASE_TIMEOUT = 10.0

POOL = [
    {'im': True, 'md': '$'}, {'im': True, 'md': '$$'}, {'im': True, 'md': '\\('}, {'im': True, 'md': None},
    {'im': False}, {'im': False, 'md': None}, {'md': '$'}, {'md': '|'},
    {'il': [('$', '$')]}, {'il': [('|', '|'), ('$', '$')]}, {'il': [('$', '!')]},
    {'dl': [('$$', '$$')]}, {'dl': [('$', '$$')]}, {'dl': []},
    {'il': [('$', '$'), ('\\(', '\\)')]}, {'dl': [('$$', '$$'), ('\\[', '\\]')]},
    {'gd': [('{', '}'), ('[', ']')]}, {'gd': [('[', ']')]}, {'gd': [('{', '}')]}, {'gd': [('{', '}'), ('{', ']')]},
    {'mm': False}, {'mm': True}, {'gr': False}, {'ma': False}, {'en': False}, {'co': False}, {'sp': False}, {'nl': False},
    {'cs': '##'}, {'fb': '$'}, {'ec': '@'}, {'al': 'ab'},
    {'im': True, 'md': '$', 'il': [('$', '!')]}, {'im': True, 'md': '|', 'il': [('|', '|')]},
    # both lists changed in ONE call (a pair moves across the inline/display boundary; same concatenation)
    {'il': [('$', '$')], 'dl': [('\\(', '\\)'), ('$$', '$$'), ('\\[', '\\]')]},
    {'il': [('$', '$'), ('\\(', '\\)'), ('$$', '$$')], 'dl': [('\\[', '\\]')]},
    {'il': [], 'dl': [('$', '$'), ('\\(', '\\)'), ('$$', '$$'), ('\\[', '\\]')]},
    {'il': [('$', '$'), ('\\(', '\\)'), ('$$', '$$'), ('\\[', '\\]')], 'dl': []},
    {'il': [('$$', '$$')], 'dl': [('$', '$')]},
    {'gd': [('{', '}'), ('[', ']')], 'il': [('$', '$')], 'im': True, 'md': '$'},
]
MATH_POOL = POOL[:16] + POOL[-6:]
ROOTS = [
    {'cx': True, 'sk': ['~', '\n\n', '``']},
    {'cx': True, 'sk': ['~'], 'im': True, 'md': '$'},
    {'cx': False, 'il': [('|', '|')], 'dl': [('$$', '$$')], 'im': True, 'md': '|'},
]
PROBES = ['a$$b', '$a$', 'a$b!c', '|x|$', '\\(a\\)$$', '{a]b}', '[a]', 'a!b', '$$a$$', '\\[x\\]', 'x##y\n', '@a b', '\\ab c', '%c\n\n x~', '\\begin{e}', 'a\n\nb']

def cases(tier, rng):
    L = 2 if tier == 'quick' else 3
    for root in ROOTS[:2] if tier == 'quick' else ROOTS:
        for n in range(0, L + 1):
            for chain in itertools.product(range(len(MATH_POOL)), repeat=n):
                yield {'root': root, 'chain': [MATH_POOL[i] for i in chain]}
    m = 1500 if tier == 'quick' else 30000
    for _ in range(m):
        root = rng.choice(ROOTS)
        chain = []
        for _ in range(rng.randint(1, 4)):
            kw = dict(rng.choice(POOL))
            # several keywords in one call
            for _ in range(rng.choice([0, 0, 1, 2])):
                kw.update(rng.choice(POOL))
            if rng.random() < 0.2:
                # split the current default concatenation at a random point
                allp = [('$', '$'), ('\\(', '\\)'), ('$$', '$$'), ('\\[', '\\]')]
                rng.shuffle(allp) if rng.random() < 0.3 else None
                k = rng.randint(0, 4)
                kw.update({'il': allp[:k], 'dl': allp[k:]})
            if rng.random() < 0.25:
                # a new latex_context in the same call (what a \\newcommand-like delta with set_attributes does)
                kw['nc'] = rng.choice([['~'], ['~', '\n\n', '``'], [], ['!', '~']])
            chain.append(kw)
        yield {'root': root, 'chain': chain}
    # a new latex_context together with each change set of the pool, after one ordinary step
    for first in MATH_POOL[:6]:
        for d in POOL:
            for root in ROOTS[:2]:
                yield {'root': root, 'chain': [first, dict(d, nc=['~', '``'])]}
                yield {'root': root, 'chain': [dict(d, nc=['~'])]}
    # states obtained from a walker while its state-deriving methods are used in between (oracle only)
    WOPS = [['nodes', 0, ']'], ['nodes', 1, ')'], ['nodes', 0, '>'], ['nodes', 0, '}'], ['nodes', 0, ['<', '>']], ['group', 0, '['], ['group', 1, '('],
            ['opt', 0], ['opt', 2], ['token', 0, ['[', ']']], ['token', 1, ['<', '>']], ['expr', 0]]
    for s in ['[a] b]', 'x[3]{y}) z>', '(p) [q] <r>', '\\sqrt[3]{x}] )', ' [a', '{[}]']:
        for op in WOPS:
            yield {'root': {}, 'chain': [], 's': s, 'wops': [op]}
        for _ in range(12 if tier == 'quick' else 120):
            yield {'root': {}, 'chain': [], 's': s, 'wops': [rng.choice(WOPS) for _ in range(rng.randint(2, 4))]}

def enc_chain(chain):
    # 'nc' (a NEW latex_context object given in the same call) is not a field of the model's parsing state
    return '/'.join(psdesc.enc_desc({k: v for k, v in d.items() if k != 'nc'}) for d in chain)

def to_line(c):
    if c.get('wops') is not None:
        return None
    # bug flag F: the model of the repaired code
    return '\t'.join(['PS', 'F', psdesc.enc_desc(c['root']), enc_chain(c['chain'])])

def tokens(ps, s):
    from pylatexenc.latexnodes import LatexTokenReader, LatexWalkerEndOfStream
    r = LatexTokenReader(s, tolerant_parsing=True)
    out = []
    for _ in range(len(s) + 2):
        try:
            t = r.next_token(ps)
        except LatexWalkerEndOfStream as e:
            out.append('(EOS %s)' % show_str(e.final_space)); break
        out.append(psdesc.show_tok(t))
        if r.cur_pos() <= t.pos and t.pos_end <= t.pos:
            break
    return ' '.join(out)

def run_walker(c):
    """states that come from a LatexWalker (make_parsing_state, sub_context chains on it) while the walker's documented
    methods that derive states internally are used in between (legacy get_latex_nodes with a stop brace, braced groups with
    other delimiters, optional arguments, get_token with extra brace characters): none of them alters a state it derives
    from, and every state obtained behaves like a fresh one with the same field values"""
    import copy
    from pylatexenc import latexwalker
    from pylatexenc.latexnodes import ParsingState
    s = c['s']
    w = latexwalker.LatexWalker(s, tolerant_parsing=True)
    root = w.make_parsing_state()
    states = [('make_parsing_state()', root)]
    snap = lambda ps: (psdesc.show_fields(ps), psdesc.show_tables(ps), copy.deepcopy(dict((k, v) for k, v in ps.get_fields().items() if k != 'latex_context')))
    before = snap(root)
    for op in c['wops']:
        try:
            if op[0] == 'nodes': w.get_latex_nodes(op[1], stop_upon_closing_brace=(tuple(op[2]) if isinstance(op[2], list) else op[2]))
            elif op[0] == 'group': w.get_latex_braced_group(op[1], brace_type=op[2])
            elif op[0] == 'opt': w.get_latex_maybe_optional_arg(op[1])
            elif op[0] == 'token': w.get_token(op[1], include_brace_chars=[tuple(op[2])])
            elif op[0] == 'expr': w.get_latex_expression(op[1])
        except Exception:
            pass
        if snap(root) != before:
            return {'out': None, 'sig': 'walker', 'fail': {'kind': 'parent-changed', 'detail': 'walker call %r on %r altered the state returned earlier by make_parsing_state(): %s -> %s'
                                                             % (op, s, before[0], psdesc.show_fields(root))}}
        states.append(('make_parsing_state() after %r' % (op,), w.make_parsing_state()))
        states.append(('sub_context(enable_comments=False) after %r' % (op,), root.sub_context(enable_comments=False)))
        states.append(('make_parsing_state(in_math_mode=True) after %r' % (op,), w.make_parsing_state(in_math_mode=True)))
    for name, ps in states:
        fresh = ParsingState(**dict(ps.get_fields()))
        if psdesc.show_tables(fresh) != psdesc.show_tables(ps):
            return {'out': None, 'sig': 'walker', 'fail': {'kind': 'derived-tables-differ-from-fresh', 'detail': '%s on a walker over %r: derived %s ; fresh %s'
                                                             % (name, s, psdesc.show_tables(ps), psdesc.show_tables(fresh))}}
        for pr in PROBES + ['[a]', '(b)', '<c>', 'x]']:
            a = tokens(ps, pr); b = tokens(fresh, pr)
            if a != b:
                return {'out': None, 'sig': 'walker', 'fail': {'kind': 'derived-tokenizes-differently', 'detail': '%s on a walker over %r, probe %r: derived %s ; fresh %s' % (name, s, pr, a, b)}}
    return {'out': None, 'fail': None, 'sig': 'walker:%d' % len(c['wops'])}

def run_impl(c):
    from pylatexenc.latexnodes import ParsingState
    if c.get('wops') is not None:
        return run_walker(c)
    root = psdesc.make_ps(c['root'])
    ps = root
    fail = None
    recomputed = set()
    for d in c['chain']:
        before_f = psdesc.show_fields(ps); before_t = psdesc.show_tables(ps)
        kw = psdesc.to_kwargs({k: v for k, v in d.items() if k != 'nc'})
        if 'nc' in d:
            kw['latex_context'] = psdesc.make_context(d['nc'])
        child = ps.sub_context(**kw)
        if (psdesc.show_fields(ps), psdesc.show_tables(ps)) != (before_f, before_t) and not fail:
            fail = {'kind': 'parent-changed', 'detail': 'sub_context(%r) altered the state it was called on' % (d,)}
        if 'nc' in d and child.latex_context is not kw['latex_context'] and not fail:
            fail = {'kind': 'context-not-set', 'detail': repr(d)}
        if 'nc' not in d and child.latex_context is not ps.latex_context and not fail:
            fail = {'kind': 'context-not-inherited', 'detail': repr(d)}
        recomputed |= set(child._parent_parsing_state_info[1].keys())
        ps = child
    fields = dict(ps.get_fields())
    fresh = ParsingState(**fields)
    out = psdesc.show_fields(ps) + ' || ' + psdesc.show_tables(ps)
    if not fail and psdesc.show_tables(fresh) != psdesc.show_tables(ps):
        fail = {'kind': 'derived-tables-differ-from-fresh', 'detail': 'derived: %s ; fresh: %s' % (psdesc.show_tables(ps), psdesc.show_tables(fresh))}
    if not fail:
        for s in PROBES:
            a = tokens(ps, s); b = tokens(fresh, s)
            if a != b:
                fail = {'kind': 'derived-tokenizes-differently', 'detail': 'on %r: derived %s ; fresh %s' % (s, a, b)}
                break
    sig = ('M' if ps.in_math_mode else 'T') + ':' + ','.join(sorted(k[:12] for k in recomputed))
    return {'out': out, 'fail': fail, 'sig': sig}

def shrink_candidates(c):
    ch = c['chain']
    for i in range(len(ch)):
        d = dict(c); d['chain'] = ch[:i] + ch[i+1:]; yield d
    for i in range(len(ch)):
        for k in list(ch[i].keys()):
            if len(ch[i]) > 1:
                e = {a: b for a, b in ch[i].items() if a != k}
                d = dict(c); d['chain'] = ch[:i] + [e] + ch[i+1:]; yield d
    for k in list(c['root'].keys()):
        if k not in ('cx',):
            d = dict(c); d['root'] = {a: b for a, b in c['root'].items() if a != k}; yield d

LEVEL_TEXT = ('Theorems about the parsing-state model (Pylx.PState): C17_tables — for every root state and every chain of sub_context '
              'keyword sets, the cached lookup tables of the derived state equal the tables computed from its fields (so it is '
              'indistinguishable from ParsingState(**fields)); C17_fields — the fields are the parent fields updated by the keywords '
              '(with the documented normalisation); C17_same_peek — equal fields give equal tokens at every position of every string; '
              'C17_derived_eq_fresh (the derived state is the fresh state of its fields); and a kernel-checked counterexample for the code '
              'before the repair (F10). The model is tied to ParsingState.sub_context by comparing final fields and all cached tables '
              'on chains of keyword sets, and the oracle compares derived vs fresh states on the implementation itself.')
LEVEL_NOTE = 'model of the cache-inheritance logic; correspondence by differential testing over chains; Lean kernel + standard axioms'
TECHNIQUE = 'Lean 4 proof (invariant tables = computeTables fields, by induction over the chain) + chain correspondence + derived-vs-fresh oracle'
