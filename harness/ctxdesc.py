# Context descriptors (closed world of the standard argument types):
#   JSON form <-> wire form (driver) <-> real LatexContextDb; introspection of a real db into JSON form.
#
# JSON form:
#   ctx   = {'macros': [[name, argsp]...], 'envs': [[name, argsp, bodymath]...], 'specials': [[chars, argsp]...],
#            'um': argsp|None, 'ue': [argsp, bodymath]|None}
#   argsp = ['S', [spec...]] | ['LV'] | ['LE', name, optarg] | ['U', reason]
#   spec  = [kind, delta] with kind in 'm', 'm0' (expression, allow_pre_space=False), 'o1', 'o0', 's', 't<c>', 'r<o><c>', 'd<o><c>', 'v', 'V<o><c>'; delta in '', '+', '-'
from common import wire

def enc_spec(sp):
    kind, delta = sp
    k = kind[0]
    if kind in ('m', 'm0', 's', 'v'):
        body = kind
    elif k == 'o':
        body = kind
    elif k == 't':
        body = 't' + '%x' % ord(kind[1])
    elif k in 'rdV':
        body = k + '%x.%x' % (ord(kind[1]), ord(kind[2]))
    else:
        raise ValueError(kind)
    return body + delta

def enc_argsp(a):
    if a[0] == 'S':
        return 'S' + ''.join('/' + enc_spec(sp) for sp in a[1])
    if a[0] == 'LV':
        return 'LV'
    if a[0] == 'LE':
        return 'LE/%s/%d' % (wire(a[1]), 1 if a[2] else 0)
    return 'U'

def has_unmodelled(ctx):
    """argument parsers the Lean context type cannot express (such contexts run through the property oracles only):
    ['LVA', argspec] = the legacy verbatim parser for a \\verb-like macro WITH leading standard arguments"""
    if ctx == 'default':
        return False
    bad = lambda a: a is not None and (a[0] in ('LVA', 'SH', 'VB') or (a[0] == 'S' and any(sp[1] in ('+c', '-c') or sp[0] in ('TK', 'EM', 'AD', 'ADO') for sp in a[1])))
    if ctx.get('provide') or ctx.get('lists'):
        return True
    return any(bad(a) for _, a in ctx['macros']) or any(bad(a) for _, a, _ in ctx['envs']) or any(bad(a) for _, a in ctx['specials'])

def enc_ctx(ctx):
    if ctx == 'default':
        return '@default'
    m = ';'.join('%s=%s' % (wire(n), enc_argsp(a)) for n, a in ctx['macros'])
    e = ';'.join('%s=%s=%d' % (wire(n), enc_argsp(a), 1 if bm else 0) for n, a, bm in ctx['envs'])
    s = ';'.join('%s=%s' % (wire(n), enc_argsp(a)) for n, a in ctx['specials'])
    um = '-' if ctx.get('um') is None else enc_argsp(ctx['um'])
    ue = '-' if ctx.get('ue') is None else '%s=%d' % (enc_argsp(ctx['ue'][0]), 1 if ctx['ue'][1] else 0)
    return '!'.join([m, e, s, um, ue])

# ---------------------------------------------------------------- JSON -> real objects

def make_argspec_list(specs):
    from pylatexenc.latexnodes import LatexArgumentSpec, ParsingStateDeltaEnterMathMode, ParsingStateDeltaLeaveMathMode
    from pylatexenc.latexnodes.parsers import LatexStandardArgumentParser
    out = []
    for kind, delta in specs:
        d = None
        if delta == '+':
            d = ParsingStateDeltaEnterMathMode()
        elif delta == '-':
            d = ParsingStateDeltaLeaveMathMode()
        elif delta in ('+c', '-c'):
            # a chain of deltas (public class ParsingStateDeltaChained): the mode switch first, then an unrelated setting
            from pylatexenc.latexnodes import ParsingStateDeltaChained, ParsingStateDelta
            d = ParsingStateDeltaChained([
                ParsingStateDeltaEnterMathMode() if delta == '+c' else ParsingStateDeltaLeaveMathMode(),
                ParsingStateDelta(set_attributes={'enable_comments': True})])
        if kind == 'TK':
            # "information field" macros tacked on after an argument (public parser class; \notag takes no argument)
            from pylatexenc.latexnodes.parsers import LatexTackOnInformationFieldMacrosParser
            p = LatexTackOnInformationFieldMacrosParser(['label', 'tag', 'notag'], allow_multiple=True, macro_arg_parsers={'notag': None})
        elif kind == 'EM':
            p = 'e{^_}'                  # xparse-style embellishments (documented argument specification string)
        elif kind == 'AD':
            p = 'AnyDelimited'           # documented argument specification strings of LatexStandardArgumentParser
        elif kind == 'ADO':
            p = 'AnyDelimitedOptional'
        elif kind == 'm0':
            p = LatexStandardArgumentParser('{', allow_pre_space=False)
        elif kind == 'o1':
            p = '['
        elif kind == 'o0':
            p = LatexStandardArgumentParser('[', allow_pre_space=False)
        elif kind == 'V' or kind[0] == 'V':
            p = 'v' + kind[1:]
        else:
            p = kind
        out.append(LatexArgumentSpec(p, parsing_state_delta=d))
    return out

def _reject_empty_argument(node):
    """a user hook (finalize_node=) that rejects a call whose first argument is empty by raising a parse error WITHOUT
    position information (pos=None is the constructor default of LatexWalkerParseError)"""
    from pylatexenc.latexnodes import LatexWalkerParseError
    nd = getattr(node, 'nodeargd', None)
    a = nd.argnlist[0] if (nd is not None and nd.argnlist) else None
    if a is not None and not getattr(a, 'nodelist', [1]):
        raise LatexWalkerParseError('empty argument rejected by a user hook')
    return node

def make_spec(cls, name, argsp, **kw):
    from pylatexenc import macrospec
    if argsp[0] == 'SH':
        # standard arguments + the user hook above
        return cls(name, arguments_spec_list=make_argspec_list(argsp[1]), finalize_node=_reject_empty_argument, **kw)
    if argsp[0] == 'S':
        return cls(name, arguments_spec_list=make_argspec_list(argsp[1]), **kw)
    if argsp[0] == 'LV':
        return cls(name, args_parser=macrospec.VerbatimArgsParser(verbatim_arg_type='verb-macro'), **kw)
    if argsp[0] == 'VB':
        # an environment whose body is read by the pylatexenc-3 verbatim parser (public class of latexnodes.parsers)
        from pylatexenc.latexnodes import parsers as _p
        nm = name
        return cls(name, make_body_parser=lambda tok, nodeargd, arg_ps_delta: _p.LatexVerbatimEnvironmentContentsParser(environment_name=nm), **kw)
    if argsp[0] == 'LVA':
        return cls(name, args_parser=macrospec.VerbatimArgsParser(verbatim_arg_type='verb-macro', verbatim_argspec=argsp[1]), **kw)
    if argsp[0] == 'LE':
        if argsp[2]:
            ap = macrospec.VerbatimArgsParser(verbatim_arg_type='verbatim-environment', verbatim_environment_name=argsp[1], verbatim_argspec='[')
        else:
            ap = macrospec.VerbatimArgsParser(verbatim_arg_type='verbatim-environment', verbatim_environment_name=argsp[1])
        return cls(name, args_parser=ap, **kw)
    raise ValueError(argsp)

_DEFAULT_DB = None

def make_db(ctx):
    """a fresh LatexContextDb for a JSON ctx ('default' -> the library's default database)"""
    from pylatexenc import macrospec, latexwalker
    if ctx == 'default':
        return latexwalker.get_default_latex_context_db()
    from pylatexenc.latexnodes import ParsingStateDeltaEnterMathMode
    if ctx.get('provide'):
        return make_extending_db(ctx)
    if ctx.get('lists'):
        return make_lists_db(ctx)
    db = macrospec.LatexContextDb()
    db.add_context_category(
        'c',
        macros=[make_spec(macrospec.MacroSpec, n, a) for n, a in ctx['macros']],
        environments=[make_spec(macrospec.EnvironmentSpec, n, a, **({'body_parsing_state_delta': ParsingStateDeltaEnterMathMode()} if bm else {}))
                      for n, a, bm in ctx['envs']],
        specials=[make_spec(macrospec.SpecialsSpec, n, a) for n, a in ctx['specials']])
    if ctx.get('um') is not None:
        db.set_unknown_macro_spec(make_spec(macrospec.MacroSpec, '', ctx['um']))
    if ctx.get('ue') is not None:
        db.set_unknown_environment_spec(make_spec(
            macrospec.EnvironmentSpec, '', ctx['ue'][0],
            **({'body_parsing_state_delta': ParsingStateDeltaEnterMathMode()} if ctx['ue'][1] else {})))
    return db

def make_lists_db(ctx):
    """list environments whose BODY makes `\\item` known (body_parsing_state_delta = ParsingStateDeltaExtendLatexContextDb),
    nested lists extend the context a second time; unknown macros fall back to a macro without arguments.  Oracle only."""
    from pylatexenc import macrospec
    def body_delta():
        return macrospec.ParsingStateDeltaExtendLatexContextDb(
            extend_latex_context=dict(macros=[macrospec.MacroSpec('item', '[')]))
    db = macrospec.LatexContextDb()
    db.add_context_category('lists', environments=[
        macrospec.EnvironmentSpec('enumerate', body_parsing_state_delta=body_delta()),
        macrospec.EnvironmentSpec('itemize', body_parsing_state_delta=body_delta())],
        macros=[macrospec.MacroSpec('emph', '{')])
    db.set_unknown_macro_spec(macrospec.MacroSpec(''))
    db.set_unknown_environment_spec(macrospec.EnvironmentSpec(''))
    db.freeze()
    return db

def make_extending_db(ctx):
    """a database with a \\newcommand-like macro: after `\\provide`, the macro ctx['provide'] = [name, argsp] is known
    (ParsingStateDeltaExtendLatexContextDb).  ctx['how']: 'add_none' = first category added with an automatic name,
    'extended' = obtained by extended_with() from a frozen base, 'named' = ordinary named category.  Not expressible in the
    Lean context type (oracle only)."""
    from pylatexenc import macrospec
    pname, pargs = ctx['provide']
    def after_provide(parsed_node, latex_walker):
        return macrospec.ParsingStateDeltaExtendLatexContextDb(
            extend_latex_context=dict(macros=[make_spec(macrospec.MacroSpec, pname, pargs)]))
    specs = [macrospec.MacroSpec('provide', '', make_after_parsing_state_delta=after_provide)] + \
        [make_spec(macrospec.MacroSpec, n, a) for n, a in ctx['macros']]
    base = macrospec.LatexContextDb()
    envs = []
    if ctx.get('bodydelta'):
        # an environment whose body is parsed with an extended context: ONE long-lived delta object held by the spec (definitions
        # plus a fallback for unknown macros inside the body), applied at every use of the environment
        envs = [macrospec.EnvironmentSpec('defs', body_parsing_state_delta=macrospec.ParsingStateDeltaExtendLatexContextDb(
            extend_latex_context=dict(macros=[macrospec.MacroSpec('item', '[')], unknown_macro_spec=macrospec.MacroSpec('', '{'))))]
    base.add_context_category('base', macros=[macrospec.MacroSpec('textbf', '{')], environments=envs,
                              specials=[make_spec(macrospec.SpecialsSpec, n, a) for n, a in ctx['specials']])
    if ctx.get('um') is not None:
        base.set_unknown_macro_spec(make_spec(macrospec.MacroSpec, '', ctx['um']))
    how = ctx.get('how', 'add_none')
    if how == 'extended':
        base.freeze()
        return base.extended_with(macros=specs)
    base.add_context_category(None if how == 'add_none' else 'first', macros=specs, prepend=True)
    base.freeze()
    return base

# ---------------------------------------------------------------- real objects -> JSON (fail closed)

def introspect_argspec(arg):
    from pylatexenc.latexnodes import LatexArgumentSpec, ParsingStateDeltaEnterMathMode, ParsingStateDeltaLeaveMathMode
    from pylatexenc.latexnodes.parsers import LatexStandardArgumentParser
    if isinstance(arg, str):
        parser, delta = arg, None
    elif isinstance(arg, LatexArgumentSpec):
        parser, delta = arg.parser, arg.parsing_state_delta
    else:
        return None
    if delta is None:
        d = ''
    elif type(delta) is ParsingStateDeltaEnterMathMode and delta.walker_event_kwargs.get('math_mode_delimiter') is None:
        d = '+'
    elif type(delta) is ParsingStateDeltaLeaveMathMode:
        d = '-'
    else:
        return None
    allow_pre = True
    if isinstance(parser, LatexStandardArgumentParser):
        if type(parser) is not LatexStandardArgumentParser or parser.return_full_node_list or \
           not parser.expression_single_token_requiring_arg_is_error:
            return None
        allow_pre = parser.allow_pre_space
        parser = parser.arg_spec
    if not isinstance(parser, str):
        return None
    if parser in ('m', '{'):
        return ['m', d] if allow_pre else ['m0', d]
    if parser in ('o', '['):
        return ['o1' if allow_pre else 'o0', d]
    if not allow_pre:
        return None
    if parser in ('s', '*'):
        return ['s', d]
    if len(parser) == 2 and parser[0] == 't':
        return ['t' + parser[1], d]
    if len(parser) == 3 and parser[0] in 'rd':
        return [parser, d]
    if parser == 'v':
        return ['v', d]
    if len(parser) == 3 and parser[0] == 'v':
        return ['V' + parser[1:], d]
    return None

def introspect_argsp(spec):
    from pylatexenc import macrospec
    from pylatexenc.macrospec._argumentsparser import LatexArgumentsParser, LatexNoArgumentsParser, _LegacyPyltxenc2MacroArgsParserWrapper
    ap = getattr(spec, 'arguments_parser', None)
    for attr in ('_fn_make_arguments_parsing_state_delta', '_fn_make_body_parser', '_fn_finalize_node'):
        if hasattr(spec, attr):
            return ['U', 'custom ' + attr]
    if type(ap) is LatexNoArgumentsParser:
        return ['S', []]
    if type(ap) is LatexArgumentsParser:
        if hasattr(spec, '_fn_make_after_parsing_state_delta') or hasattr(spec, '_fn_make_body_parsing_state_delta'):
            return ['U', 'custom delta function']
        out = []
        for a in ap.arguments_spec_list:
            j = introspect_argspec(a)
            if j is None:
                return ['U', 'argument %r' % (a,)]
            out.append(j)
        return ['S', out]
    if type(ap) is _LegacyPyltxenc2MacroArgsParserWrapper:
        lp = ap.args_parser
        if type(lp) is macrospec.VerbatimArgsParser or type(lp) is macrospec.LstListingArgsParser:
            if lp.verbatim_arg_type == 'verb-macro' and not lp.verbatim_argspec:
                return ['LV']
            if lp.verbatim_arg_type == 'verb-macro' and lp.verbatim_argspec in ('[', '{', '[{'):
                return ['LVA', lp.verbatim_argspec]
            if lp.verbatim_arg_type == 'verbatim-environment' and lp.verbatim_argspec in ('', '['):
                return ['LE', lp.verbatim_environment_name, lp.verbatim_argspec == '[']
        return ['U', 'legacy parser %r' % (lp,)]
    return ['U', 'arguments parser %r' % (ap,)]

def introspect_bodymath(spec):
    from pylatexenc.latexnodes import ParsingStateDeltaEnterMathMode
    d = getattr(spec, 'body_parsing_state_delta', None)
    if d is None:
        return False
    if type(d) is ParsingStateDeltaEnterMathMode and d.walker_event_kwargs.get('math_mode_delimiter') is None:
        return True
    return None

def introspect_db(db):
    """LatexContextDb -> JSON ctx, names in lookup precedence order (first category that defines a name wins)"""
    macros, envs, specials = [], [], []
    seen_m, seen_e, seen_s = set(), set(), set()
    for cat in db.category_list:
        d = db.d[cat]
        for n, sp in d['macros'].items():
            if n not in seen_m:
                seen_m.add(n); macros.append([n, introspect_argsp(sp)])
        for n, sp in d['environments'].items():
            if n not in seen_e:
                seen_e.add(n)
                bm = introspect_bodymath(sp)
                a = introspect_argsp(sp)
                if bm is None:
                    a, bm = ['U', 'body delta'], False
                envs.append([n, a, bm])
        for n, sp in d['specials'].items():
            # specials keep every key (test_for_specials scans all categories); the first spec wins for equal keys
            if n not in seen_s:
                seen_s.add(n); specials.append([n, introspect_argsp(sp)])
    um = None if db.unknown_macro_spec is None else introspect_argsp(db.unknown_macro_spec)
    ue = None
    if db.unknown_environment_spec is not None:
        bm = introspect_bodymath(db.unknown_environment_spec)
        ue = [introspect_argsp(db.unknown_environment_spec), bool(bm)]
    return {'macros': macros, 'envs': envs, 'specials': specials, 'um': um, 'ue': ue}

def specials_keys(ctx):
    if ctx == 'default':
        return [n for n, a in introspect_db(make_db('default'))['specials']]
    return [n for n, a in ctx['specials']]
