# The document grammar (notes/doc-grammar.md): generator of well-formed documents, unparse, the expected
# structure (treeOf as a projection), projection of an implementation tree, and single structural faults.
import gen

TEXT_CHARS = 'abcxyzXY019.,;:'
TOK_CHARS = 'abxy19'

# generator view of a context: name -> signature; signature = list of slot kinds
#   slot kinds: 'm', 'm+' (math), 'm-' (text), 'o', 'o0', 's', 't<c>', 'r<o><c>', 'd<o><c>', 'v'
CTXG = {
    'default': {
        'macros': {'emph': ['m'], 'textbf': ['m-'], 'frac': ['m', 'm'], 'sqrt': ['o', 'm'], 'section': ['s', 'o', 'm'],
                   'item': ['o'], '\\': ['s', 'o0'], 'ensuremath': ['m+'], 'text': ['m-'], 'label': ['m'],
                   'alpha': [], 'ldots': [], 'unknownmacro': [], ',': [], '%': [], '$': [], '{': [], '}': [], '&': [], '#': [], '_': [], 'hspace': ['s', 'm'], 'mathrm': ['m'],
                   "'": ['m'], 'footnote': ['o', 'm']},
        'envs': {'itemize': ([], False), 'equation': ([], True), 'center': ([], False), 'unknownenv': ([], False),
                 'my-env': ([], False), 'long-table*': ([], False), 'a.b_c:d/e!f^(g)[h] 1': ([], False),
                 'array': (['o', 'm'], True), 'align*': ([], True), 'tabular': (['m'], False)},
        'verbenvs': {'verbatim': False, 'lstlisting': True},
        'verbmacro': 'verb',
        'specials': {'~': [], '&': [], '--': [], '``': [], "''": []},
        'par_specials': True,
    },
    'A': {
        'macros': {'m': ['m'], 'mm': ['m', 'm'], 'o': ['o', 'm'], 's': ['s'], 'so': ['s', 'o', 'm'], 't': ['t+'], 'r': ['r()'],
                   'd': ['d<>', 'm'], 'v': ['v'], 'tx': ['m-'], 'mt': ['m+'], '\\': ['s', 'o0'], 'z': [], 'oo': ['o', 'o'],
                   'om': ['o+', 'm-'], 'unk': []},
        'envs': {'e': ([], False), 'ea': (['o', 'm'], False), 'eq': ([], True), 'es': (['s'], True), 'u': ([], False)},
        'verbenvs': {'verbatim': False, 'lst': True},
        'verbmacro': 'verb',
        'specials': {'~': [], '&': [], '``': [], '--': [], '!': ['o']},
        'par_specials': True,
    },
}

def ctx_of(name):
    return gen.CONTEXTS[name]

_SYNCED = False

def _kind_of(spec):
    k, d = spec
    if k == 'o1': k = 'o'
    return k + d if k[0] in 'mo' and k != 'o0' else k

def sync_default():
    """take the signatures of the curated default-context names from the real database"""
    global _SYNCED
    if _SYNCED:
        return
    import ctxdesc
    j = ctxdesc.introspect_db(ctxdesc.make_db('default'))
    cg = CTXG['default']
    macros = dict((n, a) for n, a in j['macros'])
    envs = dict((n, (a, bm)) for n, a, bm in j['envs'])
    for n in list(cg['macros']):
        a = macros.get(n, j['um'])
        if a is None or a[0] != 'S':
            del cg['macros'][n]
        else:
            cg['macros'][n] = [_kind_of(sp) for sp in a[1]]
    for n in list(cg['envs']):
        a, bm = envs.get(n, (j['ue'][0], j['ue'][1]) if j['ue'] else (None, False))
        if a is None or a[0] != 'S':
            del cg['envs'][n]
        else:
            cg['envs'][n] = ([_kind_of(sp) for sp in a[1]], bm)
    _SYNCED = True

# ---------------------------------------------------------------- generation

def gen_text(rng):
    return ''.join(rng.choice(TEXT_CHARS) for _ in range(rng.randint(1, 4)))

def gen_ws(rng):
    return rng.choice([' ', ' ', '\n', '  ', ' \n', '\t'])

def gen_argval(rng, cg, kind, budget, in_math, depth):
    k = kind[0]
    sub = lambda m=in_math: gen_items(rng, cg, max(0, budget - 1), m, depth + 1, nested=True)
    math = in_math
    if kind.endswith('+') and k in 'mo':
        math = True
    elif kind.endswith('-') and k in 'mo':
        math = False
    if k == 'm':
        if rng.random() < 0.2:
            return ('tok', rng.choice(TOK_CHARS))
        return ('grp', sub(math))
    if k == 'o':
        if rng.random() < 0.45:
            return ('absent',)
        return ('br', [it for it in sub(math)])
    if k == 's':
        return ('star',) if rng.random() < 0.5 else ('absent',)
    if k == 't':
        return ('marker', kind[1]) if rng.random() < 0.5 else ('absent',)
    if k == 'r':
        return ('del', kind[1], kind[2], sub(math))
    if k == 'd':
        if rng.random() < 0.4:
            return ('absent',)
        return ('del', kind[1], kind[2], sub(math))
    if k == 'v':
        o = rng.choice('{|!+')
        c = '}' if o == '{' else o
        return ('verb', o, c, ''.join(rng.choice('ab \\%$&') for _ in range(rng.randint(0, 4))))
    raise ValueError(kind)

def opener_of(kind):
    k = kind[0]
    if k == 'o': return '['
    if k == 's': return '*'
    if k == 't': return kind[1]
    if k == 'd': return kind[1]
    return None

def present_empty(kind):
    k = kind[0]
    if k == 'o': return ('br', [])
    if k == 's': return ('star',)
    if k == 't': return ('marker', kind[1])
    if k == 'd': return ('del', kind[1], kind[2], [])
    raise ValueError(kind)

def fix_args(sig, args):
    """an absent optional slot must not be followed by a written argument that starts with its opener"""
    args = list(args)
    for i in range(len(args) - 1, -1, -1):
        if args[i][0] != 'absent':
            continue
        op = opener_of(sig[i])
        nxt = ''.join(unparse_arg(a) for a in args[i + 1:])
        if op and nxt[:1] == op:
            args[i] = present_empty(sig[i])
    return args

def gen_args(rng, cg, sig, budget, in_math, depth):
    return fix_args(sig, [gen_argval(rng, cg, k, budget, in_math, depth) for k in sig])

def gen_item(rng, cg, budget, in_math, depth, nested):
    r = rng.random()
    if budget <= 0 or r < 0.28:
        return ('T', gen_text(rng))
    if r < 0.38:
        return ('W', gen_ws(rng))
    if r < 0.43 and not in_math:
        return ('P', rng.choice(['\n\n', '\n \n', '\n\n\n']))
    if r < 0.50:
        return ('G', gen_items(rng, cg, budget - 1, in_math, depth + 1, True))
    if r < 0.70:
        name = rng.choice(sorted(cg['macros']))
        sig = cg['macros'][name]
        args = gen_args(rng, cg, sig, budget - 1, in_math, depth)
        return ('M', name, '', args)
    if r < 0.78 and depth < 4:
        name = rng.choice(sorted(cg['envs']))
        sig, bm = cg['envs'][name]
        args = gen_args(rng, cg, sig, budget - 1, in_math, depth)
        return ('E', name, args, gen_items(rng, cg, budget - 1, in_math or bm, depth + 1, True))
    if r < 0.86 and not in_math:
        kind = rng.choice(['$', '$', '$$', '\\(', '\\['])
        body = gen_items(rng, cg, max(0, budget - 2), True, depth + 1, True)
        return ('F', kind, body)
    if r < 0.91:
        if rng.random() < 0.25:
            # a comment whose whole text is a delimiter that could close an enclosing construct
            ctext = rng.choice(['$', '$$', '}', ']', '\\)', '\\]', '\\end{e}', '{', '\\begin{e}', '>', ')'])
        else:
            ctext = ''.join(rng.choice('ab {}$\\%') for _ in range(rng.randint(0, 4)))
        return ('C', ctext, rng.choice(['\n', '\n  ', '\n']))
    if r < 0.96:
        name = rng.choice(sorted(cg['specials']))
        sig = cg['specials'][name]
        args = gen_args(rng, cg, sig, budget - 1, in_math, depth)
        return ('S', name, args)
    if r < 0.98 and not in_math and cg['verbenvs']:
        vn = rng.choice(sorted(cg['verbenvs']))
        opt = None
        if cg['verbenvs'][vn] and rng.random() < 0.5:
            opt = [('T', 'opt')]
        body = rng.choice(['', '\n', '\n', ' ', '\n  ']) + ''.join(rng.choice('ab {}$\\%\n[]') for _ in range(rng.randint(0, 5)))
        if rng.random() < 0.3:
            # a first line that looks like an optional argument (list comprehension, [section] header, [[attribute]]): after a
            # newline or blank it is listing text, also when the environment takes an optional argument that is not given
            body = rng.choice(['\n', ' ', '\n ', '']) + rng.choice(['[x*x for x in r]', '[section]', '[[nodiscard]]', '[1, 2]', '[', '[]']) + rng.choice(['\n', '\nk = v\n', ' b', ''])
        if cg['verbenvs'][vn] and opt is None and body[:1] == '[':
            body = '\n' + body          # directly after \begin{...} a bracket IS the optional argument
        return ('VE', vn, opt, body)
    if cg.get('verbmacro') and (cg is CTXG['default'] or cg is CTXG['A']):
        d = rng.choice('|!+/')
        return ('V', d, ''.join(rng.choice('ab {}$\\%') for _ in range(rng.randint(0, 4))))
    return ('T', gen_text(rng))

def first_char(items):
    s = unparse(items)
    return s[:1]

def gen_items(rng, cg, budget, in_math, depth, nested):
    n = rng.randint(0 if nested else 1, max(1, min(4, budget + 1)))
    items = []
    for _ in range(n):
        it = gen_item(rng, cg, budget, in_math, depth, nested)
        items.append(it)
        if it[0] == 'F' and it[1] == '$' and not in_math and rng.random() < 0.3:
            # a display formula written directly behind an inline one (`$x $$$y$$`): the closing `$` must win over `$$`
            body = list(it[2])
            if rng.random() < 0.6 and body and body[-1][0] == 'T':
                body = body + [('W', ' ')]
                items[-1] = ('F', '$', body)
            items.append(('F', '$$', [('T', rng.choice('xyz'))]))
    return fixup(rng, cg, items, in_math, nested)

def is_alpha_name(name):
    return name.isalpha()

def trailing_open(item, cg):
    """characters that must not follow (after optional whitespace) because a trailing optional slot is absent"""
    if item[0] == 'M':
        sig = cg['macros'][item[1]]; args = item[3]
    elif item[0] == 'S':
        sig = cg['specials'][item[1]]; args = item[2]
    else:
        return set(), False
    bad = set()
    immediate_only = False
    for k, a in reversed(list(zip(sig, args))):
        if a[0] != 'absent':
            break
        if k[0] == 'o':
            bad.add('[')
            if k == 'o0':
                immediate_only = True
        elif k[0] == 's':
            bad.add('*')
        elif k[0] == 't':
            bad.add(k[1])
        elif k[0] == 'd':
            bad.add(k[1])
    return bad, immediate_only

def fixup(rng, cg, items, in_math, nested):
    """enforce the separation discipline WF by local repairs"""
    out = []
    for it in items:
        prev = out[-1] if out else None
        # merge adjacent text / whitespace
        if it[0] == 'T' and prev and prev[0] == 'T':
            out[-1] = ('T', prev[1] + it[1]); continue
        if it[0] == 'W' and prev and prev[0] in ('W', 'P'):
            continue
        if it[0] == 'W' and prev and prev[0] == 'C':
            if not it[1].replace('\n', ''):
                continue
            it = ('W', it[1].replace('\n', ''))
        if it[0] == 'P' and prev and prev[0] == 'W':
            out[-1] = it; continue
        if it[0] == 'P' and prev and prev[0] in ('P',):
            continue
        if it[0] == 'F' and in_math:
            continue
        if it[0] == 'S' and prev is not None and prev[0] == 'S' and not (prev[2] and any(a[0] != 'absent' for a in prev[2])):
            out.append(('T', 'q'))
        if it[0] == 'F' and it[1] == '$' and not unparse(it[2]).strip():
            it = ('F', '$', [('T', 'x')])
        if it[0] == 'F' and it[2] and it[2][0][0] == 'F':
            it = ('F', it[1], [('T', 'y')] + it[2])
        if it[0] == 'F' and it[1] == '$' and prev is not None and prev[0] == 'F' and prev[1] == '$':
            out.append(('T', 'z'))
        if it[0] == 'F' and it[1] == '$' and unparse(it[2]).startswith('$'):
            it = ('F', '$', [('T', 'y')] + it[2])
        out.append(it)
    # second pass: macro post-space and trailing-optional rules need the following item
    res = []
    for i, it in enumerate(out):
        nxt = out[i + 1] if i + 1 < len(out) else None
        if it[0] == 'M':
            name, args = it[1], it[3]
            written = [a for a in args if a[0] != 'absent']
            post = ''
            if is_alpha_name(name):
                if written:
                    if written[0][0] in ('tok',):
                        post = ' '
                    elif rng.random() < (0.4 if written[0][0] == 'br' else 0.2) and (written[0][0] == 'grp' or
                                                 (written[0][0] == 'br' and args[0] is written[0] and
                                                  str(cg['macros'].get(name, ['x'])[0]).rstrip('+-') == 'o')):
                        # blanks between a control word and its first written argument (also a bracket: `\item [x]`)
                        post = rng.choice([' ', '\n'])
                else:
                    # followed directly by the next item: a letter would extend the name; whitespace belongs to the macro
                    if nxt is None or nxt[0] == 'W':
                        post = nxt[1] if nxt is not None else ''
                        if nxt is not None:
                            out[i + 1] = ('W0', '')
                    elif nxt[0] == 'T' or (first_char([nxt]).isalpha()):
                        post = ' '
            it = ('M', name, post, args)
        res.append(it)
    res = [x for x in res if x[0] != 'W0']
    # trailing absent optionals: the next source character must not look like the slot's opener
    fin = []
    for i, it in enumerate(res):
        fin.append(it)
        bad, immediate = trailing_open(it, cg)
        if bad:
            rest = unparse(res[i + 1:])
            nxtc = rest[:1] if immediate else rest.lstrip()[:1]
            if it[0] == 'M' and it[2]:
                nxtc = rest.lstrip()[:1] if not immediate else ''
            if nxtc and nxtc in bad:
                fin.append(('T', 'q'))
    # a comment must be followed by its newline (tail) -- always present; nothing to do
    return fin

def gen_doc(rng, ctxname, budget=6):
    if ctxname == 'default':
        sync_default()
    cg = CTXG[ctxname]
    return gen_items(rng, cg, budget, False, 0, False)

# ---------------------------------------------------------------- unparse

def unparse_arg(a):
    k = a[0]
    if k == 'absent': return ''
    if k == 'star': return '*'
    if k == 'marker': return a[1]
    if k == 'br': return '[' + unparse(a[1]) + ']'
    if k == 'grp': return '{' + unparse(a[1]) + '}'
    if k == 'tok': return a[1]
    if k == 'del': return a[1] + unparse(a[3]) + a[2]
    if k == 'verb': return a[1] + a[3] + a[2]
    raise ValueError(a)

CLOSER = {'$': '$', '$$': '$$', '\\(': '\\)', '\\[': '\\]'}

def unparse(items):
    out = []
    for it in items:
        k = it[0]
        if k in ('T', 'W', 'P'):
            out.append(it[1])
        elif k == 'G':
            out.append('{' + unparse(it[1]) + '}')
        elif k == 'M':
            out.append('\\' + it[1] + it[2] + ''.join(unparse_arg(a) for a in it[3]))
        elif k == 'E':
            out.append('\\begin{%s}' % it[1] + ''.join(unparse_arg(a) for a in it[2]) + unparse(it[3]) + '\\end{%s}' % it[1])
        elif k == 'F':
            out.append(it[1] + unparse(it[2]) + CLOSER[it[1]])
        elif k == 'C':
            out.append('%' + it[1] + it[2])
        elif k == 'S':
            out.append(it[1] + ''.join(unparse_arg(a) for a in it[2]))
        elif k == 'V':
            out.append('\\verb' + it[1] + it[2] + it[1])
        elif k == 'VE':
            out.append('\\begin{%s}' % it[1] + ('[' + unparse(it[2]) + ']' if it[2] is not None else '') + it[3] + '\\end{%s}' % it[1])
        else:
            raise ValueError(it)
    return ''.join(out)

def unparse_spaced(rng, items, cg, prob=0.5, nocomment=False):
    """the same document with blanks, newlines or a comment line written BETWEEN two arguments of a call, in front of a
    brace-group value of an `m` slot or a bracket value of an `o` slot (slots that accept leading whitespace); the
    structure is unchanged.  Returns (source, number of insertions, number of comment lines in front of a bracket value);
    nocomment=True writes a blank wherever a comment line would go in front of a bracket value (same random choices)."""
    count = [0, 0]      # insertions, of which comment lines in front of a bracket value
    def args_src(sig, args):
        out = []
        seen_written = False
        for k, a in zip(sig, args):
            src = unparse_arg_sp(a)
            if a[0] != 'absent':
                kind = str(k).rstrip('+-')
                if seen_written and rng.random() < prob and ((a[0] == 'grp' and kind == 'm') or (a[0] == 'br' and kind == 'o')):
                    ins = rng.choice([' ', ' ', '\n', '  ', '\t', '%c\n', ' %\n '])
                    if nocomment and a[0] == 'br' and '%' in ins:
                        ins = ' '
                    out.append(ins)
                    count[0] += 1
                    if a[0] == 'br' and '%' in ins:
                        count[1] += 1
                seen_written = True
            out.append(src)
        return ''.join(out)
    def unparse_arg_sp(a):
        k = a[0]
        if k == 'br': return '[' + go(a[1]) + ']'
        if k == 'grp': return '{' + go(a[1]) + '}'
        if k == 'del': return a[1] + go(a[3]) + a[2]
        return unparse_arg(a)
    def go(its):
        out = []
        for it in its:
            k = it[0]
            if k == 'G':
                out.append('{' + go(it[1]) + '}')
            elif k == 'M' and it[1] in cg['macros']:
                out.append('\\' + it[1] + it[2] + args_src(cg['macros'][it[1]], it[3]))
            elif k == 'E' and it[1] in cg['envs']:
                out.append('\\begin{%s}' % it[1] + args_src(cg['envs'][it[1]][0], it[2]) + go(it[3]) + '\\end{%s}' % it[1])
            elif k == 'F':
                out.append(it[1] + go(it[2]) + CLOSER[it[1]])
            elif k == 'S' and it[1] in cg['specials']:
                out.append(it[1] + args_src(cg['specials'][it[1]], it[2]))
            else:
                out.append(unparse([it]))
        return ''.join(out)
    return go(items), count[0], count[1]

# ---------------------------------------------------------------- expected structure (projection)

def norm_list(nodes):
    """merge adjacent chars, drop whitespace-only chars"""
    out = []
    for n in nodes:
        if n[0] == 'c' and out and out[-1][0] == 'c':
            out[-1] = ('c', out[-1][1] + n[1])
        else:
            out.append(n)
    return [n for n in out if not (n[0] == 'c' and not n[1].strip())]

def tree_arg(a, cg):
    k = a[0]
    if k == 'absent': return None
    if k == 'star': return ('c', '*')
    if k == 'marker': return [('c', a[1])]
    if k == 'br': return ('g', '[', ']', tree_of(a[1], cg))
    if k == 'grp': return ('g', '{', '}', tree_of(a[1], cg))
    if k == 'tok': return ('c', a[1])
    if k == 'del': return ('g', a[1], a[2], tree_of(a[3], cg))
    if k == 'verb': return ('g', a[1], a[2], norm_list([('c', a[3])]) if a[3].strip() else [])
    raise ValueError(a)

def tree_of(items, cg):
    out = []
    prev = None
    for it in items:
        k = it[0]
        if k == 'W' and prev is not None and prev[0] == 'C':
            prev = it
            continue        # whitespace after a comment's newline is the comment's post-space
        pprev = prev
        prev = it
        if k in ('T', 'W'):
            out.append(('c', it[1]))
        elif k == 'P':
            # without a paragraph specials the break is plain text; it then also holds the newline that ended a preceding comment
            pre = pprev[2] if (pprev is not None and pprev[0] == 'C') else ''
            out.append(('s', '\n\n') if cg['par_specials'] else ('c', pre + it[1]))
        elif k == 'G':
            out.append(('g', '{', '}', tree_of(it[1], cg)))
        elif k == 'M':
            out.append(('m', it[1], [tree_arg(a, cg) for a in it[3]]))
        elif k == 'E':
            out.append(('e', it[1], [tree_arg(a, cg) for a in it[2]], tree_of(it[3], cg)))
        elif k == 'F':
            out.append(('f', it[1] in ('$$', '\\['), it[1], CLOSER[it[1]], tree_of(it[2], cg)))
        elif k == 'C':
            out.append(('%', it[1]))
        elif k == 'S':
            out.append(('s', it[1], [tree_arg(a, cg) for a in it[2]]) if it[2] else ('s', it[1]))
        elif k == 'V':
            out.append(('m', cg['verbmacro'], [('c', it[2])] if it[2].strip() else [('c', it[2])]))
        elif k == 'VE':
            args = []
            if cg['verbenvs'][it[1]]:
                args.append(('g', '[', ']', tree_of(it[2], cg)) if it[2] is not None else None)
            args.append(('c', it[3]))
            out.append(('e', it[1], args, []))
    return norm_list(out)

def project_node(n):
    from pylatexenc.latexnodes import nodes as N
    if isinstance(n, N.LatexCharsNode): return ('c', n.chars)
    if isinstance(n, N.LatexCommentNode): return ('%', n.comment)
    if isinstance(n, N.LatexGroupNode):
        d = n.delimiters or ('', '')
        return ('g', d[0], d[1], project_list(n.nodelist))
    if isinstance(n, N.LatexMacroNode):
        return ('m', n.macroname, project_args(n.nodeargd))
    if isinstance(n, N.LatexEnvironmentNode):
        return ('e', n.environmentname, project_args(n.nodeargd), project_list(n.nodelist))
    if isinstance(n, N.LatexSpecialsNode):
        a = project_args(n.nodeargd)
        return ('s', n.specials_chars, a) if a else ('s', n.specials_chars)
    if isinstance(n, N.LatexMathNode):
        d = n.delimiters or ('', '')
        return ('f', n.displaytype == 'display', d[0], d[1], project_list(n.nodelist))
    return ('?', type(n).__name__)

def project_list(nl):
    if nl is None:
        return None
    return norm_list([project_node(n) for n in nl if n is not None])

def project_args(nd):
    from pylatexenc.latexnodes import nodes as N
    if nd is None or nd.argnlist is None:
        return None
    out = []
    for a in nd.argnlist:
        if a is None:
            out.append(None)
        elif isinstance(a, (N.LatexNodeList, list, tuple)):
            out.append([project_node(x) for x in a if x is not None])
        else:
            out.append(project_node(a))
    return out

def fix_verbatim_chars(t):
    """verbatim text is compared raw: whitespace-only verbatim chars nodes are kept as they are in arguments"""
    return t

# ---------------------------------------------------------------- faults

def boundaries(items, base=0, acc=None):
    """positions between items (all nesting levels) outside verbatim text and comments"""
    if acc is None:
        acc = []
    pos = base
    acc.append(pos)
    for it in items:
        k = it[0]
        s = unparse([it])
        if k == 'G':
            boundaries(it[1], pos + 1, acc)
        elif k == 'F':
            boundaries(it[2], pos + len(it[1]), acc)
        elif k == 'E':
            p = pos + len('\\begin{%s}' % it[1])
            for a in it[2]:
                p = arg_boundaries(a, p, acc)
            boundaries(it[3], p, acc)
        elif k == 'M':
            p = pos + 1 + len(it[1]) + len(it[2])
            for a in it[3]:
                if a[0] != 'verb':
                    acc.append(p)
                p = arg_boundaries(a, p, acc)
            if it[3] and it[3][-1][0] == 'verb':
                pass
        elif k == 'S':
            p = pos + len(it[1])
            for a in it[2]:
                p = arg_boundaries(a, p, acc)
        pos += len(s)
        acc.append(pos)
    return acc

def arg_boundaries(a, p, acc):
    k = a[0]
    if k in ('br', 'grp'):
        boundaries(a[1], p + 1, acc)
    elif k == 'del':
        boundaries(a[3], p + 1, acc)
    return p + len(unparse_arg(a))

def verbatim_texts(items):
    """the verbatim contents (with their delimiters) written anywhere in the document"""
    out = []
    def arg(a):
        if a[0] in ('br', 'grp'): walk(a[1])
        elif a[0] == 'del': walk(a[3])
        elif a[0] == 'verb': out.append(a[1] + a[3] + a[2])
    def walk(its):
        for it in its:
            k = it[0]
            if k == 'G': walk(it[1])
            elif k == 'F': walk(it[2])
            elif k == 'M':
                for a in it[3]: arg(a)
            elif k == 'E':
                for a in it[2]: arg(a)
                walk(it[3])
            elif k == 'S':
                for a in it[2]: arg(a)
            elif k == 'V': out.append(it[1] + it[2] + it[1])
            elif k == 'VE':
                if it[2] is not None: walk(it[2])
                out.append(it[3])
    walk(items)
    return out

STRUCTURAL = set('{}[]$\\%')

FAULTS = ['{', '}', '$', '\\(', '\\)', '\\[', '\\]', '\\begin{zz}', '\\end{zz}']

def replacement_faults(items, base=0, acc=None):
    """(pos, old, new): a closing marker replaced by a closing marker of another construct — `\\end{e}` by `\\end{zz}`,
    `\\)` by `\\]` and conversely (the document stays "balanced" by counting but not by matching)"""
    if acc is None:
        acc = []
    pos = base
    for it in items:
        k = it[0]
        s = unparse([it])
        if k == 'G':
            replacement_faults(it[1], pos + 1, acc)
        elif k == 'F':
            replacement_faults(it[2], pos + len(it[1]), acc)
            cl = CLOSER[it[1]]
            if it[1] == '\\(':
                acc.append((pos + len(s) - len(cl), cl, '\\]'))
            elif it[1] == '\\[':
                acc.append((pos + len(s) - len(cl), cl, '\\)'))
        elif k == 'E':
            p = pos + len('\\begin{%s}' % it[1])
            for a in it[2]:
                p = _arg_repl(a, p, acc)
            replacement_faults(it[3], p, acc)
            end = '\\end{%s}' % it[1]
            acc.append((pos + len(s) - len(end), end, '\\end{zz}'))
        elif k == 'M':
            p = pos + 1 + len(it[1]) + len(it[2])
            for a in it[3]:
                p = _arg_repl(a, p, acc)
        elif k == 'S':
            p = pos + len(it[1])
            for a in it[2]:
                p = _arg_repl(a, p, acc)
        pos += len(s)
    return acc

def _arg_repl(a, p, acc):
    k = a[0]
    if k in ('br', 'grp'):
        replacement_faults(a[1], p + 1, acc)
    elif k == 'del':
        replacement_faults(a[3], p + 1, acc)
    return p + len(unparse_arg(a))

def fault_sites(items, rng, ctxname, maxn=12):
    s = unparse(items)
    # A fault in front of a verbatim construct can change how the verbatim text is read (e.g. `}` before `\verb!{{}!}`
    # makes `\verb` a one-token argument and the former verbatim text ordinary, balanced markup): the faulty document
    # is then not unbalanced.  Faults are injected only where no verbatim text carries structural characters.
    if any(STRUCTURAL & set(v) for v in verbatim_texts(items)):
        return []
    bs = sorted(set(boundaries(items)))
    sites = []
    for b in bs:
        for f in FAULTS:
            # a fault text ending in a letter-free token never fuses with what follows; `\begin{zz}` / `\end{zz}` end in `}`
            sites.append((b, f))
    rng.shuffle(sites)
    return sites[:maxn]

# ---------------------------------------------------------------- random contexts (every signature over the standard argument types)

SLOT_KINDS = ['m', 'm', 'm+', 'm-', 'o', 'o', 's', 't+', 't!', 'r()', 'r<>', 'd<>', 'd()', 'v', 'o0']

def json_spec(kind):
    d = ''
    k = kind
    if kind[-1] in '+-' and kind[0] in 'mo' and len(kind) == 2:
        d = kind[-1]; k = kind[0]
    if k == 'o': k = 'o1'
    return [k, d]

def gen_random_ctx(rng):
    """returns (json ctx, generator view)"""
    macros, envs, specials = [], [], []
    cg = {'macros': {}, 'envs': {}, 'verbenvs': {}, 'verbmacro': 'verb', 'specials': {}, 'par_specials': rng.random() < 0.7}
    for i in range(rng.randint(2, 6)):
        name = rng.choice(['p', 'q', 'pq', 'w', 'ww', 'k', 'kk', '!', ';', '\\'])
        if name in cg['macros']:
            continue
        sig = [rng.choice(SLOT_KINDS) for _ in range(rng.randint(0, 4))]
        # a no-pre-space bracket only makes sense directly after a star (as in `\\`)
        sig = [('o' if k == 'o0' and name != '\\' else k) for k in sig]
        cg['macros'][name] = sig
        macros.append([name, ['S', [json_spec(k) for k in sig]]])
    for i in range(rng.randint(1, 3)):
        name = rng.choice(['e', 'f', 'ee', 'g*', 'h-i', 'j.k', 'l_m', 'n o', 'p:q', 'r/s', 't!', '^', '(v)', '[w]', '7'])
        if name in cg['envs']:
            continue
        sig = [rng.choice(SLOT_KINDS[:13]) for _ in range(rng.randint(0, 2))]
        bm = rng.random() < 0.4
        cg['envs'][name] = (sig, bm)
        envs.append([name, ['S', [json_spec(k) for k in sig]], bm])
    for ch in rng.sample(['~', '&', '``', '--', '#'], rng.randint(0, 3)):
        sig = [rng.choice(['o', 'm'])] if rng.random() < 0.2 else []
        cg['specials'][ch] = sig
        specials.append([ch, ['S', [json_spec(k) for k in sig]]])
    if cg['par_specials']:
        specials.append(['\n\n', ['S', []]])
    um = None
    ue = None
    if rng.random() < 0.6:
        um = ['S', []]
        cg['macros']['zz'] = []
    if rng.random() < 0.6:
        ue = [['S', []], False]
        cg['envs']['uu'] = ([], False)
    if not cg['specials']:
        cg['specials']['~'] = []
        specials.append(['~', ['S', []]])
    ctx = {'macros': macros, 'envs': envs, 'specials': specials, 'um': um, 'ue': ue}
    return ctx, cg

def gen_doc_cg(rng, cg, budget=6):
    return gen_items(rng, cg, budget, False, 0, False)
