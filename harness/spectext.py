# C03 — the documented rules of latex2text for the core sublanguage, written declaratively over a *derivation* of the
# document grammar (notes/doc-grammar.md; items as in harness/docgen.py), NOT over the tree the parser returns:
#
#   spec_text(opts, doc)        the text LatexNodes2Text(**opts).latex_to_text(unparse(doc)) must return
#   self_contained(doc)         the blocks the composition law speaks about (DESIGN.md "### C03")
#   sep_text(opts, sep, a, b)   the policy's own rendering of the separator between two self-contained blocks
#   gen_core_doc / gen_block    generators of core-sublanguage derivations
#
# Symbol / specials characters, accent combining characters and the replacement strings of \frac and \sqrt are read from
# the real text database (pylatexenc.latex2text.get_default_latex_context_db()) at run time; the strict_latex_spaces
# presets are the DOCUMENTED ones (class docstring of LatexNodes2Text) and are deliberately a copy: a change of the
# presets in the code is a change of documented behaviour.
import re, unicodedata
import docgen

# ---------------------------------------------------------------- the whitespace policy (strict_latex_spaces)

def _pol(mc, lc, ac, ineq):
    return {'mc': mc, 'lc': lc, 'ac': ac, 'ineq': ineq}

# documentation of the presets: 'based-on-source' keeps the spaces of the source everywhere; 'macros' (the default,
# also False) obeys LaTeX's rules after macros and between constructs but keeps indentation after comments and is liberal
# ('based-on-source') in equations; 'except-in-equations' is strict everywhere except in equations; True is strict everywhere.
PRESETS = {
    'based-on-source': _pol(False, False, False, None),
    'macros': _pol(True, True, False, 'based-on-source'),
    'except-in-equations': _pol(True, True, True, 'based-on-source'),
}

def policy(v):
    """the four switches selected by a value of strict_latex_spaces= (or of its key 'in-equations')"""
    if v is None:
        return _pol(False, False, False, None)
    if v is False or v == 'off':
        return dict(PRESETS['macros'])
    if v is True or v == 'on':
        return _pol(True, True, True, True)
    if isinstance(v, dict):
        return _pol(bool(v.get('between-macro-and-chars', False)), bool(v.get('between-latex-constructs', False)),
                    bool(v.get('after-comment', False)), v.get('in-equations', None))
    if v == 'default':
        v = 'based-on-source'
    return dict(PRESETS[v])

def enter_eq(pol):
    """the policy inside a formula: the 'in-equations' value if there is one, else unchanged"""
    if pol['ineq'] is None:
        return pol
    return policy(pol['ineq'])

# ---------------------------------------------------------------- tables read from the real text database

_TAB = None

def tables():
    global _TAB
    if _TAB is not None:
        return _TAB
    from pylatexenc import latex2text
    from pylatexenc.latex2text import _defaultspecs
    db = latex2text.get_default_latex_context_db()
    sym, fmt, transparent = {}, {}, set()
    for cat in db.category_list:
        for n, sp in db.d[cat]['macros'].items():
            if n in sym or n in fmt or n in transparent:
                continue
            r = sp.simplify_repl
            if isinstance(r, str) and r and ('%' not in r or len(r) == 1):
                sym[n] = r
            elif isinstance(r, str) and r:
                fmt[n] = r
            elif not r and not sp.discard:
                transparent.add(n)
    sym['%'] = '%'          # the database spells this one as a constant function (a bare '%' would be a format directive)
    specials = {}
    for cat in db.category_list:
        for n, sp in db.d[cat]['specials'].items():
            if n not in specials and isinstance(sp.simplify_repl, str):
                specials[n] = sp.simplify_repl
    envs_transparent = set()
    for cat in db.category_list:
        for n, sp in db.d[cat]['environments'].items():
            if not sp.simplify_repl and not sp.discard:
                envs_transparent.add(n)
    accents = dict(_defaultspecs.unicode_accents_list)
    known = set()
    for cat in db.category_list:
        known |= set(db.d[cat]['macros'])
    known_envs = set()
    for cat in db.category_list:
        known_envs |= set(db.d[cat]['environments'])
    _TAB = {'sym': sym, 'fmt': fmt, 'transparent': transparent, 'specials': specials, 'accents': accents,
            'known': known, 'envs_transparent': envs_transparent, 'known_envs': known_envs}
    return _TAB

# ---------------------------------------------------------------- the core sublanguage (generator view, as docgen.CTXG)

FORMAT = ['emph', 'textbf', 'textit', 'textrm', 'textsc', 'textsl', 'text', 'mathrm']
SYMBOL_WORDS = ['i', 'j', 'alpha', 'beta', 'Omega', 'ldots', 'dots', 'quad', 'pm', 'times', 'leq', 'to', 'infty', 'ss', 'o', 'l', 'dag', 'cdot', 'textendash']
SYMBOL_CHARS = ['&', '%', ',', ';', '#', '_', '$', '{', '}', '!']
ACCENT_BASES = 'aeiounycAEO'
UNKNOWN_MACROS = ['unknownmacro', 'zzz']
LIST_ENVS = ['itemize', 'enumerate']
UNKNOWN_ENVS = ['unknownenv']
SPECIALS = ['~', '&', '--', '---', '``', "''", '!`', '?`']

_CG = None

def core_cg():
    """name -> signature for the curated names, the signatures taken from the real walker database"""
    global _CG
    if _CG is not None:
        return _CG
    import ctxdesc
    T = tables()
    j = ctxdesc.introspect_db(ctxdesc.make_db('default'))
    wm = dict((n, a) for n, a in j['macros'])
    we = dict((n, (a, bm)) for n, a, bm in j['envs'])
    ws = dict((n, a) for n, a in j['specials'])
    def sig(a):
        return [docgen._kind_of(sp) for sp in a[1]]
    macros, classes = {}, {}
    def add(n, cls, want=None):
        a = wm.get(n, j['um'])
        if a is None or a[0] != 'S':
            return
        s = sig(a)
        if want is not None and [k[0] for k in s] != want:
            return
        macros[n] = s
        classes[n] = cls
    for n in FORMAT:
        if n in T['transparent']: add(n, 'format', ['m'])
    for n in SYMBOL_WORDS + SYMBOL_CHARS:
        if n in T['sym']: add(n, 'symbol', [])
    for n in T['accents']:
        add(n, 'accent', ['m'])
    if T['fmt'].get('frac'): add('frac', 'frac', ['m', 'm'])
    if T['fmt'].get('sqrt'): add('sqrt', 'sqrt', ['o', 'm'])
    add('item', 'item', ['o'])
    for n in UNKNOWN_MACROS:
        if n not in T['known']: add(n, 'unknown', [])
    envs = {}
    for n in LIST_ENVS:
        a = we.get(n)
        if a is not None and a[0][0] == 'S' and not a[1] and n in T['envs_transparent']:
            envs[n] = (sig(a[0]), False)
    for n in UNKNOWN_ENVS:
        if n not in we and n not in T['known_envs'] and j['ue'] and j['ue'][0][0] == 'S':
            envs[n] = (sig(j['ue'][0]), bool(j['ue'][1]))
    specials = {}
    for n in SPECIALS:
        if n in ws and n in T['specials'] and ws[n][0] == 'S' and not ws[n][1]:
            specials[n] = []
    _CG = {'macros': macros, 'classes': classes, 'envs': envs, 'verbenvs': {}, 'verbmacro': None, 'specials': specials,
           'par_specials': '\n\n' in ws}
    return _CG

# ---------------------------------------------------------------- spec_text: the documented rules over the derivation

def group_rule(opts, o, c, contents):
    """a group is transparent; its delimiters are kept under keep_braced_groups when the contents are long enough"""
    if opts['kb'] and len(contents) >= opts['ml']:
        return o + contents + c
    return contents

def is_written(a):
    return a[0] != 'absent'

def arg_contents(opts, pol, a):
    """the text of one argument, its delimiters dropped"""
    k = a[0]
    if k == 'absent':
        return ''
    if k in ('grp', 'br'):
        return spec_items(opts, pol, a[1])
    if k == 'tok':
        return a[1]
    raise ValueError('argument form outside the core sublanguage: %r' % (a,))

def arg_as_node(opts, pol, a):
    """the text of one argument rendered as a construct of its own (a group is a group)"""
    k = a[0]
    if k == 'grp':
        return group_rule(opts, '{', '}', spec_items(opts, pol, a[1]))
    if k == 'br':
        return group_rule(opts, '[', ']', spec_items(opts, pol, a[1]))
    return arg_contents(opts, pol, a)

_HAS_PCT_S = re.compile('(^|[^%])(%%)*%s')

def fill_format(fmt, vals):
    """a replacement string with %s (the arguments in order) or %(n)s (the n-th argument) placeholders"""
    if _HAS_PCT_S.search(fmt):
        return fmt % tuple(vals)
    return fmt % dict((str(i + 1), v) for i, v in enumerate(vals))

def accent(base, comb):
    out = []
    for ch in base:
        if ch == 'ı': ch = 'i'
        if ch == 'ȷ': ch = 'j'
        out.append(unicodedata.normalize('NFC', ch + comb))
    return ''.join(out)

def indented_block(contents, indent):
    return '\n' + indent + contents.replace('\n', '\n' + indent) + '\n'

def macro_text(opts, pol, name, args):
    T = tables()
    cls = core_cg()['classes'].get(name)
    if cls == 'symbol':
        return T['sym'][name]
    if cls == 'unknown':
        return ''
    if cls == 'format':
        return ''.join(arg_contents(opts, pol, a) for a in args)
    if cls == 'accent':
        return accent(arg_as_node(opts, pol, args[0]).strip(), T['accents'][name])
    if cls in ('frac', 'sqrt'):
        return fill_format(T['fmt'][name], [arg_contents(opts, pol, a) for a in args])
    if cls == 'item':
        if is_written(args[0]):
            return '\n  ' + arg_as_node(opts, pol, args[0])
        return '\n  * '
    raise ValueError('macro outside the core sublanguage: %r' % (name,))

def formula_text(opts, pol, kind, body, source):
    display = kind in ('$$', '\\[')
    mm = opts['mm']
    if mm == 'remove':
        return ''
    if mm == 'verbatim':
        return indented_block(source, '') if display else source
    content = spec_items(opts, enter_eq(pol), body).strip()
    if mm == 'with-delimiters':
        o, c = kind, docgen.CLOSER[kind]
        return o + indented_block(content, '') + c if display else o + content + c
    return indented_block(content, '    ') if display else content

def is_bare(it):
    """a macro call without any written argument"""
    return it[0] == 'M' and not any(is_written(a) for a in it[3])

def spec_items(opts, pol, items):
    out = []
    n = len(items)
    i = 0
    while i < n:
        it = items[i]
        k = it[0]
        if k in ('T', 'W'):
            # a maximal run of text and whitespace is one segment of characters; it is copied, except that a segment of
            # whitespace only (it then stands between two constructs) is kept only under 'between-latex-constructs'
            j = i
            run = []
            while j < n and items[j][0] in ('T', 'W'):
                run.append(items[j][1]); j += 1
            run = ''.join(run)
            if run.strip() or pol['lc']:
                out.append(run)
            i = j
            continue
        if k == 'P':
            out.append('\n\n')
        elif k == 'G':
            out.append(group_rule(opts, '{', '}', spec_items(opts, pol, it[1])))
        elif k == 'M':
            out.append(macro_text(opts, pol, it[1], it[3]))
            # the space after a bare macro is LaTeX's to swallow; it is put back in front of following characters
            # unless 'between-macro-and-chars'
            if is_bare(it) and i + 1 < n and items[i + 1][0] in ('T', 'W') and not pol['mc']:
                out.append(it[2])
        elif k == 'E':
            out.append(spec_items(opts, pol, it[3]))
        elif k == 'F':
            out.append(formula_text(opts, pol, it[1], it[2], docgen.unparse([it])))
        elif k == 'C':
            # the comment's own whitespace: its newline and the indentation of the next line -- unless the newline
            # opens a paragraph break
            post = it[2]
            if i + 1 < n and items[i + 1][0] == 'W':
                post += items[i + 1][1]
                i += 1
            elif i + 1 < n and items[i + 1][0] == 'P':
                post = ''
            if opts['kc']:
                out.append('%' + it[1] + (('\n' if post else '') if pol['ac'] else post))
            else:
                out.append('' if pol['ac'] else post)
        elif k == 'S':
            out.append(tables()['specials'][it[1]])
        else:
            raise ValueError('item outside the core sublanguage: %r' % (it,))
        i += 1
    return ''.join(out)

def spec_text(opts, doc):
    return spec_items(opts, policy(opts['sls']), doc)

# ---------------------------------------------------------------- the composition law

def is_alpha_name(name):
    return name.isalpha()

def self_contained(doc):
    """DESIGN.md: well-formed (by construction), non-empty, does not begin or end with whitespace, does not end with a
    comment, nor with a call whose trailing optional slots are absent, in particular not with a bare control word"""
    if not doc:
        return False
    s = docgen.unparse(doc)
    if not s or s[0].isspace() or s[-1].isspace():
        return False
    last = doc[-1]
    if last[0] == 'C':
        return False
    if last[0] == 'M':
        args = last[3]
        if args and not is_written(args[-1]):
            return False
        if not args and is_alpha_name(last[1]):
            return False
    if last[0] == 'S' and last[2] and not is_written(last[2][-1]):
        return False
    return True

def sep_text(opts, sep, a, b):
    """the policy's own rendering of the separator: a paragraph break is a paragraph break; a space is a space, except
    that between two constructs that are not characters it is a whitespace-only segment, kept only under
    'between-latex-constructs'"""
    if sep.count('\n') >= 2:
        return '\n\n'
    pol = policy(opts['sls'])
    if a[-1][0] != 'T' and b[0][0] != 'T' and not pol['lc']:
        return ''
    return sep

# ---------------------------------------------------------------- generator of core-sublanguage derivations

ATOMS = None

def _atoms():
    """small items for the bounded-exhaustive part: one of every construct and the policy-sensitive neighbours"""
    cg = core_cg()
    A = [('T', 'a'), ('W', ' '), ('W', '\n'), ('G', [('T', 'bc')]), ('G', []),
         ('M', 'alpha', '', []), ('M', '&', '', []), ('M', 'emph', '', [('grp', [('T', 'e')])]),
         ('M', 'item', '', [('absent',)]),
         ('F', '$', [('T', 'x'), ('W', ' '), ('M', 'beta', ' ', []), ('T', 'y')]), ('F', '\\[', [('W', ' '), ('T', 'z'), ('W', ' ')]),
         ('C', 'c', '\n'), ('C', 'd', '\n  '), ('S', '~', []), ('S', '--', []), ('P', '\n\n')]
    return [a for a in A if (a[0] != 'M' or a[1] in cg['macros']) and (a[0] != 'S' or a[1] in cg['specials'])]

def gen_text(rng):
    return docgen.gen_text(rng)

def gen_ws(rng):
    return rng.choice([' ', ' ', ' ', '\n', '  ', ' \n', '\t', '\n  '])

def _names(cg, cls):
    return sorted(n for n, c in cg['classes'].items() if c == cls)

def gen_macro(rng, cg, budget, in_math, depth):
    r = rng.random()
    sub = lambda m: gen_items(rng, max(0, budget - 1), m, depth + 1, True)
    if r < 0.34:
        n = rng.choice(_names(cg, 'symbol'))
        return ('M', n, '', [])
    if r < 0.58:
        n = rng.choice(_names(cg, 'format'))
        sig = cg['macros'][n]
        m = in_math
        if sig[0].endswith('-'): m = False
        if sig[0].endswith('+'): m = True
        if rng.random() < 0.12:
            return ('M', n, '', [('tok', rng.choice(docgen.TOK_CHARS))])
        return ('M', n, '', [('grp', sub(m))])
    if r < 0.72:
        n = rng.choice(_names(cg, 'accent'))
        q = rng.random()
        if q < 0.4:
            a = ('tok', rng.choice(ACCENT_BASES))
        elif q < 0.85:
            a = ('grp', [('T', rng.choice(ACCENT_BASES))])
        else:
            # an accent over a symbol macro (dotless i/j, and symbols whose character has a compatibility decomposition:
            # the accent must not turn \phi into \varphi, \ell into l, ...)
            syms = [x for x in ['i', 'j', 'phi', 'epsilon', 'ell', 'vartheta', 'alpha', 'aleph'] if x in _names(cg, 'symbol')]
            a = ('grp', [('M', rng.choice(syms), '', [])]) if syms else ('tok', 'e')
        return ('M', n, '', [a])
    if r < 0.82 and 'frac' in cg['macros']:
        args = []
        for _ in range(2):
            args.append(('tok', rng.choice(docgen.TOK_CHARS)) if rng.random() < 0.2 else ('grp', sub(in_math)))
        return ('M', 'frac', '', args)
    if r < 0.90 and 'sqrt' in cg['macros']:
        o = ('absent',) if rng.random() < 0.5 else ('br', sub(in_math))
        return ('M', 'sqrt', '', [o, ('grp', sub(in_math))])
    if r < 0.96 and 'item' in cg['macros']:
        o = ('absent',) if rng.random() < 0.6 else ('br', sub(in_math))
        return ('M', 'item', '', [o])
    names = _names(cg, 'unknown')
    if names:
        return ('M', rng.choice(names), '', [])
    return ('M', rng.choice(_names(cg, 'symbol')), '', [])

def gen_item(rng, budget, in_math, depth, nested):
    cg = core_cg()
    r = rng.random()
    if budget <= 0 or r < 0.24:
        return ('T', gen_text(rng))
    if r < 0.38:
        return ('W', gen_ws(rng))
    if r < 0.42 and not in_math:
        return ('P', rng.choice(['\n\n', '\n \n', '\n\n\n']))
    if r < 0.50:
        return ('G', gen_items(rng, budget - 1, in_math, depth + 1, True))
    if r < 0.72:
        return gen_macro(rng, cg, budget, in_math, depth)
    if r < 0.77 and depth < 4 and cg['envs']:
        name = rng.choice(sorted(cg['envs']))
        sig, bm = cg['envs'][name]
        args = []
        for kd in sig:
            args.append(('absent',) if rng.random() < 0.7 else ('br', gen_items(rng, max(0, budget - 2), in_math, depth + 1, True)))
        return ('E', name, args, gen_items(rng, budget - 1, in_math or bm, depth + 1, True))
    if r < 0.87 and not in_math:
        kind = rng.choice(['$', '$', '\\(', '$$', '\\['])
        return ('F', kind, gen_items(rng, max(0, budget - 1), True, depth + 1, True))
    if r < 0.93:
        return ('C', ''.join(rng.choice('ab {}$\\%') for _ in range(rng.randint(0, 3))), rng.choice(['\n', '\n  ', '\n', '\n\t']))
    return ('S', rng.choice(sorted(cg['specials'])), [])

def gen_items(rng, budget, in_math, depth, nested):
    n = rng.randint(0 if nested else 1, max(1, min(5, budget + 1)))
    items = [gen_item(rng, budget, in_math, depth, nested) for _ in range(n)]
    return fix(rng, items, in_math, nested)

def fix(rng, items, in_math, nested):
    """the separation discipline (docgen.fixup) plus: a formula body never ends in a way that merges `$` `$`"""
    return docgen.fixup(rng, core_cg(), items, in_math, nested)

def gen_core_doc(rng, budget=6):
    return gen_items(rng, budget, False, 0, False)

def gen_block(rng, budget=4):
    """a self-contained block"""
    for _ in range(50):
        d = gen_core_doc(rng, budget)
        while d and not self_contained(d):
            d = d[:-1] if rng.random() < 0.5 else d[1:]
            d = fix(rng, d, False, False)
        if d and self_contained(d):
            return d
    return [('T', 'a')]

def _arg_math(kind, in_math):
    if kind.endswith('+'): return True
    if kind.endswith('-'): return False
    return in_math

def refix(rng, items, in_math=False, nested=False):
    """re-establish the discipline at every level after items were written by hand or spliced together (note: this
    recomputes the post-space of every macro call from what follows it)"""
    cg = core_cg()
    def fix_args(sig, args):
        return [((a[0], refix(rng, a[1], _arg_math(kd, in_math), True)) if a[0] in ('grp', 'br') else a) for kd, a in zip(sig, args)]
    out = []
    for it in items:
        k = it[0]
        if k == 'G':
            it = ('G', refix(rng, it[1], in_math, True))
        elif k == 'F':
            it = ('F', it[1], refix(rng, it[2], True, True))
        elif k == 'E':
            sig, bm = cg['envs'][it[1]]
            it = ('E', it[1], fix_args(sig, it[2]), refix(rng, it[3], in_math or bm, True))
        elif k == 'M':
            it = ('M', it[1], it[2], fix_args(cg['macros'][it[1]], it[3]))
        out.append(it)
    return fix(rng, out, in_math, nested)

# ---------------------------------------------------------------- validity of a derivation (used when shrinking)

def as_tuples(d):
    """JSON round trips turn tuples into lists"""
    if isinstance(d, (list, tuple)):
        if len(d) > 0 and isinstance(d[0], str):
            return tuple(as_tuples(x) for x in d)
        return [as_tuples(x) for x in d]
    return d

def _tuplify(x):
    if isinstance(x, (list, tuple)):
        return tuple(_tuplify(y) for y in x)
    return x

def in_core(items):
    cg = core_cg()
    for it in items:
        k = it[0]
        if k in ('T', 'W', 'P', 'C'):
            if not isinstance(it[1], str) or (k != 'C' and not it[1]):
                return False
        elif k == 'G':
            if not in_core(it[1]): return False
        elif k == 'M':
            if it[1] not in cg['macros'] or len(it[3]) != len(cg['macros'][it[1]]): return False
            for a in it[3]:
                if a[0] in ('grp', 'br') and not in_core(a[1]): return False
                if a[0] not in ('grp', 'br', 'tok', 'absent'): return False
        elif k == 'E':
            if it[1] not in cg['envs'] or len(it[2]) != len(cg['envs'][it[1]][0]): return False
            for a in it[2]:
                if a[0] == 'br' and not in_core(a[1]): return False
                if a[0] not in ('br', 'absent'): return False
            if not in_core(it[3]): return False
        elif k == 'F':
            if it[1] not in docgen.CLOSER or not in_core(it[2]): return False
        elif k == 'S':
            if it[1] not in cg['specials'] or it[2]: return False
        else:
            return False
    return True

def valid(doc):
    """the derivation is in the core sublanguage and is written the way it parses (its expected structure is the
    structure of the strict parse of its source, and whitespace sits where the derivation says)"""
    from pylatexenc import latexwalker
    from pylatexenc.latexnodes import parsers
    doc = as_tuples(doc)
    if not in_core(doc):
        return False
    s = docgen.unparse(doc)
    try:
        w = latexwalker.LatexWalker(s, tolerant_parsing=False)
        nl, _ = w.parse_content(parsers.LatexGeneralNodesParser())
    except Exception:
        return False
    if _tuplify(docgen.tree_of(doc, core_cg())) != _tuplify(docgen.project_list(nl)):
        return False
    return _ws_ok(doc)

def _ws_ok(items):
    """the local rules the structure projection does not see: no whitespace item directly after a bare control word or
    next to a paragraph break, whitespace after a comment has no newline, paragraph breaks start and end with a newline"""
    prev = None
    for it in items:
        k = it[0]
        if k == 'W':
            if prev is not None and (prev[0] in ('W', 'P') or (is_bare(prev) and is_alpha_name(prev[1]))):
                return False
            if prev is not None and prev[0] == 'C' and '\n' in it[1]:
                return False
            if it[1].count('\n') >= 2 or it[1].strip():
                return False
        if k == 'P':
            if prev is not None and prev[0] in ('W', 'P'):
                return False
            if it[1].count('\n') < 2 or it[1].strip() or it[1][0] != '\n' or it[1][-1] != '\n':
                return False
        if k == 'T' and prev is not None and prev[0] == 'T':
            pass
        if k == 'M':
            if is_bare(it) and not is_alpha_name(it[1]) and it[2]:
                return False
            if it[2].strip() or it[2].count('\n') >= 2:
                return False
            for a in it[3]:
                if a[0] in ('grp', 'br') and not _ws_ok(a[1]): return False
        if k == 'C' and (not it[2] or it[2][0] != '\n' or it[2].count('\n') != 1 or it[2].strip() or '\n' in it[1]):
            return False
        if k == 'G' and not _ws_ok(it[1]): return False
        if k == 'F' and not _ws_ok(it[2]): return False
        if k == 'E':
            for a in it[2]:
                if a[0] == 'br' and not _ws_ok(a[1]): return False
            if not _ws_ok(it[3]): return False
        prev = it
    return True
