# Wire format of document derivations (docgen items) for the driver operations DOC / DOCINFO
# (parsed by Pylx.Doc.decodeDoc), and the canonical text of a structure (mirror of Pylx.Doc.showShapeList).
from common import show_str
import ctxdesc

FKIND = {'$': 'd', '$$': 'dd', '\\(': 'p', '\\[': 'b'}

def enc_s(s):
    return 'x' + ','.join('%x' % ord(c) for c in s)

def enc_items(items, out):
    out.append('(')
    for it in items:
        k = it[0]
        if k in ('T', 'W', 'P'):
            out += [k, enc_s(it[1])]
        elif k == 'G':
            out.append('G'); enc_items(it[1], out)
        elif k == 'M':
            out += ['M', enc_s(it[1]), enc_s(it[2])]; enc_args(it[3], out)
        elif k == 'E':
            out += ['E', enc_s(it[1])]; enc_args(it[2], out); enc_items(it[3], out)
        elif k == 'F':
            out += ['F', FKIND[it[1]]]; enc_items(it[2], out)
        elif k == 'C':
            out += ['C', enc_s(it[1]), enc_s(it[2])]
        elif k == 'S':
            out += ['S', enc_s(it[1])]; enc_args(it[2], out)
        elif k == 'V':
            out += ['V', enc_s(it[1]), enc_s(it[2])]
        elif k == 'VE':
            if it[2] is None:
                out += ['VE', enc_s(it[1]), '-', enc_s(it[3])]
            else:
                out += ['VE', enc_s(it[1]), '+']; enc_items(it[2], out); out.append(enc_s(it[3]))
        else:
            raise ValueError(it)
    out.append(')')

def enc_args(args, out):
    out.append('<')
    for a in args:
        k = a[0]
        if k == 'absent': out.append('a')
        elif k == 'star': out.append('s')
        elif k == 'marker': out += ['k', enc_s(a[1])]
        elif k == 'br': out.append('b'); enc_items(a[1], out)
        elif k == 'grp': out.append('g'); enc_items(a[1], out)
        elif k == 'tok': out += ['t', enc_s(a[1])]
        elif k == 'del': out += ['d', enc_s(a[1]), enc_s(a[2])]; enc_items(a[3], out)
        elif k == 'verb': out += ['v', enc_s(a[1]), enc_s(a[2]), enc_s(a[3])]
        else:
            raise ValueError(a)
    out.append('>')

def enc_doc(items):
    out = []
    enc_items(items, out)
    return ' '.join(out)

def to_line(ctx, items, op='DOC'):
    return '\t'.join([op, ctxdesc.enc_ctx(ctx), enc_doc(items)])

# ---------------------------------------------------------------- canonical text of a structure (docgen tuples)

def canon_body(b):
    return 'None' if b is None else '[' + canon_list(b) + ']'

def canon_list(l):
    return ' '.join(canon(x) for x in l)

def canon_arg(a):
    if a is None:
        return '-'
    if isinstance(a, list):
        return '(L [' + canon_list(a) + '])'
    return canon(a)

def canon_args(a):
    return 'None' if a is None else '<' + ' '.join(canon_arg(x) for x in a) + '>'

def canon(n):
    k = n[0]
    if k == 'c': return '(c %s)' % show_str(n[1])
    if k == '%': return '(%% %s)' % show_str(n[1])
    if k == 'g': return '(g %s %s %s)' % (show_str(n[1]), show_str(n[2]), canon_body(n[3]))
    if k == 'm': return '(m %s %s)' % (show_str(n[1]), canon_args(n[2]))
    if k == 'e': return '(e %s %s %s)' % (show_str(n[1]), canon_args(n[2]), canon_body(n[3]))
    if k == 's': return '(s %s %s)' % (show_str(n[1]), canon_args(n[2] if len(n) > 2 and n[2] else []))
    if k == 'f': return '(f %s %s %s %s)' % ('D' if n[1] else 'I', show_str(n[2]), show_str(n[3]), canon_body(n[4]))
    return '(? %s)' % (n[1] if len(n) > 1 else '')
