# Shared pieces of the parser properties C01, C05, C06, C10: case generation and tree walkers on the implementation.
import itertools
import gen, parsecase, ctxdesc, dump
from common import show_str

def base_cases(tier, rng, both_modes=True, tol_only=False, strict_only=False, n_random=None):
    """PARSE cases: exhaustive short atom strings per context + random soups"""
    k_def = 2 if tier == 'quick' else 3
    k_core = 3 if tier == 'quick' else 4
    modes = [False, True]
    if tol_only: modes = [True]
    if strict_only: modes = [False]
    for s in gen.exhaustive(gen.CORE_ATOMS, k_core):
        for tol in modes:
            yield {'tol': tol, 'ctx': 'default', 's': s}
    for s in gen.exhaustive(gen.ATOMS_D, 3):
        for tol in modes:
            yield {'tol': tol, 'ctx': gen.CONTEXTS['D'], 's': s}
    for s in gen.exhaustive(gen.ATOMS_E, 3):
        for tol in modes:
            yield {'tol': tol, 'ctx': gen.CONTEXTS['E'], 's': s}
    for s in gen.exhaustive(gen.ATOMS_H, 3):
        for tol in modes:
            yield {'tol': tol, 'ctx': gen.CONTEXTS['H'], 's': s}
    for s in gen.exhaustive(gen.ATOMS_G, 3):
        for tol in modes:
            yield {'tol': tol, 'ctx': gen.CONTEXTS['G'], 's': s}
    if True in modes:
        for s in gen.exhaustive(gen.ATOMS_F, 3):
            yield {'tol': True, 'ctx': gen.CONTEXTS['F'], 's': s}
    for name in ['A', 'B', 'C', 'default']:
        atoms = gen.atoms_for(name)
        for s in gen.exhaustive(atoms, k_def if name != 'default' else k_def):
            for tol in modes:
                yield {'tol': tol, 'ctx': gen.CONTEXTS[name], 's': s}
    # whitespace-heavy strings: who owns blanks, tabs and newlines next to constructs
    WS = ['a', ' ', '\n', '\t', '{', '}', '%c\n', '\\x', '~', '\n\n', ' \n\n', '$', '\\textbf', '[', ']', '\\begin{e}', '\\end{e}', '\\\\']
    for _ in range(1500 if tier == 'quick' else 40000):
        s = ''.join(rng.choice(WS) for _ in range(rng.randint(2, 9)))
        for name in ('default', 'C'):
            yield {'tol': rng.choice(modes), 'ctx': gen.CONTEXTS[name], 's': s}
    # non-default parsing states (documented fields of ParsingState that the walker's default leaves alone)
    PSV = [{'fb': '$'}, {'fb': 'a~'}, {'il': [['\\(', '\\)']], 'fb': '$'}, {'co': False}, {'en': False}, {'mm': False}, {'sp': False},
           {'nl': False}, {'gd': [['{', '}'], ['<', '>']]}, {'gr': False, 'fb': '{'}, {'dl': [['\\[', '\\]']], 'fb': '$'}]
    PSA = ['a', ' ', '{', '}', '$', '$$', '~', '%c\n', '\\x', '\\(', '\\)', '<', '>', '\n\n', '\\begin{e}', '\\end{e}', '[', ']']
    for _ in range(1500 if tier == 'quick' else 30000):
        s = ''.join(rng.choice(PSA) for _ in range(rng.randint(1, 7)))
        yield {'tol': rng.choice(modes), 'ctx': gen.CONTEXTS[rng.choice(['default', 'C'])], 's': s, 'ps': rng.choice(PSV)}
    # unusual first characters: the tree starts at position 0 whatever is there
    for first in ['\ufeff', '\u200b', '\x00', '\xa0', '\x0c']:
        for rest in ['', 'a', '\\x{a}', '{a}', ' a', '\n\na', '%c\n', '$x$', '\\begin{e}b\\end{e}', '}', '{']:
            for tol in modes:
                yield {'tol': tol, 'ctx': 'default', 's': first + rest}
    # what stands between a call and its optional marker / star / first argument: blanks, newlines, comments
    for ctxn, macs, marks in (('default', ['\\section', '\\\\', '\\hspace', '\\item'], ['*', '*{x}', '[o]', '{x}', '*[o]{x}', '']),
                              ('A', ['\\s', '\\so', '\\t', '\\o', '\\d', '\\r'], ['*', '+', '*[o]{x}', '[o]{x}', '<d>{x}', '(r)', '{x}', ''])):
        for mac in macs:
            for btw in ['%c\n', '%\n', ' %c\n ', '%c\n  ', '%c\n%d\n', '%c\n\n', ' ', '\n', '']:
                for mk in marks:
                    for tol in modes:
                        yield {'tol': tol, 'ctx': gen.CONTEXTS[ctxn], 's': 'a' + mac + btw + mk + ' b'}
    # histories: parses that fail (strict) or recover (tolerant) inside nested verbatim arguments, groups, formulas — then a
    # faulty document and a well-formed one, parsed in the same process with the same context
    for ctxn, pres, docs in (('A', ['\\v{if(a){b', '\\v{{{', '\\v[a[b', '{\\v{x{', '$\\v(y(('], ['a \\v{x}} b', '\\v{x}}', '\\v{f{y}}} z', '\\v[x]] b', '\\v{x} ok', 'a \\v(p)) b', '{\\v{x}}} c']),
                             ('C', ['\\v{if(a){b', '\\v{{{{'], ['a \\v{x}} b', '\\v{x}}', '\\v{x} {y}']),
                             ('default', ['{{{\\end{x}', '$\\verb|', '\\begin{verbatim}x', '\\[ {', '\\begin{a}\\begin{b}'], ['a}', '{a}} b', '$x$ }', '\\verb|x|}', 'ok {a} $b$', '\\begin{a}x\\end{a}\\begin{b}y\\end{b}'])):
        for k in (1, 2, 3):
            for pre in (itertools.product(pres, repeat=k) if k == 1 else [tuple(rng.choice(pres) for _ in range(k)) for _ in range(6)]):
                for s in docs:
                    for tol in modes:
                        yield {'tol': tol, 'ctx': gen.CONTEXTS[ctxn], 's': s, 'pre': list(pre)}
    # square brackets inside a child construct of an optional bracket argument are text (only the argument's own closer is structural)
    for ctxn, macs in (('default', ['\\sqrt', '\\item', '\\section']), ('A', ['\\o', '\\so*', '\\oo'])):
        for mac in macs:
            for lab in ['\\textbf{[a]}', '$f[x]$', '{[a]}', '\\emph{see [1]}', '[a]', '\\(g[y]\\)', '\\begin{e}[z]\\end{e}', '\\m{]}', '{]}', '$]$', '\\x[q]', '%]\n']:
                for tol in modes:
                    yield {'tol': tol, 'ctx': gen.CONTEXTS[ctxn], 's': 'a' + mac + '[' + lab + ']{x} t'}
    # bodies read by the pylatexenc-3 verbatim-environment parser (context E): what follows \begin{vb} on its line
    for pre in ['', ' ', '  ', '\t', ' \t ', 'k', ' k']:
        for nl in ['\n', '', '\n\n', '\r\n']:
            for body in ['x = 1\n', '', 'a', ' b \n c', '{', '\\end{v}']:
                for tol in modes:
                    yield {'tol': tol, 'ctx': gen.CONTEXTS['E'], 's': 'T ' + '\\begin{vb}' + pre + nl + body + '\\end{vb} z'}
    # environment names: every character of the documented name alphabet (and neighbours outside it), alone and inside a name
    for ch in list('*._ :/!^()[]-') + ['a', 'Z', '0', '9', ';', '<', '=', '>', '?', '@', '\\', ',', '+', "'", '`', '|', '~', '&', '#', '\t', '\u00e9', '{', '}', '$', '%']:
        for name in (ch, 'x' + ch + 'y', ch + 'z'):
            for s in ('\\begin{%s}b\\end{%s}' % (name, name), '\\begin {%s}' % name, 'a\\end{%s}' % name):
                for tol in modes:
                    yield {'tol': tol, 'ctx': 'default', 's': s}
    n = n_random if n_random is not None else (6000 if tier == 'quick' else 150000)
    names = ['A', 'B', 'C', 'D', 'E', 'H', 'default', 'default']
    for _ in range(n):
        name = rng.choice(names)
        yield {'tol': rng.choice(modes), 'ctx': gen.CONTEXTS[name], 's': gen.soup(rng, gen.atoms_for(name), 12)}

def shrink_parse_case(c):
    s = c['s']
    # remove atoms first (longest known atoms), then characters
    n = len(s)
    for L in (20, 12, 8, 5, 3, 2, 1):
        if L > n:
            continue
        for i in range(0, n - L + 1):
            d = dict(c); d['s'] = s[:i] + s[i+L:]
            yield d
    if c['ctx'] != 'default':
        ctx = c['ctx']
        for key in ('macros', 'envs', 'specials'):
            for i in range(len(ctx[key])):
                d = dict(c); d['ctx'] = dict(ctx); d['ctx'][key] = ctx[key][:i] + ctx[key][i+1:]
                yield d

def children_of(n):
    """(args children, body children) as lists of nodes (None slots skipped; node-list arguments flattened)"""
    from pylatexenc.latexnodes import nodes as N
    args = []
    nd = getattr(n, 'nodeargd', None)
    if nd is not None and getattr(nd, 'argnlist', None):
        for a in nd.argnlist:
            if a is None:
                continue
            if isinstance(a, N.LatexNodeList) or isinstance(a, (list, tuple)):
                args.extend(x for x in a if x is not None)
            else:
                args.append(a)
    body = []
    nl = getattr(n, 'nodelist', None)
    if nl is not None:
        body = [x for x in nl if x is not None]
    return args, body

def walk(nodes):
    st = list(reversed(list(nodes)))
    while st:
        n = st.pop()
        yield n
        a, b = children_of(n)
        st.extend(reversed(a + b))

def sig_of(kind, payload):
    if kind == 'ok':
        if payload is None:
            return 'none'
        ks = set()
        for n in walk([x for x in payload if x is not None]):
            ks.add(type(n).__name__[5:8])
        return 'ok:' + ','.join(sorted(ks))
    if kind == 'err':
        return 'err:' + parsecase.err_what(payload)
    return 'crash:' + type(payload).__name__
