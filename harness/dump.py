# Canonical S-expression dump of a pylatexenc node tree — mirror of Pylx.showNode.
from common import show_str, show_opt

def show_ps(ps):
    if ps is None:
        return 't'
    if getattr(ps, 'in_math_mode', False):
        return 'm' + show_str(ps.math_mode_delimiter)
    return 't'

def _delims(d):
    if d is None:
        return ('', '')
    if isinstance(d, (tuple, list)):
        return (d[0] or '', d[1] or '')
    return (d, '')

def dump_node(n):
    from pylatexenc.latexnodes import nodes as N
    p, e, ps = n.pos, n.pos_end, show_ps(n.parsing_state)
    head = '%s %s %s' % (show_opt(p), show_opt(e), ps)
    if isinstance(n, N.LatexCharsNode):
        return '(C %s %s)' % (head, show_str(n.chars))
    if isinstance(n, N.LatexCommentNode):
        return '(%% %s %s %s)' % (head, show_str(n.comment), show_str(n.comment_post_space))
    if isinstance(n, N.LatexGroupNode):
        o, c = _delims(n.delimiters)
        return '(G %s %s %s %s)' % (head, show_str(o), show_str(c), dump_body(n.nodelist))
    if isinstance(n, N.LatexMacroNode):
        return '(M %s %s %s %s)' % (head, show_str(n.macroname), show_str(n.macro_post_space), dump_args(n.nodeargd))
    if isinstance(n, N.LatexEnvironmentNode):
        return '(E %s %s %s %s)' % (head, show_str(n.environmentname), dump_args(n.nodeargd), dump_body(n.nodelist))
    if isinstance(n, N.LatexSpecialsNode):
        return '(S %s %s %s)' % (head, show_str(n.specials_chars), dump_args(n.nodeargd))
    if isinstance(n, N.LatexMathNode):
        o, c = _delims(n.delimiters)
        return '(F %s %s %s %s %s)' % (head, 'D' if n.displaytype == 'display' else 'I', show_str(o), show_str(c), dump_body(n.nodelist))
    return '(? %s %s)' % (head, type(n).__name__)

def dump_nodes(nl):
    return ' '.join('None' if n is None else dump_node(n) for n in nl)

def dump_body(nl):
    if nl is None:
        return 'None'
    return '[' + dump_nodes(nl) + ']'

def dump_arg(a):
    from pylatexenc.latexnodes import nodes as N
    if a is None:
        return '-'
    if isinstance(a, N.LatexNodeList) or isinstance(a, (list, tuple)):
        p = getattr(a, 'pos', None); e = getattr(a, 'pos_end', None)
        return '(L %s %s [%s])' % (show_opt(p), show_opt(e), dump_nodes(a))
    return dump_node(a)

def dump_args(nodeargd):
    if nodeargd is None:
        return 'None'
    al = getattr(nodeargd, 'argnlist', None)
    if al is None:
        return 'None'
    return '<' + ' '.join(dump_arg(a) for a in al) + '>'

def dump_result(nl):
    """result of parse_content(LatexGeneralNodesParser): a LatexNodeList or None"""
    if nl is None:
        return 'None'
    return 'ok (L %s %s [%s])' % (show_opt(getattr(nl, 'pos', None)), show_opt(getattr(nl, 'pos_end', None)), dump_nodes(nl))
