# Parsing-state descriptors: JSON-able dict <-> wire format <-> real ParsingState.
from common import wire, show_str

BOOL_KEYS = {'im': 'in_math_mode', 'nl': 'enable_double_newline_paragraphs', 'ma': 'enable_macros',
             'en': 'enable_environments', 'co': 'enable_comments', 'gr': 'enable_groups',
             'sp': 'enable_specials', 'mm': 'enable_math'}
STR_KEYS = {'al': 'macro_alpha_chars', 'ec': 'macro_escape_char', 'cs': 'comment_start', 'fb': 'forbidden_characters'}
PAIR_KEYS = {'gd': 'latex_group_delimiters', 'il': 'latex_inline_math_delimiters', 'dl': 'latex_display_math_delimiters'}
ORDER = ['im', 'md', 'gd', 'il', 'dl', 'nl', 'ma', 'en', 'co', 'gr', 'sp', 'mm', 'al', 'ec', 'cs', 'fb', 'cx', 'sk']

def enc_item(k, v):
    if k in BOOL_KEYS or k == 'cx':
        return '%s=%s' % (k, 'T' if v else 'F')
    if k == 'md':
        return 'md=%s' % ('-' if v is None else wire(v))
    if k in STR_KEYS:
        return '%s=%s' % (k, wire(v))
    if k in PAIR_KEYS:
        return '%s=%s' % (k, '|'.join(wire(a) + ':' + wire(b) for a, b in v))
    if k == 'sk':
        return 'sk=%s' % '|'.join(wire(x) for x in v)
    raise ValueError(k)

def enc_desc(d):
    return ';'.join(enc_item(k, d[k]) for k in ORDER if k in d)

def to_kwargs(d):
    kw = {}
    for k, v in d.items():
        if k == 'us':
            continue
        if k in BOOL_KEYS:
            kw[BOOL_KEYS[k]] = bool(v)
        elif k == 'md':
            kw['math_mode_delimiter'] = v
        elif k in STR_KEYS:
            kw[STR_KEYS[k]] = v
        elif k in PAIR_KEYS:
            kw[PAIR_KEYS[k]] = [tuple(p) for p in v]
    return kw

def make_context(keys, fallbacks=False):
    from pylatexenc import macrospec
    db = macrospec.LatexContextDb()
    db.add_context_category('c', macros=[], environments=[],
                            specials=[macrospec.SpecialsSpec(k) for k in keys])
    if fallbacks:
        # fallback specifications for unknown names (documented setters); they answer get_*_spec() for unknown names and
        # have no say in what the tokenizer recognises (descriptor key 'us', not sent to the model for that reason)
        db.set_unknown_macro_spec(macrospec.MacroSpec(''))
        db.set_unknown_environment_spec(macrospec.EnvironmentSpec(''))
        db.set_unknown_specials_spec(macrospec.SpecialsSpec(''))
    return db

def make_ps(d, s=None):
    """fresh ParsingState from a full descriptor"""
    from pylatexenc.latexnodes import ParsingState
    kw = to_kwargs(d)
    ctx = None
    if d.get('cx', True):
        ctx = make_context(d.get('sk', []), fallbacks=bool(d.get('us')))
    return ParsingState(s=s, latex_context=ctx, **kw)

def show_tok(t):
    arg = t.arg
    if t.tok == 'specials':
        arg = arg.specials_chars
    post = getattr(t, 'post_space', '') or ''
    return '(%s %s %d %d %s %s)' % (t.tok, show_str(arg), t.pos, t.pos_end, show_str(t.pre_space), show_str(post))

def show_pairs(l):
    return '[' + ' '.join(show_str(a) + ':' + show_str(b) for a, b in l) + ']'

def show_fields(ps):
    b = lambda x: 'T' if x else 'F'
    return ('im=%s md=%s gd=%s il=%s dl=%s fl=%s al=%s ec=%s cs=%s fb=%s' % (
        b(ps.in_math_mode), show_str(ps.math_mode_delimiter), show_pairs(ps.latex_group_delimiters),
        show_pairs(ps.latex_inline_math_delimiters), show_pairs(ps.latex_display_math_delimiters),
        ''.join(b(x) for x in (ps.enable_double_newline_paragraphs, ps.enable_macros, ps.enable_environments,
                               ps.enable_comments, ps.enable_groups, ps.enable_specials, ps.enable_math)),
        show_str(ps.macro_alpha_chars), show_str(ps.macro_escape_char), show_str(ps.comment_start),
        show_str(ps.forbidden_characters)))

def show_tables(ps):
    di = lambda t: 'D' if t == 'mathmode_display' else 'I'
    go = show_pairs(list(ps._latex_group_delimchars_by_open.items()))
    # canonical order of the (unordered) close set: order of first occurrence in the pair list is what the model prints;
    # the model prints the closers pair by pair (with repetitions) -> compare as a sorted set on both sides instead
    gc = '[' + ' '.join(show_str(x) for x in sorted(ps._latex_group_delimchars_close)) + ']'
    ec = ps._math_expecting_close_delim_info
    ecs = 'None' if ec is None else show_str(ec['close_delim']) + di(ec['tok'])
    alll = ' '.join(show_str(d) + di(t) for d, t in sorted(ps._math_all_delims_by_len, key=lambda x: (-len(x[0]), x[0])))
    bo = ' '.join(show_str(k) + ':' + show_str(v['close_delim']) + di(v['tok']) for k, v in ps._math_delims_info_by_open.items())
    return 'go=%s gc=%s ms=%s all=[%s] bo=[%s] ec=%s' % (go, gc, show_str(ps._math_delims_info_startchars), alll, bo, ecs)
