#!/venv/bin/python
# ./check <Cxx> [--tier quick|thorough] [--replay file]
#
# 1 regenerate tables from /repo, 2 lake build, 3 audit of the property's
# theorems (#print axioms, forbidden tokens), 4 correspondence model vs
# implementation, 5 property oracle on the implementation, 6 decision,
# 7 evidence.  Exit 0 held / 1 violation / 2 infrastructure problem.
import os, sys, json, time, random, argparse, importlib, collections

HERE = os.path.dirname(os.path.abspath(__file__))
sys.path.insert(0, HERE)
import common
from common import VERIF

def shrink(mod, case, pred, budget=400):
    """greedy delta debugging: mod.shrink_candidates(case) yields smaller cases"""
    if not hasattr(mod, 'shrink_candidates'):
        return case
    cur = case
    steps = 0
    improved = True
    while improved and steps < budget:
        improved = False
        for cand in mod.shrink_candidates(cur):
            steps += 1
            if steps > budget:
                break
            try:
                if pred(cand):
                    cur = cand
                    improved = True
                    break
            except Exception:
                pass
    return cur

def known_match(mod, findings, prop, case, fail):
    for e in findings:
        m = e.get('match')
        if not m or m.get('property') != prop:
            continue
        if not e.get('line', '').startswith('open:'):
            continue
        if m.get('kind') != fail.get('kind'):
            continue
        if hasattr(mod, 'known_match'):
            if mod.known_match(m, case, fail):
                return e
        else:
            return e
    return None

def main():
    ap = argparse.ArgumentParser()
    ap.add_argument('prop')
    ap.add_argument('--tier', default=os.environ.get('VERIF_TIER') or 'quick')
    ap.add_argument('--replay')
    ap.add_argument('--no-build', action='store_true')
    a = ap.parse_args()
    prop = a.prop.upper()
    tier = a.tier if a.tier in ('quick', 'thorough') else 'quick'
    try:
        seed = int(os.environ.get('VERIF_SEED') or 0)
    except ValueError:
        seed = 0
    t0 = time.time()
    modname = 'props.' + prop.lower()
    mod = importlib.import_module(modname)
    findings = common.load_known_findings()

    # ---- replay mode: run one stored case on implementation and model
    if a.replay:
        j = json.load(open(a.replay))
        case = j.get('case')
        if case is None:
            print('replay file names no concrete case:', j.get('broken'))
            return 1
        r = common.eval_case(mod, case)
        line = mod.to_line(case) if hasattr(mod, 'to_line') else None
        mo = common.run_driver([line])[0] if line else None
        print(json.dumps({'case': case, 'impl': r, 'model': mo}, indent=1, default=str))
        bad = bool(r['fail']) or (mo is not None and r['out'] is not None and mo != r['out'])
        if bad:
            print('VIOLATION property=%s replay=%s' % (prop, a.replay))
        return 1 if bad else 0

    # ---- 1-2 regenerate + build
    broken = []          # names of theorems / correspondences that no longer check
    b = {'driver_ok': True, 'proofs_ok': True, 'regen': {}, 'log': ''}
    if not a.no_build:
        try:
            b = common.build_all(getattr(mod, 'PROOF_MODULES', [prop]))
        except Exception as e:
            print('infrastructure failure during build: %r' % (e,))
            return 2
    if not b['proofs_ok']:
        broken.append('lake build PylxProofs.%s fails (proof obligations of %s no longer check)' % (prop, prop))
        sys.stderr.write(b['log'][-6000:] + '\n')

    # ---- 3 audit
    theorems = list(getattr(mod, 'THEOREMS', []))
    ax = {}
    discharged = 0
    audit_notes = []
    if b['proofs_ok'] and theorems:
        ax, raw = common.audit(getattr(mod, 'PROOF_MODULES', [prop]), theorems)
        for t in theorems:
            if ax.get(t) is None:
                broken.append('theorem %s is missing' % t)
            elif not set(ax[t]) <= common.ALLOWED_AXIOMS:
                broken.append('theorem %s depends on axioms %s' % (t, ax[t]))
            else:
                discharged += 1
        if tier == 'thorough':
            mods = getattr(mod, 'PROOF_MODULES', [prop])
            rc, lc_out = common.run(['lake', 'env', 'leanchecker'] + ['PylxProofs.' + m for m in mods], cwd=common.LEAN, timeout=3600)
            audit_notes.append('leanchecker exit %d' % rc)
            if rc != 0:
                broken.append('leanchecker rejects the compiled proof modules: %s' % lc_out[-500:])
                discharged = 0
        hits = common.forbidden_scan()
        if hits:
            broken.append('forbidden tokens in Lean sources: %s' % hits[:5])
            discharged = 0
    # ---- 4-5 correspondence + oracle
    rng = random.Random((seed, prop, tier).__repr__())
    corpus = common.load_corpus(prop)
    cases = list(corpus) + list(mod.cases(tier, rng))
    results = common.pmap_cases(modname, cases)
    lines = []
    idx = []
    if b['driver_ok'] and hasattr(mod, 'to_line'):
        for i, c in enumerate(cases):
            l = mod.to_line(c)
            if l is not None and results[i]['out'] is not None:
                lines.append(l); idx.append(i)
    model_out = {}
    if lines:
        try:
            mo = common.run_driver(lines)
            for i, o in zip(idx, mo):
                model_out[i] = o
        except Exception as e:
            broken.append('model driver failed: %r' % (e,))
    elif hasattr(mod, 'to_line') and not b['driver_ok']:
        broken.append('model driver does not build')

    fails = []      # (case index, fail)
    mism = []       # indices where model != impl
    sigs = collections.Counter()
    for i, r in enumerate(results):
        sigs[r.get('sig', r['out'])] += 1
        if r['fail']:
            fails.append((i, r['fail']))
        if i in model_out and model_out[i] != r['out']:
            mism.append(i)

    violations = []
    known_hits = collections.OrderedDict()
    seen_kinds = set()
    # oracle failures on the implementation
    for i, f in fails:
        e = known_match(mod, findings, prop, cases[i], f)
        if e is not None:
            known_hits[e['line']] = known_hits.get(e['line'], 0) + 1
            continue
        key = f['kind']
        if key in seen_kinds:
            continue
        seen_kinds.add(key)
        def pred(c, kind=f['kind']):
            r = common.eval_case(mod, c)
            return bool(r['fail']) and r['fail']['kind'] == kind and known_match(mod, findings, prop, c, r['fail']) is None
        small = shrink(mod, cases[i], pred)
        r = common.eval_case(mod, small)
        payload = {'property': prop, 'case': small, 'original_case': cases[i], 'fail': r['fail'] or f,
                   'impl_output': r['out'], 'seed': seed, 'tier': tier,
                   'how': 'property oracle evaluated on the implementation'}
        violations.append((common.write_replay(prop, payload), ''))
    # correspondence breaks
    if mism and not violations:
        i = mism[0]
        def predm(c):
            r = common.eval_case(mod, c)
            l = mod.to_line(c)
            if l is None or r['out'] is None:
                return False
            return common.run_driver([l])[0] != r['out']
        small = shrink(mod, cases[i], predm, budget=150)
        r = common.eval_case(mod, small)
        mo = common.run_driver([mod.to_line(small)])[0]
        # search for a failing input around the divergence with the property's targeted generator
        found = None
        if hasattr(mod, 'search_near'):
            extra = list(mod.search_near(small, rng))
            rs = common.pmap_cases(modname, extra)
            for c, rr in zip(extra, rs):
                if rr['fail'] and known_match(mod, findings, prop, c, rr['fail']) is None:
                    found = (c, rr); break
        if found:
            payload = {'property': prop, 'case': found[0], 'fail': found[1]['fail'], 'impl_output': found[1]['out'],
                       'seed': seed, 'tier': tier, 'how': 'search after a correspondence break',
                       'diverging_case': small}
            violations.append((common.write_replay(prop, payload), ''))
        else:
            payload = {'property': prop, 'broken': ['correspondence %s: model and implementation differ' % prop],
                       'case': small, 'impl_output': r['out'], 'model_output': mo, 'n_mismatches': len(mism),
                       'seed': seed, 'tier': tier}
            violations.append((common.write_replay(prop, payload), ' no-failing-input-found'))
    if broken and not violations:
        payload = {'property': prop, 'broken': broken, 'case': None, 'seed': seed, 'tier': tier,
                   'build_log_tail': b.get('log', '')[-3000:]}
        violations.append((common.write_replay(prop, payload), ' no-failing-input-found'))

    for line, n in known_hits.items():
        print('KNOWN-FINDING: %s  [%d inputs]' % (line[len('open: '):] if line.startswith('open: ') else line, n))
    # always list open findings of this property (spec: one line per listed finding)
    for e in findings:
        m = e.get('match') or {}
        if e.get('line', '').startswith('open:') and m.get('property') == prop and e['line'] not in known_hits:
            print('KNOWN-FINDING: %s  [not re-encountered in this run]' % e['line'][len('open: '):])

    # ---- 7 evidence
    nontrivial = [k for k in sigs if k not in getattr(mod, 'TRIVIAL_SIGS', ())]
    samples = []
    for i in range(0, len(cases), max(1, len(cases)//6)):
        samples.append({'case': cases[i], 'impl': results[i]['out'], 'model': model_out.get(i)})
    samples = samples[:8]
    ev = {
        'property_id': prop, 'tier': tier, 'seed': seed, 'level': 'proof',
        'coverage': {
            'obligations': max(1, len(theorems)),
            'discharged': discharged,
            'checker_cmd': 'cd /verif/lean && lake build && lake env lean <#print axioms of the listed theorems>',
            'trusted_base': getattr(mod, 'TRUSTED', []) + [
                'Lean 4.33.0 kernel; axioms per theorem listed under axioms (allowed: propext, Classical.choice, Quot.sound)',
                'correspondence harness (differential testing of model vs implementation) and Lean compiler for the driver',
                'CPython 3.12.1 standard library semantics'],
            'theorems': theorems,
            'axioms': ax,
            'audit_notes': audit_notes,
            'evaluations': len(cases),
            'distinct_nontrivial': len(nontrivial),
            'rule': getattr(mod, 'RULE', ''),
            'samples': samples,
            'traces_validated_against_impl': len(model_out),
            'model_impl_mismatches': len(mism),
            'oracle_failures': len(fails),
            'known_finding_hits': sum(known_hits.values()),
            'distribution': dict(sigs.most_common(40)),
            'corpus_cases': len(corpus),
            'regenerated': b.get('regen', {}),
            'broken': broken,
        },
        'assumptions': getattr(mod, 'ASSUMPTIONS', []),
        'wall_s': round(time.time() - t0, 2),
        'violations': len(violations),
    }
    if hasattr(mod, 'extra_evidence'):
        ev['coverage'].update(mod.extra_evidence())
    os.makedirs(os.path.join(VERIF, 'evidence'), exist_ok=True)
    with open(os.path.join(VERIF, 'evidence', prop + '.json'), 'w') as f:
        json.dump(ev, f, indent=1, sort_keys=True, default=str)

    for path, suffix in violations:
        print('VIOLATION property=%s replay=%s%s' % (prop, os.path.relpath(path, VERIF), suffix))
    print('%s %s: %d cases, %d compared with model, %d mismatches, %d oracle failures (%d known), theorems %d/%d, %.1fs'
          % (prop, tier, len(cases), len(model_out), len(mism), len(fails), sum(known_hits.values()), discharged, len(theorems), time.time()-t0))
    return 1 if violations else 0

if __name__ == '__main__':
    try:
        rc = main()
    except SystemExit:
        raise
    except Exception:
        import traceback
        traceback.print_exc()
        rc = 2
    sys.exit(rc)
