#!/venv/bin/python
# Regenerates /verif/MANIFEST.json from the property modules that exist.
import os, sys, json, importlib
HERE = os.path.dirname(os.path.abspath(__file__))
sys.path.insert(0, HERE)
VERIF = os.path.dirname(HERE)
props = [json.loads(l) for l in open(os.path.join(VERIF, 'properties.jsonl'))]
checks = []
na = []
PENDING = {}
for p in props:
    pid = p['id']
    path = os.path.join(HERE, 'props', pid.lower() + '.py')
    if not os.path.exists(path):
        na.append({'property_id': pid, 'reason': PENDING.get(pid, 'check under construction in this round: the Lean model and theorems for this property are not yet tied to the code, so nothing is claimed yet (DESIGN.md section 7 gives the plan)')})
        continue
    m = importlib.import_module('props.' + pid.lower())
    if getattr(m, 'LEVEL_TEXT', '') == 'under construction' or not getattr(m, 'THEOREMS', []):
        na.append({'property_id': pid, 'reason': 'check under construction in this round: model and correspondence exist, the theorems are not yet proved, so nothing is claimed yet (DESIGN.md section 7)'})
        continue
    checks.append({
        'property_id': pid,
        'quick_cmd': './check %s --tier quick' % pid,
        'thorough_cmd': './check %s --tier thorough' % pid,
        'evidence_file': 'evidence/%s.json' % pid,
        'replay_cmd_template': './check %s --replay {path}' % pid,
        'engine': 'lean4-model+correspondence',
        'level_claimed': {'category': 'proof', 'text': m.LEVEL_TEXT, 'design_ref': 'DESIGN.md section 7, ' + pid},
        'level_note': m.LEVEL_NOTE,
        'technique': m.TECHNIQUE,
    })
man = {
    'version': 1,
    'setup_cmd': './setup.sh',
    'hooks': {
        'guard': 'PYLATEXENC_VERIF',
        'enable': 'no source hooks are needed: every observable is public API; checks import /repo working tree in-process',
        'baseline_off_cmd': 'cd /repo && /venv/bin/python -m pytest -ra -q -p no:cacheprovider --timeout=900 --continue-on-collection-errors',
        'source_commits': [],
        'add_only': True,
    },
    'engines': [{
        'name': 'lean4-model+correspondence', 'path': 'lean/ harness/ translate/',
        'serves_properties': [c['property_id'] for c in checks],
        'kind_free_text': 'Lean 4 theorems about an executable model (lean/Pylx), kernel-checked on every run; tables regenerated from /repo by translators; compiled model driver compared with the implementation on generated inputs; property oracle on the implementation produces replays',
    }],
    'checks': checks,
    'not_applicable': na,
    'notes': 'See DESIGN.md. Exit 0 held / 1 violation (VIOLATION line) / 2 infrastructure problem. Known findings: known_findings.jsonl.',
}
json.dump(man, open(os.path.join(VERIF, 'MANIFEST.json'), 'w'), indent=1)
print('checks:', [c['property_id'] for c in checks], 'na:', [n['property_id'] for n in na])
