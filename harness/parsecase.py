# Run the real parser on a PARSE case and dump it like Pylx.showRet.
import functools
from common import wire, show_str, show_opt
import ctxdesc, psdesc, dump

WHAT = {
    'legacy_verb_missing': 'legacy_verb_missing_argument',
}

_DB_CACHE = {}

def get_db(ctx):
    """context databases are cached per process (they are frozen-by-convention; C09 checks purity separately)"""
    import json
    k = json.dumps(ctx, sort_keys=True)
    if k not in _DB_CACHE:
        _DB_CACHE[k] = ctxdesc.make_db(ctx)
    return _DB_CACHE[k]

def to_line(c):
    if ctxdesc.has_unmodelled(c['ctx']):
        return None
    return '\t'.join(['PARSE', 'T' if c['tol'] else 'F', ctxdesc.enc_ctx(c['ctx']), psdesc.enc_desc(c.get('ps', {})), wire(c['s'])])

def err_what(e):
    eti = getattr(e, 'error_type_info', None) or {}
    w = eti.get('what')
    if w == 'expression_required_got_unexpected':
        return w + ':' + str(eti.get('unexpected'))
    if w is None:
        m = getattr(e, 'msg', '') or ''
        if 'Missing argument to \\verb' in m: return 'legacy_verb_missing_argument'
        if 'reading argument to \\verb' in m: return 'legacy_verb_end_of_stream'
        if 'Cannot find matching \\end' in m: return 'legacy_verbatim_end_not_found'
        return 'None'
    return w

def make_walker(c):
    from pylatexenc import latexwalker
    db = get_db(c['ctx'])
    kw = {}
    if c.get('offs'):
        # the walker's documented keyword arguments for reported line / column numbers
        kw = dict(line_number_offset=c['offs'][0], first_line_column_offset=c['offs'][1], column_offset=c['offs'][2])
    w = latexwalker.LatexWalker(c['s'], latex_context=db, tolerant_parsing=c['tol'], **kw)
    return w

def parse(c):
    """returns (kind, payload): ('ok', nodelist|None) | ('err', exc) | ('crash', exc)"""
    from pylatexenc import latexwalker
    from pylatexenc.latexnodes import parsers
    for ps_ in c.get('pre') or []:
        # earlier parses in the same process with the same context and mode (outcome irrelevant here): nothing they leave
        # behind in shared objects may change the parse that follows (the model answers for the last document alone)
        d_ = dict(c); d_['s'] = ps_; d_['pre'] = None
        try:
            parse(d_)
        except RecursionError:
            pass
    w = make_walker(c)
    ps = None
    if c.get('ps'):
        ps = w.make_parsing_state(**psdesc.to_kwargs(c['ps']))
    try:
        nl, delta = w.parse_content(parsers.LatexGeneralNodesParser(), parsing_state=ps)
        return w, 'ok', nl
    except latexwalker.LatexWalkerParseError as e:
        return w, 'err', e
    except RecursionError:
        raise
    except Exception as e:
        return w, 'crash', e

def show_result(kind, payload):
    if kind == 'ok':
        return dump.dump_result(payload)
    if kind == 'err':
        e = payload
        return 'ERR %s %s %s %s' % (err_what(e), show_opt(e.pos), show_opt(e.lineno), show_opt(e.colno))
    return 'CRASH ' + type(payload).__name__
