# Shared generators: atom alphabets, custom contexts exercising every standard argument type, token soups.
import itertools

# custom contexts (JSON form of ctxdesc).  Names are chosen so that soups over ATOMS_CUSTOM hit them.
def S(*specs):
    return ['S', [list(sp) if isinstance(sp, (list, tuple)) else [sp, ''] for sp in specs]]

CTX_A = {
    'macros': [
        ['m', S('m')], ['mm', S('m', 'm')], ['o', S('o1', 'm')], ['s', S('s')], ['so', S('s', 'o1', 'm')],
        ['t', S('t+')], ['r', S('r()')], ['d', S('d<>', 'm')], ['v', S('v')], ['vd', S('V()')],
        ['tx', S(['m', '-'])], ['mt', S(['m', '+'])], ['\\', S('s', 'o0')], ['z', S()], ['oo', S('o1', 'o1')],
        ['verb', ['LV']], ['om', S(['o1', '+'], ['m', '-'])],
    ],
    'envs': [
        ['e', S(), False], ['ea', S('o1', 'm'), False], ['eq', S(), True], ['es', S('s'), True],
        ['verbatim', ['LE', 'verbatim', False], False], ['lst', ['LE', 'lst', True], False],
    ],
    'specials': [['~', S()], ['&', S()], ['\n\n', S()], ['``', S()], ['`', S()], ['--', S()], ['!', S('o1')]],
    'um': S(), 'ue': [S(), False],
}
CTX_B = dict(CTX_A, um=None, ue=None, specials=[['~', S()], ['--', S()], ['---', S()]])
CTX_C = {'macros': [['m', S('m')], ['d', S('d<>')], ['r', S('r[]')], ['v', S('v')]], 'envs': [['e', S('m'), False]],
         'specials': [], 'um': S('o1'), 'ue': [S('s'), True]}
# expression arguments that do not accept leading whitespace (a non-default flag of the standard argument parser;
# `ArgKind.m0` in the Lean context type)
CTX_D = {'macros': [['p', S('m', 'm0')], ['q', S('m0')], ['pm', S(['m0', '+'], 'm')], ['z', S()]],
         'envs': [['en', S('m0'), False]], 'specials': [['~', S()], ['!', S('m0')]], 'um': S(), 'ue': [S(), False]}
# \verb-like macros of the legacy verbatim parser WITH leading standard arguments (documented keyword verbatim_argspec):
# not expressible in the Lean context type, exercised by the oracles only
CTX_E = {'macros': [['eqn', ['S', [['m', ''], ['TK', '']]]], ['li', ['LVA', '[']], ['mi', ['LVA', '{']], ['lm', ['LVA', '[{']], ['verb', ['LV']], ['z', S()]],
         'envs': [['en', S('o1'), False], ['vb', ['VB'], False]], 'specials': [['~', S()]], 'um': S(), 'ue': [S(), False]}
# a user hook that raises a position-less parse error (tolerant mode must swallow it like any other parse error); oracle only
# argument deltas given as a chain (ParsingStateDeltaChained: mode switch first, then an unrelated setting); oracle only
CTX_G = {'macros': [['tc', ['S', [['m', '-c']]]], ['mc', ['S', [['m', '+c']]]], ['tm', ['S', [['m', '-c'], ['m', '']]]], ['z', S()]],
         'envs': [['eq', S(), True], ['e', S(), False]], 'specials': [['~', S()]], 'um': S(), 'ue': [S(), False]}
ATOMS_G = ['a', ' ', '{', '}', '$', '$$', '\\(', '\\)', '\\tc', '\\mc', '\\tm', '\\z', '{x}', '\\begin{eq}', '\\end{eq}', '\\tc{a $b$}', '\\mc{x}', '~']
CTX_F = {'macros': [['ref', ['SH', [['m', '']]]], ['so', ['SH', [['o1', ''], ['m', '']]]], ['m', S('m')], ['z', S()]],
         'envs': [['en', ['SH', [['m', '']]], False]], 'specials': [['~', S()]], 'um': S(), 'ue': [S(), False]}
# argument kinds outside the Lean ArgKind type (documented specification strings 'e{^_}', 'AnyDelimited', 'AnyDelimitedOptional'); oracle only
CTX_H = {'macros': [['sup', ['S', [['EM', '']]]], ['ms', ['S', [['m', ''], ['EM', '']]]], ['ad', ['S', [['AD', '']]]], ['ao', ['S', [['ADO', ''], ['m', '']]]], ['z', S()]],
         'envs': [['en', ['S', [['ADO', '']]], False]], 'specials': [['~', S()]], 'um': S(), 'ue': [S(), False]}
ATOMS_H = ['a', ' ', '\n', '^', '_', '^a', '_{b}', '{x}', '[o]', '(p)', '<q>', '{', '}', '[', ']', '(', '$', '%c\n', '~', '\\sup', '\\ms', '\\ad', '\\ao', '\\z', '\\begin{en}', '\\end{en}']
CONTEXTS = {'H': CTX_H, 'A': CTX_A, 'B': CTX_B, 'C': CTX_C, 'D': CTX_D, 'E': CTX_E, 'F': CTX_F, 'G': CTX_G, 'default': 'default'}
ATOMS_F = ['a', ' ', '\n', '{}', '{x}', '[]', '[o]', '{', '}', '$', '~', '\\ref', '\\so', '\\m', '\\z', '\\begin{en}', '\\end{en}', '%c\n']
ATOMS_E = ['a', ' ', '\n', '{x}', '[o]', '|', '|c|', '!v!', '{', '}', '[', '$', '%c\n', '~', '\\li', '\\mi', '\\lm', '\\verb', '\\z', '+a[1]+', '\\begin{en}', '\\end{en}', '\\begin{vb}', '\\end{vb}', '\\end{vb', '\\eqn{x}', '\\notag', '\\label{l}', '\\tag']
ATOMS_D = ['a', ' ', '\n', '{', '}', '[', '$', '%c\n', '~', '!', '\\p', '\\q', '\\pm', '\\z', '\\begin{en}', '\\end{en}', '\\', '\\(', '\\)', '\\begin', '\t']

ATOMS_DEFAULT = ['a', ' ', '\n', '{', '}', '[', ']', '$', '%', '~', '\\', '\\(', '\\)', '\\[', '\\]', '\\\\',
                 '\\x', '\\begin', '\\end', '\\begin{e}', '\\end{e}', '\\frac', '\\textbf', '\\sqrt', '*',
                 '\\begin{equation}', '\\end{equation}', '\\verb', '|', '\\item', '\\begin{verbatim}', '\\end{verbatim}',
                 '$$', '\\emph', '\\begin{lstlisting}', '\\end{lstlisting}', '\\ensuremath', '\\text', '&', '``', '--', '\\begin{itemize}', '\\end{itemize}', '%c\n', '\\,']
ATOMS_CUSTOM = ['a', ' ', '\n', '{', '}', '[', ']', '(', ')', '<', '>', '$', '%', '~', '\\', '\\(', '\\)', '\\[', '\\]', '\\\\',
                '*', '+', '|', '!', '`', '-', '&', '$$', '%c\n',
                '\\m', '\\mm', '\\o', '\\s', '\\so', '\\t', '\\r', '\\d', '\\v', '\\vd', '\\tx', '\\mt', '\\z', '\\oo', '\\verb', '\\om', '\\unk',
                '\\begin{e}', '\\end{e}', '\\begin{ea}', '\\end{ea}', '\\begin{eq}', '\\end{eq}', '\\begin{es}', '\\end{es}',
                '\\begin{verbatim}', '\\end{verbatim}', '\\begin{lst}', '\\end{lst}', '\\begin{u}', '\\end{u}', '\\begin', '\\end']
CORE_ATOMS = ['a', ' ', '\n', '{', '}', '[', ']', '$', '%', '\\', '\\(', '\\)', '\\[', '\\]', '\\\\', '\\x', '\\begin{e}', '\\end{e}', '\\frac', '*', '$$', '\\verb', '~', '\\begin', '\\textbf']

def atoms_for(ctxname):
    if ctxname == 'D':
        return ATOMS_D
    if ctxname == 'E':
        return ATOMS_E
    if ctxname == 'F':
        return ATOMS_F
    if ctxname == 'H':
        return ATOMS_H
    if ctxname == 'G':
        return ATOMS_G
    return ATOMS_DEFAULT if ctxname == 'default' else ATOMS_CUSTOM

def soup(rng, atoms, maxlen=10):
    n = rng.randint(1, maxlen)
    return ''.join(rng.choice(atoms) for _ in range(n))

def exhaustive(atoms, k):
    for n in range(0, k + 1):
        for t in itertools.product(atoms, repeat=n):
            yield ''.join(t)
