#!/venv/bin/python
# DESIGN-TIME tool (run ONCE, by hand): computes c08_noninvertible.json, the fixed exception list of property C08.
# The check (harness/props/c08.py) and the translator (translate/c08alphabet.py) only READ the committed file;
# they never call this script.  A character that stops round-tripping is therefore a VIOLATION, not a list update.
#
#   /venv/bin/python tools/c08_make_noninvertible.py [repo] > c08_noninvertible.json
import sys, unicodedata, json, collections, logging, re
repo = sys.argv[1] if len(sys.argv) > 1 else '/repo'
sys.path.insert(0, repo)
logging.disable(logging.WARNING)
from pylatexenc.latexencode import UnicodeToLatexEncoder, get_builtin_conversion_rules
from pylatexenc.latex2text import LatexNodes2Text, get_default_latex_context_db
import pylatexenc
NFC = lambda x: unicodedata.normalize('NFC', x)
SCHEMES = ['braces', 'braces-all', 'braces-almost-all', 'braces-after-macro']
POLS = [False, True]     # strict_latex_spaces: False = 'macros' (the documented default), True = strict LaTeX spacing
encs = {s: UnicodeToLatexEncoder(replacement_latex_protection=s, unknown_char_warning=False) for s in SCHEMES}
l2ts = {p: LatexNodes2Text(strict_latex_spaces=p) for p in POLS}
table = dict(get_builtin_conversion_rules('defaults')[0].rule)
tdb = get_default_latex_context_db()
def rt(s, sch, pol):
    return l2ts[pol].latex_to_text(encs[sch].unicode_to_latex(s))
CTX = ['%s', 'a%sa', '%s %s', '%s%s', '1%s1', '%s.', ' %s ', '%s\n%s', 'a%s', '%sa', '(%s)', '%s,']
byrepl = collections.defaultdict(list)
for k, v in table.items():
    byrepl[v].append(k)

REASONS = {
 'not-nfc-stable': 'the code point is not NFC-stable: the encoder normalises its input, so the table entry is never used and the '
                   'one-character string is not "the original NFC string"',
 'ascii-approximation': 'many-to-one: the table approximates the character by plain ASCII text, which comes back as that ASCII text',
 'ascii-ligature': "many-to-one: the replacement is a sequence of ASCII quote characters that latex2text reads as a ligature ('' -> U+201D)",
 'shared-encoding': 'many-to-one: another code point has the same replacement text (or the text database gives the macro to a different '
                    'code point), at most one of them can come back',
 'inverse-is-other-character': 'the replacement text is the regular encoding of a different character (accent/letter confusion in the table)',
 'no-text-inverse': 'the replacement uses a macro for which the latex2text database has no replacement (unknown macro, spacing command, '
                    'accent on an empty argument): the text comes back empty or as the bare arguments',
 'approximate-inverse': 'latex2text renders the replacement approximately (math-font digits stay ASCII digits, combining sequence not '
                        'composed, formatting placeholder, stripped math markup)',
}

entries = []
for cp in sorted(table):
    c = chr(cp)
    fl = []
    for ctx in CTX:
        s = ctx.replace('%s', c)
        for sch in SCHEMES:
            for pol in POLS:
                r = rt(s, sch, pol)
                if r != NFC(s):
                    fl.append((ctx, sch, pol, r))
    stable = NFC(c) == c
    if not fl and stable:
        continue
    repl = table[cp]
    r = rt(c, 'braces', False)
    names = re.findall(r'\\([A-Za-z]+|.)', repl)
    unknown = [n for n in names if not getattr(tdb.get_macro_spec(n), 'macroname', None)]
    if not stable:
        reason = 'not-nfc-stable'
    elif '\\' not in repl and r == repl:
        reason = 'ascii-approximation'
    elif '\\' not in repl:
        reason = 'ascii-ligature'
    elif len(byrepl[repl]) > 1:
        reason = 'shared-encoding'
    elif r == '' or unknown:
        reason = 'no-text-inverse'
    elif len(r) == 1 and ord(r) in table and ord(r) != cp and rt(r, 'braces', False) == r:
        reason = 'inverse-is-other-character'
    else:
        reason = 'approximate-inverse'
    entries.append({'cp': cp, 'hex': 'U+%04X' % cp, 'name': unicodedata.name(c, '?'), 'latex': repl, 'back': r, 'reason': reason,
                    'fails_alone': any(f[0] == '%s' for f in fl),
                    'fails_under': sorted(set('%s/%s' % (f[1], 'strict' if f[2] else 'default') for f in fl))})
doc = {
 'property': 'C08',
 'what': 'code points of the built-in `defaults` table of pylatexenc.latexencode whose encoding latex2text does not convert back '
         '(alone or in one of the neighbour contexts below, under any of the four brace-protection schemes and the default / strict '
         'whitespace policies).  FIXED data of the verification, computed once by tools/c08_make_noninvertible.py; never recomputed by the check.',
 'computed_with': {'pylatexenc': getattr(pylatexenc, '__version__', '?'), 'python_unicodedata': unicodedata.unidata_version,
                   'schemes': SCHEMES, 'strict_latex_spaces': POLS, 'contexts': CTX},
 'table_size': len(table),
 'reasons': REASONS,
 'counts': dict(collections.Counter(e['reason'] for e in entries)),
 'ascii_excluded': {
   'ligature_forming': [ord(x) for x in "'-`"],
   'why': "printable ASCII without a table entry: ' - ` start the latex2text ligatures '' -- --- `` (and !` ?`); with them excluded no "
          "string over the alphabet contains a ligature pair (! and ? only form one with `).  The ASCII characters \" (U+0022 -> '') and "
          "^ (U+005E -> \\textasciicircum, read back as U+02C6) have table entries and are in `entries`."},
 'entries': entries,
}
json.dump(doc, sys.stdout, ensure_ascii=True, indent=1)
sys.stdout.write('\n')
