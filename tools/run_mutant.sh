#!/bin/bash
# usage: tools/run_mutant.sh <diff file> <property> [seed...]   — applies a catalogue mutant to a scratch worktree of /repo
# (outside /repo and /verif), runs the property's quick check against it with VERIF_REPO, removes the worktree.
set -u
DIFF=$(readlink -f $1); PROP=$2; shift 2
SEEDS=${@:-0 1}
WT=$(mktemp -d /tmp/mutwt-XXXXXX); rmdir $WT
git -C /repo worktree add -q $WT HEAD || exit 2
( cd $WT && git apply $DIFF ) || { echo "diff does not apply"; git -C /repo worktree remove --force $WT; exit 2; }
cd "$(dirname "$0")/.."
for s in $SEEDS; do
  VERIF_REPO=$WT VERIF_SEED=$s ./check $PROP --no-build > /tmp/mutrun.$$.txt 2>&1; rc=$?
  echo "$(basename $DIFF) $PROP seed=$s exit=$rc $(grep -c '^VIOLATION' /tmp/mutrun.$$.txt) violation lines; $(tail -1 /tmp/mutrun.$$.txt)"
done
rm -f /tmp/mutrun.$$.txt
git -C /repo worktree remove --force $WT; git -C /repo worktree prune
