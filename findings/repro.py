# Reproductions of the genuine defects found on the pinned tree (DESIGN.md section 8).
# usage: /venv/bin/python repro.py F1 F2 ...   -> prints "Fn: DEFECT <what>" or "Fn: ok"; exit 1 if any defect
import sys, signal
sys.path.insert(0, '/repo')
class TO(Exception): pass
def _h(*a): raise TO()
signal.signal(signal.SIGALRM, _h)

def parse(s, tolerant, ctx=None):
    from pylatexenc import latexwalker
    from pylatexenc.latexnodes import parsers
    kw = {}
    if ctx is not None: kw['latex_context'] = ctx
    w = latexwalker.LatexWalker(s, tolerant_parsing=tolerant, **kw)
    return w, w.parse_content(parsers.LatexGeneralNodesParser())

def F1():
    w, (nl, _) = parse('a}b', True)
    assert nl is not None and len(nl) >= 1, 'tolerant parse of "a}b" returned %r' % (nl,)
def F2():
    signal.alarm(3)
    try:
        parse('a\\', True)
    finally:
        signal.alarm(0)
def F3():
    from pylatexenc.latexnodes import LatexTokenReader, ParsingState
    s = 'a\\begin x'
    r = LatexTokenReader(s, tolerant_parsing=True)
    ps = ParsingState(s=s)
    r.next_token(ps)
    p0 = r.cur_pos()
    r.peek_token(ps)
    assert r.cur_pos() == p0, 'peek_token moved the reader from %d to %d' % (p0, r.cur_pos())
def F4():
    from pylatexenc.latexwalker import LatexWalkerParseError
    try:
        parse('\\frac$', False)
    except LatexWalkerParseError:
        pass
def F5():
    from pylatexenc.latexwalker import LatexWalkerParseError
    for s in ['{', '$', '\\begin{itemize}']:
        try:
            parse(s, False)
        except LatexWalkerParseError as e:
            assert e.pos is not None and e.lineno is not None, 'error for %r has pos=%r lineno=%r' % (s, e.pos, e.lineno)
def F6():
    from pylatexenc.latexwalker import LatexWalkerParseError
    for s in ['\\verb', '\\verb ']:
        try:
            parse(s, False)
        except LatexWalkerParseError as e:
            assert e.pos is not None and e.pos <= len(s), (s, e.pos)

def mkctx(macros):
    from pylatexenc import macrospec
    db = macrospec.LatexContextDb()
    db.add_context_category('c', macros=[macrospec.MacroSpec(n, a) for n, a in macros], environments=[], specials=[])
    return db
def F13():
    db = mkctx([('vv', 'v')])
    s = '\\vv{a{b}c}d'
    from pylatexenc.latexwalker import LatexWalkerParseError
    r1 = parse(s, False, db)[1][0]
    r2 = parse(s, False, db)[1][0]
    a1 = r1[0].nodeargd.argnlist[0].pos_end; a2 = r2[0].nodeargd.argnlist[0].pos_end
    assert a1 == a2 == 10, 'first parse: argument ends at %r, second parse: %r' % (a1, a2)
def F16():
    db = mkctx([('vv', ['v()'])])
    from pylatexenc.latexwalker import LatexWalkerParseError
    try:
        parse('\\vv[x]', False, db)
    except LatexWalkerParseError:
        pass
def F20():
    w, (nl, _) = parse('a\\\\*', False)
    a = nl[1].nodeargd.argnlist
    assert a[0] is not None and nl[1].pos_end == 4, 'star consumed (macro ends at %r) but reported as %r' % (nl[1].pos_end, a[0])
def F21():
    db = mkctx([('emph', '{')])
    from pylatexenc.latexwalker import LatexWalkerParseError
    try:
        parse('\\emph\\unk', False, db)
    except LatexWalkerParseError:
        pass
def F25():
    db = mkctx([('m', '*')])
    w, (nl, _) = parse('\\m**', False, db)
    assert nl[0].pos_end == 3, 'macro with one optional star consumed up to %r' % nl[0].pos_end

ALL = dict((k, v) for k, v in list(globals().items()) if k[0] == 'F' and k[1:].isdigit())
if __name__ == '__main__':
    bad = 0
    for n in (sys.argv[1:] or sorted(ALL, key=lambda x: int(x[1:]))):
        try:
            ALL[n]()
            print('%s: ok' % n)
        except TO:
            print('%s: DEFECT does not terminate' % n); bad = 1
        except BaseException as e:
            print('%s: DEFECT %s: %s' % (n, type(e).__name__, str(e)[:300].replace('\n', ' | '))); bad = 1
    sys.exit(bad)
