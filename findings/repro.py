# Reproductions of the genuine defects found on the pinned tree (DESIGN.md section 8).
# usage: /venv/bin/python repro.py F1 F2 ...   -> prints "Fn: DEFECT <what>" or "Fn: ok"; exit 1 if any defect
import sys, signal
sys.path.insert(0, '/repo')
class TO(Exception): pass
def _h(*a): raise TO()
signal.signal(signal.SIGALRM, _h)

def parse(s, tolerant, ctx=None):
    from pylatexenc import latexwalker
    from pylatexenc.latexnodes import parsers
    kw = {}
    if ctx is not None: kw['latex_context'] = ctx
    w = latexwalker.LatexWalker(s, tolerant_parsing=tolerant, **kw)
    return w, w.parse_content(parsers.LatexGeneralNodesParser())

def F1():
    w, (nl, _) = parse('a}b', True)
    assert nl is not None and len(nl) >= 1, 'tolerant parse of "a}b" returned %r' % (nl,)
def F2():
    signal.alarm(3)
    try:
        parse('a\\', True)
    finally:
        signal.alarm(0)
def F3():
    from pylatexenc.latexnodes import LatexTokenReader, ParsingState
    s = 'a\\begin x'
    r = LatexTokenReader(s, tolerant_parsing=True)
    ps = ParsingState(s=s)
    r.next_token(ps)
    p0 = r.cur_pos()
    r.peek_token(ps)
    assert r.cur_pos() == p0, 'peek_token moved the reader from %d to %d' % (p0, r.cur_pos())
def F4():
    from pylatexenc.latexwalker import LatexWalkerParseError
    try:
        parse('\\frac$', False)
    except LatexWalkerParseError:
        pass
def F5():
    from pylatexenc.latexwalker import LatexWalkerParseError
    for s in ['{', '$', '\\begin{itemize}']:
        try:
            parse(s, False)
        except LatexWalkerParseError as e:
            assert e.pos is not None and e.lineno is not None, 'error for %r has pos=%r lineno=%r' % (s, e.pos, e.lineno)
def F6():
    from pylatexenc.latexwalker import LatexWalkerParseError
    for s in ['\\verb', '\\verb ']:
        try:
            parse(s, False)
        except LatexWalkerParseError as e:
            assert e.pos is not None and e.pos <= len(s), (s, e.pos)

ALL = dict((k, v) for k, v in list(globals().items()) if k[0] == 'F' and k[1:].isdigit())
if __name__ == '__main__':
    bad = 0
    for n in (sys.argv[1:] or sorted(ALL, key=lambda x: int(x[1:]))):
        try:
            ALL[n]()
            print('%s: ok' % n)
        except TO:
            print('%s: DEFECT does not terminate' % n); bad = 1
        except BaseException as e:
            print('%s: DEFECT %s: %s' % (n, type(e).__name__, str(e)[:300].replace('\n', ' | '))); bad = 1
    sys.exit(bad)
